import ScVerif.C18.MaxDenLemmas
import ScVerif.C18.PropsLaws
/-!
# C18 — property theorems, part 10: `Max*` commute with reading the list as a step function

Property (fixed text): "… operations (active-at, magnitude-at, duration, **max**, …) commute with reading a
segment list as a step function of time".  `C18_max` / `C18_maxAfter` (PropsSeg) describe the returned index
in terms of the SEGMENTS (first largest magnitude among those whose length is absent or positive).  Here the
same results are related to the FUNCTION `den`: `MaxMagnitude` is the maximum of the step function over its
support, `MaxAfter(d)` points at the maximum of the step function over the instants from `d` on, and
`modepb.MaxSegmentAfter(t)` at the maximum of the mode over the instants from `t` on.

The upper-bound halves need no hypothesis.  That the maximum is ATTAINED needs the list to be well formed
(lengths non-negative, only the last segment length-less — what `Duration`'s comment calls "the last segment is
the only one allowed to have a nil length", and what every operation returns, `C18_closed`): `Max` also counts
segments that lie behind a length-less one, which the step function never reaches
(`C18_max_unreachable_witness`).

Only property theorems and their non-vacuity examples live in this file.
-/
namespace ScVerif.C18

/-- `MaxMagnitude(segs)` bounds the step function wherever a segment is active — every list, every instant,
no hypothesis; and when no segment is ever active it is the documented `0` with `Max = len(segs)`. -/
theorem C18_max_bounds_step_function (segs : List Seg) :
    (∀ t, covered segs t = true → den segs t ≤ maxMagnitude segs) ∧
    ((∀ t, covered segs t = false) → NonNeg segs → FinInit segs →
      maxIdx segs = segs.length ∧ maxMagnitude segs = 0) := by
  refine ⟨fun t ht => ?_, fun hno hnn hf => ?_⟩
  · obtain ⟨s, hs, hc, hd⟩ := covered_counted segs t ht
    obtain ⟨_, s0, _, _, hmm, hall⟩ := (C18_max_counted 0 segs).1 ⟨s, hs, hc⟩
    rw [hd, hmm]
    exact hall s hs hc
  · cases hm : segs[maxIdx segs]? with
    | none => exact ⟨((C18_max segs).2 hm).1, ((C18_max segs).2 hm).2.1⟩
    | some s =>
      obtain ⟨hc, _, _, _⟩ := (C18_max segs).1 s hm
      obtain ⟨t, hcov, _⟩ := counted_attained segs hnn hf s (List.mem_of_getElem? hm) hc
      rw [hno t] at hcov; cases hcov

/-- On a well-formed list `MaxMagnitude` IS the maximum of the step function over its support: it is an upper
bound (previous theorem) and it is attained at an instant where the segment `Max` points at is active. -/
theorem C18_max_attained (segs : List Seg) (h : NonNeg segs) (hf : FinInit segs)
    (hex : ∃ t, covered segs t = true) :
    ∃ t s, covered segs t = true ∧ segs[maxIdx segs]? = some s ∧
      den segs t = s.mag ∧ s.mag = maxMagnitude segs := by
  obtain ⟨t0, ht0⟩ := hex
  obtain ⟨s0, hs0, hc0, _⟩ := covered_counted segs t0 ht0
  obtain ⟨_, s, hs, hc, hmm, _⟩ := (C18_max_counted 0 segs).1 ⟨s0, hs0, hc0⟩
  obtain ⟨t, hcov, hden⟩ := counted_attained segs h hf s (List.mem_of_getElem? hs) hc
  exact ⟨t, s, hcov, hs, hden, hmm.symm⟩

/-- Why well-formedness is needed: `Max` counts a segment behind a length-less one, which no instant
reaches — `[1 forever, 5 for 2ns]` has `MaxMagnitude = 5` while the step function is `1` everywhere. -/
theorem C18_max_unreachable_witness :
    maxMagnitude [⟨1, none⟩, ⟨5, some 2⟩] = 5 ∧ ¬ FinInit [⟨1, none⟩, ⟨5, some 2⟩] ∧
    ∀ t, 0 ≤ t → den [⟨1, none⟩, ⟨5, some 2⟩] t = 1 := by
  refine ⟨by decide, fun h => h.1 rfl, fun t ht => ?_⟩
  exact den_cons_none _ _ t rfl ht

/-- `MaxAfter(d, segs)` for `d ≥ 0` points at the maximum of the step function over the instants from `d` on:
if it returns an index in range, that segment's magnitude bounds `den segs t` for every `t ≥ d` where a
segment is active, and (well-formed list) it is attained at some `t ≥ d`; if it returns `len(segs)`, no
segment is active from `d` on. -/
theorem C18_maxAfter_step_function (d : Int) (segs : List Seg) (hd : 0 ≤ d) (h : NonNeg segs) :
    (∀ s, segs[maxAfter d segs]? = some s →
      (∀ t, d ≤ t → covered segs t = true → den segs t ≤ s.mag) ∧
      (FinInit segs → ∃ t, d ≤ t ∧ covered segs t = true ∧ den segs t = s.mag)) ∧
    (segs[maxAfter d segs]? = none → FinInit segs → ∀ t, d ≤ t → covered segs t = false) := by
  obtain ⟨he, hed, _, hcovd, hact, hpre⟩ := (C18_activeAt d segs).2 hd
  -- the list from the active segment on, and the translation to it
  have htr : ∀ t, d ≤ t →
      den segs t = den (segs.drop (activeAt d segs).2) (t - (activeAt d segs).1) ∧
      covered segs t = covered (segs.drop (activeAt d segs).2) (t - (activeAt d segs).1) := by
    intro t ht
    rw [he]
    exact den_covered_drop segs _ h hpre t (by rw [← he]; omega)
  have hidx : ∀ s, segs[maxAfter d segs]? = some s ↔
      (segs.drop (activeAt d segs).2)[maxIdx (segs.drop (activeAt d segs).2)]? = some s := by
    intro s
    unfold maxAfter
    simp only []
    rw [List.getElem?_drop, Nat.add_comm]
  have hnn := nonNeg_drop segs (activeAt d segs).2 h
  refine ⟨fun s hs => ⟨fun t ht hcov => ?_, fun hf => ?_⟩, fun hn hf t ht => ?_⟩
  · obtain ⟨h1, h2⟩ := htr t ht
    rw [h2] at hcov
    have hb := (C18_max_bounds_step_function (segs.drop (activeAt d segs).2)).1 _ hcov
    obtain ⟨_, hmm, _, _⟩ := (C18_max (segs.drop (activeAt d segs).2)).1 s ((hidx s).1 hs)
    rw [h1]; rw [hmm] at hb; exact hb
  · have hs' := (hidx s).1 hs
    obtain ⟨hc, hmm, _, _⟩ := (C18_max (segs.drop (activeAt d segs).2)).1 s hs'
    obtain ⟨u, hcu, hdu⟩ := counted_attained _ hnn (finInit_drop segs _ hf) s (List.mem_of_getElem? hs') hc
    have hu0 := covered_nonneg _ _ hcu
    by_cases hu : d - (activeAt d segs).1 ≤ u
    · refine ⟨u + (activeAt d segs).1, by omega, ?_, ?_⟩
      · rw [(htr _ (by omega)).2]
        have e : u + (activeAt d segs).1 - (activeAt d segs).1 = u := by omega
        rw [e]; exact hcu
      · rw [(htr _ (by omega)).1]
        have e : u + (activeAt d segs).1 - (activeAt d segs).1 = u := by omega
        rw [e]; exact hdu
    · -- `u` lies in the first segment of the dropped list, which is still active at `d`
      have hlt : u < d - (activeAt d segs).1 := by omega
      cases hdrop : segs.drop (activeAt d segs).2 with
      | nil => rw [hdrop] at hcu; simp [covered] at hcu
      | cons x r =>
        have hx : segs[(activeAt d segs).2]? = some x := by
          have := List.getElem?_drop (xs := segs) (i := (activeAt d segs).2) (j := 0)
          rw [hdrop] at this
          simpa using this.symm
        have hend := (hact x hx).2
        have hd' := den_covered_head x r (d - (activeAt d segs).1) (by omega) (fun l hl => by have := hend l hl; omega)
        have hu' := den_covered_head x r u hu0 (fun l hl => by have := hend l hl; omega)
        refine ⟨d, by omega, ?_, ?_⟩
        · rw [(htr d (by omega)).2, hdrop]; exact hd'.2
        · rw [(htr d (by omega)).1, hdrop, hd'.1]
          rw [hdrop, hu'.1] at hdu
          exact hdu
  · have hn' : (segs.drop (activeAt d segs).2)[maxIdx (segs.drop (activeAt d segs).2)]? = none := by
      cases hq : (segs.drop (activeAt d segs).2)[maxIdx (segs.drop (activeAt d segs).2)]? with
      | none => rfl
      | some s => rw [(hidx s).2 hq] at hn; cases hn
    have hall := ((C18_max (segs.drop (activeAt d segs).2)).2 hn').2.2
    rw [(htr t ht).2]
    cases hcv : covered (segs.drop (activeAt d segs).2) (t - (activeAt d segs).1) with
    | false => rfl
    | true =>
      obtain ⟨s, hs, hc, _⟩ := covered_counted _ _ hcv
      rw [hall s hs] at hc; cases hc

/-- For `d < 0` (`ActiveAt` answers index 0) `MaxAfter` is `Max` of the whole list, so the three theorems above
about `Max` apply: the maximum over the instants from `d` on is the maximum over the whole support. -/
theorem C18_maxAfter_before_start (d : Int) (segs : List Seg) (hd : d < 0) :
    maxAfter d segs = maxIdx segs ∧ ∀ t, covered segs t = true → d ≤ t := by
  refine ⟨?_, fun t ht => by have := covered_nonneg _ _ ht; omega⟩
  unfold maxAfter
  simp [(C18_activeAt d segs).1 hd]

/-- `modepb.MaxSegmentAfter(t, mode)` for a mode that has started (`start ≤ t`; a mode without start time is
taken to start at `t`): the segment it points at bounds the mode on every instant `x ≥ t` where a segment is
active, and on a well-formed mode its magnitude is the value of the mode at some instant `x ≥ t`. -/
theorem C18_modes_maxSegmentAfter_step_function (t : Int) (m : Mode) (hst : tOrST t m ≤ t) (h : NonNeg m.segs) :
    ∀ s, m.segs[modeMaxSegmentAfter t m]? = some s →
      (∀ x, t ≤ x → covered m.segs (x - tOrST t m) = true → modeDen t m x ≤ s.mag) ∧
      (FinInit m.segs → ∃ x, t ≤ x ∧ covered m.segs (x - tOrST t m) = true ∧ modeDen t m x = s.mag) := by
  intro s hs
  have hden : ∀ x, modeDen t m x = den m.segs (x - tOrST t m) := by
    intro x
    unfold modeDen tOrST
    cases m.start <;> rfl
  obtain ⟨hub, hatt⟩ := (C18_maxAfter_step_function (t - tOrST t m) m.segs (by omega) h).1 s hs
  refine ⟨fun x hx hcov => ?_, fun hf => ?_⟩
  · rw [hden]; exact hub _ (by omega) hcov
  · obtain ⟨u, hu, hcu, hdu⟩ := hatt hf
    refine ⟨u + tOrST t m, by omega, ?_, ?_⟩
    · have e : u + tOrST t m - tOrST t m = u := by omega
      rw [e]; exact hcu
    · rw [hden]
      have e : u + tOrST t m - tOrST t m = u := by omega
      rw [e]; exact hdu

/-! Non-vacuity: well-formed lists with zero-length, negative and length-less segments; the maximum is taken
behind a zero-length segment / from the active segment on. -/
example : NonNeg [⟨9, some 0⟩, ⟨-2, some 2⟩, ⟨-1, none⟩] ∧ FinInit [⟨9, some 0⟩, ⟨-2, some 2⟩, ⟨-1, none⟩] :=
  ⟨nonNeg_of_all _ (by decide), ⟨by simp, by simp, trivial⟩⟩
example : maxMagnitude [⟨9, some 0⟩, ⟨-2, some 2⟩, ⟨-1, none⟩] = -1 ∧
    den [⟨9, some 0⟩, ⟨-2, some 2⟩, ⟨-1, none⟩] 2 = -1 ∧ covered [⟨9, some 0⟩, ⟨-2, some 2⟩, ⟨-1, none⟩] 2 = true := by
  decide
example : maxAfter 4 [⟨7, some 3⟩, ⟨2, some 2⟩, ⟨3, some 1⟩] = 2 ∧ den [⟨7, some 3⟩, ⟨2, some 2⟩, ⟨3, some 1⟩] 5 = 3 := by
  decide
example : maxAfter 6 [⟨7, some 3⟩, ⟨2, some 2⟩, ⟨3, some 1⟩] = 3 ∧ covered [⟨7, some 3⟩, ⟨2, some 2⟩, ⟨3, some 1⟩] 6 = false := by
  decide
example : modeMaxSegmentAfter 9 ⟨some 5, [⟨7, some 3⟩, ⟨2, some 2⟩, ⟨3, some 1⟩]⟩ = 2 ∧ tOrST 9 ⟨some 5, [⟨7, some 3⟩]⟩ ≤ 9 := by
  decide

end ScVerif.C18
