import ScVerif.C18.Seg
/-!
# C18 — the `shape` oneof of a segment, where the code looks at it: `segmentpb.Cut`

`ElectricMode.Segment.shape` ("the shape of the segment, useful as a more accurate data representation;
if none set assume fixed = magnitude") has one member, `Fixed{fixed float32}`.  `ActiveAt`, `MagnitudeAt`,
`Duration`, `Max*`, `SumMagnitude` never read it; `Shift` and `modepb.Cut`/`Shift` carry it along through
`proto.Clone` or by sharing the segment; `Sum` builds fresh segments without a shape (by its own comment);
`Cut` is the one function with shape logic: it copies a `Fixed` shape to every part it builds — the two parts
of the two-sided split and (after `fix:` c1d3a57) the `before` part cut off the start of a length-less segment;
before that commit the early return for a length-less segment built `before` from magnitude and length only
(`cutSegSLegacy`, `PropsShape.C18_cut_shape_legacy_fails`).

`cutSegS` follows cut.go on segments WITH their shape; `PropsShape` proves that erasing the shape gives
`cutSeg` (so no magnitude, length or flag depends on it) and that every part carries the segment's shape.
A `Fixed` value is an integer on the same grid as magnitudes.
-/
namespace ScVerif.C18

/-- A segment with its `shape` oneof: `none` = not set, `some f` = `Fixed{f}`. -/
structure SegS where
  seg : Seg
  shape : Option Int
deriving Repr, DecidableEq

structure CutResultS where
  before : Option SegS
  after : Option SegS
  outside : Bool
deriving Repr, DecidableEq

/-- `Cut(d, segment)` as in cut.go, shape handling included. -/
def cutSegS (d : Int) (s : SegS) : CutResultS :=
  if d ≤ 0 then ⟨none, some s, decide (d < 0)⟩
  else
    match s.seg.len with
    | none => ⟨some ⟨⟨s.seg.mag, some d⟩, s.shape⟩, some s, false⟩
    | some l =>
      if l ≤ d then ⟨some s, none, true⟩
      else
        ⟨some ⟨⟨s.seg.mag, some d⟩, s.shape⟩, some ⟨⟨s.seg.mag, some (l - d)⟩, s.shape⟩, false⟩

/-- `Cut` as it was before `fix:` c1d3a57: the `before` part of a length-less segment has no shape. -/
def cutSegSLegacy (d : Int) (s : SegS) : CutResultS :=
  if d ≤ 0 then ⟨none, some s, decide (d < 0)⟩
  else
    match s.seg.len with
    | none => ⟨some ⟨⟨s.seg.mag, some d⟩, none⟩, some s, false⟩
    | some l =>
      if l ≤ d then ⟨some s, none, true⟩
      else
        ⟨some ⟨⟨s.seg.mag, some d⟩, s.shape⟩, some ⟨⟨s.seg.mag, some (l - d)⟩, s.shape⟩, false⟩

/-- The consumption a segment stands for: its `Fixed` shape if set, else its magnitude. -/
def SegS.fixed (s : SegS) : Int := s.shape.getD s.seg.mag

end ScVerif.C18
