import ScVerif.C18.SampleLemmas
import ScVerif.C18.PropsSeg
/-!
# C18 — property theorems, part 12: finitely many samples decide equality of step functions

The property is a statement about FUNCTIONS of time ("sum is pointwise addition, shift is translation, cut
splits without changing the function"); the monitor of the check can only read the real results at finitely many
instants (through the real `MagnitudeAt`).  These theorems close that gap: a segment list read as a step function
changes its value only at its breakpoints (the offsets at which its reachable segments start, and its end), so
agreement at one starting instant and at the breakpoints of the functions compared IS agreement at every
instant from there on — for all lists with non-negative lengths, of any size, with lengths of any magnitude.
That is what lets the monitor judge lists whose lengths are seconds or hours (it cannot walk every nanosecond)
without losing anything: it samples the instants around every breakpoint of the arguments and of the result.

Only property theorems and their non-vacuity examples live in this file.
-/
namespace ScVerif.C18

/-- The general statement: two functions of time that change only at points of `pts` and agree at `lo` and at
every point of `pts` agree at EVERY instant from `lo` on. -/
theorem C18_sampling_complete (pts : List Int) (f g : Int → Int) (hf : StepOn pts f) (hg : StepOn pts g)
    (lo : Int) (h : ∀ p ∈ lo :: pts, f p = g p) : ∀ t, lo ≤ t → f t = g t :=
  agree_of_samples pts f g hf hg lo h

/-- Two segment lists: if their step functions agree at 0 and at every breakpoint of either, they are the same
function (at every instant, negative ones included). -/
theorem C18_sampling_lists (a b : List Seg) (ha : NonNeg a) (hb : NonNeg b)
    (h : ∀ p ∈ bps 0 a ++ bps 0 b, den a p = den b p) : ∀ t, den a t = den b t := by
  intro t
  by_cases ht : t < 0
  · rw [den_neg a t ht, den_neg b t ht]
  · have hfa : StepOn (bps 0 a ++ bps 0 b) (den a) :=
      stepOn_mono (stepOn_den a ha) (fun x hx => List.mem_append.mpr (Or.inl hx))
    have hfb : StepOn (bps 0 a ++ bps 0 b) (den b) :=
      stepOn_mono (stepOn_den b hb) (fun x hx => List.mem_append.mpr (Or.inr hx))
    refine agree_of_samples _ _ _ hfa hfb 0 ?_ t (by omega)
    intro p hp
    rcases List.mem_cons.mp hp with hp | hp
    · subst hp
      exact h 0 (List.mem_append.mpr (Or.inl (bps_head_mem 0 a)))
    · exact h p hp

/-- `Sum` judged by samples: a list `r` (the real result) whose step function equals the pointwise sum of the
arguments' step functions at the breakpoints of the arguments and of `r` itself IS the pointwise sum at every
instant — the monitor's clause `not-pointwise` is complete. -/
theorem C18_sampling_sum (ls : List (List Seg)) (r : List Seg) (hls : AllNonNeg ls) (hr : NonNeg r)
    (h : ∀ p ∈ bps 0 r ++ allBps ls, den r p = denSum ls p) : ∀ t, den r t = denSum ls t := by
  intro t
  by_cases ht : t < 0
  · rw [den_neg r t ht, denSum_neg ls t ht]
  · have hfr : StepOn (bps 0 r ++ allBps ls) (den r) :=
      stepOn_mono (stepOn_den r hr) (fun x hx => List.mem_append.mpr (Or.inl hx))
    have hfs : StepOn (bps 0 r ++ allBps ls) (denSum ls) :=
      stepOn_mono (stepOn_denSum ls hls) (fun x hx => List.mem_append.mpr (Or.inr hx))
    refine agree_of_samples _ _ _ hfr hfs 0 ?_ t (by omega)
    intro p hp
    rcases List.mem_cons.mp hp with hp | hp
    · subst hp
      exact h 0 (List.mem_append.mpr (Or.inl (bps_head_mem 0 r)))
    · exact h p hp

/-- `Shift` (and the mode operations, which translate by the start time) judged by samples: a list `r` whose step
function equals the argument's translated by `d` at a starting instant `lo`, at the breakpoints of `r` and at the
translated breakpoints of the argument is that translation at every instant from `lo` on — for either sign of
`d` (the monitor starts at `lo = 0` for a left shift, where the part moved before the start is cut off, and
before the first breakpoint otherwise). -/
theorem C18_sampling_shift (d lo : Int) (l r : List Seg) (hl : NonNeg l) (hr : NonNeg r)
    (h : ∀ p ∈ lo :: (bps 0 r ++ (bps 0 l).map (· + d)), den r p = den l (p - d)) :
    ∀ t, lo ≤ t → den r t = den l (t - d) := by
  have hfr : StepOn (bps 0 r ++ (bps 0 l).map (· + d)) (den r) :=
    stepOn_mono (stepOn_den r hr) (fun x hx => List.mem_append.mpr (Or.inl hx))
  have hfl : StepOn (bps 0 r ++ (bps 0 l).map (· + d)) (fun t => den l (t - d)) :=
    stepOn_mono (stepOn_translate d (stepOn_den l hl)) (fun x hx => List.mem_append.mpr (Or.inr hx))
  exact agree_of_samples _ _ _ hfr hfl lo h

/-- Every breakpoint is needed: `{1 for 2ns, 2 for 2ns}` and `{1 for 3ns, 2 for 1ns}` agree at 0 and at every
breakpoint of the second list (0, 3, 4) and at the end of the first, but differ at the first list's breakpoint 2. -/
theorem C18_sampling_breakpoint_needed :
    bps 0 [⟨1, some 2⟩, ⟨2, some 2⟩] = [0, 2, 4] ∧ bps 0 [⟨1, some 3⟩, ⟨2, some 1⟩] = [0, 3, 4] ∧
    (∀ p ∈ [0, 3, 4], den [⟨1, some 2⟩, ⟨2, some 2⟩] p = den [⟨1, some 3⟩, ⟨2, some 1⟩] p) ∧
    den [⟨1, some 2⟩, ⟨2, some 2⟩] 2 ≠ den [⟨1, some 3⟩, ⟨2, some 1⟩] 2 := by
  refine ⟨by decide, by decide, ?_, by decide⟩
  intro p hp
  simp only [List.mem_cons, List.not_mem_nil, or_false] at hp
  rcases hp with hp | hp | hp <;> subst hp <;> decide

/-! Non-vacuity: the hypotheses are met by a real result — `Sum` itself, sampled at its own breakpoints and its
arguments', on whole-second lengths. -/
example : ∀ p ∈ bps 0 (sum [[⟨2, some 2000000000⟩, ⟨-3, none⟩], [⟨1, some 4000000000⟩]]) ++
      allBps [[⟨2, some 2000000000⟩, ⟨-3, none⟩], [⟨1, some 4000000000⟩]],
    den (sum [[⟨2, some 2000000000⟩, ⟨-3, none⟩], [⟨1, some 4000000000⟩]]) p =
      denSum [[⟨2, some 2000000000⟩, ⟨-3, none⟩], [⟨1, some 4000000000⟩]] p := by
  intro p hp
  have : p ∈ [0, 2000000000, 4000000000, 0, 2000000000, 0, 4000000000] := by
    have e : bps 0 (sum [[⟨2, some 2000000000⟩, ⟨-3, none⟩], [⟨1, some 4000000000⟩]]) ++
      allBps [[⟨2, some 2000000000⟩, ⟨-3, none⟩], [⟨1, some 4000000000⟩]] =
        [0, 2000000000, 4000000000, 0, 2000000000, 0, 4000000000] := by decide
    rw [e] at hp; exact hp
  simp only [List.mem_cons, List.not_mem_nil, or_false] at this
  rcases this with h | h | h | h | h | h | h <;> subst h <;> decide
example : bps 0 [⟨1, some 2⟩, ⟨5, none⟩, ⟨7, some 1⟩] = [0, 2] := by decide
example : StepOn (bps 0 [⟨1, some 2⟩, ⟨5, none⟩]) (den [⟨1, some 2⟩, ⟨5, none⟩]) :=
  stepOn_den [⟨1, some 2⟩, ⟨5, none⟩] (nonNeg_of_all _ (by decide))

end ScVerif.C18
