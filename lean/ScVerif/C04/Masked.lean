import ScVerif.C04.Lemmas
/-!
# C04 — a subscriber with a read mask: its stream is an edit script of the MASKED view

`Collection.Pull` applies the read mask to both values of every change (`CollectionChange.filter`:
`FilterClone(NewValue)` and `FilterClone(OldValue)`), and to the body of every seed event.  So what a
subscriber with a read mask is told is consistent in itself: the old value of every event — the REMOVE
of a `Delete` included, whose new value is nil — is the (masked) new value it was last given for that
id.  Lemmas; the theorem is in `PropsMasked.lean`.
-/
namespace ScVerif.C04
open ScVerif.C01
variable {M K R : Type}

/-- the view a subscriber with read mask `mask` can have of the contents `v` -/
def mview (ops : MsgOps M K) (mask : Option K) (v : String → Option M) : String → Option M :=
  fun k => filterOpt ops mask (v k)

/-- `CollectionChange.filter` -/
def maskEv (ops : MsgOps M K) (mask : Option K) (e : CEvent M) : CEvent M :=
  { e with old := filterOpt ops mask e.old, new := filterOpt ops mask e.new }

theorem kindOf_map (f : M → M) (a b : Option M) : kindOf (a.map f) (b.map f) = kindOf a b := by
  cases a <;> cases b <;> rfl

/-- masking an edit of the contents gives an edit of the masked view -/
theorem isEdit_mask (ops : MsgOps M K) (mask : Option K) {v v1 : String → Option M} {e : CEvent M}
    (h : IsEdit v v1 e) : IsEdit (mview ops mask v) (mview ops mask v1) (maskEv ops mask e) := by
  refine ⟨?_, ?_, ?_, ?_, ?_, h.not_seed⟩
  · simp only [maskEv, mview, h.old_eq]
  · simp only [maskEv, mview, h.new_eq]
  · intro k hk
    simp only [mview]
    rw [h.frame k hk]
  · simp only [maskEv, mview, filterOpt, Option.isSome_map]
    exact h.changed
  · simp only [maskEv, mview, filterOpt, kindOf_map]
    exact h.kind_eq

theorem replay_mask (ops : MsgOps M K) (mask : Option K) {v v' : String → Option M} {es : List (CEvent M)}
    (h : Replay v es v') : Replay (mview ops mask v) (es.map (maskEv ops mask)) (mview ops mask v') := by
  induction h with
  | nil v => exact Replay.nil _
  | cons he _ ih => exact Replay.cons (isEdit_mask ops mask he) ih

theorem forward_none_eq_map (cfg : Cfg M K R) (o : SubOpts K) (es : List (CEvent M)) :
    es.filterMap (collForward cfg none o) = es.map (maskEv cfg.ops o.readMask) := by
  induction es with
  | nil => rfl
  | cons e es ih => simp only [List.filterMap_cons, collForward, List.map_cons, ih, maskEv]

/-- with an equivalence a subscriber is sent a sublist of what it is sent without one -/
theorem forward_sublist (cfg : Cfg M K R) (eqv : Eqv M) (o : SubOpts K) (es : List (CEvent M)) :
    (es.filterMap (collForward cfg eqv o)).Sublist (es.filterMap (collForward cfg none o)) := by
  induction es with
  | nil => exact List.Sublist.slnil
  | cons e es ih =>
    cases eqv with
    | none => exact List.Sublist.refl _
    | some f =>
      have h1 : collForward cfg none o e = some (maskEv cfg.ops o.readMask e) := rfl
      have h2 : collForward cfg (some f) o e = none ∨
          collForward cfg (some f) o e = some (maskEv cfg.ops o.readMask e) := by
        unfold collForward
        simp only []
        split
        · exact Or.inl rfl
        · exact Or.inr rfl
      rw [List.filterMap_cons, List.filterMap_cons, h1]
      rcases h2 with h2 | h2 <;> rw [h2]
      · exact List.Sublist.cons _ ih
      · exact List.Sublist.cons_cons _ ih

/-- folding events that all agree with a view `f` onto any view: `f` on the ids named, untouched
elsewhere -/
theorem fold_applyEv_agree (f : String → Option M) (es : List (CEvent M)) (hes : ∀ e ∈ es, e.new = f e.id) :
    ∀ (v : String → Option M) (k : String),
      es.foldl applyEv v k = if k ∈ es.map (·.id) then f k else v k := by
  induction es with
  | nil => intro v k; simp
  | cons e es ih =>
    intro v k
    simp only [List.foldl_cons, List.map_cons, List.mem_cons]
    rw [ih (fun e' he' => hes e' (List.mem_cons_of_mem _ he'))]
    by_cases hk : k ∈ es.map (·.id)
    · simp [hk]
    · simp only [hk, ↓reduceIte, or_false, applyEv]
      by_cases hke : k = e.id
      · subst hke; simp [hes e List.mem_cons_self]
      · simp [hke]

end ScVerif.C04
