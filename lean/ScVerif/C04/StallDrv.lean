import ScVerif.C04.Drv
import ScVerif.C04.StallSession
/-!
# C04 — the driver's `tryV` is the session model's `tryH`

The driver (`Drv.lean`) keeps a subscription as a `Sub` (no history: what a consumer receives of one
write is printed and forgotten, `out`); the theorems of `PropsStall.lean` are about `HSt` (with the
whole stream and ghost fields).  Both go through the same `sendDl`; this file shows that their
per-listener steps agree, so the answers the harness compares with the real code are those of the
model the theorems are about.
-/
namespace ScVerif.C04
open ScVerif.C01

theorem foldl_forward (cfg : FCfg) (eqv : Eqv Msg) (o : SubOpts Mask) (evs : List (VEvent Msg)) :
    ∀ (acc : List (VDeliv Msg)) (last : Option Msg),
      evs.foldl (fwdStep cfg eqv o) (acc, last) =
      (acc ++ forwardAll cfg eqv o last evs, forwardLast cfg eqv o last evs) := by
  induction evs with
  | nil => intro acc last; simp [forwardAll, forwardLast]
  | cons e es ih =>
    intro acc last
    simp only [List.foldl_cons, forwardAll, forwardLast, fwdStep]
    rcases hv : valForward cfg eqv o last e with ⟨d, l⟩
    cases d with
    | none => simp only [ih]
    | some d => simp only [ih, List.append_assoc, List.singleton_append]

/-- the driver's step and the model's step agree on whether the listener takes the event and on
everything the driver keeps; what the driver prints (`out`) is what the model's consumer receives -/
theorem tryV_refines_tryH (cfg : FCfg) (eqv : Eqv Msg) (evs : List (VEvent Msg)) (sb : Sub) (h : HSt Msg Mask)
    (ho : h.opts = sb.opts) (hl : h.last = sb.last) (hh : h.held = sb.held) (hd : h.hand = sb.hand) :
    match tryV cfg eqv evs sb, tryH cfg eqv evs h with
    | none, none => True
    | some sb', some h' => h'.opts = sb'.opts ∧ h'.last = sb'.last ∧ h'.held = sb'.held ∧ h'.hand = sb'.hand ∧
        h'.got = h.got ++ sb'.out ∧ h'.seen = h.seen ++ evs
    | _, _ => False := by
  unfold tryV tryH
  simp only [foldl_forward, List.nil_append, ho, hl, hh, hd]
  cases sb.held <;> cases hE : sb.hand.isEmpty <;> simp
