/-!
# C04 at trait level — `wastepb.Model`: a record history next to a `resource.Value`

`pkg/trait/wastepb/model.go` keeps the waste records twice: `allWasteRecords` (the history, under `m.mu`)
and `lastWasteRecord` (a `resource.Value` holding the newest record).  `AddWasteRecord` is TWO steps that
no common lock covers: `lastWasteRecord.Set(wr)` (commit + publication on the value's bus), then the
append to the history.  `pullWasteRecordsWrapper` (the handler of `PullWasteRecords`) sends, unless
updates-only, the records `len-50 … len-2` of the history (projected by the read mask) - the last one is
left out because the seed of the `Value.Pull` opened next is expected to be that record - and then the
`Value.Pull` stream: the seed (the stored value) and every later `Set`.

`R` is the record type, `proj` the read-mask projection (`FilterClone`).
-/
namespace ScVerif.C04

variable {R : Type}

structure Waste (R : Type) where
  /-- `allWasteRecords` -/
  hist : List R
  /-- the value of `lastWasteRecord` -/
  val : R

/-- first half of `AddWasteRecord`: `lastWasteRecord.Set(wr)` -/
def Waste.set (m : Waste R) (r : R) : Waste R := { m with val := r }
/-- second half: `allWasteRecords = append(allWasteRecords, wr)` -/
def Waste.append (m : Waste R) (r : R) : Waste R := { m with hist := m.hist ++ [r] }
/-- a complete `AddWasteRecord` -/
def Waste.add (m : Waste R) (r : R) : Waste R := (m.set r).append r

/-- the historical records the handler sends: `i := len-50; if i < 0 { i = 0 }; for ; i < len-1; i++` -/
def wasteWindow (h : List R) : List R := (h.drop (h.length - 50)).dropLast

/-- what a `PullWasteRecords` stream opened in state `m` sends when the value's bus hands its listener the
records `later` afterwards (one writer, nothing dropped) -/
def wasteStream (proj : R → R) (uo : Bool) (m : Waste R) (later : List R) : List R :=
  (if uo then [] else (wasteWindow m.hist).map proj ++ [proj m.val]) ++ later.map proj

/-- no `AddWasteRecord` is between its two steps: the value holds the newest record of the history -/
def Waste.Quiet (m : Waste R) : Prop := m.hist.getLast? = some m.val

theorem Waste.add_quiet (m : Waste R) (r : R) : (m.add r).Quiet := by
  simp [Waste.Quiet, Waste.add, Waste.set, Waste.append]

theorem Waste.foldl_add_hist (rs : List R) (m : Waste R) : (rs.foldl Waste.add m).hist = m.hist ++ rs := by
  induction rs generalizing m with
  | nil => simp
  | cons r rs ih => simp [ih, Waste.add, Waste.set, Waste.append]

theorem Waste.foldl_add_quiet (rs : List R) (m : Waste R) (h : m.Quiet ∨ rs ≠ []) :
    (rs.foldl Waste.add m).Quiet := by
  induction rs generalizing m with
  | nil => cases h with
    | inl h => exact h
    | inr h => exact absurd rfl h
  | cons r rs ih => exact ih (m.add r) (Or.inl (m.add_quiet r))

theorem dropLast_append_of_getLast? {α : Type} (l : List α) (a : α) (h : l.getLast? = some a) :
    l.dropLast ++ [a] = l := by
  have hne : l ≠ [] := by intro h0; rw [h0] at h; cases h
  have := List.getLast?_eq_some_getLast hne
  rw [this] at h
  injection h with h
  rw [← h]; exact List.dropLast_concat_getLast hne

/-- in a quiet state the window and the seed are the last 50 records -/
theorem wasteWindow_quiet (m : Waste R) (hq : m.Quiet) :
    wasteWindow m.hist ++ [m.val] = m.hist.drop (m.hist.length - 50) := by
  unfold Waste.Quiet at hq
  unfold wasteWindow
  apply dropLast_append_of_getLast?
  rw [List.getLast?_drop]
  have hne : m.hist ≠ [] := by
    intro h0; rw [h0] at hq; cases hq
  have : 0 < m.hist.length := List.length_pos_iff.mpr hne
  have hlt : ¬ m.hist.length ≤ m.hist.length - 50 := by omega
  simp [hlt, hq]

/-- window of a history with one more record: the last 49 of the rest -/
theorem wasteWindow_concat (h : List R) (b : R) :
    wasteWindow (h ++ [b]) = h.drop (h.length + 1 - 50) := by
  unfold wasteWindow
  have hle : (h ++ [b]).length - 50 ≤ h.length := by simp only [List.length_append, List.length_singleton]; omega
  rw [List.drop_append_of_le_length hle]
  simp

/-! ## sessions of one writer: `AddWasteRecord` as its two steps, streams opening in between -/

/-- the steps of the (one) writer -/
inductive WOp (R : Type) where
  /-- `lastWasteRecord.Set(r)` of a new `AddWasteRecord(r)` -/
  | set (r : R)
  /-- the append of the `AddWasteRecord` whose `Set` is done -/
  | append

structure WSess (R : Type) where
  m : Waste R
  /-- the record whose `Set` is done and whose append is not -/
  pending : Option R

/-- one writer: a new `AddWasteRecord` starts only when the previous one has returned -/
def WSess.step (s : WSess R) : WOp R → WSess R
  | .set r => match s.pending with
    | none => ⟨s.m.set r, some r⟩
    | some _ => s
  | .append => match s.pending with
    | some r => ⟨s.m.append r, none⟩
    | none => s

/-- the records whose `AddWasteRecord` has at least committed its `Set` (what `Get`, a new seed and - once
the add returns - `ListWasteRecords` show) -/
def WSess.committed (s : WSess R) : List R := s.m.hist ++ s.pending.toList

/-- shape of every state a session reaches from a quiet one -/
def WSess.Shape (s : WSess R) : Prop :=
  (s.pending = none ∧ s.m.Quiet) ∨ (∃ h b c, s.pending = some c ∧ s.m = ⟨h ++ [b], c⟩)

theorem WSess.step_shape (s : WSess R) (o : WOp R) (hs : s.Shape) : (s.step o).Shape := by
  cases o with
  | set r =>
    rcases hs with ⟨hp, hq⟩ | ⟨h, b, c, hp, hm⟩
    · right
      have hne : s.m.hist ≠ [] := by
        intro h0; unfold Waste.Quiet at hq; rw [h0] at hq; cases hq
      refine ⟨s.m.hist.dropLast, s.m.hist.getLast hne, r, by simp [WSess.step, hp], ?_⟩
      simp [WSess.step, hp, Waste.set, List.dropLast_concat_getLast hne]
    · right; exact ⟨h, b, c, by simp [WSess.step, hp], by simp [WSess.step, hp, hm]⟩
  | append =>
    rcases hs with ⟨hp, hq⟩ | ⟨h, b, c, hp, hm⟩
    · left; simp [WSess.step, hp, hq]
    · left; simp [WSess.step, hp, hm, Waste.append, Waste.Quiet]

theorem WSess.foldl_shape (ops : List (WOp R)) (s : WSess R) (hs : s.Shape) : (ops.foldl WSess.step s).Shape := by
  induction ops generalizing s with
  | nil => exact hs
  | cons o ops ih => exact ih _ (s.step_shape o hs)

end ScVerif.C04
