import ScVerif.C04.PropsSplit
import ScVerif.C04.SplitColl
/-!
# C04 — `Collection.Pull` subscribers that register between the commit and the publication of a write

`C04_commit_publish_session_streams` instantiated for a collection's bus (`collFeed`: `Pull` and `PullID`
subscribers on it), the stream of the `Pull` subscribers spelled out (`collSeed`, `collForward`).
-/
namespace ScVerif.C04
open ScVerif.C01

variable {M K R : Type}

/-- every `Collection.Pull` subscriber live after any session - Add / Update / Delete calls of one writer;
`Pull`s and `PullID`s opening and being cancelled between the calls, during a `Send`, and between the
commit of a write and its publication (`coll.update.beforeSend`) - has been sent: if it registered between
two calls, exactly `collStream`; if it registered between the commit and the publication of call `k`, the
seed of the contents that write left (sorted, flagged, already showing the write), then the forwarding
(read mask on both values, equivalence on the change's own pair) of the events of that very write
followed by those of every later call - each once, in order, none missed. -/
theorem C04_coll_commit_publish_streams (cfg : Cfg M K R) (eqv : Eqv M) (s0 : CState M R)
    (ops : List (COp M K)) (items : List (GItem (SplitOp (COp M K)) (COpen K)))
    (hcalls : gCallsOf items = splitOps ops) (hfresh : (gListenIds items).Nodup) :
    ∀ p ∈ view (gRunSession (splitFeed (collFeed cfg eqv)) { s := (s0, []), ls := [], nw := 0 } items).ls,
      ∀ o, p.2.o = .pull o →
      (∃ k, p.2.regAt = 2 * k ∧ k ≤ ops.length ∧
        p.2.st = .pull o (collStream cfg eqv o (Coll.run cfg s0 (ops.take k)).2 (ops.drop k))) ∨
      (∃ k op, p.2.regAt = 2 * k + 1 ∧ ops[k]? = some op ∧
        p.2.st = .pull o
          (collSeed cfg (Coll.step cfg (Coll.run cfg s0 (ops.take k)).2 op).2 o ++
            (eventsOf (Coll.step cfg (Coll.run cfg s0 (ops.take k)).2 op).1 ++
              busEvents cfg (Coll.step cfg (Coll.run cfg s0 (ops.take k)).2 op).2 (ops.drop (k + 1))).filterMap
              (collForward cfg eqv o))) := by
  obtain ⟨h1, _⟩ := C04_commit_publish_session_streams (collFeed cfg eqv) s0 ops items hcalls hfresh
  intro p hp o ho
  rcases h1 p hp with ⟨k, hk, hle, hst⟩ | ⟨k, op, hk, hop, hst⟩
  · left
    refine ⟨k, hk, hle, ?_⟩
    rw [hst, (collFeed_run cfg eqv (ops.take k) s0).2, ho]
    exact (collFeed_stream cfg eqv _ _).1 o
  · right
    refine ⟨k, op, hk, hop, ?_⟩
    rw [hst, (collFeed_run cfg eqv (ops.take k) s0).2, ho]
    have hrun : (gRun (collFeed cfg eqv) ((collFeed cfg eqv).step (Coll.run cfg s0 (ops.take k)).2 op).2
          (ops.drop (k + 1))).1.flatten
        = busEvents cfg (Coll.step cfg (Coll.run cfg s0 (ops.take k)).2 op).2 (ops.drop (k + 1)) :=
      (collFeed_run cfg eqv (ops.drop (k + 1)) (Coll.step cfg (Coll.run cfg s0 (ops.take k)).2 op).2).1
    show List.foldl _ (CSubSt.pull o (collSeed cfg _ o ++ (eventsOf _).filterMap (collForward cfg eqv o))) _ = _
    rw [collFeed_fold_pull, hrun, List.filterMap_append, List.append_assoc]
    rfl

/-- the same for the `PullID` subscribers of that bus: one that registered between the commit and the
publication of call `k` has forwarded what the loop of `PullID` (other ids skipped, values of ADD / UPDATE,
ended by exactly the first REMOVE) makes of THAT stream: the seed of the contents the write left, then the
forwarded events of that write and of every later call. -/
theorem C04_pullid_commit_publish_streams (cfg : Cfg M K R) (eqv : Eqv M) (s0 : CState M R)
    (ops : List (COp M K)) (items : List (GItem (SplitOp (COp M K)) (COpen K)))
    (hcalls : gCallsOf items = splitOps ops) (hfresh : (gListenIds items).Nodup) :
    ∀ p ∈ view (gRunSession (splitFeed (collFeed cfg eqv)) { s := (s0, []), ls := [], nw := 0 } items).ls,
      ∀ o id, p.2.o = .pullID o id →
      (∃ k, p.2.regAt = 2 * k ∧ k ≤ ops.length ∧
        p.2.st = .pullID o (icptId cfg id)
          (pullIDStream cfg eqv o (Coll.run cfg s0 (ops.take k)).2 id (ops.drop k)).1
          (pullIDStream cfg eqv o (Coll.run cfg s0 (ops.take k)).2 id (ops.drop k)).2) ∨
      (∃ k op, p.2.regAt = 2 * k + 1 ∧ ops[k]? = some op ∧
        p.2.st = .pullID o (icptId cfg id)
          (pullIDLoop (icptId cfg id)
            (collSeed cfg (Coll.step cfg (Coll.run cfg s0 (ops.take k)).2 op).2 o ++
              (eventsOf (Coll.step cfg (Coll.run cfg s0 (ops.take k)).2 op).1 ++
                busEvents cfg (Coll.step cfg (Coll.run cfg s0 (ops.take k)).2 op).2 (ops.drop (k + 1))).filterMap
                (collForward cfg eqv o))).1
          (pullIDLoop (icptId cfg id)
            (collSeed cfg (Coll.step cfg (Coll.run cfg s0 (ops.take k)).2 op).2 o ++
              (eventsOf (Coll.step cfg (Coll.run cfg s0 (ops.take k)).2 op).1 ++
                busEvents cfg (Coll.step cfg (Coll.run cfg s0 (ops.take k)).2 op).2 (ops.drop (k + 1))).filterMap
                (collForward cfg eqv o))).2) := by
  obtain ⟨h1, _⟩ := C04_commit_publish_session_streams (collFeed cfg eqv) s0 ops items hcalls hfresh
  intro p hp o id ho
  rcases h1 p hp with ⟨k, hk, hle, hst⟩ | ⟨k, op, hk, hop, hst⟩
  · left
    refine ⟨k, hk, hle, ?_⟩
    rw [hst, (collFeed_run cfg eqv (ops.take k) s0).2, ho]
    exact (collFeed_stream cfg eqv _ _).2 o id
  · right
    refine ⟨k, op, hk, hop, ?_⟩
    rw [hst, (collFeed_run cfg eqv (ops.take k) s0).2, ho]
    have hrun : (gRun (collFeed cfg eqv) ((collFeed cfg eqv).step (Coll.run cfg s0 (ops.take k)).2 op).2
          (ops.drop (k + 1))).1.flatten
        = busEvents cfg (Coll.step cfg (Coll.run cfg s0 (ops.take k)).2 op).2 (ops.drop (k + 1)) :=
      (collFeed_run cfg eqv (ops.drop (k + 1)) (Coll.step cfg (Coll.run cfg s0 (ops.take k)).2 op).2).1
    have := pullID_fold_dup cfg eqv o (icptId cfg id)
      (collSeed cfg (Coll.step cfg (Coll.run cfg s0 (ops.take k)).2 op).2 o)
      (eventsOf (Coll.step cfg (Coll.run cfg s0 (ops.take k)).2 op).1)
      (gRun (collFeed cfg eqv) ((collFeed cfg eqv).step (Coll.run cfg s0 (ops.take k)).2 op).2 (ops.drop (k + 1))).1
    rw [hrun] at this
    exact this

end ScVerif.C04
