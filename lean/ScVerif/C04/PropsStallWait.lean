import ScVerif.C04.StallWait
/-!
# C04 — a Collection write announced while a consumer is not receiving (no send deadline)

Only property theorems and their non-vacuity examples live in this file.
-/
namespace ScVerif.C04

variable {ι σ : Type}

/-- `Bus.Send` with no deadline (Collection.Update / Add / Delete), for every listener list and every
set of listeners whose forwarder is blocked, provided each blocked forwarder takes the event once its
consumer receives again: the Send returns, it has served EVERY live listener exactly once (cancelled
ones are skipped) - the stalled ones after their consumer received - and the outcome is that of
resuming those consumers first and then announcing on a bus where nobody is stalled, which is also
what the deadline Send (`sendDlLoop`) does there: it succeeds.  So "one event per successful write" is
not at the mercy of a slow subscriber: the writer waits, it does not fail and nobody is skipped. -/
theorem C04_waiting_send_serves_everyone (try_ : σ → Option σ) (wake : σ → σ)
    (hw : ∀ st, try_ st = none → (try_ (wake st)).isSome = true) (ls : List (Lsn ι σ)) :
    sendWaitLoop try_ wake ls = some ((resumeStalled try_ wake ls).map (serve try_)) ∧
    sendDlLoop try_ (resumeStalled try_ wake ls) = ((resumeStalled try_ wake ls).map (serve try_), true) ∧
    (∀ l ∈ resumeStalled try_ wake ls, stalledAt try_ l = false) :=
  ⟨sendWaitLoop_eq try_ wake hw ls,
   sendDlLoop_all try_ _ (resumeStalled_none_stalled try_ wake hw ls),
   resumeStalled_none_stalled try_ wake hw ls⟩

/-- Without that (a consumer that never receives again) the write never returns: the no-deadline loop has
no result as soon as one live listener stays stalled. -/
theorem C04_waiting_send_blocks_for_ever (try_ : σ → Option σ) (wake : σ → σ) (pre rest : List (Lsn ι σ))
    (l : Lsn ι σ) (ha : l.alive = true) (h1 : try_ l.st = none) (h2 : try_ (wake l.st) = none) :
    sendWaitLoop try_ wake (pre ++ l :: rest) = none := by
  induction pre with
  | nil => simp [sendWaitLoop, ha, h1, h2]
  | cons x xs ih =>
    simp only [List.cons_append, sendWaitLoop, ih]
    cases x.alive <;> simp
    cases try_ x.st <;> simp
    cases try_ (wake x.st) <;> simp

/-- ... and in terms of the bus model: with `d` the delivery function (`try_` of a listener that is not
stalled is `some (d ·)`), the waiting Send leaves exactly the live listeners of the plain `Send` of
`Bus.lean` run AFTER the stalled consumers were resumed (`send d (resumeStalled …) []`: every live
listener served once, cancelled ones collected) - which is how the driver answers `stallw`: `resume`,
then the write. -/
theorem C04_waiting_send_is_resume_then_send [DecidableEq ι] (try_ : σ → Option σ) (wake d : σ → σ)
    (hw : ∀ st, try_ st = none → (try_ (wake st)).isSome = true)
    (ls : List (Lsn ι σ)) (hn : (ls.map (·.id)).Nodup)
    (h : ∀ l ∈ resumeStalled try_ wake ls, l.alive = true → try_ l.st = some (d l.st)) :
    ∃ r, sendWaitLoop try_ wake ls = some r ∧ view r = view (send d (resumeStalled try_ wake ls) []) := by
  refine ⟨_, sendWaitLoop_eq try_ wake hw ls, ?_⟩
  have hids : (resumeStalled try_ wake ls).map (·.id) = ls.map (·.id) := by
    simp only [resumeStalled, List.map_map]
    apply List.map_congr_left
    intro l _
    simp only [Function.comp]
    split <;> rfl
  have hsend := (send_view d (resumeStalled try_ wake ls) [] (by rw [hids]; exact hn) (by simp [freshSched])).1
  simp only [List.foldl_nil] at hsend
  rw [view_map_serve try_ d _ h, hsend]

/-- non-vacuity: a forwarder with one slot (`true` = full); waking empties it -/
example : (∀ st : Nat × Bool, (fun s : Nat × Bool => if s.2 then none else some (s.1 + 1, false)) st = none →
    ((fun s : Nat × Bool => if s.2 then none else some (s.1 + 1, false)) ((fun s : Nat × Bool => (s.1, false)) st)).isSome = true) := by
  intro st _; simp

example : sendWaitLoop (ι := Nat) (fun s : Nat × Bool => if s.2 then none else some (s.1 + 1, false)) (fun s => (s.1, false))
    [{ id := 1, alive := true, st := (0, false) }, { id := 2, alive := true, st := (5, true) }, { id := 3, alive := false, st := (7, false) },
     { id := 4, alive := true, st := (9, false) }] =
    some [{ id := 1, alive := true, st := (1, false) }, { id := 2, alive := true, st := (6, false) }, { id := 3, alive := false, st := (7, false) },
     { id := 4, alive := true, st := (10, false) }] := by simp [sendWaitLoop]

/-- the hypotheses of `C04_waiting_send_is_resume_then_send` hold for that forwarder with `d` = take the event -/
example (ls : List (Lsn Nat (Nat × Bool))) :
    ∀ l ∈ resumeStalled (fun s : Nat × Bool => if s.2 then none else some (s.1 + 1, false)) (fun s => (s.1, false)) ls,
      l.alive = true → (fun s : Nat × Bool => if s.2 then none else some (s.1 + 1, false)) l.st = some ((fun s : Nat × Bool => (s.1 + 1, false)) l.st) := by
  intro l hl ha
  simp only [resumeStalled, List.mem_map] at hl
  obtain ⟨x, _, rfl⟩ := hl
  have hxa : x.alive = true := by split at ha <;> exact ha
  cases hx : x.st.2 <;> simp [stalledAt, hxa, hx]

end ScVerif.C04

