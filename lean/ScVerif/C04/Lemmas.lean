import ScVerif.C04.Pull
import ScVerif.C01.Outcome
/-! Lemmas for C04: every write is exactly one edit of the contents, announced by exactly one event. -/
namespace ScVerif.C04
open ScVerif.C01
variable {M K R : Type}

/-- the contents of a collection: id ↦ stored message -/
def contents (s : CState M R) : String → Option M := fun k => (lookup s.items k).map (·.body)

/-- the kind an edit must be announced with -/
def kindOf : Option M → Option M → Kind
  | none, _ => .add
  | some _, some _ => .update
  | some _, none => .remove

/-- `e` is exactly the difference between the contents `before` and `after`: it names the one id
that changed, carries its previous and its new value, the right kind, and is not a seed event. -/
structure IsEdit (before after : String → Option M) (e : CEvent M) : Prop where
  old_eq : e.old = before e.id
  new_eq : e.new = after e.id
  frame : ∀ k, k ≠ e.id → after k = before k
  changed : (before e.id).isSome ∨ (after e.id).isSome
  kind_eq : e.kind = kindOf (before e.id) (after e.id)
  not_seed : e.seed = false ∧ e.lastSeed = false

/-- What one write does, as seen by a subscriber: nothing at all, or exactly one edit. -/
inductive WriteEffect (cfg : Cfg M K R) (s : CState M R) (o : COut M) (s' : CState M R) : Prop
  | nothing : o.events = [] → contents s' = contents s → (o.err ≠ none ∨ o.val = none) → WriteEffect cfg s o s'
  | edit (e : CEvent M) : o.events = [e] → o.err = none → IsEdit (contents s) (contents s') e →
      (o.val = e.new ∨ o.val = e.old) → o.val ≠ none → WriteEffect cfg s o s'

theorem update_effect (cfg : Cfg M K R) (h : EqRefl cfg.ops) (s : CState M R) (id : String) (msg : M)
    (wr : WriteReq M K) :
    WriteEffect cfg s (Coll.update cfg s id msg wr).1 (Coll.update cfg s id msg wr).2 ∧
    (∀ e ∈ (Coll.update cfg s id msg wr).1.events,
      e.new = (Coll.update cfg s id msg wr).1.val ∧
      e.time = wr.writeTime.getD (s.clock + cfg.tick) ∧
      (lookup (Coll.update cfg s id msg wr).2.items e.id).map (·.time) = some (wr.writeTime.getD s.clock) ∧
      (Coll.update cfg s id msg wr).2.clock = (match wr.writeTime with | some _ => s.clock | none => s.clock + cfg.tick + cfg.tick)) := by
  have he := coll_update_eq cfg h s id msg wr
  have hc : contents (Coll.update cfg s id msg wr).2 = fun k => ((abs (Coll.update cfg s id msg wr).2).m k).map (·.body) := rfl
  have hl : ∀ k, lookup (Coll.update cfg s id msg wr).2.items k = (abs (Coll.update cfg s id msg wr).2).m k := fun _ => rfl
  have hk : (Coll.update cfg s id msg wr).2.clock = (abs (Coll.update cfg s id msg wr).2).clock := rfl
  simp only [hl, hk]
  have hcs : contents s = fun k => ((abs s).m k).map (·.body) := rfl
  have hsc : s.clock = (abs s).clock := rfl
  rw [hsc]
  generalize abs s = t at *
  have ho := spec_update_outcome cfg t id msg wr
  suffices hs : ∀ r : COut M × SState M R, UpdOutcome cfg t id msg wr r →
      (∀ s'' : CState M R, contents s'' = (fun k => (r.2.m k).map (·.body)) → WriteEffect cfg s r.1 s'') ∧
      (∀ e ∈ r.1.events, e.new = r.1.val ∧ e.time = wr.writeTime.getD (t.clock + cfg.tick) ∧
        (r.2.m e.id).map (·.time) = some (wr.writeTime.getD t.clock) ∧
        r.2.clock = (match wr.writeTime with | some _ => t.clock | none => t.clock + cfg.tick + cfg.tick)) by
    have := hs _ ho
    rw [← he.1, ← he.2] at this
    exact ⟨this.1 _ hc, this.2⟩
  intro r hr
  have nothing : ∀ (c : Code) calls cc (t1 : SState M R), t1.m = t.m →
      (∀ s'' : CState M R, contents s'' = (fun k => (t1.m k).map (·.body)) →
        WriteEffect cfg s (failOut c calls cc : COut M) s'') ∧
      (∀ e ∈ (failOut c calls cc : COut M).events, e.new = (failOut c calls cc : COut M).val ∧
        e.time = wr.writeTime.getD (t.clock + cfg.tick) ∧
        (t1.m e.id).map (·.time) = some (wr.writeTime.getD t.clock) ∧
        t1.clock = (match wr.writeTime with | some _ => t.clock | none => t.clock + cfg.tick + cfg.tick)) := by
    intro c calls cc t1 hm
    refine ⟨fun s'' hs'' => WriteEffect.nothing rfl (by rw [hs'', hcs, hm]) (Or.inl (by simp [failOut])), ?_⟩
    intro e he; simp [failOut] at he
  have commit : ∀ (id1 : String) calls cc (t1 : SState M R) (old : Option M) (new : M), t1.m = t.m → t1.clock = t.clock →
      old = (t.m id1).map (·.body) →
      (∀ s'' : CState M R, contents s'' = (fun k => ((Spec.commit cfg wr t1 id1 old new calls cc).2.m k).map (·.body)) →
        WriteEffect cfg s (Spec.commit cfg wr t1 id1 old new calls cc).1 s'') ∧
      (∀ e ∈ (Spec.commit cfg wr t1 id1 old new calls cc).1.events,
        e.new = (Spec.commit cfg wr t1 id1 old new calls cc).1.val ∧
        e.time = wr.writeTime.getD (t.clock + cfg.tick) ∧
        ((Spec.commit cfg wr t1 id1 old new calls cc).2.m e.id).map (·.time) = some (wr.writeTime.getD t.clock) ∧
        (Spec.commit cfg wr t1 id1 old new calls cc).2.clock =
          (match wr.writeTime with | some _ => t.clock | none => t.clock + cfg.tick + cfg.tick)) := by
    intro id1 calls cc t1 old new hm hclk hold
    have hedit : ∀ (tm : Int) (s'' : CState M R) (tt : Int),
        contents s'' = (fun k => ((if k = id1 then some ({ body := new, time := tt } : Item M) else t1.m k)).map (·.body)) →
        IsEdit (contents s) (contents s'')
          ({ id := id1, time := tm, kind := if old.isNone then .add else .update, old := old, new := some new } : CEvent M) := by
      intro tm s'' tt hs''
      have hb : contents s id1 = old := by rw [hcs, hold]
      have ha : contents s'' id1 = some new := by rw [hs'']; simp
      refine ⟨hb.symm, ha.symm, ?_, Or.inr (by rw [ha]; rfl), ?_, ⟨rfl, rfl⟩⟩
      · intro k hk
        rw [hs'', hcs, hm]; simp [hk]
      · simp only [hb, ha]
        cases old <;> rfl
    unfold Spec.commit
    cases hw : wr.writeTime with
    | some w =>
      refine ⟨fun s'' hs'' => WriteEffect.edit _ rfl rfl (hedit w s'' w (by simpa [SState.put] using hs'')) (Or.inl rfl) (by simp), ?_⟩
      intro e he
      simp only [List.mem_singleton] at he
      subst he
      simp [SState.put, hclk]
    | none =>
      refine ⟨fun s'' hs'' => WriteEffect.edit _ rfl rfl (hedit _ s'' t1.clock (by simpa [SState.put] using hs'')) (Or.inl rfl) (by simp), ?_⟩
      intro e he
      simp only [List.mem_singleton] at he
      subst he
      simp [SState.put, hclk]
  cases hr with
  | invalid c _ => exact nothing c [] 0 t rfl
  | exhausted rng' _ _ _ => exact nothing .aborted [] 0 _ rfl
  | alreadyExists id1 calls t1 it _ hr _ _ => exact nothing _ _ _ _ hr.m_eq.1
  | precondition id1 calls t1 it c _ hr _ _ _ => exact nothing _ _ _ _ hr.m_eq.1
  | notFound id1 calls t1 _ hr _ _ => exact nothing _ _ _ _ hr.m_eq.1
  | createFailed id1 calls t1 c _ hr _ _ _ => exact nothing _ _ _ _ hr.m_eq.1
  | updated id1 calls t1 it new _ hr hl _ _ => exact commit id1 calls 0 t1 (some it.body) new hr.m_eq.1 hr.m_eq.2 (by rw [hl]; rfl)
  | created id1 calls t1 new _ hr hl _ _ => exact commit id1 calls _ t1 none new hr.m_eq.1 hr.m_eq.2 (by rw [hl]; rfl)

/-- what a successful `Delete` returns and announces -/
def removedOut (id : String) (t : Int) (body : M) : COut M :=
  { val := some body, err := none,
    events := [{ id := id, time := t, kind := .remove, old := some body, new := none }],
    idCalls := [], createdCalls := 0 }

theorem delete_effect (cfg : Cfg M K R) (h : EqRefl cfg.ops) (s : CState M R) (id : String) (wr : WriteReq M K) :
    WriteEffect cfg s (Coll.delete cfg s id wr).1 (Coll.delete cfg s id wr).2 ∧
    (∀ e ∈ (Coll.delete cfg s id wr).1.events,
      e.kind = .remove ∧ e.old = (Coll.delete cfg s id wr).1.val ∧ e.time = s.clock ∧
      (Coll.delete cfg s id wr).2.clock = s.clock + cfg.tick) := by
  unfold Coll.delete
  rw [deleteLoop_first cfg h]
  have nothing : ∀ (v : Option M) (c : Option Code), (c ≠ none ∨ v = none) →
      WriteEffect cfg s ({ val := v, err := c, events := [], idCalls := [], createdCalls := 0 } : COut M) s ∧
      (∀ e ∈ ({ val := v, err := c, events := [], idCalls := [], createdCalls := 0 } : COut M).events,
        e.kind = .remove ∧ e.old = v ∧ e.time = s.clock ∧ s.clock = s.clock + cfg.tick) := by
    intro v c hc
    exact ⟨WriteEffect.nothing rfl rfl hc, fun e he => by simp at he⟩
  cases hl : lookup s.items (icptId cfg id) with
  | none => simp only []; split <;> exact nothing _ _ (by simp)
  | some it =>
    have removed :
        WriteEffect cfg s (removedOut (icptId cfg id) s.clock it.body)
          { s with clock := s.clock + cfg.tick, items := eraseItem s.items (icptId cfg id) } ∧
        (∀ e ∈ (removedOut (icptId cfg id) s.clock it.body).events,
          e.kind = .remove ∧ e.old = some it.body ∧ e.time = s.clock ∧
          s.clock + cfg.tick = s.clock + cfg.tick) := by
      unfold removedOut
      refine ⟨WriteEffect.edit _ rfl rfl ?_ (Or.inr rfl) (by simp), ?_⟩
      · have hb : contents s (icptId cfg id) = some it.body := by simp [contents, hl]
        have ha : contents ({ s with clock := s.clock + cfg.tick, items := eraseItem s.items (icptId cfg id) } : CState M R)
            (icptId cfg id) = none := by simp [contents, lookup_eraseItem]
        refine ⟨hb.symm, ha.symm, ?_, Or.inl (by rw [hb]; rfl), by rw [hb, ha]; rfl, ⟨rfl, rfl⟩⟩
        intro k hk
        simp only [contents, lookup_eraseItem]
        simp [show k ≠ icptId cfg id from hk]
      · intro e he
        simp only [List.mem_singleton] at he
        subst he
        exact ⟨rfl, rfl, rfl, rfl⟩
    simp only []
    cases wr.expectedCheck with
    | none =>
      cases wr.expectedValue with
      | none => exact removed
      | some ev =>
        simp only []
        split
        · exact nothing _ _ (by simp)
        · exact removed
    | some chk =>
      cases hc : chk (some it.body) with
      | some e => simp only [hc]; exact nothing _ _ (by simp)
      | none =>
        simp only [hc]
        cases wr.expectedValue with
        | none => exact removed
        | some ev =>
          simp only []
          split
          · exact nothing _ _ (by simp)
          · exact removed

/-- replaying a list of events on a view: each must be an edit of the view built so far -/
inductive Replay : (String → Option M) → List (CEvent M) → (String → Option M) → Prop
  | nil (v) : Replay v [] v
  | cons {v v1 v2 e es} : IsEdit v v1 e → Replay v1 es v2 → Replay v (e :: es) v2

theorem step_effect (cfg : Cfg M K R) (h : EqRefl cfg.ops) (s : CState M R) (op : COp M K) :
    Replay (contents s) (eventsOf (Coll.step cfg s op).1) (contents (Coll.step cfg s op).2) := by
  have of_effect : ∀ (o : COut M) (s' : CState M R), WriteEffect cfg s o s' → Replay (contents s) o.events (contents s') := by
    intro o s' he
    cases he with
    | nothing h1 h2 _ => rw [h1, h2]; exact Replay.nil _
    | edit e h1 _ h3 _ _ => rw [h1]; exact Replay.cons h3 (Replay.nil _)
  cases op with
  | get id ro => exact Replay.nil _
  | list ro => exact Replay.nil _
  | update id msg wr => exact of_effect _ _ (update_effect cfg h s id msg wr).1
  | add id msg wr => exact of_effect _ _ (update_effect cfg h s id msg _).1
  | delete id wr => exact of_effect _ _ (delete_effect cfg h s id wr).1

/-- every event a call announces is exactly the edit that call made -/
theorem step_events_edit (cfg : Cfg M K R) (h : EqRefl cfg.ops) (s : CState M R) (op : COp M K) :
    ∀ e ∈ eventsOf (Coll.step cfg s op).1, IsEdit (contents s) (contents (Coll.step cfg s op).2) e := by
  have of_effect : ∀ (o : COut M) (s' : CState M R), WriteEffect cfg s o s' →
      ∀ e ∈ o.events, IsEdit (contents s) (contents s') e := by
    intro o s' he e hm
    cases he with
    | nothing h1 _ _ => rw [h1] at hm; simp at hm
    | edit e' h1 _ h3 _ _ => rw [h1] at hm; simp only [List.mem_singleton] at hm; subst hm; exact h3
  cases op with
  | get id ro => intro e he; simp [Coll.step, eventsOf] at he
  | list ro => intro e he; simp [Coll.step, eventsOf] at he
  | update id msg wr => exact of_effect _ _ (update_effect cfg h s id msg wr).1
  | add id msg wr => exact of_effect _ _ (update_effect cfg h s id msg _).1
  | delete id wr => exact of_effect _ _ (delete_effect cfg h s id wr).1

theorem Replay.append {v1 v2 v3 : String → Option M} {es1 es2 : List (CEvent M)}
    (h1 : Replay v1 es1 v2) (h2 : Replay v2 es2 v3) : Replay v1 (es1 ++ es2) v3 := by
  induction h1 with
  | nil v => exact h2
  | cons he _ ih => exact Replay.cons he (ih h2)

theorem run_replay (cfg : Cfg M K R) (h : EqRefl cfg.ops) (ops : List (COp M K)) :
    ∀ s : CState M R, Replay (contents s) (busEvents cfg s ops) (contents (Coll.run cfg s ops).2) := by
  induction ops with
  | nil => intro s; exact Replay.nil _
  | cons op ops ih =>
    intro s
    simp only [busEvents, Coll.run, List.flatMap_cons]
    exact Replay.append (step_effect cfg h s op) (ih _)

theorem applyEv_of_isEdit {v v1 : String → Option M} {e : CEvent M} (h : IsEdit v v1 e) : applyEv v e = v1 := by
  funext k
  unfold applyEv
  by_cases hk : k = e.id
  · subst hk; simp [h.new_eq]
  · simp [hk, h.frame k hk]

/-- an event that announces an edit the view already contains changes nothing -/
theorem applyEv_stale {v v1 : String → Option M} {e : CEvent M} (h : IsEdit v v1 e) : applyEv v1 e = v1 := by
  funext k
  unfold applyEv
  by_cases hk : k = e.id
  · subst hk; simp [h.new_eq]
  · simp [hk]

theorem replay_fold {v v' : String → Option M} {es : List (CEvent M)} (h : Replay v es v') :
    es.foldl applyEv v = v' := by
  induction h with
  | nil v => rfl
  | cons he _ ih => simp only [List.foldl_cons, applyEv_of_isEdit he, ih]

theorem replay_mem {v v' : String → Option M} {es : List (CEvent M)} (h : Replay v es v') :
    ∀ e ∈ es, ∃ a b, IsEdit a b e := by
  induction h with
  | nil v => intro e he; simp at he
  | cons hed _ ih =>
    intro e he
    simp only [List.mem_cons] at he
    rcases he with he | he
    · subst he; exact ⟨_, _, hed⟩
    · exact ih e he

/-- an edit without a new value is a REMOVE -/
theorem isEdit_new_none {a b : String → Option M} {e : CEvent M} (h : IsEdit a b e) (hn : e.new = none) :
    e.kind = .remove := by
  have hb : b e.id = none := by rw [← h.new_eq]; exact hn
  rw [h.kind_eq, hb]
  rcases h.changed with hc | hc
  · cases ha : a e.id with
    | none => simp [ha] at hc
    | some x => rfl
  · simp [hb] at hc

/-- an edit that is a REMOVE has no new value -/
theorem isEdit_remove {a b : String → Option M} {e : CEvent M} (h : IsEdit a b e) (hk : e.kind = .remove) :
    e.new = none := by
  rw [h.kind_eq] at hk
  rw [h.new_eq]
  cases ha : a e.id <;> cases hb : b e.id <;> simp [ha, hb, kindOf] at hk ⊢

/-! ## seed -/

theorem seedEvents_length (ops : MsgOps M K) (mask : Option K) (l : List (String × Item M)) :
    (seedEvents ops mask l).length = l.length := by
  induction l with
  | nil => rfl
  | cons x xs ih =>
    cases xs with
    | nil => rfl
    | cons y ys => simp only [seedEvents, List.length_cons] at ih ⊢; omega

theorem seedEvents_ids (ops : MsgOps M K) (mask : Option K) (l : List (String × Item M)) :
    (seedEvents ops mask l).map (·.id) = l.map (·.1) := by
  induction l with
  | nil => rfl
  | cons x xs ih =>
    cases xs with
    | nil => rfl
    | cons y ys => simp only [seedEvents, List.map_cons] at ih ⊢; rw [ih]; rfl

/-- every seed event: ADD of the projected item, stored change time, flagged seed -/
theorem seedEvents_mem (ops : MsgOps M K) (mask : Option K) (l : List (String × Item M)) (e : CEvent M)
    (he : e ∈ seedEvents ops mask l) :
    ∃ kv ∈ l, e.id = kv.1 ∧ e.time = kv.2.time ∧ e.kind = .add ∧ e.old = none ∧
      e.new = some (ops.filter mask kv.2.body) ∧ e.seed = true := by
  induction l with
  | nil => simp [seedEvents] at he
  | cons x xs ih =>
    cases xs with
    | nil =>
      simp only [seedEvents, List.mem_singleton] at he
      subst he
      exact ⟨x, by simp, rfl, rfl, rfl, rfl, rfl, rfl⟩
    | cons y ys =>
      simp only [seedEvents, List.mem_cons] at he ih
      rcases he with he | he
      · subst he
        exact ⟨x, by simp, rfl, rfl, rfl, rfl, rfl, rfl⟩
      · obtain ⟨kv, hkv, rest⟩ := ih he
        exact ⟨kv, by simp only [List.mem_cons]; exact Or.inr hkv, rest⟩

/-- exactly the last seed event is flagged last-seed -/
theorem seedEvents_lastSeed (ops : MsgOps M K) (mask : Option K) (l : List (String × Item M)) :
    (seedEvents ops mask l).map (·.lastSeed) = (List.replicate (l.length - 1) false) ++ (if l = [] then [] else [true]) := by
  induction l with
  | nil => rfl
  | cons x xs ih =>
    cases xs with
    | nil => rfl
    | cons y ys =>
      simp only [seedEvents, List.map_cons] at ih ⊢
      rw [ih]
      simp [List.replicate_succ, seedEvent]
end ScVerif.C04
