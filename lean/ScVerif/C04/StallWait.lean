import ScVerif.C04.Stall
/-!
# C04 — `Bus.Send` WITHOUT a deadline, with a listener that does not take the event

`Collection.Update` / `Add` / `Delete` announce with `context.TODO()`: `l.send` at a listener whose
forwarder is blocked (its consumer is not receiving) has no way out but that the forwarder comes back to
its bus channel - i.e. that the consumer receives again (`wake`).  The writer waits for that; then the
listener takes the event and the loop goes on to the later listeners.  `none`: the consumer never
receives again - the write never returns.
-/
namespace ScVerif.C04

variable {ι σ : Type}

/-- the delivery loop of `Bus.Send` with no deadline; `wake` = the consumer of a stalled listener receives -/
def sendWaitLoop (try_ : σ → Option σ) (wake : σ → σ) : List (Lsn ι σ) → Option (List (Lsn ι σ))
  | [] => some []
  | l :: rest =>
    if l.alive then
      match try_ l.st with
      | some st' => (sendWaitLoop try_ wake rest).map (fun r => { l with st := st' } :: r)
      | none =>
        match try_ (wake l.st) with
        | some st' => (sendWaitLoop try_ wake rest).map (fun r => { l with st := st' } :: r)
        | none => none
    else (sendWaitLoop try_ wake rest).map (fun r => l :: r)

/-- the consumers of the listeners at which a `Send` would stall receive again -/
def resumeStalled (try_ : σ → Option σ) (wake : σ → σ) (ls : List (Lsn ι σ)) : List (Lsn ι σ) :=
  ls.map (fun l => if stalledAt try_ l then { l with st := wake l.st } else l)

theorem sendWaitLoop_eq (try_ : σ → Option σ) (wake : σ → σ)
    (hw : ∀ st, try_ st = none → (try_ (wake st)).isSome = true) (ls : List (Lsn ι σ)) :
    sendWaitLoop try_ wake ls = some ((resumeStalled try_ wake ls).map (serve try_)) := by
  induction ls with
  | nil => rfl
  | cons l ls ih =>
    cases ha : l.alive with
    | false => simp [sendWaitLoop, ha, ih, resumeStalled, stalledAt, serve]
    | true =>
      cases ht : try_ l.st with
      | some st' => simp [sendWaitLoop, ha, ht, ih, resumeStalled, stalledAt, serve]
      | none =>
        have h := hw l.st ht
        cases htw : try_ (wake l.st) with
        | none => rw [htw] at h; cases h
        | some st' => simp [sendWaitLoop, ha, ht, htw, ih, resumeStalled, stalledAt, serve]

theorem resumeStalled_none_stalled (try_ : σ → Option σ) (wake : σ → σ)
    (hw : ∀ st, try_ st = none → (try_ (wake st)).isSome = true) (ls : List (Lsn ι σ)) :
    ∀ l ∈ resumeStalled try_ wake ls, stalledAt try_ l = false := by
  intro l hl
  simp only [resumeStalled, List.mem_map] at hl
  obtain ⟨x, _, rfl⟩ := hl
  cases hs : stalledAt try_ x with
  | false => simp [hs]
  | true =>
    simp only [if_true]
    simp only [stalledAt, Bool.and_eq_true, Option.isNone_iff_eq_none] at hs
    have := hw x.st hs.2
    cases htw : try_ (wake x.st) with
    | none => rw [htw] at this; cases this
    | some st' => simp [stalledAt, htw]

end ScVerif.C04
