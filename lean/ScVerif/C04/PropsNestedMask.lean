import ScVerif.C04.NestedMask
import ScVerif.C04.Props
/-!
# C04 — the stream under read masks that name the same fields (nested paths)

"each event carries the right new value and old value" under the subscription option read mask: what a
mask selects is decided by the fields it names, not by how it is written.  Only property theorems and
their non-vacuity examples live in this file.
-/
namespace ScVerif.C04
open ScVerif.C01 ScVerif.C01.Flat

variable {R : Type}

/-- Two read masks that name the same fields (same top-level paths, same selection of the nested message
as `nestedMask` makes it) give the same stream, for every equivalence, state and history: seed and
events of `Collection.Pull`, the values of `Collection.PullID`, seed and values of `Value.Pull`. -/
theorem C04_read_mask_selection_decides_stream (cfg : Cfg Msg Mask R) (hops : cfg.ops.filter = Flat.filter)
    (eqv : Eqv Msg) (m m' : Mask) (h : SameFields m m') (uo : Bool) :
    (∀ s ops, collStream cfg eqv { readMask := some m, updatesOnly := uo } s ops =
              collStream cfg eqv { readMask := some m', updatesOnly := uo } s ops) ∧
    (∀ s id ops, pullIDStream cfg eqv { readMask := some m, updatesOnly := uo } s id ops =
                 pullIDStream cfg eqv { readMask := some m', updatesOnly := uo } s id ops) ∧
    (∀ s ops, valStream cfg eqv { readMask := some m, updatesOnly := uo } s ops =
              valStream cfg eqv { readMask := some m', updatesOnly := uo } s ops) := by
  have hfil : cfg.ops.filter (some m) = cfg.ops.filter (some m') := by
    rw [hops]; exact filter_sameFields m m' h
  have hc := fun s ops => collStream_congr cfg eqv { readMask := some m, updatesOnly := uo }
    { readMask := some m', updatesOnly := uo } hfil rfl s ops
  refine ⟨hc, fun s id ops => ?_,
    fun s ops => valStream_congr cfg eqv { readMask := some m, updatesOnly := uo }
      { readMask := some m', updatesOnly := uo } hfil rfl s ops⟩
  unfold pullIDStream
  rw [hc s ops]

/-- A read mask that holds a message field AND a path inside it (anywhere in the list, before or after
its parent): the stream is the stream of the mask without the inner path - seeds and events keep EVERY
sub-field of the message field, not just the inner path. -/
theorem C04_nested_read_mask_same_stream (cfg : Cfg Msg Mask R) (hops : cfg.ops.filter = Flat.filter)
    (eqv : Eqv Msg) (pre post : Mask) (q : Field) (hq : q = .fc ∨ q = .fd ∨ q = .fx)
    (hf : (pre ++ post).contains .f = true) (uo : Bool) :
    (∀ s ops, collStream cfg eqv { readMask := some (pre ++ q :: post), updatesOnly := uo } s ops =
              collStream cfg eqv { readMask := some (pre ++ post), updatesOnly := uo } s ops) ∧
    (∀ s id ops, pullIDStream cfg eqv { readMask := some (pre ++ q :: post), updatesOnly := uo } s id ops =
                 pullIDStream cfg eqv { readMask := some (pre ++ post), updatesOnly := uo } s id ops) ∧
    (∀ s ops, valStream cfg eqv { readMask := some (pre ++ q :: post), updatesOnly := uo } s ops =
              valStream cfg eqv { readMask := some (pre ++ post), updatesOnly := uo } s ops) :=
  C04_read_mask_selection_decides_stream cfg hops eqv _ _ (sameFields_insert pre post q hq hf) uo

/-- non-vacuity: the driver's configuration satisfies the hypothesis -/
example : exCfg.ops.filter = Flat.filter := rfl

/-- `{f, f.c}` keeps both sub-fields (what `{f}` keeps); `{f.c}` alone keeps one: the inner path must
not narrow its parent -/
example : (Flat.filter (some [.f, .fc]) { a := 1, s := "x", c := none, f := some (3, 4) }).f = some (3, 4) ∧
    (Flat.filter (some [.fc]) { a := 1, s := "x", c := none, f := some (3, 4) }).f = some (3, 0) := by decide

example : SameFields [.fc, .a, .f] [.a, .f] := sameFields_insert [] [.a, .f] .fc (Or.inl rfl) (by decide)

end ScVerif.C04
