import ScVerif.C04.WasteValue
/-!
# C04 at trait level — `wasteStream` composed from the modelled `Value.Pull`

`Waste.lean` writes the `Value.Pull` part of a `PullWasteRecords` stream as `[proj val] ++ later.map proj`.
`C04_waste_value_composition` replaces that shorthand by the model of the code: the handler's stream -
the history window, then the VALUES of `valStream` (`Pull.lean`: the seed of `Value.Pull` and its
forwarding loop, the model tied to `pkg/resource` by the K1/K2/K4 families) on the model's `Value`
without an equivalence (`wastepb.NewModel` configures none) - is `wasteStream` with the read-mask filter
as projection and the values of the bus events of ANY later sequence of `Value` operations as `later`.
So the theorems of `PropsWaste.lean` are statements about the composition of the handler's loop with
`Value.Pull` as modelled, for every read mask, updates-only or not, and every later history of `Set`s
(successful, failing, no-op).
-/
namespace ScVerif.C04
open ScVerif.C01

variable {M K R : Type}

/-- the handler of `PullWasteRecords` over the modelled `Value.Pull` = `wasteStream` -/
theorem C04_waste_value_composition (cfg : Cfg M K R) (o : SubOpts K) (s : VState M) (v : M)
    (hv : s.value = some v) (hist : List M) (ops : List (VOp M K)) :
    (if o.updatesOnly then [] else (wasteWindow hist).map (cfg.ops.filter o.readMask))
        ++ (valStream cfg none o s ops).map (·.value)
      = wasteStream (cfg.ops.filter o.readMask) o.updatesOnly ⟨hist, v⟩
          ((vBusEvents cfg s ops).map (·.value)) := by
  cases hu : o.updatesOnly with
  | true => simp [valStream, valSeed, hu, wasteStream, forwardAll_none_values]
  | false => simp [valStream, valSeed, hu, hv, wasteStream, forwardAll_none_values]

/-- with an equivalence on the model's `Value` (an option a caller of `NewModel` may pass) the stream is a
sublist of that one: records may be suppressed, none is added or reordered -/
theorem C04_waste_value_composition_equivalence (cfg : Cfg M K R) (eqv : Eqv M) (o : SubOpts K)
    (last : Option M) (evs : List (VEvent M)) :
    ((forwardAll cfg eqv o last evs).map (·.value)).Sublist
      (evs.map (fun e => cfg.ops.filter o.readMask e.value)) := by
  induction evs generalizing last with
  | nil => simp [forwardAll]
  | cons e es ih =>
    cases eqv with
    | none => simp only [forwardAll, valForward, List.map_cons]; exact (ih _).cons_cons _
    | some f =>
      cases hf : f last (some (cfg.ops.filter o.readMask e.value)) with
      | true => simp only [forwardAll, valForward, hf, if_true, List.map_cons]; exact (ih _).cons _
      | false =>
        simp only [forwardAll, valForward, hf, Bool.false_eq_true, if_false, List.map_cons]
        exact (ih _).cons_cons _

/-- non-vacuity of `hv`: a `Value` holding a record (`NewModel` gives it an initial value) -/
example : ({ value := some 1, changeTime := 0, clock := 0 } : VState Nat).value = some 1 := rfl

end ScVerif.C04
