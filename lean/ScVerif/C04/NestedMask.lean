import ScVerif.C04.Pull
import ScVerif.C01.Flat
/-!
# Read masks that name the same fields give the same stream

`ResponseFilter.FilterClone` hands the mask's paths to `masks.nestedMask`, which drops a path that lies
inside another path of the list before it builds the nested mask (`{f, f.c}` selects what `{f}` selects;
`fmutils.NestedMaskFromPaths` alone would narrow `f` down to `f.c`).  The flat message model
(`ScVerif/C01/Flat.lean`, `fsel`) follows that.  Lemmas for `PropsNestedMask.lean`.
-/
namespace ScVerif.C04
open ScVerif.C01 ScVerif.C01.Flat

variable {M K R : Type}

/-! ## streams depend on the read mask only through what it selects -/

theorem seedEvents_congr (ops : MsgOps M K) (k k' : Option K) (h : ops.filter k = ops.filter k')
    (l : List (String × Item M)) : seedEvents ops k l = seedEvents ops k' l := by
  induction l with
  | nil => rfl
  | cons kv rest ih =>
    cases rest with
    | nil => simp only [seedEvents, seedEvent, h]
    | cons kv2 rest2 => simp only [seedEvents, seedEvent, h, ih]

theorem collStream_congr (cfg : Cfg M K R) (eqv : Eqv M) (o o' : SubOpts K)
    (h : cfg.ops.filter o.readMask = cfg.ops.filter o'.readMask) (hu : o.updatesOnly = o'.updatesOnly)
    (s : CState M R) (ops : List (COp M K)) : collStream cfg eqv o s ops = collStream cfg eqv o' s ops := by
  have hf : collForward cfg eqv o = collForward cfg eqv o' := by
    have hfo : filterOpt cfg.ops o.readMask = filterOpt cfg.ops o'.readMask := by
      funext m; simp only [filterOpt, h]
    funext e; unfold collForward; rw [hfo]
  simp only [collStream, collSeed, hu, hf, seedEvents_congr cfg.ops _ _ h]

theorem forwardAll_congr (cfg : Cfg M K R) (eqv : Eqv M) (o o' : SubOpts K)
    (h : cfg.ops.filter o.readMask = cfg.ops.filter o'.readMask) (last : Option M) (evs : List (VEvent M)) :
    forwardAll cfg eqv o last evs = forwardAll cfg eqv o' last evs := by
  induction evs generalizing last with
  | nil => rfl
  | cons e es ih =>
    have hv : valForward cfg eqv o last e = valForward cfg eqv o' last e := by
      simp only [valForward, h]
    simp only [forwardAll, hv]
    split
    · rw [ih]
    · exact ih _

theorem valStream_congr (cfg : Cfg M K R) (eqv : Eqv M) (o o' : SubOpts K)
    (h : cfg.ops.filter o.readMask = cfg.ops.filter o'.readMask) (hu : o.updatesOnly = o'.updatesOnly)
    (s : VState M) (ops : List (VOp M K)) : valStream cfg eqv o s ops = valStream cfg eqv o' s ops := by
  have hs : valSeed cfg s o = valSeed cfg s o' := by
    simp only [valSeed, hu, h]
  simp only [valStream, hs, forwardAll_congr cfg eqv o o' h]

/-! ## the flat message: masks that name the same fields filter alike -/

/-- two masks name the same fields: the same top-level paths, and the same selection of the nested
message `f` as `masks.nestedMask` makes it (a path inside `f` next to `f` itself adds nothing) -/
def SameFields (m m' : Mask) : Prop :=
  m.isEmpty = m'.isEmpty ∧
  (∀ q : Field, q ≠ .fc → q ≠ .fd → q ≠ .fx → m.contains q = m'.contains q) ∧ fsel m = fsel m'

theorem filter_sameFields (m m' : Mask) (h : SameFields m m') : Flat.filter (some m) = Flat.filter (some m') := by
  obtain ⟨he, hc, hf⟩ := h
  funext x
  have ha := hc .a (by decide) (by decide) (by decide)
  have hs := hc .s (by decide) (by decide) (by decide)
  have hcc := hc .c (by decide) (by decide) (by decide)
  have hr := hc .r (by decide) (by decide) (by decide)
  have hp := hc .p (by decide) (by decide) (by decide)
  have ht := hc .t (by decide) (by decide) (by decide)
  have htp := hc .tp (by decide) (by decide) (by decide)
  simp only [Flat.filter, nmFilter, plainFields, List.foldl_cons, List.foldl_nil, tsel, he, ha, hs, hcc, hr, hp, ht, htp, hf]

/-- a path inside `f` put anywhere into a mask that names `f` itself: the same fields -/
theorem sameFields_insert (pre post : Mask) (q : Field) (hq : q = .fc ∨ q = .fd ∨ q = .fx)
    (hf : (pre ++ post).contains .f = true) : SameFields (pre ++ q :: post) (pre ++ post) := by
  have hf' : (pre ++ q :: post).contains .f = true := by
    simp only [List.contains_append, List.contains_cons, Bool.or_eq_true] at hf ⊢
    rcases hf with h | h
    · exact Or.inl h
    · exact Or.inr (Or.inr h)
  refine ⟨?_, ?_, ?_⟩
  · have h1 : (pre ++ q :: post).isEmpty = false := by cases pre <;> simp
    have h2 : (pre ++ post).isEmpty = false := by
      cases hpp : pre ++ post with
      | nil => rw [hpp] at hf; simp at hf
      | cons _ _ => rfl
    rw [h1, h2]
  · intro y h1 h2 h3
    have hne : (y == q) = false := by
      rcases hq with rfl | rfl | rfl <;> simp [h1, h2, h3]
    simp only [List.contains_append, List.contains_cons, hne, Bool.false_or]
  · simp only [fsel, hf, hf', ↓reduceIte]

end ScVerif.C04
