import ScVerif.C04.Lemmas
import ScVerif.C08.Props
/-! Translation of C04's events into C08/C09's change model, and: an exact edit script (`Replay`) is a
well-formed history (`C09.WFHist`) with the same fold. -/
namespace ScVerif.C04
open ScVerif.C01

variable {M K R : Type}

def toC09Kind : Kind → C09.Kind
  | .add => .add
  | .update => .update
  | .remove => .remove

/-- a C04 event as a change of C08/C09's model (instants there are naturals; the change time plays no
part in what `include` does) -/
def toC09 (e : CEvent M) : C09.Change String M :=
  { id := e.id, kind := toC09Kind e.kind, time := e.time.toNat, old := e.old, new := e.new,
    seed := e.seed, lastSeed := e.lastSeed }

theorem isEdit_wf {v v' : String → Option M} {e : CEvent M} (h : IsEdit v v' e) :
    C09.WFChange v (toC09 e) ∧ C09.apply (toC09 e) v = v' := by
  have hold := h.old_eq
  have hnew := h.new_eq
  have hk := h.kind_eq
  constructor
  · unfold C09.WFChange
    cases hb : v e.id with
    | none =>
      have ha : (v' e.id).isSome = true := by
        rcases h.changed with hc | hc
        · simp [hb] at hc
        · exact hc
      have : e.kind = .add := by rw [hk, hb]; rfl
      simp [toC09, this, toC09Kind, hb, hold, hnew, ha]
    | some x =>
      cases ha : v' e.id with
      | none =>
        have : e.kind = .remove := by rw [hk, hb, ha]; rfl
        simp [toC09, this, toC09Kind, hb, hold, hnew, ha]
      | some y =>
        have : e.kind = .update := by rw [hk, hb, ha]; rfl
        simp [toC09, this, toC09Kind, hb, hold, hnew, ha]
  · funext k
    unfold C09.apply C09.View.set
    by_cases hkid : k = e.id
    · subst hkid
      simp only [toC09, ↓reduceIte]
      cases hb : v e.id <;> cases ha : v' e.id <;>
        simp [hk, hb, ha, kindOf, toC09Kind, hnew]
    · simp only [toC09, hkid, ↓reduceIte]
      exact (h.frame k hkid).symm

theorem replay_wfHist {v v' : String → Option M} {es : List (CEvent M)} (h : Replay v es v') :
    C09.WFHist v (es.map toC09) ∧ C09.fold (es.map toC09) v = v' := by
  induction h with
  | nil v => exact ⟨trivial, rfl⟩
  | cons hed _ ih =>
    obtain ⟨h1, h2⟩ := isEdit_wf hed
    simp only [List.map_cons, C09.WFHist, C09.fold, List.foldl_cons]
    rw [h2]
    exact ⟨⟨h1, ih.1⟩, ih.2⟩

end ScVerif.C04
