import ScVerif.C04.Masked
import ScVerif.C04.Props
/-!
# C04 — property theorem: read mask × old value (the REMOVE of a `Delete` included)

"each event carries the right … new value and old value (equal to the previous new value for that id)"
under the subscription option *read mask*: the subscriber never sees the stored messages, only their
projections, so "previous new value" means the projection it was given.  `CollectionChange.filter`
projects BOTH values of a change; a REMOVE has no new value (`FilterClone(nil) = nil`), and its old
value must still be projected — deciding "nothing to do" from the new value alone would hand the
subscriber the whole stored message (seeded change C04-12).

Only property theorems and their non-vacuity examples live in this file.
-/
namespace ScVerif.C04
open ScVerif.C01
variable {M K R : Type}

/-- **The stream of a subscriber with a read mask is an exact edit script of its masked view.**  For
every configuration, state with distinct ids, call sequence and read mask:
(1) folding the seed onto the empty view yields the masked contents at subscription time;
(2) without an equivalence, the events sent after the seed replay the masked contents at subscription
time to the masked contents at the end — every event (ADD, UPDATE and REMOVE alike) is an edit of the
masked view built by its predecessors: its old value is the masked value the subscriber was last given
for that id (none for an ADD), its new value the masked new value (none for a REMOVE), its kind right;
(3) so the whole stream folds to the masked contents at the end;
(4) with an equivalence the subscriber is sent a sublist of those events, in order (which ones:
`C04_suppression_iff_equiv`). -/
theorem C04_masked_edit_script (cfg : Cfg M K R) (h : EqRefl cfg.ops) (eqv : Eqv M) (o : SubOpts K)
    (s : CState M R) (ops : List (COp M K)) (hn : NodupKeys s.items) :
    (o.updatesOnly = false →
      (collSeed cfg s o).foldl applyEv (fun _ => none) = mview cfg.ops o.readMask (contents s)) ∧
    Replay (mview cfg.ops o.readMask (contents s)) ((busEvents cfg s ops).filterMap (collForward cfg none o))
      (mview cfg.ops o.readMask (contents (Coll.run cfg s ops).2)) ∧
    (o.updatesOnly = false →
      (collStream cfg none o s ops).foldl applyEv (fun _ => none) =
        mview cfg.ops o.readMask (contents (Coll.run cfg s ops).2)) ∧
    ((busEvents cfg s ops).filterMap (collForward cfg eqv o)).Sublist
      ((busEvents cfg s ops).filterMap (collForward cfg none o)) := by
  have hseed : o.updatesOnly = false →
      (collSeed cfg s o).foldl applyEv (fun _ => none) = mview cfg.ops o.readMask (contents s) := by
    intro hu
    obtain ⟨_, hids, hmem, _⟩ := (C04_seed cfg s o hn).2 hu
    funext k
    rw [fold_applyEv_agree (mview cfg.ops o.readMask (contents s))]
    · split
      · rfl
      · rename_i hk
        have : (lookup s.items k).isSome = false := by
          cases hl : (lookup s.items k).isSome with
          | false => rfl
          | true => exact absurd ((hids k).mpr hl) hk
        simp only [mview, contents, filterOpt]
        cases hl : lookup s.items k with
        | none => rfl
        | some it => simp [hl] at this
    · intro e he
      obtain ⟨it, h1, _, _, _, h5, _⟩ := hmem e he
      simp [mview, contents, filterOpt, h1, h5]
  have hrep : Replay (mview cfg.ops o.readMask (contents s)) ((busEvents cfg s ops).filterMap (collForward cfg none o))
      (mview cfg.ops o.readMask (contents (Coll.run cfg s ops).2)) := by
    rw [forward_none_eq_map]
    exact replay_mask cfg.ops o.readMask (run_replay cfg h ops s)
  refine ⟨hseed, hrep, ?_, forward_sublist cfg eqv o _⟩
  intro hu
  simp only [collStream, List.foldl_append, hseed hu]
  exact replay_fold hrep

/-! ## Non-vacuity -/

def mkCfg : Cfg Msg Mask (List Nat) := { ops := flatOps, gen := flatGen }

def mkInit : CState Msg (List Nat) := Coll.init mkCfg [("a", { a := 1, s := "x", c := some 3 })] []

/-- the hypothesis holds on every initial state -/
example : NodupKeys mkInit.items := nodupKeys_init mkCfg _ []

/-- update, delete, re-add, delete under read mask {a}: both REMOVE events carry the MASKED old value
(`s`, `c` hidden), equal to the new value delivered before -/
example : (collStream mkCfg none { readMask := some [.a] } mkInit
      [.update "a" { a := 2, s := "y", c := some 4 } {}, .delete "a" {},
       .add "a" { a := 5, s := "z", c := none } {}, .delete "a" {}]).map (fun e => (e.kind, e.old, e.new)) =
    [ (.add, none, some { a := 1, s := "", c := none }),
      (.update, some { a := 1, s := "", c := none }, some { a := 2, s := "", c := none }),
      (.remove, some { a := 2, s := "", c := none }, none),
      (.add, none, some { a := 5, s := "", c := none }),
      (.remove, some { a := 5, s := "", c := none }, none) ] := by rfl

/-- the statement tells the faulty filter apart: an event whose old value is left unmasked is not an
edit of the masked view (its old value is not what the view holds) -/
example : ¬ IsEdit (mview flatOps (some [.a]) (fun k => if k = "a" then some { a := 2, s := "y", c := some 4 } else none))
      (fun _ => none)
      ({ id := "a", time := 0, kind := .remove, old := some { a := 2, s := "y", c := some 4 }, new := none } : CEvent Msg) := by
  intro hed
  have := hed.old_eq
  simp [mview, filterOpt, flatOps] at this
  revert this
  decide

end ScVerif.C04
