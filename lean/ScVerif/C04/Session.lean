import ScVerif.C04.Bus
import ScVerif.C04.Lemmas
/-!
# C04 — sessions: writes, and subscribers that come and go at any time

A session is any sequence of writes of one writer, with `Pull`s being opened and subscriptions being
cancelled between the writes and *while a write's `Send` is delivering* (`Bus.lean`).  The model follows
the code: `Collection.Pull` takes its seed from the state and appends a listener to the bus
(`onUpdate`), cancelling marks the listener dead, a successful write commits and then `Send`s its one
event to a snapshot of the listeners and garbage-collects lazily; a write that announces nothing does
not touch the bus.  A `Pull` that opens while a `Send` is in flight sees the committed state (the
write's commit precedes its `Send`).

Not in a session: a `Pull` that registers between a write's commit and its `Send`'s snapshot — that
order is `SubOrder.subBetween` of `C04_subscribe_atomic` (the seed has the write and its event still
arrives, a stale duplicate).
-/
namespace ScVerif.C04
open ScVerif.C01
variable {M K R : Type}

/-- an open backpressured `Collection.Pull`: its options and everything sent on its channel so far;
`regAt` is a ghost field: how many of the session's calls had been made when it registered -/
structure SubSt (M K : Type) where
  opts : SubOpts K
  got : List (CEvent M)
  regAt : Nat

/-- what happens around the writes: a `Pull` opens (with a fresh identity), a subscription's context is
cancelled; `visit` only matters during a `Send` (the delivery loop advances) -/
inductive SAct (K : Type)
  | visit
  | listen (id : Nat) (o : SubOpts K)
  | cancel (id : Nat)

inductive Item (M K : Type)
  /-- between two calls -/
  | idle (a : SAct K)
  /-- one call of the writer, and what happens while its `Send` (if any) delivers -/
  | call (op : COp M K) (sched : List (SAct K))

structure Sess (M K R : Type) where
  s : CState M R
  ls : List (Lsn Nat (SubSt M K))
  /-- ghost: number of calls made -/
  nw : Nat

/-- `Collection.Pull` up to its registration: the seed is queued for the subscriber -/
def toAct (cfg : Cfg M K R) (s : CState M R) (nw : Nat) : SAct K → Act Nat (SubSt M K)
  | .visit => .visit
  | .listen i o => .listen i { opts := o, got := collSeed cfg s o, regAt := nw }
  | .cancel i => .cancel i

/-- the forwarding loop of a `Pull` handed the bus events `evs` -/
def deliver (cfg : Cfg M K R) (eqv : Eqv M) (evs : List (CEvent M)) (st : SubSt M K) : SubSt M K :=
  { st with got := st.got ++ evs.filterMap (collForward cfg eqv st.opts) }

def runItem (cfg : Cfg M K R) (eqv : Eqv M) (x : Sess M K R) : Item M K → Sess M K R
  | .idle a => { x with ls := idle x.ls (toAct cfg x.s x.nw a) }
  | .call op sched =>
    let r := Coll.step cfg x.s op
    let acts := sched.map (toAct cfg r.2 (x.nw + 1))
    match eventsOf r.1 with
    | [] => { s := r.2, ls := acts.foldl idle x.ls, nw := x.nw + 1 }
    | e :: es => { s := r.2, ls := send (deliver cfg eqv (e :: es)) x.ls acts, nw := x.nw + 1 }

def runSession (cfg : Cfg M K R) (eqv : Eqv M) (x : Sess M K R) (items : List (Item M K)) : Sess M K R :=
  items.foldl (runItem cfg eqv) x

/-- the writer's calls of a session, in order -/
def callsOf : List (Item M K) → List (COp M K)
  | [] => []
  | .idle _ :: rest => callsOf rest
  | .call op _ :: rest => op :: callsOf rest

def sactIds : List (SAct K) → List Nat
  | [] => []
  | .listen i _ :: rest => i :: sactIds rest
  | _ :: rest => sactIds rest

/-- the identities of the `Pull`s a session opens, in order -/
def listenIds : List (Item M K) → List Nat
  | [] => []
  | .idle a :: rest => sactIds [a] ++ listenIds rest
  | .call _ sched :: rest => sactIds sched ++ listenIds rest

/-- the eager bookkeeping of who is subscribed: a `Pull` adds its identity, a cancel removes it -/
def eagerIds (ids : List Nat) : List (SAct K) → List Nat
  | [] => ids
  | .visit :: rest => eagerIds ids rest
  | .listen i _ :: rest => eagerIds (ids ++ [i]) rest
  | .cancel i :: rest => eagerIds (ids.filter (· ≠ i)) rest

def sactsOf : List (Item M K) → List (SAct K)
  | [] => []
  | .idle a :: rest => a :: sactsOf rest
  | .call _ sched :: rest => sched ++ sactsOf rest

/-! ## lemmas -/

theorem run_append (cfg : Cfg M K R) (a b : List (COp M K)) :
    ∀ s : CState M R, Coll.run cfg s (a ++ b) =
      ((Coll.run cfg s a).1 ++ (Coll.run cfg (Coll.run cfg s a).2 b).1, (Coll.run cfg (Coll.run cfg s a).2 b).2) := by
  induction a with
  | nil => intro s; simp [Coll.run]
  | cons op ops ih => intro s; simp only [List.cons_append, Coll.run, ih]

/-- the stream is compositional: one more call adds exactly its forwarded events -/
theorem collStream_snoc (cfg : Cfg M K R) (eqv : Eqv M) (o : SubOpts K) (s : CState M R) (ops : List (COp M K))
    (op : COp M K) :
    collStream cfg eqv o s (ops ++ [op]) =
      collStream cfg eqv o s ops ++
        (eventsOf (Coll.step cfg (Coll.run cfg s ops).2 op).1).filterMap (collForward cfg eqv o) := by
  simp only [collStream, busEvents, run_append, List.flatMap_append, List.filterMap_append, List.append_assoc]
  congr 2
  simp [Coll.run]

theorem collStream_nil (cfg : Cfg M K R) (eqv : Eqv M) (o : SubOpts K) (s : CState M R) :
    collStream cfg eqv o s [] = collSeed cfg s o := by
  simp [collStream, busEvents, Coll.run]

/-- what every live subscriber has been sent: its seed from the state at its registration, then the
forwarded events of every later call -/
def StreamOK (cfg : Cfg M K R) (eqv : Eqv M) (s0 : CState M R) (ws : List (COp M K)) (st : SubSt M K) : Prop :=
  st.regAt ≤ ws.length ∧
  st.got = collStream cfg eqv st.opts (Coll.run cfg s0 (ws.take st.regAt)).2 (ws.drop st.regAt)

structure Good (cfg : Cfg M K R) (eqv : Eqv M) (s0 : CState M R) (x : Sess M K R) (ws : List (COp M K)) : Prop where
  state : x.s = (Coll.run cfg s0 ws).2
  count : x.nw = ws.length
  streams : ∀ p ∈ view x.ls, StreamOK cfg eqv s0 ws p.2

theorem streamOK_new (cfg : Cfg M K R) (eqv : Eqv M) (s0 : CState M R) (ws : List (COp M K)) (o : SubOpts K) :
    StreamOK cfg eqv s0 ws { opts := o, got := collSeed cfg (Coll.run cfg s0 ws).2 o, regAt := ws.length } := by
  refine ⟨Nat.le_refl _, ?_⟩
  simp [collStream_nil]

theorem streamOK_snoc (cfg : Cfg M K R) (eqv : Eqv M) (s0 : CState M R) (ws : List (COp M K)) (op : COp M K)
    (st : SubSt M K) (h : StreamOK cfg eqv s0 ws st) :
    StreamOK cfg eqv s0 (ws ++ [op])
      (deliver cfg eqv (eventsOf (Coll.step cfg (Coll.run cfg s0 ws).2 op).1) st) := by
  obtain ⟨h1, h2⟩ := h
  refine ⟨by simp only [deliver, List.length_append, List.length_singleton]; omega, ?_⟩
  simp only [deliver]
  rw [List.take_append_of_le_length h1, List.drop_append_of_le_length h1, collStream_snoc, h2]
  congr 3
  have := run_append cfg (ws.take st.regAt) (ws.drop st.regAt) s0
  rw [List.take_append_drop] at this
  rw [this]

theorem sactIds_eq (cfg : Cfg M K R) (s : CState M R) (nw : Nat) (sched : List (SAct K)) :
    schedIds (sched.map (toAct (M := M) cfg s nw)) = sactIds sched := by
  induction sched with
  | nil => rfl
  | cons a rest ih => cases a <;> simp [toAct, schedIds, sactIds, ih]

theorem fold_idle_view {ι σ : Type} [DecidableEq ι] (acts : List (Act ι σ)) :
    ∀ ls : List (Lsn ι σ), view (acts.foldl idle ls) = acts.foldl eagerAct (view ls) := by
  induction acts with
  | nil => intro ls; rfl
  | cons a rest ih => intro ls; simp only [List.foldl_cons, ih, idle_view]

theorem forall_fold_eagerAct {ι σ : Type} [DecidableEq ι] (P : σ → Prop) (acts : List (Act ι σ)) (v : List (ι × σ))
    (hv : ∀ p ∈ v, P p.2) (ha : ∀ i st, (Act.listen i st : Act ι σ) ∈ acts → P st) :
    ∀ p ∈ acts.foldl eagerAct v, P p.2 := by
  intro p hp
  rcases mem_fold_eagerAct acts v p hp with h | h
  · exact hv p h
  · exact ha _ _ h

theorem deliver_nil (cfg : Cfg M K R) (eqv : Eqv M) (st : SubSt M K) : deliver cfg eqv [] st = st := by
  simp [deliver]

theorem mem_toAct_listen (cfg : Cfg M K R) (s : CState M R) (nw : Nat) (sched : List (SAct K)) (i : Nat)
    (st : SubSt M K) (h : (Act.listen i st : Act Nat (SubSt M K)) ∈ sched.map (toAct cfg s nw)) :
    ∃ o, st = { opts := o, got := collSeed cfg s o, regAt := nw } := by
  simp only [List.mem_map] at h
  obtain ⟨a, _, ha⟩ := h
  cases a with
  | visit => simp [toAct] at ha
  | cancel j => simp [toAct] at ha
  | listen j o =>
    simp only [toAct, Act.listen.injEq] at ha
    exact ⟨o, ha.2.symm⟩

theorem run_snoc_state (cfg : Cfg M K R) (s0 : CState M R) (ws : List (COp M K)) (op : COp M K) :
    (Coll.run cfg s0 (ws ++ [op])).2 = (Coll.step cfg (Coll.run cfg s0 ws).2 op).2 := by
  rw [run_append]; simp [Coll.run]

/-- one item of a session keeps every live subscriber's stream exact, whatever the churn -/
theorem runItem_good (cfg : Cfg M K R) (eqv : Eqv M) (s0 : CState M R) (x : Sess M K R) (ws : List (COp M K))
    (item : Item M K) (hg : Good cfg eqv s0 x ws)
    (hn : (x.ls.map (·.id) ++ listenIds [item]).Nodup) :
    Good cfg eqv s0 (runItem cfg eqv x item) (ws ++ callsOf [item]) ∧
    ((runItem cfg eqv x item).ls.map (·.id)).Sublist (x.ls.map (·.id) ++ listenIds [item]) := by
  cases item with
  | idle a =>
    simp only [callsOf, List.append_nil, runItem, listenIds]
    refine ⟨⟨hg.state, hg.count, ?_⟩, ?_⟩
    · simp only [idle_view]
      cases a with
      | visit => exact hg.streams
      | cancel j =>
        intro p hp
        simp only [toAct, eagerAct, List.mem_filter] at hp
        exact hg.streams p hp.1
      | listen j o =>
        intro p hp
        simp only [toAct, eagerAct, List.mem_append, List.mem_singleton] at hp
        rcases hp with hp | hp
        · exact hg.streams p hp
        · subst hp
          simp only [hg.state, hg.count]
          exact streamOK_new cfg eqv s0 ws o
    · cases a with
      | visit => simp [toAct, idle, sactIds]
      | cancel j => simp [toAct, idle, sactIds, ids_markDead]
      | listen j o => simp [toAct, idle, sactIds, register]
  | call op sched =>
    simp only [callsOf, listenIds, List.append_nil] at hn ⊢
    have hstate : (Coll.step cfg x.s op).2 = (Coll.run cfg s0 (ws ++ [op])).2 := by
      rw [run_snoc_state, hg.state]
    have hcount : x.nw + 1 = (ws ++ [op]).length := by simp [hg.count]
    have hnew : ∀ i st, (Act.listen i st : Act Nat (SubSt M K)) ∈
        sched.map (toAct cfg (Coll.step cfg x.s op).2 (x.nw + 1)) → StreamOK cfg eqv s0 (ws ++ [op]) st := by
      intro i st h
      obtain ⟨o, ho⟩ := mem_toAct_listen cfg _ _ sched i st h
      subst ho
      rw [hstate, hcount]
      exact streamOK_new cfg eqv s0 (ws ++ [op]) o
    have hold : ∀ p ∈ view x.ls, StreamOK cfg eqv s0 (ws ++ [op])
        (deliver cfg eqv (eventsOf (Coll.step cfg x.s op).1) p.2) := by
      intro p hp
      have := streamOK_snoc cfg eqv s0 ws op p.2 (hg.streams p hp)
      rw [← hg.state] at this
      exact this
    simp only [runItem]
    split
    · rename_i hev
      refine ⟨⟨hstate, hcount, ?_⟩, ?_⟩
      · rw [fold_idle_view]
        refine forall_fold_eagerAct _ _ _ ?_ hnew
        intro p hp
        have := hold p hp
        rw [hev, deliver_nil] at this
        exact this
      · rw [ids_fold_idle, sactIds_eq]
        exact List.Sublist.refl _
    · rename_i e es hev
      have hn' : (x.ls.map (·.id)).Nodup := (List.nodup_append.mp hn).1
      have hfresh : freshSched (x.ls.map (·.id)) (sched.map (toAct (M := M) cfg (Coll.step cfg x.s op).2 (x.nw + 1))) := by
        apply freshSched_of_nodup
        rw [sactIds_eq]; exact hn
      refine ⟨⟨hstate, hcount, ?_⟩, ?_⟩
      · rw [(send_view _ _ _ hn' hfresh).1]
        refine forall_fold_eagerAct _ _ _ ?_ hnew
        intro p hp
        simp only [List.mem_map] at hp
        obtain ⟨q, hq, rfl⟩ := hp
        have := hold q hq
        rw [hev] at this
        exact this
      · have := ids_send_sublist (deliver cfg eqv (e :: es)) x.ls (sched.map (toAct cfg (Coll.step cfg x.s op).2 (x.nw + 1)))
        rw [sactIds_eq] at this
        exact this

theorem listenIds_cons (item : Item M K) (rest : List (Item M K)) :
    listenIds (item :: rest) = listenIds [item] ++ listenIds rest := by
  cases item <;> simp [listenIds]

theorem callsOf_cons (item : Item M K) (rest : List (Item M K)) :
    callsOf (item :: rest) = callsOf [item] ++ callsOf rest := by
  cases item <;> simp [callsOf]

theorem runSession_good (cfg : Cfg M K R) (eqv : Eqv M) (s0 : CState M R) (items : List (Item M K)) :
    ∀ (x : Sess M K R) (ws : List (COp M K)), Good cfg eqv s0 x ws →
      (x.ls.map (·.id) ++ listenIds items).Nodup →
      Good cfg eqv s0 (runSession cfg eqv x items) (ws ++ callsOf items) ∧
      ((runSession cfg eqv x items).ls.map (·.id)).Nodup := by
  induction items with
  | nil =>
    intro x ws hg hn
    simp only [listenIds, List.append_nil] at hn
    simpa [runSession, callsOf] using And.intro hg hn
  | cons item rest ih =>
    intro x ws hg hn
    rw [listenIds_cons, ← List.append_assoc] at hn
    obtain ⟨h1, h2⟩ := runItem_good cfg eqv s0 x ws item hg (List.nodup_append.mp hn).1
    have hn' : ((runItem cfg eqv x item).ls.map (·.id) ++ listenIds rest).Nodup :=
      (List.Sublist.append h2 (List.Sublist.refl _)).nodup hn
    have := ih _ _ h1 hn'
    rw [callsOf_cons, ← List.append_assoc]
    exact this

/-- bookkeeping of identities through the bus steps equals the eager bookkeeping of the session -/
theorem fold_ids_toAct (cfg : Cfg M K R) (s : CState M R) (nw : Nat) (sched : List (SAct K)) :
    ∀ ids : List Nat,
      (sched.map (toAct (M := M) cfg s nw)).foldl idsStep ids = eagerIds ids sched := by
  induction sched with
  | nil => intro ids; rfl
  | cons a rest ih =>
    intro ids
    cases a <;> simp only [List.map_cons, List.foldl_cons, toAct, eagerIds, idsStep, ih]

theorem eagerIds_append (a b : List (SAct K)) : ∀ ids, eagerIds ids (a ++ b) = eagerIds (eagerIds ids a) b := by
  induction a with
  | nil => intro ids; rfl
  | cons x xs ih => intro ids; cases x <;> simp only [List.cons_append, eagerIds, ih]

theorem runItem_ids (cfg : Cfg M K R) (eqv : Eqv M) (x : Sess M K R) (item : Item M K)
    (hn : (x.ls.map (·.id) ++ listenIds [item]).Nodup) :
    (view (runItem cfg eqv x item).ls).map (·.1) = eagerIds ((view x.ls).map (·.1)) (sactsOf [item]) := by
  cases item with
  | idle a =>
    simp only [runItem, idle_view, sactsOf]
    cases a <;> simp [toAct, eagerAct, eagerIds, List.filter_map] <;> rfl
  | call op sched =>
    simp only [listenIds, List.append_nil] at hn
    simp only [runItem, sactsOf, List.append_nil]
    split
    · rw [fold_idle_view, ids_fold_eagerAct, fold_ids_toAct]
    · have hn' : (x.ls.map (·.id)).Nodup := (List.nodup_append.mp hn).1
      have hfresh : freshSched (x.ls.map (·.id)) (sched.map (toAct (M := M) cfg (Coll.step cfg x.s op).2 (x.nw + 1))) := by
        apply freshSched_of_nodup
        rw [sactIds_eq]; exact hn
      rw [(send_view _ _ _ hn' hfresh).1, ids_fold_eagerAct, fold_ids_toAct, List.map_map]
      rfl

theorem sactsOf_cons (item : Item M K) (rest : List (Item M K)) :
    sactsOf (item :: rest) = sactsOf [item] ++ sactsOf rest := by
  cases item <;> simp [sactsOf]

theorem runSession_ids (cfg : Cfg M K R) (eqv : Eqv M) (s0 : CState M R) (items : List (Item M K)) :
    ∀ (x : Sess M K R) (ws : List (COp M K)), Good cfg eqv s0 x ws →
      (x.ls.map (·.id) ++ listenIds items).Nodup →
      (view (runSession cfg eqv x items).ls).map (·.1) = eagerIds ((view x.ls).map (·.1)) (sactsOf items) := by
  induction items with
  | nil => intro x ws _ _; rfl
  | cons item rest ih =>
    intro x ws hg hn
    rw [listenIds_cons, ← List.append_assoc] at hn
    have hn1 := (List.nodup_append.mp hn).1
    obtain ⟨h1, h2⟩ := runItem_good cfg eqv s0 x ws item hg hn1
    have hn' : ((runItem cfg eqv x item).ls.map (·.id) ++ listenIds rest).Nodup :=
      (List.Sublist.append h2 (List.Sublist.refl _)).nodup hn
    have := ih _ _ h1 hn'
    rw [sactsOf_cons, eagerIds_append, ← runItem_ids cfg eqv x item hn1]
    exact this

end ScVerif.C04
