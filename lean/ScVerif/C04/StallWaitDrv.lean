import ScVerif.C04.Drv
import ScVerif.C04.PropsStallWait
/-!
# C04 — the driver's Collection subscriptions as listeners of the no-deadline `Send`

`tryC`: what `l.send` does at a driver subscription when a Collection write announces `evs`: a held
subscription whose forwarder already holds a change does not take another (`none`: the writer waits);
any other is handed the change (`dC`: a held one with a free forwarder keeps it in `handC`).  `wakeC`:
its consumer receives again (the driver's `resume`).  The hypotheses of
`C04_waiting_send_serves_everyone` / `C04_waiting_send_is_resume_then_send` hold for them on EVERY
listener list, so the driver's answer to `stallw` (resume, then `publish` = the bus model's `send`) is
the outcome of the waiting Send the theorems are about.
-/
namespace ScVerif.C04
open ScVerif.C01

def tryC (cfg : FCfg) (eqv : Eqv Msg) (evs : List (CEvent Msg)) (sb : Sub) : Option Sub :=
  if sb.held && !sb.handC.isEmpty then none else some (dC cfg eqv evs sb)

def wakeC (sb : Sub) : Sub := { sb with held := false, handC := [] }

theorem tryC_wake (cfg : FCfg) (eqv : Eqv Msg) (evs : List (CEvent Msg)) (sb : Sub) :
    tryC cfg eqv evs sb = none → (tryC cfg eqv evs (wakeC sb)).isSome = true := by
  intro _; simp [tryC, wakeC]

theorem tryC_resumed (cfg : FCfg) (eqv : Eqv Msg) (evs : List (CEvent Msg)) (ls : List (Lsn String Sub)) :
    ∀ l ∈ resumeStalled (tryC cfg eqv evs) wakeC ls, l.alive = true →
      tryC cfg eqv evs l.st = some (dC cfg eqv evs l.st) := by
  intro l hl _
  have hns := resumeStalled_none_stalled (tryC cfg eqv evs) wakeC (tryC_wake cfg eqv evs) ls l hl
  unfold tryC at hns ⊢
  split
  · rename_i hc
    simp [stalledAt, hc] at hns
    simp_all
  · rfl

/-- the driver's `collBlocked` is "some live listener is stalled" -/
theorem collBlocked_iff (st : DrvState) (cfg : FCfg) (evs : List (CEvent Msg)) (hne : evs ≠ []) :
    collBlocked st evs = true ↔ ∃ l ∈ st.subs, stalledAt (tryC cfg st.eqv evs) l = true := by
  simp only [collBlocked, live, List.any_map, List.any_filter, Bool.and_eq_true, Bool.not_eq_true',
    List.isEmpty_eq_false_iff, ne_eq, hne, not_false_eq_true, true_and, List.any_eq_true, stalledAt, tryC,
    Function.comp]
  constructor
  · rintro ⟨l, hl, ha, hh, hc⟩
    exact ⟨l, hl, ha, by simp [hh, hc]⟩
  · rintro ⟨l, hl, ha, hs⟩
    refine ⟨l, hl, ha, ?_⟩
    simpa using hs

/-- the waiting Send over the driver's subscriptions: it returns, and leaves the live listeners of the
bus model's `send` after the stalled consumers were resumed -/
theorem driver_waiting_send (cfg : FCfg) (eqv : Eqv Msg) (evs : List (CEvent Msg)) (ls : List (Lsn String Sub))
    (hn : (ls.map (·.id)).Nodup) :
    ∃ r, sendWaitLoop (tryC cfg eqv evs) wakeC ls = some r ∧
      view r = view (send (dC cfg eqv evs) (resumeStalled (tryC cfg eqv evs) wakeC ls) []) :=
  C04_waiting_send_is_resume_then_send (tryC cfg eqv evs) wakeC (dC cfg eqv evs) (tryC_wake cfg eqv evs) ls hn
    (tryC_resumed cfg eqv evs ls)

end ScVerif.C04
