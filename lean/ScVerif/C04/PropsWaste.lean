import ScVerif.C04.Waste
/-!
# C04 at trait level — `wastepb` `PullWasteRecords`: history + seed + updates

`seed = state at subscription; no change committed around the moment of subscribing is missed`, for the
stream the `PullWasteRecords` handler composes from the record history and a `Value.Pull`.

* `C04_waste_adds_reach_quiet`, `C04_waste_stream_quiet_partial`: whenever no `AddWasteRecord` is between
  its two steps, a stream that is not updates-only sends exactly the last 50 records (fewer if there are
  fewer), oldest first, then every record added later, each once, all projected by the read mask.
* `C04_waste_midadd_record_missed_fails`: KNOWN FINDING `C04/wastepb.PullWasteRecords/newest-record-missed-during-add` - a
  stream opened while an `AddWasteRecord` is between its `Set` and its append sends the history WITHOUT its
  last record (the handler leaves it to the seed), and the seed IS ALREADY the record being added: the
  newest completed record is sent by nobody, although a stream opened just before or just after would
  have sent it.
* `C04_waste_midadd_rest_partial`: what that stream does send is right for every other record.
* `C04_waste_session_streams`: every session of one writer, a stream opened at any point of it.
-/
namespace ScVerif.C04

variable {R : Type}

/-- from ANY state, complete `AddWasteRecord`s (at least one, or starting quiet) end in a quiet state whose
history is the old one followed by the added records -/
theorem C04_waste_adds_reach_quiet (m : Waste R) (rs : List R) (h : m.Quiet ∨ rs ≠ []) :
    (rs.foldl Waste.add m).Quiet ∧ (rs.foldl Waste.add m).hist = m.hist ++ rs :=
  ⟨Waste.foldl_add_quiet rs m h, Waste.foldl_add_hist rs m⟩

/-- quiet state: the stream is the last 50 records followed by every later record, each once, in order,
projected; updates-only: the later records only -/
theorem C04_waste_stream_quiet_partial (proj : R → R) (m : Waste R) (hq : m.Quiet) (later : List R) :
    wasteStream proj false m later = (m.hist.drop (m.hist.length - 50) ++ later).map proj
    ∧ wasteStream proj true m later = later.map proj := by
  constructor
  · have := wasteWindow_quiet m hq
    simp only [wasteStream, Bool.false_eq_true, if_false, List.map_append]
    rw [← this]; simp
  · simp [wasteStream]

/-- the finding: `m` quiet with newest record `b`; `AddWasteRecord c` has done its `Set` (state `m.set c`)
and not yet its append when the stream opens; afterwards the bus hands the listener `c` (the publication
of that `Set`, if it was still to come: `dup`) and the records `later`.  The stream is the last 49 records
BEFORE `b`, then `c` … : `b` is in it only if another record projects to the same message - while the
stream opened once the add is complete does send `b`. -/
theorem C04_waste_midadd_record_missed_fails (proj : R → R) (h : List R) (b c : R) (v : R)
    (dup later : List R)
    (hb : proj b ∉ h.map proj) (hc : proj b ≠ proj c) (hd : proj b ∉ dup.map proj)
    (hl : proj b ∉ later.map proj) :
    let m : Waste R := ⟨h ++ [b], v⟩
    wasteStream proj false (m.set c) (dup ++ later)
        = (h.drop (h.length + 1 - 50)).map proj ++ proj c :: (dup ++ later).map proj
    ∧ proj b ∉ wasteStream proj false (m.set c) (dup ++ later)
    ∧ proj b ∈ wasteStream proj false (m.add c) later := by
  intro m
  have hs : wasteStream proj false (m.set c) (dup ++ later)
        = (h.drop (h.length + 1 - 50)).map proj ++ proj c :: (dup ++ later).map proj := by
    simp [wasteStream, Waste.set, m, wasteWindow_concat]
  refine ⟨hs, ?_, ?_⟩
  · rw [hs]
    simp only [List.mem_append, List.mem_cons, List.map_append, not_or]
    refine ⟨?_, hc, hd, hl⟩
    intro hm
    obtain ⟨x, hx, hxe⟩ := List.mem_map.mp hm
    exact hb (List.mem_map.mpr ⟨x, List.mem_of_mem_drop hx, hxe⟩)
  · have hq : (m.add c).Quiet := m.add_quiet c
    rw [(C04_waste_stream_quiet_partial proj (m.add c) hq later).1]
    apply List.mem_map_of_mem
    apply List.mem_append_left
    have hh : (m.add c).hist = h ++ [b, c] := by simp [Waste.add, Waste.set, Waste.append, m]
    rw [hh]
    have hle : (h ++ [b, c]).length - 50 ≤ h.length := by
      simp only [List.length_append, List.length_cons, List.length_nil]; omega
    rw [List.drop_append_of_le_length hle]
    simp

/-- apart from that one record the mid-add stream is the stream of the completed add: the same records
before `b`, the same seed `c`, the same later records -/
theorem C04_waste_midadd_rest_partial (proj : R → R) (h : List R) (b c v : R) (later : List R)
    (hlen : h.length + 2 ≤ 50) :
    let m : Waste R := ⟨h ++ [b], v⟩
    wasteStream proj false (m.set c) later = h.map proj ++ proj c :: later.map proj
    ∧ wasteStream proj false (m.add c) later = h.map proj ++ proj b :: proj c :: later.map proj := by
  intro m
  constructor
  · have h0 : h.length + 1 - 50 = 0 := by omega
    simp [wasteStream, Waste.set, m, wasteWindow_concat, h0]
  · have hq : (m.add c).Quiet := m.add_quiet c
    rw [(C04_waste_stream_quiet_partial proj (m.add c) hq later).1]
    have hh : (m.add c).hist = h ++ [b, c] := by simp [Waste.add, Waste.set, Waste.append, m]
    have h0 : (h ++ [b, c]).length - 50 = 0 := by
      simp only [List.length_append, List.length_cons, List.length_nil]; omega
    rw [hh, h0]; simp

/-- EVERY session of one writer (any sequence of `Set` / append steps of `AddWasteRecord`s, from a quiet
state), a stream opened at ANY point of it: if no add is in flight the stream is complete - the last 50
committed records, then the later ones; if one is (`c` set, not appended) the committed records are
`h ++ [b, c]` and the stream is exactly the complete stream of the history `h ++ [c]` - as if `b` had never
been added. -/
theorem C04_waste_session_streams (proj : R → R) (s0 : WSess R) (h0 : s0.pending = none) (hq : s0.m.Quiet)
    (ops : List (WOp R)) (later : List R) :
    let s := ops.foldl WSess.step s0
    (s.pending = none →
      wasteStream proj false s.m later = (s.committed.drop (s.committed.length - 50) ++ later).map proj)
    ∧ (∀ c, s.pending = some c → ∃ h b, s.committed = h ++ [b, c] ∧
      wasteStream proj false s.m later = ((h ++ [c]).drop ((h ++ [c]).length - 50) ++ later).map proj) := by
  intro s
  have hs : s.Shape := WSess.foldl_shape ops s0 (Or.inl ⟨h0, hq⟩)
  constructor
  · intro hp
    rcases hs with ⟨_, hq'⟩ | ⟨h, b, c, hp', _⟩
    · have := (C04_waste_stream_quiet_partial proj s.m hq' later).1
      simpa [WSess.committed, hp] using this
    · rw [hp] at hp'; cases hp'
  · intro c hp
    rcases hs with ⟨hp', _⟩ | ⟨h, b, c', hp', hm⟩
    · rw [hp] at hp'; cases hp'
    · have hc : c' = c := by rw [hp] at hp'; injection hp' with e; exact e.symm
      subst hc
      refine ⟨h, b, by simp [WSess.committed, hp, hm], ?_⟩
      have hle : (h ++ [c']).length - 50 ≤ h.length := by
        simp only [List.length_append, List.length_singleton]; omega
      rw [List.drop_append_of_le_length hle]
      simp [wasteStream, hm, wasteWindow_concat]

/-- non-vacuity: history a, b; `c` being added; the stream sends a, c, c, d - never b -/
example : wasteStream (id : String → String) false ((⟨["a", "b"], "b"⟩ : Waste String).set "c") (["c"] ++ ["d"])
    = ["a", "c", "c", "d"] := by decide

example : wasteStream (id : String → String) false ((⟨["a", "b"], "b"⟩ : Waste String).add "c") ["d"]
    = ["a", "b", "c", "d"] := by decide

example : (⟨["a", "b"], "b"⟩ : Waste String).Quiet := rfl

/-- a session: add c completely, then the `Set` of d: committed a, b, c, d - the stream is that of a, b, d -/
example : ([WOp.set "c", .append, .set "d"].foldl WSess.step (⟨⟨["a", "b"], "b"⟩, none⟩ : WSess String)).committed
      = ["a", "b"] ++ ["c", "d"]
    ∧ wasteStream id false ([WOp.set "c", .append, .set "d"].foldl WSess.step (⟨⟨["a", "b"], "b"⟩, none⟩ : WSess String)).m ["e"]
      = ["a", "b", "d", "e"] := by decide

/-- the window: 120 records -> 49 historical ones + the seed -/
example : (wasteWindow (List.replicate 120 ())).length = 49 ∧ wasteWindow [()] = [] ∧ wasteWindow ([] : List Unit) = [] := by
  decide

end ScVerif.C04
