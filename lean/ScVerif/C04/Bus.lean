/-!
# C04 — the bus's listener list under subscriber churn (`internal/minibus/bus.go`)

`Bus.Listen` appends a listener; cancelling a subscription's context only marks its listener dead — it
stays in `b.listeners` until some `Send` notices (`l.send` reports `active = false`) and calls
`collect`, which re-reads `b.listeners` under the write lock and keeps the listeners that are alive.
`Send` works on a *snapshot* of the list, so listeners may register and contexts may be cancelled
while it delivers.  This file models one `Send` as a small-step machine whose steps interleave, in any
order, with `Listen` and cancel steps, and proves that — for every such schedule — the live
listeners afterwards are exactly what an *eager* bus (cancel removes at once, `Send` delivers to every
listener registered before it started) would have: nobody alive is lost, nobody is served twice.

Generic in the listener identity `ι` and in the per-listener subscription state `σ` (what the
subscriber has received so far); `d : σ → σ` is "deliver this `Send`'s event".
-/
namespace ScVerif.C04

variable {ι σ : Type} [DecidableEq ι]

/-- a registered listener: its identity, whether its context is still live, the subscription it feeds -/
structure Lsn (ι σ : Type) where
  id : ι
  alive : Bool := true
  st : σ

/-- what can happen on a bus while one `Send` is in flight -/
inductive Act (ι σ : Type)
  /-- the loop of `Send` visits the next listener of its snapshot (`l.send`) -/
  | visit
  /-- `Bus.Listen` appends a new listener -/
  | listen (id : ι) (st : σ)
  /-- the context of a listener is cancelled -/
  | cancel (id : ι)

/-- `Send` in flight: the bus's list, the part of the snapshot not yet visited, `needGc` -/
structure SendSt (ι σ : Type) where
  ls : List (Lsn ι σ)
  todo : List ι
  needGc : Bool

def isAlive (i : ι) (ls : List (Lsn ι σ)) : Bool := ls.any (fun l => decide (l.id = i) && l.alive)

def deliverTo (d : σ → σ) (i : ι) (ls : List (Lsn ι σ)) : List (Lsn ι σ) :=
  ls.map (fun l => if l.id = i then { l with st := d l.st } else l)

def markDead (i : ι) (ls : List (Lsn ι σ)) : List (Lsn ι σ) :=
  ls.map (fun l => if l.id = i then { l with alive := false } else l)

/-- `Bus.Listen` -/
def register (ls : List (Lsn ι σ)) (i : ι) (st : σ) : List (Lsn ι σ) := ls ++ [{ id := i, alive := true, st := st }]

/-- `Bus.collect`: re-read the list, keep the listeners that are alive -/
def collect (ls : List (Lsn ι σ)) : List (Lsn ι σ) := ls.filter (·.alive)

/-- one step while a `Send` is in flight -/
def act (d : σ → σ) (s : SendSt ι σ) : Act ι σ → SendSt ι σ
  | .visit =>
    match s.todo with
    | [] => s
    | i :: rest =>
      -- `l.send`: a live listener is handed the event, a cancelled one reports `active = false`
      if isAlive i s.ls then { s with ls := deliverTo d i s.ls, todo := rest }
      else { s with todo := rest, needGc := true }
  | .listen i st => { s with ls := register s.ls i st }
  | .cancel i => { s with ls := markDead i s.ls }

/-- the loop of `Send` runs to its end -/
def finish (d : σ → σ) (s : SendSt ι σ) : SendSt ι σ :=
  (List.replicate s.todo.length (Act.visit : Act ι σ)).foldl (act d) s

/-- `Bus.Send` with whatever else happens meanwhile (`sched`; visits beyond the snapshot are no-ops,
visits the schedule leaves out are made at the end): snapshot, deliver, `collect` iff a dead listener
was met. -/
def send (d : σ → σ) (ls : List (Lsn ι σ)) (sched : List (Act ι σ)) : List (Lsn ι σ) :=
  let s := finish d (sched.foldl (act d) { ls := ls, todo := ls.map (·.id), needGc := false })
  if s.needGc then collect s.ls else s.ls

/-- NOT the code — a tempting shortcut kept here only to show that the theorems tell it apart (see
`PropsChurn.lean`): `collect` swaps in the listeners the delivery loop found active instead of
re-reading the list under the lock. -/
def sendSwap (d : σ → σ) (ls : List (Lsn ι σ)) (sched : List (Act ι σ)) : List (Lsn ι σ) :=
  let s := finish d (sched.foldl (act d) { ls := ls, todo := ls.map (·.id), needGc := false })
  if s.needGc then s.ls.filter (fun l => l.alive && ls.any (fun l0 => decide (l0.id = l.id))) else s.ls

/-- churn while no `Send` is in flight -/
def idle (ls : List (Lsn ι σ)) : Act ι σ → List (Lsn ι σ)
  | .visit => ls
  | .listen i st => register ls i st
  | .cancel i => markDead i ls

/-! ## the eager bus -/

/-- what the live subscriptions are: identity and state, in registration order -/
def view (ls : List (Lsn ι σ)) : List (ι × σ) := (ls.filter (·.alive)).map (fun l => (l.id, l.st))

def eagerAct (v : List (ι × σ)) : Act ι σ → List (ι × σ)
  | .visit => v
  | .listen i st => v ++ [(i, st)]
  | .cancel i => v.filter (fun p => p.1 ≠ i)

/-- the schedule registers only fresh identities -/
def freshSched : List ι → List (Act ι σ) → Prop
  | _, [] => True
  | ids, .listen i _ :: rest => i ∉ ids ∧ freshSched (i :: ids) rest
  | ids, _ :: rest => freshSched ids rest

/-! ## refinement -/

/-- abstraction of a `Send` in flight: listeners still to be visited count as already served -/
def absn (d : σ → σ) (s : SendSt ι σ) : List (ι × σ) :=
  (s.ls.filter (·.alive)).map (fun l => (l.id, if l.id ∈ s.todo then d l.st else l.st))

structure Inv (s : SendSt ι σ) : Prop where
  nodup : (s.ls.map (·.id)).Nodup
  todoNodup : s.todo.Nodup
  todoSub : ∀ i ∈ s.todo, i ∈ s.ls.map (·.id)

theorem filter_alive_deliverTo (d : σ → σ) (i : ι) (ls : List (Lsn ι σ)) :
    (deliverTo d i ls).filter (·.alive) = deliverTo d i (ls.filter (·.alive)) := by
  induction ls with
  | nil => rfl
  | cons l ls ih =>
    simp only [deliverTo, List.map_cons, List.filter_cons] at ih ⊢
    by_cases hi : l.id = i <;> cases ha : l.alive <;> simp [hi, ha, ih]

theorem ids_deliverTo (d : σ → σ) (i : ι) (ls : List (Lsn ι σ)) :
    (deliverTo d i ls).map (·.id) = ls.map (·.id) := by
  induction ls with
  | nil => rfl
  | cons l ls ih =>
    simp only [deliverTo, List.map_cons] at ih ⊢
    by_cases hi : l.id = i <;> simp [hi, ih]

theorem ids_markDead (i : ι) (ls : List (Lsn ι σ)) : (markDead i ls).map (·.id) = ls.map (·.id) := by
  induction ls with
  | nil => rfl
  | cons l ls ih =>
    simp only [markDead, List.map_cons] at ih ⊢
    by_cases hi : l.id = i <;> simp [hi, ih]

theorem isAlive_false_of {i : ι} {ls : List (Lsn ι σ)} (h : isAlive i ls = false) :
    ∀ l ∈ ls, l.alive = true → l.id ≠ i := by
  intro l hl ha hid
  have : isAlive i ls = true := by
    simp only [isAlive, List.any_eq_true, Bool.and_eq_true, decide_eq_true_eq]
    exact ⟨l, hl, hid, ha⟩
  rw [h] at this; cases this

theorem act_inv (d : σ → σ) (s : SendSt ι σ) (a : Act ι σ) (hs : Inv s)
    (hf : ∀ i st, a = .listen i st → i ∉ s.ls.map (·.id)) : Inv (act d s a) := by
  cases a with
  | visit =>
    simp only [act]
    split
    · exact hs
    · rename_i i rest htodo
      have hn := hs.todoNodup
      rw [htodo] at hn
      have hsub : ∀ j ∈ rest, j ∈ s.ls.map (·.id) := fun j hj => hs.todoSub j (by rw [htodo]; exact List.mem_cons_of_mem _ hj)
      split
      · exact ⟨by simp only [ids_deliverTo]; exact hs.nodup, (List.nodup_cons.mp hn).2,
          by simp only [ids_deliverTo]; exact hsub⟩
      · exact ⟨hs.nodup, (List.nodup_cons.mp hn).2, hsub⟩
  | listen i st =>
    have hfresh := hf i st rfl
    refine ⟨?_, hs.todoNodup, ?_⟩
    · simp only [act, register, List.map_append, List.map_cons, List.map_nil]
      rw [List.nodup_append]
      refine ⟨hs.nodup, by simp, ?_⟩
      intro a ha b hb
      simp only [List.mem_singleton] at hb
      subst hb
      intro hab; subst hab; exact hfresh ha
    · intro j hj
      simp only [act, register, List.map_append, List.mem_append]
      exact Or.inl (hs.todoSub j hj)
  | cancel i =>
    exact ⟨by simp only [act, ids_markDead]; exact hs.nodup, hs.todoNodup,
      by simp only [act, ids_markDead]; exact hs.todoSub⟩

theorem view_markDead (f : Lsn ι σ → σ) (i : ι) (ls : List (Lsn ι σ)) :
    ((markDead i ls).filter (·.alive)).map (fun l => (l.id, f l)) =
      (((ls.filter (·.alive)).map (fun l => (l.id, f l))).filter (fun p => p.1 ≠ i)) := by
  induction ls with
  | nil => rfl
  | cons l ls ih =>
    simp only [markDead, List.map_cons, List.filter_cons] at ih ⊢
    by_cases hi : l.id = i <;> cases ha : l.alive <;> simp [hi, ha, ih]

/-- every step of a `Send` in flight is the corresponding step of the eager bus -/
theorem absn_act (d : σ → σ) (s : SendSt ι σ) (a : Act ι σ) (hs : Inv s)
    (hf : ∀ i st, a = .listen i st → i ∉ s.ls.map (·.id)) :
    absn d (act d s a) = eagerAct (absn d s) a := by
  cases a with
  | visit =>
    simp only [act, eagerAct]
    split
    · rfl
    · rename_i i rest htodo
      have hn := hs.todoNodup
      rw [htodo] at hn
      have hirest : i ∉ rest := (List.nodup_cons.mp hn).1
      split
      · -- delivered now instead of "in advance"
        simp only [absn, htodo, filter_alive_deliverTo]
        simp only [deliverTo, List.map_map]
        apply List.map_congr_left
        intro l _
        by_cases hi : l.id = i
        · simp [hi, hirest]
        · simp [hi]
      · rename_i hdead
        have hne := isAlive_false_of (Bool.eq_false_iff.mpr hdead)
        simp only [absn, htodo]
        apply List.map_congr_left
        intro l hl
        simp only [List.mem_filter] at hl
        have := hne l hl.1 hl.2
        simp [this]
  | listen i st =>
    have hfresh := hf i st rfl
    have hnt : i ∉ s.todo := fun h => hfresh (hs.todoSub i h)
    simp [act, eagerAct, absn, register, List.filter_append, hnt]
    intro a _ _; rfl
  | cancel i =>
    simp only [act, eagerAct, absn]
    exact view_markDead (fun l => if l.id ∈ s.todo then d l.st else l.st) i s.ls

/-- ids registered by a schedule stay fresh along the run -/
theorem ids_act (d : σ → σ) (s : SendSt ι σ) (a : Act ι σ) :
    (act d s a).ls.map (·.id) = match a with
      | .listen i _ => s.ls.map (·.id) ++ [i]
      | _ => s.ls.map (·.id) := by
  cases a with
  | visit =>
    simp only [act]
    split
    · rfl
    · split
      · simp only [ids_deliverTo]
      · rfl
  | listen i st => simp [act, register]
  | cancel i => simp only [act, ids_markDead]

theorem fold_act (d : σ → σ) (sched : List (Act ι σ)) :
    ∀ (s : SendSt ι σ) (ids : List ι), Inv s → (∀ i, i ∈ s.ls.map (·.id) → i ∈ ids) → freshSched ids sched →
      Inv (sched.foldl (act d) s) ∧ absn d (sched.foldl (act d) s) = sched.foldl eagerAct (absn d s) := by
  induction sched with
  | nil => intro s ids hs _ _; exact ⟨hs, rfl⟩
  | cons a rest ih =>
    intro s ids hs hsub hfr
    simp only [List.foldl_cons]
    cases a with
    | visit =>
      have h1 := act_inv d s .visit hs (by intro i st h; cases h)
      have h2 := absn_act d s .visit hs (by intro i st h; cases h)
      have hids := ids_act d s .visit
      rw [← h2]
      exact ih _ ids h1 (by rw [hids]; exact hsub) hfr
    | cancel j =>
      have h1 := act_inv d s (.cancel j) hs (by intro i st h; cases h)
      have h2 := absn_act d s (.cancel j) hs (by intro i st h; cases h)
      have hids := ids_act d s (.cancel j)
      rw [← h2]
      exact ih _ ids h1 (by rw [hids]; exact hsub) hfr
    | listen j st =>
      obtain ⟨hj, hfr'⟩ := hfr
      have hfj : ∀ i st', (Act.listen j st : Act ι σ) = .listen i st' → i ∉ s.ls.map (·.id) := by
        intro i st' h; cases h; exact fun hm => hj (hsub _ hm)
      have h1 := act_inv d s (.listen j st) hs hfj
      have h2 := absn_act d s (.listen j st) hs hfj
      have hids := ids_act d s (.listen j st)
      rw [← h2]
      refine ih _ (j :: ids) h1 ?_ hfr'
      intro i hi
      rw [hids] at hi
      simp only [List.mem_append, List.mem_singleton] at hi
      rcases hi with hi | hi
      · exact List.mem_cons_of_mem _ (hsub i hi)
      · subst hi; exact List.mem_cons_self

theorem finish_spec (d : σ → σ) (s : SendSt ι σ) (hs : Inv s) :
    (finish d s).todo = [] ∧ absn d (finish d s) = absn d s := by
  have key : ∀ (n : Nat) (s : SendSt ι σ), Inv s → s.todo.length = n →
      ((List.replicate n (Act.visit : Act ι σ)).foldl (act d) s).todo = [] ∧
      absn d ((List.replicate n (Act.visit : Act ι σ)).foldl (act d) s) = absn d s := by
    intro n
    induction n with
    | zero =>
      intro s _ hl
      exact ⟨List.eq_nil_of_length_eq_zero hl, rfl⟩
    | succ n ih =>
      intro s hs hl
      simp only [List.replicate_succ, List.foldl_cons]
      have h1 := act_inv d s .visit hs (by intro i st h; cases h)
      have h2 := absn_act d s .visit hs (by intro i st h; cases h)
      have hlen : (act d s .visit).todo.length = n := by
        cases htodo : s.todo with
        | nil => rw [htodo] at hl; simp at hl
        | cons i rest =>
          rw [htodo] at hl
          simp only [List.length_cons] at hl
          simp only [act, htodo]
          split <;> (show rest.length = n; omega)
      obtain ⟨r1, r2⟩ := ih _ h1 hlen
      exact ⟨r1, by rw [r2, h2]; rfl⟩
  exact key _ s hs rfl

omit [DecidableEq ι] in
theorem view_collect (ls : List (Lsn ι σ)) : view (collect ls) = view ls := by
  simp [view, collect, List.filter_filter]

theorem absn_done (d : σ → σ) (s : SendSt ι σ) (h : s.todo = []) : absn d s = view s.ls := by
  simp [absn, view, h]

/-- **One `Send` under arbitrary churn.**  Whatever listeners register (with fresh identities) and
whatever contexts are cancelled while the `Send` delivers, and wherever in the delivery loop that
happens, the live listeners afterwards are those of the eager bus: every listener that was live when
the `Send` started has been served exactly once (unless cancelled meanwhile, then it is gone), every
listener registered meanwhile is still registered and has not been served, in registration order. -/
theorem send_view (d : σ → σ) (ls : List (Lsn ι σ)) (sched : List (Act ι σ))
    (hn : (ls.map (·.id)).Nodup) (hf : freshSched (ls.map (·.id)) sched) :
    view (send d ls sched) = sched.foldl eagerAct ((view ls).map (fun p => (p.1, d p.2))) ∧
    ((send d ls sched).map (·.id)).Nodup := by
  have h0 : Inv ({ ls := ls, todo := ls.map (·.id), needGc := false } : SendSt ι σ) :=
    ⟨hn, hn, fun i hi => hi⟩
  obtain ⟨h1, h2⟩ := fold_act d sched _ (ls.map (·.id)) h0 (fun i hi => hi) hf
  obtain ⟨f1, f2⟩ := finish_spec d _ h1
  have habs0 : absn d ({ ls := ls, todo := ls.map (·.id), needGc := false } : SendSt ι σ) =
      (view ls).map (fun p => (p.1, d p.2)) := by
    simp only [absn, view, List.map_map]
    apply List.map_congr_left
    intro l hl
    simp only [List.mem_filter] at hl
    have : l.id ∈ ls.map (·.id) := List.mem_map_of_mem hl.1
    simp [this]
  have hview : view (finish d (sched.foldl (act d) { ls := ls, todo := ls.map (·.id), needGc := false })).ls =
      sched.foldl eagerAct ((view ls).map (fun p => (p.1, d p.2))) := by
    rw [← absn_done d _ f1, f2, h2, habs0]
  have hfin : Inv (finish d (sched.foldl (act d) { ls := ls, todo := ls.map (·.id), needGc := false })) := by
    have key : ∀ (n : Nat) (s : SendSt ι σ), Inv s →
        Inv ((List.replicate n (Act.visit : Act ι σ)).foldl (act d) s) := by
      intro n
      induction n with
      | zero => intro s hs; exact hs
      | succ n ih =>
        intro s hs
        simp only [List.replicate_succ, List.foldl_cons]
        exact ih _ (act_inv d s .visit hs (by intro i st h; cases h))
    exact key _ _ h1
  unfold send
  simp only []
  split
  · refine ⟨by rw [view_collect]; exact hview, ?_⟩
    have := hfin.nodup
    unfold collect
    exact (List.Sublist.map _ List.filter_sublist).nodup this
  · exact ⟨hview, hfin.nodup⟩

/-- churn while no `Send` is in flight is the eager bus's churn -/
theorem idle_view (ls : List (Lsn ι σ)) (a : Act ι σ) : view (idle ls a) = eagerAct (view ls) a := by
  cases a with
  | visit => rfl
  | listen i st => simp [idle, view, register, eagerAct, List.filter_append]
  | cancel i => exact view_markDead (fun l => l.st) i ls

/-- the identities a schedule registers, in order -/
def schedIds : List (Act ι σ) → List ι
  | [] => []
  | .listen i _ :: rest => i :: schedIds rest
  | _ :: rest => schedIds rest

omit [DecidableEq ι] in
theorem freshSched_of_nodup (sched : List (Act ι σ)) :
    ∀ ids : List ι, (ids ++ schedIds sched).Nodup → freshSched ids sched := by
  induction sched with
  | nil => intro _ _; trivial
  | cons a rest ih =>
    intro ids h
    cases a with
    | visit => exact ih ids h
    | cancel j => exact ih ids h
    | listen j st =>
      simp only [schedIds] at h
      refine ⟨?_, ih (j :: ids) ?_⟩
      · intro hj
        rw [List.nodup_append] at h
        exact h.2.2 j hj j List.mem_cons_self rfl
      · have hp : (j :: ids ++ schedIds rest).Perm (ids ++ j :: schedIds rest) := by
          simpa using (List.perm_middle (l₁ := ids) (l₂ := schedIds rest) (a := j)).symm
        exact hp.nodup_iff.mpr h

theorem ids_fold_act (d : σ → σ) (sched : List (Act ι σ)) :
    ∀ s : SendSt ι σ, (sched.foldl (act d) s).ls.map (·.id) = s.ls.map (·.id) ++ schedIds sched := by
  induction sched with
  | nil => intro s; simp [schedIds]
  | cons a rest ih =>
    intro s
    simp only [List.foldl_cons]
    rw [ih, ids_act]
    cases a <;> simp [schedIds]

theorem ids_fold_idle (sched : List (Act ι σ)) :
    ∀ ls : List (Lsn ι σ), (sched.foldl idle ls).map (·.id) = ls.map (·.id) ++ schedIds sched := by
  induction sched with
  | nil => intro s; simp [schedIds]
  | cons a rest ih =>
    intro ls
    simp only [List.foldl_cons]
    rw [ih]
    cases a with
    | visit => simp [idle, schedIds]
    | listen i st => simp [idle, register, schedIds]
    | cancel i => simp [idle, ids_markDead, schedIds]

/-- a `Send` only ever appends the identities its schedule registers and drops some: nothing is
reordered or invented -/
theorem ids_send_sublist (d : σ → σ) (ls : List (Lsn ι σ)) (sched : List (Act ι σ)) :
    ((send d ls sched).map (·.id)).Sublist (ls.map (·.id) ++ schedIds sched) := by
  have hfin : ∀ (n : Nat) (s : SendSt ι σ),
      ((List.replicate n (Act.visit : Act ι σ)).foldl (act d) s).ls.map (·.id) = s.ls.map (·.id) := by
    intro n
    induction n with
    | zero => intro s; rfl
    | succ n ih =>
      intro s
      simp only [List.replicate_succ, List.foldl_cons]
      rw [ih, ids_act]
  unfold send
  simp only []
  split
  · unfold collect
    refine (List.Sublist.map _ List.filter_sublist).trans ?_
    unfold finish
    rw [hfin, ids_fold_act]
    exact List.Sublist.refl _
  · unfold finish
    rw [hfin, ids_fold_act]
    exact List.Sublist.refl _

omit [DecidableEq ι] in
/-- who is in the eager bus after a schedule: who was there, or who the schedule registered -/
theorem mem_fold_eagerAct [DecidableEq ι] (sched : List (Act ι σ)) :
    ∀ (v : List (ι × σ)) (p : ι × σ), p ∈ sched.foldl eagerAct v →
      p ∈ v ∨ (Act.listen p.1 p.2 : Act ι σ) ∈ sched := by
  induction sched with
  | nil => intro v p h; exact Or.inl h
  | cons a rest ih =>
    intro v p h
    simp only [List.foldl_cons] at h
    rcases ih _ p h with h1 | h1
    · cases a with
      | visit => exact Or.inl h1
      | cancel j =>
        simp only [eagerAct, List.mem_filter] at h1
        exact Or.inl h1.1
      | listen j st =>
        simp only [eagerAct, List.mem_append, List.mem_singleton] at h1
        rcases h1 with h1 | h1
        · exact Or.inl h1
        · subst h1; exact Or.inr List.mem_cons_self
    · exact Or.inr (List.mem_cons_of_mem _ h1)

/-- the eager bookkeeping of who is registered -/
def idsStep (ids : List ι) : Act ι σ → List ι
  | .visit => ids
  | .listen i _ => ids ++ [i]
  | .cancel i => ids.filter (· ≠ i)

/-- nobody alive is lost: the identities of the eager bus after a schedule are those before, minus
the cancelled ones, plus the registered ones that were not cancelled later -/
theorem ids_fold_eagerAct (sched : List (Act ι σ)) :
    ∀ (v : List (ι × σ)), (sched.foldl eagerAct v).map (·.1) = sched.foldl idsStep (v.map (·.1)) := by
  induction sched with
  | nil => intro v; rfl
  | cons a rest ih =>
    intro v
    simp only [List.foldl_cons]
    rw [ih]
    congr 1
    cases a with
    | visit => rfl
    | listen i st => simp [eagerAct, idsStep]
    | cancel i =>
      simp only [eagerAct, idsStep, List.filter_map]
      rfl

end ScVerif.C04
