import ScVerif.C04.GSplit
/-!
# C04 — sessions in which subscribers also register between a write's commit and its publication

The session theorems of `PropsSession.lean` let subscriptions open and be cancelled between the writer's
calls and at any point of a `Send`'s delivery.  The code has one more point: between the commit of a
write (value stored, lock released) and the snapshot its `Send` takes of the listeners
(`value.set.beforeSend`, `coll.update.beforeSend` - the K4 family `raceb` parks the write there).
`C04_commit_publish_session_streams` covers it for EVERY feed (Collection.Pull, PullID, Value.Pull) and
every session: calls are split in `commit op` and `publish` (`GSplit.lean`), subscriptions open and are
cancelled anywhere - between calls, between a commit and its publication, during the delivery.
-/
namespace ScVerif.C04

variable {S Op E O σ : Type}

/-- every subscriber live at the end either registered between two calls (after `k` of them) and holds
exactly `gStream` - its seed from the state then, every later call's events once, in order - or registered
between the commit and the publication of the call `op` number `k`: it is seeded with the state that
write left, is handed the events of that very write (the stale duplicate: its seed already shows them),
and then the events of every later call once, in order: nothing is missed in either case.  The live
subscribers are exactly those opened and not cancelled, in order. -/
theorem C04_commit_publish_session_streams (F : Feed S Op E O σ) (s0 : S) (ops : List Op)
    (items : List (GItem (SplitOp Op) O)) (hcalls : gCallsOf items = splitOps ops)
    (hfresh : (gListenIds items).Nodup) :
    (∀ p ∈ view (gRunSession (splitFeed F) { s := (s0, []), ls := [], nw := 0 } items).ls,
      (∃ k, p.2.regAt = 2 * k ∧ k ≤ ops.length ∧
        p.2.st = gStream F p.2.o (gRun F s0 (ops.take k)).2 (ops.drop k)) ∨
      (∃ k op, p.2.regAt = 2 * k + 1 ∧ ops[k]? = some op ∧
        p.2.st = (gRun F (F.step (gRun F s0 (ops.take k)).2 op).2 (ops.drop (k + 1))).1.foldl
          (fun st evs => F.fwd evs st)
          (F.fwd (F.step (gRun F s0 (ops.take k)).2 op).1
            (F.open (F.step (gRun F s0 (ops.take k)).2 op).2 p.2.o)))) ∧
    (view (gRunSession (splitFeed F) { s := (s0, []), ls := [], nw := 0 } items).ls).map (·.1) =
      gEagerIds [] (gActsOf items) := by
  obtain ⟨h1, h2, _⟩ := gSession_streams (splitFeed F) (s0, []) items hfresh
  refine ⟨?_, h2⟩
  intro p hp
  obtain ⟨hle, hst⟩ := h1 p hp
  rw [hcalls] at hle hst
  rw [splitOps_length] at hle
  obtain ⟨k, hk⟩ : ∃ k, p.2.regAt = 2 * k ∨ p.2.regAt = 2 * k + 1 := ⟨p.2.regAt / 2, by omega⟩
  rcases hk with hk | hk
  · left
    rw [hk] at hst hle
    refine ⟨k, hk, by omega, ?_⟩
    rw [hst, splitOps_take_even, splitOps_drop_even, (gRun_split F _ s0).1, gStream_split_even]
  · right
    rw [hk] at hst hle
    have hlt : k < ops.length := by omega
    refine ⟨k, ops[k], hk, List.getElem?_eq_getElem hlt, ?_⟩
    rw [hst, splitOps_take_odd ops _ _ (List.getElem?_eq_getElem hlt), splitOps_drop_odd ops _ hlt]
    have hs := (gRun_split F (ops.take k) s0).1
    rw [gRun_append]
    simp only [gRun, hs]
    exact gStream_split_odd F p.2.o (gRun F s0 (ops.take k)).2 ops[k] (ops.drop (k + 1))

/-- non-vacuity: sessions whose calls are a split history exist, e.g. one write with a subscriber
registering between its commit and its publication -/
example : gCallsOf ([.call (.commit ()) [], .idle (.listen 0 ()), .call .publish []] : List (GItem (SplitOp Unit) Unit))
    = splitOps [()] ∧ (gListenIds ([.call (.commit ()) [], .idle (.listen 0 ()), .call .publish []] : List (GItem (SplitOp Unit) Unit))).Nodup := by
  simp [gCallsOf, splitOps, gListenIds, gActIds]

end ScVerif.C04
