import ScVerif.C04.GSession
/-!
# C04 — a write as TWO steps of the session: commit, then publication

`GSession.lean` runs a call of the writer as one step (`F.step`) followed by its `Send`.  In the code a
subscriber can also register BETWEEN the commit of a write and the snapshot its `Send` takes of the
listeners (`value.set.beforeSend` / `coll.update.beforeSend`): it is seeded with the written state AND is
in the snapshot.  `splitFeed F` is the feed whose calls are `commit op` (changes the state, announces
nothing, remembers the events) and `publish` (announces the remembered events): a session of `splitFeed F`
is a session of `F` in which subscriptions also open and are cancelled between a commit and its
publication, and `gSession_streams` applies to it as it stands.
-/
namespace ScVerif.C04

variable {S Op E O σ : Type}

inductive SplitOp (Op : Type) where
  | commit (op : Op)
  | publish

def splitStep (F : Feed S Op E O σ) (x : S × List E) : SplitOp Op → List E × (S × List E)
  | .commit op => ([], ((F.step x.1 op).2, (F.step x.1 op).1))
  | .publish => (x.2, (x.1, []))

def splitFeed (F : Feed S Op E O σ) : Feed (S × List E) (SplitOp Op) E O σ where
  step := splitStep F
  «open» x o := F.open x.1 o
  fwd := F.fwd
  fwd_nil := F.fwd_nil

/-- the one writer's calls, each as its two steps -/
def splitOps : List Op → List (SplitOp Op)
  | [] => []
  | op :: ops => .commit op :: .publish :: splitOps ops

theorem splitOps_length (ops : List Op) : (splitOps ops).length = 2 * ops.length := by
  induction ops with
  | nil => rfl
  | cons op ops ih => simp only [splitOps, List.length_cons, ih]; omega

theorem splitOps_take_even (ops : List Op) : ∀ k, (splitOps ops).take (2 * k) = splitOps (ops.take k) := by
  induction ops with
  | nil => intro k; simp [splitOps]
  | cons op ops ih =>
    intro k
    cases k with
    | zero => simp [splitOps]
    | succ k =>
      have : 2 * (k + 1) = (2 * k) + 1 + 1 := by omega
      rw [this]; simp [splitOps, ih]

theorem splitOps_drop_even (ops : List Op) : ∀ k, (splitOps ops).drop (2 * k) = splitOps (ops.drop k) := by
  induction ops with
  | nil => intro k; simp [splitOps]
  | cons op ops ih =>
    intro k
    cases k with
    | zero => simp [splitOps]
    | succ k =>
      have : 2 * (k + 1) = (2 * k) + 1 + 1 := by omega
      rw [this]; simp [splitOps, ih]

theorem splitOps_take_odd (ops : List Op) : ∀ k op, ops[k]? = some op →
    (splitOps ops).take (2 * k + 1) = splitOps (ops.take k) ++ [.commit op] := by
  induction ops with
  | nil => intro k op h; simp at h
  | cons a ops ih =>
    intro k op h
    cases k with
    | zero => simp at h; subst h; simp [splitOps]
    | succ k =>
      have : 2 * (k + 1) + 1 = (2 * k + 1) + 1 + 1 := by omega
      rw [this]
      simp only [List.getElem?_cons_succ] at h
      simp [splitOps, ih k op h]

theorem splitOps_drop_odd (ops : List Op) : ∀ k, k < ops.length →
    (splitOps ops).drop (2 * k + 1) = .publish :: splitOps (ops.drop (k + 1)) := by
  induction ops with
  | nil => intro k h; simp at h
  | cons a ops ih =>
    intro k h
    cases k with
    | zero => simp [splitOps]
    | succ k =>
      have : 2 * (k + 1) + 1 = (2 * k + 1) + 1 + 1 := by omega
      rw [this]
      simp only [List.length_cons] at h
      simp [splitOps, ih k (by omega)]

/-- running the split calls = running the calls: every call's events preceded by the empty announcement of
its commit -/
theorem gRun_split (F : Feed S Op E O σ) (ops : List Op) : ∀ s : S,
    (gRun (splitFeed F) (s, []) (splitOps ops)).2 = ((gRun F s ops).2, []) ∧
    ∀ st : σ, (gRun (splitFeed F) (s, []) (splitOps ops)).1.foldl (fun st evs => F.fwd evs st) st
      = (gRun F s ops).1.foldl (fun st evs => F.fwd evs st) st := by
  induction ops with
  | nil => intro s; simp [splitOps, gRun]
  | cons op ops ih =>
    intro s
    obtain ⟨h1, h2⟩ := ih (F.step s op).2
    constructor
    · simpa [splitOps, gRun, splitFeed, splitStep] using h1
    · intro st
      simp only [splitOps, gRun, splitFeed, splitStep, List.foldl_cons, F.fwd_nil]
      exact h2 _

/-- a subscriber that registers between two calls: the stream of `F` -/
theorem gStream_split_even (F : Feed S Op E O σ) (o : O) (s : S) (ops : List Op) :
    gStream (splitFeed F) o (s, []) (splitOps ops) = gStream F o s ops := by
  unfold gStream
  exact (gRun_split F ops s).2 _

/-- a subscriber that registers between the commit of `op` and its publication: seeded with the written
state, handed the events of that write again, then the events of the later calls -/
theorem gStream_split_odd (F : Feed S Op E O σ) (o : O) (s : S) (op : Op) (ops : List Op) :
    gStream (splitFeed F) o ((F.step s op).2, (F.step s op).1) (.publish :: splitOps ops)
      = (gRun F (F.step s op).2 ops).1.foldl (fun st evs => F.fwd evs st)
          (F.fwd (F.step s op).1 (F.open (F.step s op).2 o)) := by
  unfold gStream
  simp only [gRun, splitFeed, splitStep, List.foldl_cons]
  exact (gRun_split F ops (F.step s op).2).2 _

end ScVerif.C04
