import ScVerif.C04.GSession
import ScVerif.C04.BusOnce
/-!
# C04 — what a CANCELLED subscriber has received: a prefix of its stream

`GSession.lean` is about the subscribers that are live at the end.  A subscription that was cancelled —
between two calls or in the middle of a `Send` — stays registered until some `Send` collects it.  For
every listener still registered (live or dead) this file proves: its state is `open` at its
registration folded with `fwd` over the events of the calls up to some call `k` — a prefix of its
stream, nothing skipped, nothing twice — and `k` is the last call if it is live.
-/
namespace ScVerif.C04

variable {S Op E O σ : Type}

def GPrefix (F : Feed S Op E O σ) (s0 : S) (ws : List Op) (p : GSub O σ) : Prop :=
  ∃ k, p.regAt ≤ k ∧ k ≤ ws.length ∧
    p.st = gStream F p.o (gRun F s0 (ws.take p.regAt)).2 ((ws.take k).drop p.regAt)

theorem gPrefix_of_ok (F : Feed S Op E O σ) (s0 : S) (ws : List Op) (p : GSub O σ)
    (h : GStreamOK F s0 ws p) : GPrefix F s0 ws p :=
  ⟨ws.length, h.1, Nat.le_refl _, by rw [List.take_length]; exact h.2⟩

theorem gPrefix_snoc (F : Feed S Op E O σ) (s0 : S) (ws : List Op) (op : Op) (p : GSub O σ)
    (h : GPrefix F s0 ws p) : GPrefix F s0 (ws ++ [op]) p := by
  obtain ⟨k, h1, h2, h3⟩ := h
  refine ⟨k, h1, by simp only [List.length_append, List.length_singleton]; omega, ?_⟩
  rw [List.take_append_of_le_length (Nat.le_trans h1 h2), List.take_append_of_le_length h2]
  exact h3

theorem mem_fold_idle {ι τ : Type} [DecidableEq ι] (acts : List (Act ι τ)) :
    ∀ (ls : List (Lsn ι τ)) (l' : Lsn ι τ), l' ∈ acts.foldl idle ls →
      (∃ l ∈ ls, l.id = l'.id ∧ l.st = l'.st) ∨ (Act.listen l'.id l'.st : Act ι τ) ∈ acts := by
  induction acts with
  | nil => intro ls l' h; exact Or.inl ⟨l', h, rfl, rfl⟩
  | cons a rest ih =>
    intro ls l' h
    simp only [List.foldl_cons] at h
    rcases ih _ l' h with ⟨l1, h1, hid, hst⟩ | h1
    · cases a with
      | visit => exact Or.inl ⟨l1, h1, hid, hst⟩
      | listen i st =>
        simp only [idle, register, List.mem_append, List.mem_singleton] at h1
        rcases h1 with h1 | h1
        · exact Or.inl ⟨l1, h1, hid, hst⟩
        · subst h1
          simp only at hid hst
          exact Or.inr (by rw [← hid, ← hst]; exact List.mem_cons_self)
      | cancel i =>
        simp only [idle, markDead, List.mem_map] at h1
        obtain ⟨l, hl, rfl⟩ := h1
        refine Or.inl ⟨l, hl, ?_, ?_⟩
        · rw [← hid]; split <;> rfl
        · rw [← hst]; split <;> rfl
    · exact Or.inr (List.mem_cons_of_mem _ h1)

theorem mem_view_of_alive {ι τ : Type} (ls : List (Lsn ι τ)) (l : Lsn ι τ) (hl : l ∈ ls) (ha : l.alive = true) :
    (l.id, l.st) ∈ view ls := by
  simp only [view, List.mem_map, List.mem_filter]
  exact ⟨l, ⟨hl, ha⟩, rfl⟩

/-- every registered listener holds a prefix of its stream -/
def AllPrefix (F : Feed S Op E O σ) (s0 : S) (x : GSess S O σ) (ws : List Op) : Prop :=
  ∀ l ∈ x.ls, GPrefix F s0 ws l.st

theorem gRunItem_prefix (F : Feed S Op E O σ) (s0 : S) (x : GSess S O σ) (ws : List Op)
    (item : GItem Op O) (hg : GGood F s0 x ws) (hp : AllPrefix F s0 x ws)
    (hn : (x.ls.map (·.id) ++ gListenIds [item]).Nodup) :
    AllPrefix F s0 (gRunItem F x item) (ws ++ gCallsOf [item]) := by
  cases item with
  | idle a =>
    simp only [gCallsOf, List.append_nil, gRunItem]
    intro l' hl'
    cases a with
    | visit => exact hp l' hl'
    | cancel j =>
      simp only [gToAct, idle, markDead, List.mem_map] at hl'
      obtain ⟨l, hl, rfl⟩ := hl'
      have := hp l hl
      split <;> exact this
    | listen j o =>
      simp only [gToAct, idle, register, List.mem_append, List.mem_singleton] at hl'
      rcases hl' with hl' | hl'
      · exact hp l' hl'
      · subst hl'
        simp only [hg.state, hg.count]
        exact gPrefix_of_ok F s0 ws _ (gStreamOK_new F s0 ws o)
  | call op sched =>
    simp only [gCallsOf, gListenIds, List.append_nil] at hn ⊢
    have hstate : (F.step x.s op).2 = (gRun F s0 (ws ++ [op])).2 := by
      rw [gRun_snoc_state, hg.state]
    have hcount : x.nw + 1 = (ws ++ [op]).length := by simp [hg.count]
    have hnew : ∀ i p, (Act.listen i p : Act Nat (GSub O σ)) ∈
        sched.map (gToAct F (F.step x.s op).2 (x.nw + 1)) → GPrefix F s0 (ws ++ [op]) p := by
      intro i p h
      obtain ⟨o, ho⟩ := mem_gToAct_listen F _ _ sched i p h
      subst ho
      rw [hstate, hcount]
      exact gPrefix_of_ok F s0 _ _ (gStreamOK_new F s0 (ws ++ [op]) o)
    simp only [gRunItem]
    split
    · intro l' hl'
      rcases mem_fold_idle _ _ l' hl' with ⟨l, hl, _, hst⟩ | h
      · have := gPrefix_snoc F s0 ws op l.st (hp l hl)
        rw [hst] at this; exact this
      · exact hnew _ _ h
    · rename_i e es hev
      have hn' : (x.ls.map (·.id)).Nodup := (List.nodup_append.mp hn).1
      have hfresh : freshSched (x.ls.map (·.id)) (sched.map (gToAct F (F.step x.s op).2 (x.nw + 1))) := by
        apply freshSched_of_nodup
        rw [gActIds_eq]; exact hn
      intro l' hl'
      have hraw := send_sub_raw _ _ _ l' hl'
      rcases sendRaw_served _ _ _ hn' hfresh l' hraw with ⟨l0, h0, _, _, hst⟩ | ⟨_, h⟩
      · rcases hst with hst | ⟨hst, halive, _⟩
        · have := gPrefix_snoc F s0 ws op l0.st (hp l0 h0)
          rw [← hst] at this; exact this
        · have hok := hg.streams _ (mem_view_of_alive x.ls l0 h0 halive)
          have := gStreamOK_snoc F s0 ws op l0.st hok
          rw [← hg.state, hev, ← hst] at this
          exact gPrefix_of_ok F s0 _ _ this
      · exact hnew _ _ h

theorem gRunSession_prefix (F : Feed S Op E O σ) (s0 : S) (items : List (GItem Op O)) :
    ∀ (x : GSess S O σ) (ws : List Op), GGood F s0 x ws → AllPrefix F s0 x ws →
      (x.ls.map (·.id) ++ gListenIds items).Nodup →
      AllPrefix F s0 (gRunSession F x items) (ws ++ gCallsOf items) := by
  induction items with
  | nil =>
    intro x ws _ hp _
    simpa [gRunSession, gCallsOf] using hp
  | cons item rest ih =>
    intro x ws hg hp hn
    rw [gListenIds_cons, ← List.append_assoc] at hn
    have hn1 := (List.nodup_append.mp hn).1
    obtain ⟨h1, h2⟩ := gRunItem_good F s0 x ws item hg hn1
    have h3 := gRunItem_prefix F s0 x ws item hg hp hn1
    have hn' : ((gRunItem F x item).ls.map (·.id) ++ gListenIds rest).Nodup :=
      (List.Sublist.append h2 (List.Sublist.refl _)).nodup hn
    have := ih _ _ h1 h3 hn'
    rw [gCallsOf_cons, ← List.append_assoc]
    exact this

/-- from the empty bus: every listener still registered after a session, cancelled or not, holds a
prefix of its stream; a live one holds all of it -/
theorem gSession_prefix (F : Feed S Op E O σ) (s0 : S) (items : List (GItem Op O))
    (hfresh : (gListenIds items).Nodup) :
    ∀ l ∈ (gRunSession F { s := s0, ls := [], nw := 0 } items).ls,
      ∃ k, l.st.regAt ≤ k ∧ k ≤ (gCallsOf items).length ∧ (l.alive = true → k = (gCallsOf items).length) ∧
        l.st.st = gStream F l.st.o (gRun F s0 ((gCallsOf items).take l.st.regAt)).2
          (((gCallsOf items).take k).drop l.st.regAt) := by
  have h0 : GGood F s0 ({ s := s0, ls := [], nw := 0 } : GSess S O σ) [] :=
    ⟨rfl, rfl, by intro p hp; simp [view] at hp⟩
  have hp0 : AllPrefix F s0 ({ s := s0, ls := [], nw := 0 } : GSess S O σ) [] := by
    intro l hl; simp at hl
  have h1 := gRunSession_prefix F s0 items _ [] h0 hp0 (by simpa using hfresh)
  have h2 := (gRunSession_good F s0 items _ [] h0 (by simpa using hfresh)).1
  simp only [List.nil_append] at h1 h2
  intro l hl
  by_cases ha : l.alive = true
  · have hok := h2.streams _ (mem_view_of_alive _ l hl ha)
    exact ⟨(gCallsOf items).length, hok.1, Nat.le_refl _, fun _ => rfl, by rw [List.take_length]; exact hok.2⟩
  · obtain ⟨k, k1, k2, k3⟩ := h1 l hl
    exact ⟨k, k1, k2, fun h => absurd h ha, k3⟩

end ScVerif.C04
