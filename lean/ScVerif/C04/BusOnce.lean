import ScVerif.C04.Bus
/-!
# C04 — a `Send` hands its event to every listener AT MOST once, cancelled ones included

`send_view` (Bus.lean) is about the listeners that are live after a `Send`.  A subscription whose
context is cancelled while the `Send` delivers (or earlier, not yet collected) is still in the snapshot:
this file proves what can have happened to it — and to every other listener still registered before the
garbage collection: it has been handed the event once or not at all, never twice; only if it was live
at the snapshot; a listener registered meanwhile has not been handed it.  Nobody dies and comes back.
-/
namespace ScVerif.C04

variable {ι σ : Type} [DecidableEq ι]

/-- the bus's list when the delivery loop of a `Send` has finished, before `collect` -/
def sendRaw (d : σ → σ) (ls : List (Lsn ι σ)) (sched : List (Act ι σ)) : List (Lsn ι σ) :=
  (finish d (sched.foldl (act d) { ls := ls, todo := ls.map (·.id), needGc := false })).ls

omit [DecidableEq ι] in
theorem collect_sub (ls : List (Lsn ι σ)) : ∀ l ∈ collect ls, l ∈ ls := by
  intro l hl
  exact (List.mem_filter.mp hl).1

/-- after the `Send`, the bus holds the raw list, or what `collect` keeps of it -/
theorem send_sub_raw (d : σ → σ) (ls : List (Lsn ι σ)) (sched : List (Act ι σ)) :
    ∀ l ∈ send d ls sched, l ∈ sendRaw d ls sched := by
  intro l hl
  unfold send at hl
  simp only [] at hl
  split at hl
  · exact collect_sub _ l hl
  · exact hl

/-- what may have happened to listener `l` since the snapshot `ls0` while `todo` is still to be visited -/
def Served (d : σ → σ) (ls0 : List (Lsn ι σ)) (sched : List (Act ι σ)) (todo : List ι) (l : Lsn ι σ) : Prop :=
  (∃ l0 ∈ ls0, l0.id = l.id ∧ (l.alive = true → l0.alive = true) ∧
    (l.st = l0.st ∨ (l.st = d l0.st ∧ l0.alive = true ∧ l.id ∉ todo))) ∨
  (l.id ∉ ls0.map (·.id) ∧ (Act.listen l.id l.st : Act ι σ) ∈ sched)

omit [DecidableEq ι] in
theorem served_mono (d : σ → σ) (ls0 : List (Lsn ι σ)) (sched : List (Act ι σ)) (todo todo' : List ι)
    (l : Lsn ι σ) (hsub : ∀ x, x ∈ todo' → x ∈ todo) (h : Served d ls0 sched todo l) :
    Served d ls0 sched todo' l := by
  rcases h with ⟨l0, h0, hid, hal, hst⟩ | h
  · refine Or.inl ⟨l0, h0, hid, hal, ?_⟩
    rcases hst with hst | ⟨h1, h2, h3⟩
    · exact Or.inl hst
    · exact Or.inr ⟨h1, h2, fun hx => h3 (hsub _ hx)⟩
  · exact Or.inr h

omit [DecidableEq ι] in
theorem eq_of_mem_nodup_ids : ∀ {ls : List (Lsn ι σ)}, (ls.map (·.id)).Nodup →
    ∀ {a b : Lsn ι σ}, a ∈ ls → b ∈ ls → a.id = b.id → a = b := by
  intro ls
  induction ls with
  | nil => intro _ a b ha; simp at ha
  | cons x xs ih =>
    intro hn a b ha hb hab
    simp only [List.map_cons, List.nodup_cons, List.mem_map, not_exists, not_and] at hn
    simp only [List.mem_cons] at ha hb
    rcases ha with ha | ha <;> rcases hb with hb | hb
    · rw [ha, hb]
    · subst ha; exact absurd hab.symm (hn.1 b hb)
    · subst hb; exact absurd hab (hn.1 a ha)
    · exact ih hn.2 ha hb hab

structure Once (d : σ → σ) (ls0 : List (Lsn ι σ)) (sched : List (Act ι σ)) (s : SendSt ι σ) : Prop where
  served : ∀ l ∈ s.ls, Served d ls0 sched s.todo l
  todo0 : ∀ i ∈ s.todo, i ∈ ls0.map (·.id)

theorem act_once (d : σ → σ) (ls0 : List (Lsn ι σ)) (sched : List (Act ι σ)) (s : SendSt ι σ) (a : Act ι σ)
    (hi : Inv s) (ho : Once d ls0 sched s)
    (hf : ∀ i st, a = .listen i st → a ∈ sched ∧ i ∉ ls0.map (·.id)) :
    Once d ls0 sched (act d s a) := by
  cases a with
  | visit =>
    simp only [act]
    split
    · exact ho
    · rename_i i rest htodo
      have hn := hi.todoNodup
      rw [htodo] at hn
      have hirest : i ∉ rest := (List.nodup_cons.mp hn).1
      have hsub : ∀ x, x ∈ rest → x ∈ s.todo := fun x hx => by rw [htodo]; exact List.mem_cons_of_mem _ hx
      have htodo0 : ∀ j ∈ rest, j ∈ ls0.map (·.id) := fun j hj => ho.todo0 j (hsub j hj)
      split
      · rename_i halive
        refine ⟨?_, htodo0⟩
        intro l' hl'
        simp only [deliverTo, List.mem_map] at hl'
        obtain ⟨l, hl, rfl⟩ := hl'
        have hs := ho.served l hl
        by_cases hid : l.id = i
        · simp only [hid, ↓reduceIte]
          rcases hs with ⟨l0, h0, hid0, hal, hst⟩ | ⟨hnot, _⟩
          · -- `l` is the listener being visited: it cannot have been served already
            have hst0 : l.st = l0.st := by
              rcases hst with hst | ⟨_, _, h3⟩
              · exact hst
              · exact absurd (by rw [htodo, hid]; exact List.mem_cons_self) h3
            have hlalive : l.alive = true := by
              simp only [isAlive, List.any_eq_true, Bool.and_eq_true, decide_eq_true_eq] at halive
              obtain ⟨l2, hl2, hid2, hal2⟩ := halive
              have : l2 = l := eq_of_mem_nodup_ids hi.nodup hl2 hl (by rw [hid2, hid])
              rw [← this]; exact hal2
            refine Or.inl ⟨l0, h0, by simpa [hid] using hid0, fun _ => hal hlalive, Or.inr ⟨by simp [hst0], hal hlalive, ?_⟩⟩
            simpa [hid] using hirest
          · exact absurd (ho.todo0 i (by rw [htodo]; exact List.mem_cons_self)) (by rw [← hid]; exact hnot)
        · simp only [hid, ↓reduceIte]
          exact served_mono d ls0 sched s.todo rest l hsub hs
      · refine ⟨?_, htodo0⟩
        intro l hl
        exact served_mono d ls0 sched s.todo rest l hsub (ho.served l hl)
  | listen j st =>
    obtain ⟨hmem, hfresh⟩ := hf j st rfl
    refine ⟨?_, ho.todo0⟩
    intro l hl
    simp only [act, register, List.mem_append, List.mem_singleton] at hl
    rcases hl with hl | hl
    · exact ho.served l hl
    · subst hl
      exact Or.inr ⟨hfresh, hmem⟩
  | cancel j =>
    refine ⟨?_, ho.todo0⟩
    intro l' hl'
    simp only [act, markDead, List.mem_map] at hl'
    obtain ⟨l, hl, rfl⟩ := hl'
    have hs := ho.served l hl
    by_cases hid : l.id = j
    · simp only [hid, ↓reduceIte]
      rcases hs with ⟨l0, h0, hid0, _, hst⟩ | hs
      · exact Or.inl ⟨l0, h0, by simpa [hid] using hid0, by simp, by simpa [hid, act] using hst⟩
      · exact Or.inr (by simpa [hid] using hs)
    · simp only [hid, ↓reduceIte]
      exact hs

theorem fold_once (d : σ → σ) (ls0 : List (Lsn ι σ)) (sched : List (Act ι σ)) (part : List (Act ι σ)) :
    ∀ (s : SendSt ι σ) (ids : List ι), (∀ a ∈ part, a ∈ sched) → Inv s → Once d ls0 sched s →
      (∀ i, i ∈ s.ls.map (·.id) → i ∈ ids) → (∀ i, i ∈ ls0.map (·.id) → i ∈ ids) → freshSched ids part →
      Inv (part.foldl (act d) s) ∧ Once d ls0 sched (part.foldl (act d) s) := by
  induction part with
  | nil => intro s ids _ hi ho _ _ _; exact ⟨hi, ho⟩
  | cons a rest ih =>
    intro s ids hmem hi ho hsub hsub0 hfr
    simp only [List.foldl_cons]
    have hrest : ∀ b ∈ rest, b ∈ sched := fun b hb => hmem b (List.mem_cons_of_mem _ hb)
    cases a with
    | visit =>
      have h1 := act_inv d s .visit hi (by intro i st h; cases h)
      have h2 := act_once d ls0 sched s .visit hi ho (by intro i st h; cases h)
      exact ih _ ids hrest h1 h2 (by rw [ids_act]; exact hsub) hsub0 hfr
    | cancel j =>
      have h1 := act_inv d s (.cancel j) hi (by intro i st h; cases h)
      have h2 := act_once d ls0 sched s (.cancel j) hi ho (by intro i st h; cases h)
      exact ih _ ids hrest h1 h2 (by rw [ids_act]; exact hsub) hsub0 hfr
    | listen j st =>
      obtain ⟨hj, hfr'⟩ := hfr
      have h1 := act_inv d s (.listen j st) hi (by intro i st' h; cases h; exact fun hm => hj (hsub _ hm))
      have h2 := act_once d ls0 sched s (.listen j st) hi ho (by
        intro i st' h; cases h
        exact ⟨hmem _ List.mem_cons_self, fun hm => hj (hsub0 _ hm)⟩)
      refine ih _ (j :: ids) hrest h1 h2 ?_ (fun i hi' => List.mem_cons_of_mem _ (hsub0 i hi')) hfr'
      intro i hi'
      rw [ids_act] at hi'
      simp only [List.mem_append, List.mem_singleton] at hi'
      rcases hi' with hi' | hi'
      · exact List.mem_cons_of_mem _ (hsub i hi')
      · subst hi'; exact List.mem_cons_self

theorem finish_once (d : σ → σ) (ls0 : List (Lsn ι σ)) (sched : List (Act ι σ)) (s : SendSt ι σ)
    (hi : Inv s) (ho : Once d ls0 sched s) : Once d ls0 sched (finish d s) := by
  have key : ∀ (n : Nat) (s : SendSt ι σ), Inv s → Once d ls0 sched s →
      Once d ls0 sched ((List.replicate n (Act.visit : Act ι σ)).foldl (act d) s) := by
    intro n
    induction n with
    | zero => intro s _ ho; exact ho
    | succ n ih =>
      intro s hi ho
      simp only [List.replicate_succ, List.foldl_cons]
      exact ih _ (act_inv d s .visit hi (by intro i st h; cases h))
        (act_once d ls0 sched s .visit hi ho (by intro i st h; cases h))
  exact key _ s hi ho

/-- every listener registered when the delivery loop has finished — live or cancelled — has been
handed the event at most once, and only if it was live at the snapshot -/
theorem sendRaw_served (d : σ → σ) (ls : List (Lsn ι σ)) (sched : List (Act ι σ))
    (hn : (ls.map (·.id)).Nodup) (hf : freshSched (ls.map (·.id)) sched) :
    ∀ l ∈ sendRaw d ls sched, Served d ls sched [] l := by
  have hi0 : Inv ({ ls := ls, todo := ls.map (·.id), needGc := false } : SendSt ι σ) := ⟨hn, hn, fun i hi => hi⟩
  have ho0 : Once d ls sched ({ ls := ls, todo := ls.map (·.id), needGc := false } : SendSt ι σ) := by
    refine ⟨?_, fun i hi => hi⟩
    intro l hl
    exact Or.inl ⟨l, hl, rfl, fun h => h, Or.inl rfl⟩
  obtain ⟨h1, h2⟩ := fold_once d ls sched sched _ (ls.map (·.id)) (fun a ha => ha) hi0 ho0 (fun i hi => hi) (fun i hi => hi) hf
  have h3 := finish_once d ls sched _ h1 h2
  intro l hl
  exact served_mono d ls sched _ [] l (by intro x hx; simp at hx) (h3.served l hl)

end ScVerif.C04
