import ScVerif.C04.Stall
import ScVerif.C04.StallSession
/-!
# C04 — a write announced under a deadline while a subscriber does not take events

`Value.set` stores, then announces through `Bus.Send` with a 5 s deadline, and answers with an error
when the deadline passed.  Model: `Stall.lean` (`sendDlLoop`, `sendDl`); `try_ st = none` = this
subscription's forwarder does not take the event before the deadline.

Finding (recorded, `C04/Value.Pull/event-for-deadline-failed-write`): the write the writer is told has
failed HAS been announced to the subscribers registered before the stalled one.
-/
namespace ScVerif.C04

variable {ι σ : Type}

/-- **What a `Send` that may time out does, for every listener list and every set of stalled
listeners.**  The listeners split at the first stalled one: every listener registered before it is
served exactly as by an undisturbed `Send` (handed the event if live, skipped if cancelled), the
stalled one and EVERY listener registered after it are untouched (no event, state unchanged, still
registered); the `Send` succeeds iff there is no stalled listener.  So a subscriber registered after a
stalled one receives nothing for the write the writer is told has failed (the clause "none for failed
writes" holds for it), and a successful `Send` has served every live listener once. -/
theorem C04_deadline_send_split (try_ : σ → Option σ) (ls : List (Lsn ι σ)) :
    ∃ pre rest, ls = pre ++ rest ∧ (sendDlLoop try_ ls).1 = pre.map (serve try_) ++ rest ∧
      (∀ l ∈ pre, stalledAt try_ l = false) ∧
      ((sendDlLoop try_ ls).2 = true ↔ rest = []) ∧
      (∀ l rest', rest = l :: rest' → stalledAt try_ l = true) :=
  sendDlLoop_split try_ ls

/-- **No stalled listener ⇒ the deadline never matters** (the hypothesis under which "no event for a
failed write" holds for every subscriber): if every live listener takes the event (`try_` agrees with
the delivery function `d`), the `Send` under a deadline succeeds and leaves exactly the live listeners
of the plain `Send` of `Bus.lean` (`send d ls []`: every live listener served once, cancelled ones
collected) — so `Value.set` fails only on the paths that announce nothing. -/
theorem C04_deadline_send_partial [DecidableEq ι] (try_ : σ → Option σ) (d : σ → σ) (ls : List (Lsn ι σ))
    (hn : (ls.map (·.id)).Nodup)
    (h : ∀ l ∈ ls, l.alive = true → try_ l.st = some (d l.st)) :
    (sendDl try_ ls).2 = true ∧ view (sendDl try_ ls).1 = view (send d ls []) := by
  have hall : ∀ l ∈ ls, stalledAt try_ l = false := by
    intro l hl
    cases ha : l.alive with
    | false => simp [stalledAt, ha]
    | true => simp [stalledAt, ha, h l hl ha]
  have hloop := sendDlLoop_all try_ ls hall
  have hsend := (send_view d ls [] hn (by simp [freshSched])).1
  simp only [List.foldl_nil] at hsend
  have hv := view_map_serve try_ d ls h
  unfold sendDl
  simp only [hloop, Bool.true_and]
  split
  · exact ⟨rfl, by rw [view_collect, hv, hsend]⟩
  · exact ⟨rfl, by rw [hv, hsend]⟩

/-- the hypothesis of `C04_deadline_send_partial` is satisfiable with live and cancelled listeners -/
example : ∃ (ls : List (Lsn Nat Nat)), (ls.map (·.id)).Nodup ∧ ls.length = 3 ∧
    (∀ l ∈ ls, l.alive = true → (fun s => some (s + 1)) l.st = some ((· + 1) l.st)) ∧
    view (sendDl (fun s => some (s + 1)) ls).1 = [(0, 1), (2, 8)] :=
  ⟨[{ id := 0, st := 0 }, { id := 1, alive := false, st := 5 }, { id := 2, st := 7 }], by decide, rfl,
   by intro l _ _; rfl, by decide⟩

/-- **The finding.**  Three live subscribers, the second one stalled: the `Send` fails (so `Value.set`
answers "blocked for too long"), yet the first subscriber HAS been handed the event of that write; the
third has not. -/
theorem C04_deadline_failed_write_announced_fails :
    ∃ (try_ : Nat → Option Nat) (ls : List (Lsn Nat Nat)),
      (sendDl try_ ls).2 = false ∧
      (sendDl try_ ls).1.map (·.st) ≠ ls.map (·.st) ∧
      (sendDl try_ ls).1.map (·.st) = [1, 100, 0] :=
  ⟨fun s => if s = 100 then none else some (s + 1),
   [{ id := 0, st := 0 }, { id := 1, st := 100 }, { id := 2, st := 0 }], by decide, by decide, by decide⟩

/-- a failed `Send` never collects and never unregisters anybody: the listener identities are as before -/
theorem C04_deadline_send_keeps_listeners (try_ : σ → Option σ) (ls : List (Lsn ι σ))
    (hf : (sendDl try_ ls).2 = false) :
    (sendDl try_ ls).1.map (·.id) = ls.map (·.id) ∧
    (sendDl try_ ls).1.map (·.alive) = ls.map (·.alive) := by
  obtain ⟨pre, rest, h1, h2, _, _, _⟩ := sendDlLoop_split try_ ls
  have hserve : ∀ l : Lsn ι σ, (serve try_ l).id = l.id ∧ (serve try_ l).alive = l.alive := by
    intro l
    unfold serve
    split
    · split <;> exact ⟨rfl, rfl⟩
    · exact ⟨rfl, rfl⟩
  unfold sendDl at hf ⊢
  simp only [] at hf ⊢
  split
  · rename_i hc
    rw [if_pos hc] at hf
    cases hf
  · rw [h2, h1]
    simp only [List.map_append, List.map_map]
    constructor
    · congr 1
      apply List.map_congr_left
      intro l _
      exact (hserve l).1
    · congr 1
      apply List.map_congr_left
      intro l _
      exact (hserve l).2

/-! ## sessions: `Value.Set`s while consumers stop and resume receiving -/

open ScVerif.C01 in
/-- **Every subscriber's stream under stalled consumers** (all `Value` states, options, equivalences,
all sequences of `Set` / hold / resume over any set of `Value.Pull` subscriptions, cancelled ones
included in the list).  After the session, for every live subscription: what its consumer has
received, followed by what its forwarder still holds for it, is its seed followed by the forwarding
(read mask, equivalence against the last value sent to THIS subscriber) of the bus events `seen` it
was handed; `seen` consists of the events of logged `Set`s in write order, each at most once,
including EVERY `Set` the writer was told succeeded (`Reached`): the only events that can be missing
are those of `Set`s reported as failed; a consumer that is receiving has nothing waiting in its
forwarder. -/
theorem C04_stalled_session_streams {M K R : Type} (cfg : Cfg M K R) (eqv : Eqv M) (x : HSess M K)
    (ops : List (HOp M K)) (hlog : x.log = [])
    (hstart : ∀ l ∈ x.ls, l.st.seen = [] ∧ l.st.hand = [] ∧ l.st.got = l.st.seed ∧ l.st.last = l.st.last0) :
    ∀ l ∈ (hRun cfg eqv x ops).ls, l.alive = true →
      l.st.got ++ l.st.hand = l.st.seed ++ forwardAll cfg eqv l.st.opts l.st.last0 l.st.seen ∧
      Reached (hRun cfg eqv x ops).log l.st.seen ∧
      (l.st.held = false → l.st.hand = []) := by
  have h0 : AllGood cfg eqv x := by
    intro l hl _
    obtain ⟨h1, h2, h3, h4⟩ := hstart l hl
    refine ⟨by simp [h1, h2, h3, forwardAll], by simp [h1, h4, forwardLast], by rw [h1, hlog]; exact Reached.nil,
      fun _ => h2⟩
  intro l hl ha
  have g := hRun_good cfg eqv ops x h0 l hl ha
  exact ⟨g.stream, g.reached, g.free⟩

open ScVerif.C01 in
/-- **…and when no `Set` was reported as failed by the deadline** (every logged write succeeded or
announced nothing and succeeded): every live subscription's stream is its seed followed by the
forwarding of ALL announced events in write order — exactly one event per successful write, the
statement of the property; with the consumer receiving, all of it has been received. -/
theorem C04_stalled_session_partial {M K R : Type} (cfg : Cfg M K R) (eqv : Eqv M) (x : HSess M K)
    (ops : List (HOp M K)) (hlog : x.log = [])
    (hstart : ∀ l ∈ x.ls, l.st.seen = [] ∧ l.st.hand = [] ∧ l.st.got = l.st.seed ∧ l.st.last = l.st.last0)
    (hok : ∀ e ∈ (hRun cfg eqv x ops).log, e.2 = true) :
    ∀ l ∈ (hRun cfg eqv x ops).ls, l.alive = true →
      l.st.got ++ l.st.hand = l.st.seed ++
        forwardAll cfg eqv l.st.opts l.st.last0 (((hRun cfg eqv x ops).log.reverse.map (·.1)).flatten) ∧
      (l.st.held = false → l.st.got = l.st.seed ++
        forwardAll cfg eqv l.st.opts l.st.last0 (((hRun cfg eqv x ops).log.reverse.map (·.1)).flatten)) := by
  intro l hl ha
  obtain ⟨h1, h2, h3⟩ := C04_stalled_session_streams cfg eqv x ops hlog hstart l hl ha
  have hs := reached_all_ok h2 hok
  rw [hs] at h1
  refine ⟨h1, fun hf => ?_⟩
  rw [h3 hf, List.append_nil] at h1
  exact h1

/-- `Reached` allows both outcomes for a write reported as failed (the finding), and only one for a
successful write -/
example : Reached [([2], false), ([1], true)] [1] ∧ Reached [([2], false), ([1], true)] ([1] ++ [2]) :=
  ⟨Reached.miss _ _ _ (Reached.hit [1] true [] [] Reached.nil),
   Reached.hit [2] false _ _ (Reached.hit [1] true [] [] Reached.nil)⟩

end ScVerif.C04
