import ScVerif.C04.PropsSplit
import ScVerif.C04.ValueSession
/-!
# C04 — `Value.Pull` subscribers that register between the commit and the publication of a `Set`

`C04_commit_publish_session_streams` (`PropsSplit.lean`) instantiated for `Value.Set` / `Value.Pull`, the
received stream spelled out with `valSeed` / `forwardAll` (`Pull.lean`).
-/
namespace ScVerif.C04
open ScVerif.C01

variable {M K R : Type}

/-- every `Value.Pull` subscriber live after any session - `Set`s of one writer, subscriptions opening and
being cancelled between the calls, during a `Send`, and between the commit of a `Set` and its publication
(`value.set.beforeSend`) - has been sent: if it registered between two calls, exactly `valStream`; if it
registered between the commit and the publication of call `k`, its seed from the state that `Set` left
(so already showing the written value), then the forwarding - read mask, equivalence against the last
value sent to it, starting with that seed - of the event of that very `Set` followed by the events of all
later calls: with an equivalence that relates equal values the stale duplicate is suppressed, without one
it is delivered once; no later change is missed. -/
theorem C04_value_commit_publish_streams (cfg : Cfg M K R) (eqv : Eqv M) (s0 : VState M)
    (ops : List (VOp M K)) (items : List (GItem (SplitOp (VOp M K)) (SubOpts K)))
    (hcalls : gCallsOf items = splitOps ops) (hfresh : (gListenIds items).Nodup) :
    ∀ p ∈ view (gRunSession (splitFeed (valFeed cfg eqv)) { s := (s0, []), ls := [], nw := 0 } items).ls,
      (∃ k, p.2.regAt = 2 * k ∧ k ≤ ops.length ∧
        p.2.st.got = valStream cfg eqv p.2.o (Value.run cfg s0 (ops.take k)).2 (ops.drop k)) ∨
      (∃ k op, p.2.regAt = 2 * k + 1 ∧ ops[k]? = some op ∧
        p.2.st.got =
          (valSeed cfg (Value.step cfg (Value.run cfg s0 (ops.take k)).2 op).2 p.2.o).1 ++
          forwardAll cfg eqv p.2.o (valSeed cfg (Value.step cfg (Value.run cfg s0 (ops.take k)).2 op).2 p.2.o).2
            (vEventsOf (Value.step cfg (Value.run cfg s0 (ops.take k)).2 op).1 ++
              vBusEvents cfg (Value.step cfg (Value.run cfg s0 (ops.take k)).2 op).2 (ops.drop (k + 1)))) := by
  obtain ⟨h1, _⟩ := C04_commit_publish_session_streams (valFeed cfg eqv) s0 ops items hcalls hfresh
  intro p hp
  rcases h1 p hp with ⟨k, hk, hle, hst⟩ | ⟨k, op, hk, hop, hst⟩
  · left
    refine ⟨k, hk, hle, ?_⟩
    rw [hst, (valFeed_run cfg eqv (ops.take k) s0).2]
    exact (valFeed_stream cfg eqv p.2.o _ _).1
  · right
    refine ⟨k, op, hk, hop, ?_⟩
    rw [hst, (valFeed_run cfg eqv (ops.take k) s0).2, valFeed_fold]
    have hrun := (valFeed_run cfg eqv (ops.drop (k + 1)) (Value.step cfg (Value.run cfg s0 (ops.take k)).2 op).2).1
    simp only [valFeed] at hrun ⊢
    rw [hrun, forwardAll_append, List.append_assoc]

end ScVerif.C04
