import ScVerif.C04.PullIDSession
/-! C04 — lemma for `PropsSplitColl.lean`. -/
namespace ScVerif.C04
open ScVerif.C01

variable {M K R : Type}

/-- a `PullID` forwarder handed the events `evs` and then the event lists `evss`: the loop of `PullID` over
the whole stream -/
theorem pullID_fold_dup (cfg : Cfg M K R) (eqv : Eqv M) (o : SubOpts K) (iid : String)
    (seed evs : List (CEvent M)) (evss : List (List (CEvent M))) :
    evss.foldl (fun st evs => (collFeed cfg eqv).fwd evs st)
        ((collFeed cfg eqv).fwd evs
          (CSubSt.pullID o iid (pullIDLoop iid seed).1 (pullIDLoop iid seed).2))
      = .pullID o iid
          (pullIDLoop iid (seed ++ (evs ++ evss.flatten).filterMap (collForward cfg eqv o))).1
          (pullIDLoop iid (seed ++ (evs ++ evss.flatten).filterMap (collForward cfg eqv o))).2 := by
  simp only [List.filterMap_append, pullIDLoop_append]
  cases h0 : (pullIDLoop iid seed).2 with
  | true =>
    have : (collFeed cfg eqv).fwd evs (CSubSt.pullID o iid (pullIDLoop iid seed).1 true)
        = CSubSt.pullID o iid (pullIDLoop iid seed).1 true := by simp [collFeed]
    rw [this, collFeed_fold_pullID]
    simp [h0]
  | false =>
    have : (collFeed cfg eqv).fwd evs (CSubSt.pullID o iid (pullIDLoop iid seed).1 false)
        = CSubSt.pullID o iid
            ((pullIDLoop iid seed).1 ++ (pullIDLoop iid (evs.filterMap (collForward cfg eqv o))).1)
            (pullIDLoop iid (evs.filterMap (collForward cfg eqv o))).2 := by simp [collFeed]
    rw [this, collFeed_fold_pullID]
    cases h1 : (pullIDLoop iid (evs.filterMap (collForward cfg eqv o))).2 <;> simp [h1]

end ScVerif.C04
