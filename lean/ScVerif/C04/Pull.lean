import ScVerif.C01.Model
/-!
# C04 — the stream a backpressured subscriber receives, as a function of the write history

Builds on C01's sequential model: every write's bus events are in its `COut.events` / `VOut.events`.
With backpressure and one writer at a time nothing is dropped or reordered, so what a subscriber
receives is a function of the state at subscription time, the subscription options and the later
writes.  The definitions FOLLOW `Collection.Pull` / `Value.Pull` (`pkg/resource/{collection,value,
change}.go`): seed from the snapshot (sorted by id, `SeedValue`, `LastSeedValue` on the last, stored
change time), then per bus event: read-mask filter → equivalence.

Pull with an include predicate re-labels events (`CollectionChange.include`); that is C08's subject
and is not part of this model: subscriptions here have no include predicate.
-/
namespace ScVerif.C04
open ScVerif.C01
variable {M K R : Type}

/-- Subscription options (`WithReadMask`, `WithUpdatesOnly`; `WithBackpressure(true)` throughout). -/
structure SubOpts (K : Type) where
  readMask : Option K := none
  updatesOnly : Bool := false

/-- `resource.WithEquivalence`: compares two possibly-nil messages. -/
abbrev Eqv (M : Type) := Option (Option M → Option M → Bool)

/-- `FilterClone` on a possibly-nil message. -/
def filterOpt (ops : MsgOps M K) (mask : Option K) (m : Option M) : Option M := m.map (ops.filter mask)

/-! ## Collection -/

def seedEvent (ops : MsgOps M K) (mask : Option K) (kv : String × Item M) (last : Bool) : CEvent M :=
  { id := kv.1, time := kv.2.time, kind := .add, old := none, new := some (ops.filter mask kv.2.body),
    seed := true, lastSeed := last }

/-- the seed loop of `Collection.Pull` over the sorted snapshot -/
def seedEvents (ops : MsgOps M K) (mask : Option K) : List (String × Item M) → List (CEvent M)
  | [] => []
  | [kv] => [seedEvent ops mask kv true]
  | kv :: rest => seedEvent ops mask kv false :: seedEvents ops mask rest

/-- what `Collection.Pull` sends first -/
def collSeed (cfg : Cfg M K R) (s : CState M R) (o : SubOpts K) : List (CEvent M) :=
  if o.updatesOnly then [] else seedEvents cfg.ops o.readMask (sortById (itemSlice s ({} : ReadReq M K)))

/-- one bus event through the forwarding loop of `Collection.Pull`: filter, then the equivalence on
the change's own (filtered) old and new value -/
def collForward (cfg : Cfg M K R) (eqv : Eqv M) (o : SubOpts K) (e : CEvent M) : Option (CEvent M) :=
  let e' : CEvent M := { e with old := filterOpt cfg.ops o.readMask e.old, new := filterOpt cfg.ops o.readMask e.new }
  match eqv with
  | some f => if f e'.old e'.new then none else some e'
  | none => some e'

def eventsOf : CRes M → List (CEvent M)
  | .wrote o => o.events
  | _ => []

/-- all bus events of a call sequence, in order -/
def busEvents (cfg : Cfg M K R) (s : CState M R) (ops : List (COp M K)) : List (CEvent M) :=
  (Coll.run cfg s ops).1.flatMap eventsOf

/-- The stream received by a subscriber that subscribes in state `s` and then watches `ops`. -/
def collStream (cfg : Cfg M K R) (eqv : Eqv M) (o : SubOpts K) (s : CState M R) (ops : List (COp M K)) :
    List (CEvent M) :=
  collSeed cfg s o ++ (busEvents cfg s ops).filterMap (collForward cfg eqv o)

/-! ## Value -/

/-- `ValueChange` as delivered -/
structure VDeliv (M : Type) where
  value : M
  time : Int
  seed : Bool
  lastSeed : Bool

/-- what `Value.Pull` sends first, and its `last` -/
def valSeed (cfg : Cfg M K R) (s : VState M) (o : SubOpts K) : List (VDeliv M) × Option M :=
  if o.updatesOnly then ([], none)
  else match s.value with
    | none => ([], none)
    | some v =>
      let fv := cfg.ops.filter o.readMask v
      ([{ value := fv, time := s.changeTime, seed := true, lastSeed := true }], some fv)

/-- one bus event through the forwarding loop of `Value.Pull`: filter, then the equivalence against
the last value sent -/
def valForward (cfg : Cfg M K R) (eqv : Eqv M) (o : SubOpts K) (last : Option M) (e : VEvent M) :
    Option (VDeliv M) × Option M :=
  let v := cfg.ops.filter o.readMask e.value
  let d : VDeliv M := { value := v, time := e.time, seed := false, lastSeed := false }
  match eqv with
  | some f => if f last (some v) then (none, last) else (some d, some v)
  | none => (some d, some v)

def forwardAll (cfg : Cfg M K R) (eqv : Eqv M) (o : SubOpts K) : Option M → List (VEvent M) → List (VDeliv M)
  | _, [] => []
  | last, e :: es =>
    match valForward cfg eqv o last e with
    | (some d, last') => d :: forwardAll cfg eqv o last' es
    | (none, last') => forwardAll cfg eqv o last' es

def vEventsOf : VRes M → List (VEvent M)
  | .wrote o => o.events
  | _ => []

def vBusEvents (cfg : Cfg M K R) (s : VState M) (ops : List (VOp M K)) : List (VEvent M) :=
  (Value.run cfg s ops).1.flatMap vEventsOf

def valStream (cfg : Cfg M K R) (eqv : Eqv M) (o : SubOpts K) (s : VState M) (ops : List (VOp M K)) :
    List (VDeliv M) :=
  (valSeed cfg s o).1 ++ forwardAll cfg eqv o (valSeed cfg s o).2 (vBusEvents cfg s ops)


/-! ## PullID

`Collection.PullID(id)` runs a `Pull` with the same options and forwards, as `ValueChange`s, the
changes of the one (intercepted) id: other ids are skipped, a REMOVE of the id ends the stream (the
channel is closed, nothing more is forwarded), so does a change without a new value.  The single seed
value of the item is flagged seed AND last-seed (fix 9e0ecc3: it used to copy the collection seed's
last-seed flag, which is only set on the item with the greatest id). -/

def toDeliv (e : CEvent M) (v : M) : VDeliv M :=
  { value := v, time := e.time, seed := e.seed, lastSeed := e.seed }

/-- the forwarding loop of `PullID` over what its `Pull` delivers: (forwarded, ended) -/
def pullIDLoop (id : String) : List (CEvent M) → List (VDeliv M) × Bool
  | [] => ([], false)
  | e :: es =>
    if e.id ≠ id then pullIDLoop id es
    else if e.kind = .remove then ([], true)
    else match e.new with
      | none => ([], true)
      | some v => ((toDeliv e v) :: (pullIDLoop id es).1, (pullIDLoop id es).2)

/-- what a `PullID` subscriber that subscribes in state `s` receives while `ops` run, and whether its
stream has ended -/
def pullIDStream (cfg : Cfg M K R) (eqv : Eqv M) (o : SubOpts K) (s : CState M R) (id : String)
    (ops : List (COp M K)) : List (VDeliv M) × Bool :=
  pullIDLoop (icptId cfg id) (collStream cfg eqv o s ops)

/-! ## A subscriber that opens while a write is in flight

`Collection.onUpdate` / `Value.onUpdate` take the snapshot for the seed and register on the bus while
holding `mu.RLock` (the `defer RUnlock` runs after `bus.Listen`), and a write commits under `mu.Lock`:
subscribing is ONE atomic step with respect to commits.  A write is two steps, commit and publish
(`Delete` publishes while still holding the lock: one step).  So one subscribe and one write interleave
in exactly three ways. -/
inductive SubOrder
  /-- subscribe, then commit and publish: seed without the write, event delivered -/
  | subFirst
  /-- commit, subscribe, publish: the seed already has the write, its event arrives afterwards -/
  | subBetween
  /-- commit and publish, then subscribe: seed has the write, nothing to deliver -/
  | subLast
  deriving DecidableEq, Repr

/-- The bus events a subscriber that subscribed at the given point of write `w` is sent (before the
per-subscription filter/equivalence), and the state its seed is taken from. -/
def raceSeedState (cfg : Cfg M K R) (s : CState M R) (w : COp M K) : SubOrder → CState M R
  | .subFirst => s
  | _ => (Coll.step cfg s w).2

def raceBusEvents (cfg : Cfg M K R) (s : CState M R) (w : COp M K) (rest : List (COp M K)) :
    SubOrder → List (CEvent M)
  | .subLast => busEvents cfg (Coll.step cfg s w).2 rest
  | _ => eventsOf (Coll.step cfg s w).1 ++ busEvents cfg (Coll.step cfg s w).2 rest

def raceStream (cfg : Cfg M K R) (eqv : Eqv M) (o : SubOpts K) (s : CState M R) (w : COp M K)
    (rest : List (COp M K)) (ord : SubOrder) : List (CEvent M) :=
  collSeed cfg (raceSeedState cfg s w ord) o ++ (raceBusEvents cfg s w rest ord).filterMap (collForward cfg eqv o)

/-- a consumer's fold: apply one event to a view -/
def applyEv (view : String → Option M) (e : CEvent M) : String → Option M :=
  fun k => if k = e.id then e.new else view k

end ScVerif.C04
