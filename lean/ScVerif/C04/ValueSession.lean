import ScVerif.C04.GSession
import ScVerif.C04.Pull
/-!
# C04 — sessions of `Value.Pull` subscribers

The `Feed` of a `resource.Value`: `Value.Set` announces at most one `ValueChange`; `Value.Pull` seeds
with the current value (projected, stored change time) and then forwards every bus event through read
mask and equivalence *against the last value it sent* (`last`, per subscription).
-/
namespace ScVerif.C04
open ScVerif.C01
variable {M K R : Type}

/-- an open backpressured `Value.Pull`: its options, everything sent on its channel, its `last` -/
structure VSubSt (M K : Type) where
  opts : SubOpts K
  got : List (VDeliv M)
  last : Option M

/-- the loop variable `last` of `Value.Pull` after the events `evs` -/
def forwardLast (cfg : Cfg M K R) (eqv : Eqv M) (o : SubOpts K) : Option M → List (VEvent M) → Option M
  | last, [] => last
  | last, e :: es => forwardLast cfg eqv o (valForward cfg eqv o last e).2 es

theorem forwardAll_append (cfg : Cfg M K R) (eqv : Eqv M) (o : SubOpts K) (a b : List (VEvent M)) :
    ∀ last, forwardAll cfg eqv o last (a ++ b) =
      forwardAll cfg eqv o last a ++ forwardAll cfg eqv o (forwardLast cfg eqv o last a) b := by
  induction a with
  | nil => intro last; rfl
  | cons e es ih =>
    intro last
    simp only [List.cons_append, forwardAll, forwardLast]
    rcases hv : valForward cfg eqv o last e with ⟨d, l⟩
    cases d with
    | none => simp only [ih]
    | some d => simp only [ih, List.cons_append]

theorem forwardLast_append (cfg : Cfg M K R) (eqv : Eqv M) (o : SubOpts K) (a b : List (VEvent M)) :
    ∀ last, forwardLast cfg eqv o last (a ++ b) = forwardLast cfg eqv o (forwardLast cfg eqv o last a) b := by
  induction a with
  | nil => intro last; rfl
  | cons e es ih => intro last; simp only [List.cons_append, forwardLast, ih]

def valFeed (cfg : Cfg M K R) (eqv : Eqv M) : Feed (VState M) (VOp M K) (VEvent M) (SubOpts K) (VSubSt M K) where
  step s op := (vEventsOf (Value.step cfg s op).1, (Value.step cfg s op).2)
  «open» s o := { opts := o, got := (valSeed cfg s o).1, last := (valSeed cfg s o).2 }
  fwd evs st := { opts := st.opts, got := st.got ++ forwardAll cfg eqv st.opts st.last evs,
                  last := forwardLast cfg eqv st.opts st.last evs }
  fwd_nil := by intro st; simp [forwardAll, forwardLast]

theorem valFeed_run (cfg : Cfg M K R) (eqv : Eqv M) (ops : List (VOp M K)) :
    ∀ s : VState M, (gRun (valFeed cfg eqv) s ops).1.flatten = vBusEvents cfg s ops ∧
      (gRun (valFeed cfg eqv) s ops).2 = (Value.run cfg s ops).2 := by
  induction ops with
  | nil => intro s; simp [gRun, vBusEvents, Value.run]
  | cons op ops ih =>
    intro s
    have := ih (Value.step cfg s op).2
    simp only [vBusEvents] at this
    simp only [gRun, valFeed, List.flatten_cons, vBusEvents, Value.run, List.flatMap_cons]
    exact ⟨by rw [← this.1]; rfl, this.2⟩

theorem valFeed_fold (cfg : Cfg M K R) (eqv : Eqv M) (evss : List (List (VEvent M))) :
    ∀ st : VSubSt M K, evss.foldl (fun st evs => (valFeed cfg eqv).fwd evs st) st =
      { opts := st.opts, got := st.got ++ forwardAll cfg eqv st.opts st.last evss.flatten,
        last := forwardLast cfg eqv st.opts st.last evss.flatten } := by
  induction evss with
  | nil => intro st; simp [forwardAll, forwardLast]
  | cons evs rest ih =>
    intro st
    simp only [List.foldl_cons]
    rw [ih]
    simp only [valFeed, List.flatten_cons, forwardAll_append, forwardLast_append, List.append_assoc]

/-- the spec of the feed is `valStream` -/
theorem valFeed_stream (cfg : Cfg M K R) (eqv : Eqv M) (o : SubOpts K) (s : VState M) (ops : List (VOp M K)) :
    (gStream (valFeed cfg eqv) o s ops).got = valStream cfg eqv o s ops ∧
    (gStream (valFeed cfg eqv) o s ops).opts = o := by
  unfold gStream
  rw [valFeed_fold, (valFeed_run cfg eqv ops s).1]
  exact ⟨rfl, rfl⟩

end ScVerif.C04
