import ScVerif.C04.Pull
import ScVerif.C04.Waste
/-! C04 — lemma for `PropsWasteValue.lean`: without an equivalence the forwarding loop of `Value.Pull`
delivers the filtered value of every bus event. -/
namespace ScVerif.C04
open ScVerif.C01

variable {M K R : Type}

theorem forwardAll_none_values (cfg : Cfg M K R) (o : SubOpts K) (evs : List (VEvent M)) :
    ∀ last, (forwardAll cfg none o last evs).map (·.value)
      = evs.map (fun e => cfg.ops.filter o.readMask e.value) := by
  induction evs with
  | nil => intro last; rfl
  | cons e es ih => intro last; simp [forwardAll, valForward, ih]

end ScVerif.C04
