import ScVerif.C04.Bus
/-!
# C04 — `Bus.Send` under a deadline, with a listener that does not take the event

`Value.set` announces with `context.WithTimeout(5 s)`.  `Bus.Send` walks its snapshot in registration
order; `l.send` hands the event to a live listener, skips a cancelled one (`active = false`), and gives
up (`ok = false`) when the send context ends first.  `Send` then returns `false` AT ONCE: the listeners
before the stalled one have been handed the event, the stalled one and every listener registered after
it have not; no `collect` is run.  `Value.set` maps that to the error "bus.Send blocked for too long"
although the value has been stored.

`try_ st = none` says: the forwarder of this subscription does not come back to its bus channel before
the deadline (it is blocked handing an earlier event to a consumer that is not receiving); `some st'`
is the subscription after it has been handed the event.  No churn during the `Send` here (that is
`Bus.lean`); the two are tied to the real code by different scenario families.
-/
namespace ScVerif.C04

variable {ι σ : Type}

/-- the delivery loop of `Bus.Send` under a deadline: the list afterwards, `ok` -/
def sendDlLoop (try_ : σ → Option σ) : List (Lsn ι σ) → List (Lsn ι σ) × Bool
  | [] => ([], true)
  | l :: rest =>
    if l.alive then
      match try_ l.st with
      | none => (l :: rest, false)
      | some st' => ({ l with st := st' } :: (sendDlLoop try_ rest).1, (sendDlLoop try_ rest).2)
    else (l :: (sendDlLoop try_ rest).1, (sendDlLoop try_ rest).2)

/-- `Bus.Send` under a deadline: `collect` only when the loop ran to its end and met a dead listener -/
def sendDl (try_ : σ → Option σ) (ls : List (Lsn ι σ)) : List (Lsn ι σ) × Bool :=
  let r := sendDlLoop try_ ls
  if r.2 && ls.any (fun l => !l.alive) then (collect r.1, true) else r

/-- what `l.send` does to one listener that is reached and takes the event -/
def serve (try_ : σ → Option σ) (l : Lsn ι σ) : Lsn ι σ :=
  if l.alive then
    match try_ l.st with
    | some st' => { l with st := st' }
    | none => l
  else l

/-- a listener at which a `Send` with this `try_` gives up -/
def stalledAt (try_ : σ → Option σ) (l : Lsn ι σ) : Bool := l.alive && (try_ l.st).isNone

/-- the loop serves exactly the listeners registered before the first stalled one -/
theorem sendDlLoop_split (try_ : σ → Option σ) (ls : List (Lsn ι σ)) :
    ∃ pre rest, ls = pre ++ rest ∧ (sendDlLoop try_ ls).1 = pre.map (serve try_) ++ rest ∧
      (∀ l ∈ pre, stalledAt try_ l = false) ∧
      ((sendDlLoop try_ ls).2 = true ↔ rest = []) ∧
      (∀ l rest', rest = l :: rest' → stalledAt try_ l = true) := by
  induction ls with
  | nil => exact ⟨[], [], rfl, rfl, by simp, by simp [sendDlLoop], by simp⟩
  | cons l ls ih =>
    obtain ⟨pre, rest, h1, h2, h3, h4, h5⟩ := ih
    cases ha : l.alive with
    | false =>
      refine ⟨l :: pre, rest, by simp [h1], ?_, ?_, ?_, h5⟩
      · simp only [sendDlLoop, ha, Bool.false_eq_true, if_false, List.map_cons, List.cons_append, h2, serve]
      · intro x hx
        rcases List.mem_cons.mp hx with hx | hx
        · subst hx; simp [stalledAt, ha]
        · exact h3 x hx
      · simp only [sendDlLoop, ha, Bool.false_eq_true, if_false]; exact h4
    | true =>
      cases ht : try_ l.st with
      | none =>
        refine ⟨[], l :: ls, rfl, ?_, by simp, ?_, ?_⟩
        · simp [sendDlLoop, ha, ht]
        · simp [sendDlLoop, ha, ht]
        · intro x r hx
          cases hx
          simp [stalledAt, ha, ht]
      | some st' =>
        refine ⟨l :: pre, rest, by simp [h1], ?_, ?_, ?_, h5⟩
        · simp only [sendDlLoop, ha, if_true, ht, List.map_cons, List.cons_append, h2, serve]
        · intro x hx
          rcases List.mem_cons.mp hx with hx | hx
          · subst hx; simp [stalledAt, ha, ht]
          · exact h3 x hx
        · simp only [sendDlLoop, ha, if_true, ht]; exact h4

/-- with no stalled listener the loop serves everybody and succeeds -/
theorem sendDlLoop_all (try_ : σ → Option σ) (ls : List (Lsn ι σ))
    (h : ∀ l ∈ ls, stalledAt try_ l = false) :
    sendDlLoop try_ ls = (ls.map (serve try_), true) := by
  induction ls with
  | nil => rfl
  | cons l ls ih =>
    have hl := h l List.mem_cons_self
    have ih' := ih (fun x hx => h x (List.mem_cons_of_mem _ hx))
    cases ha : l.alive with
    | false => simp [sendDlLoop, ha, ih', serve]
    | true =>
      cases ht : try_ l.st with
      | none => simp [stalledAt, ha, ht] at hl
      | some st' => simp [sendDlLoop, ha, ht, ih', serve]

theorem view_map_serve (try_ : σ → Option σ) (d : σ → σ) (ls : List (Lsn ι σ))
    (h : ∀ l ∈ ls, l.alive = true → try_ l.st = some (d l.st)) :
    view (ls.map (serve try_)) = (view ls).map (fun p => (p.1, d p.2)) := by
  induction ls with
  | nil => rfl
  | cons l ls ih =>
    have ih' := ih (fun x hx => h x (List.mem_cons_of_mem _ hx))
    simp only [view, List.map_cons, List.filter_cons] at ih' ⊢
    cases ha : l.alive with
    | false => simp [serve, ha, ih']
    | true =>
      have := h l List.mem_cons_self ha
      simp [serve, ha, this, ih']

end ScVerif.C04
