import ScVerif.C04.GSession
import ScVerif.C04.Pull
/-!
# C04 — sessions of `Collection.Pull` AND `Collection.PullID` subscribers on one bus

`PullID(id)` registers ONE listener (its inner `Pull`, same options) and forwards, from what that
`Pull` delivers, the changes of the intercepted id as `ValueChange`s until the first change that removes
the item; from then on nothing (the channel is closed; the inner `Pull` is cancelled, which is a cancel
step of the session — whenever it lands, an ended `PullID` forwards nothing more).
-/
namespace ScVerif.C04
open ScVerif.C01
variable {M K R : Type}

/-- what a subscription of a collection opens with -/
inductive COpen (K : Type)
  | pull (o : SubOpts K)
  | pullID (o : SubOpts K) (rawId : String)

/-- an open subscription of a collection: everything sent on its channel so far -/
inductive CSubSt (M K : Type)
  | pull (o : SubOpts K) (got : List (CEvent M))
  /-- `id` is the intercepted id; `ended`: the channel has been closed -/
  | pullID (o : SubOpts K) (id : String) (got : List (VDeliv M)) (ended : Bool)

def collFeed (cfg : Cfg M K R) (eqv : Eqv M) :
    Feed (CState M R) (COp M K) (CEvent M) (COpen K) (CSubSt M K) where
  step s op := (eventsOf (Coll.step cfg s op).1, (Coll.step cfg s op).2)
  «open» s
    | .pull o => .pull o (collSeed cfg s o)
    | .pullID o id =>
      .pullID o (icptId cfg id) (pullIDLoop (icptId cfg id) (collSeed cfg s o)).1
        (pullIDLoop (icptId cfg id) (collSeed cfg s o)).2
  fwd evs
    | .pull o got => .pull o (got ++ evs.filterMap (collForward cfg eqv o))
    | .pullID o id got ended =>
      if ended then .pullID o id got ended
      else .pullID o id (got ++ (pullIDLoop id (evs.filterMap (collForward cfg eqv o))).1)
        (pullIDLoop id (evs.filterMap (collForward cfg eqv o))).2
  fwd_nil := by
    intro st
    cases st with
    | pull o got => simp
    | pullID o id got ended => cases ended <;> simp [pullIDLoop]

/-- the loop of `PullID` over a stream delivered in two parts: once ended, it stays ended -/
theorem pullIDLoop_append (id : String) (a b : List (CEvent M)) :
    pullIDLoop id (a ++ b) =
      if (pullIDLoop id a).2 then pullIDLoop id a
      else ((pullIDLoop id a).1 ++ (pullIDLoop id b).1, (pullIDLoop id b).2) := by
  induction a with
  | nil => simp [pullIDLoop]
  | cons e es ih =>
    simp only [List.cons_append, pullIDLoop]
    by_cases hid : e.id = id
    · simp only [ne_eq, hid, not_true_eq_false, ↓reduceIte]
      by_cases hk : e.kind = .remove
      · simp [hk]
      · simp only [hk, ↓reduceIte]
        cases hn : e.new with
        | none => simp
        | some v =>
          simp only [ih]
          cases h2 : (pullIDLoop id es).2 <;> simp [h2]
    · simp only [ne_eq, hid, not_false_eq_true, ↓reduceIte]; exact ih

theorem collFeed_run (cfg : Cfg M K R) (eqv : Eqv M) (ops : List (COp M K)) :
    ∀ s : CState M R, (gRun (collFeed cfg eqv) s ops).1.flatten = busEvents cfg s ops ∧
      (gRun (collFeed cfg eqv) s ops).2 = (Coll.run cfg s ops).2 := by
  induction ops with
  | nil => intro s; simp [gRun, busEvents, Coll.run]
  | cons op ops ih =>
    intro s
    have := ih (Coll.step cfg s op).2
    simp only [busEvents] at this
    simp only [gRun, collFeed, List.flatten_cons, busEvents, Coll.run, List.flatMap_cons]
    exact ⟨by rw [← this.1]; rfl, this.2⟩

theorem collFeed_fold_pull (cfg : Cfg M K R) (eqv : Eqv M) (o : SubOpts K) (evss : List (List (CEvent M))) :
    ∀ got : List (CEvent M), evss.foldl (fun st evs => (collFeed cfg eqv).fwd evs st) (.pull o got) =
      .pull o (got ++ evss.flatten.filterMap (collForward cfg eqv o)) := by
  induction evss with
  | nil => intro got; simp
  | cons evs rest ih =>
    intro got
    simp only [List.foldl_cons]
    show List.foldl _ (CSubSt.pull o (got ++ evs.filterMap (collForward cfg eqv o))) rest = _
    rw [ih]
    simp [List.filterMap_append]

theorem collFeed_fold_pullID (cfg : Cfg M K R) (eqv : Eqv M) (o : SubOpts K) (id : String)
    (evss : List (List (CEvent M))) :
    ∀ (got : List (VDeliv M)) (ended : Bool),
      evss.foldl (fun st evs => (collFeed cfg eqv).fwd evs st) (.pullID o id got ended) =
        if ended then .pullID o id got ended
        else .pullID o id (got ++ (pullIDLoop id (evss.flatten.filterMap (collForward cfg eqv o))).1)
          (pullIDLoop id (evss.flatten.filterMap (collForward cfg eqv o))).2 := by
  induction evss with
  | nil => intro got ended; cases ended <;> simp [pullIDLoop]
  | cons evs rest ih =>
    intro got ended
    simp only [List.foldl_cons]
    cases ended with
    | true =>
      show List.foldl _ (CSubSt.pullID o id got true) rest = _
      rw [ih]; simp
    | false =>
      show List.foldl _ (CSubSt.pullID o id (got ++ (pullIDLoop id (evs.filterMap (collForward cfg eqv o))).1)
        (pullIDLoop id (evs.filterMap (collForward cfg eqv o))).2) rest = _
      rw [ih]
      simp only [List.flatten_cons, List.filterMap_append, pullIDLoop_append, Bool.false_eq_true, ↓reduceIte]
      cases h2 : (pullIDLoop id (evs.filterMap (collForward cfg eqv o))).2 <;> simp [h2]

/-- the spec of the feed: `collStream` for a `Pull`, `pullIDStream` for a `PullID` -/
theorem collFeed_stream (cfg : Cfg M K R) (eqv : Eqv M) (s : CState M R) (ops : List (COp M K)) :
    (∀ o, gStream (collFeed cfg eqv) (.pull o) s ops = .pull o (collStream cfg eqv o s ops)) ∧
    (∀ o id, gStream (collFeed cfg eqv) (.pullID o id) s ops =
      .pullID o (icptId cfg id) (pullIDStream cfg eqv o s id ops).1 (pullIDStream cfg eqv o s id ops).2) := by
  constructor
  · intro o
    unfold gStream
    show List.foldl _ (CSubSt.pull o (collSeed cfg s o)) _ = _
    rw [collFeed_fold_pull, (collFeed_run cfg eqv ops s).1]
    rfl
  · intro o id
    unfold gStream
    show List.foldl _ (CSubSt.pullID o (icptId cfg id) (pullIDLoop (icptId cfg id) (collSeed cfg s o)).1
      (pullIDLoop (icptId cfg id) (collSeed cfg s o)).2) _ = _
    rw [collFeed_fold_pullID, (collFeed_run cfg eqv ops s).1]
    simp only [pullIDStream, collStream, pullIDLoop_append]
    cases h2 : (pullIDLoop (icptId cfg id) (collSeed cfg s o)).2 <;> simp [h2]

end ScVerif.C04
