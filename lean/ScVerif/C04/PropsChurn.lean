import ScVerif.C04.Session
import ScVerif.C04.BusOnce
import ScVerif.C01.Flat
/-!
# C04 — property theorems under subscriber churn

"A backpressured subscriber … receives, after the seed, exactly one event per successful write in write
order" must hold for *every* subscriber, whatever the other subscribers do: `Pull`s open and contexts
are cancelled at any time, also while a write's `Bus.Send` is delivering (it works on a snapshot of
the listener list and garbage-collects cancelled listeners lazily, `internal/minibus/bus.go`).  The
models are `Bus.lean` (one `Send` as a small-step machine interleaved with `Listen`/cancel steps) and
`Session.lean` (writes of C01's model + `Pull` seeds + that bus).

Only property theorems and their non-vacuity examples live in this file.
-/
namespace ScVerif.C04
open ScVerif.C01
variable {M K R : Type}

/-- One `Send` under arbitrary churn, for every schedule: however `Listen`s (with fresh identities)
and cancels interleave with the delivery loop of a `Send` — before it visits a given listener, after,
between any two — the live listeners afterwards are exactly those of an eager bus: each listener that
was live when the `Send` took its snapshot has been handed the event exactly once (`d` applied once)
unless it was cancelled meanwhile (then it is gone); each listener registered meanwhile is still
registered — `collect` re-reads the list, it does not swap in the snapshot — and has not been handed
the event; registration order is kept and identities stay distinct. -/
theorem C04_send_churn {ι σ : Type} [DecidableEq ι] (d : σ → σ) (ls : List (Lsn ι σ)) (sched : List (Act ι σ))
    (hf : (ls.map (·.id) ++ schedIds sched).Nodup) :
    view (send d ls sched) = sched.foldl eagerAct ((view ls).map (fun p => (p.1, d p.2))) ∧
    ((send d ls sched).map (·.id)).Nodup :=
  send_view d ls sched (List.nodup_append.mp hf).1 (freshSched_of_nodup sched _ hf)

/-- The stream of every subscriber of every session.  For every initial state, every sequence of calls
of the writer and every churn — `Pull`s opening (any options) and subscriptions being cancelled between
the calls and at any point of any `Send` — each subscriber that is live at the end has been sent
exactly `collStream`: its seed taken from the state at its registration, then the forwarded event of
every later successful call, in call order, nothing else, nothing twice (`regAt` = the number of calls
made when it registered). -/
theorem C04_session_streams (cfg : Cfg M K R) (eqv : Eqv M) (s0 : CState M R) (items : List (Item M K))
    (hfresh : (listenIds items).Nodup) :
    ∀ p ∈ view (runSession cfg eqv { s := s0, ls := [], nw := 0 } items).ls,
      p.2.regAt ≤ (callsOf items).length ∧
      p.2.got = collStream cfg eqv p.2.opts (Coll.run cfg s0 ((callsOf items).take p.2.regAt)).2
        ((callsOf items).drop p.2.regAt) := by
  have h0 : Good cfg eqv s0 ({ s := s0, ls := [], nw := 0 } : Sess M K R) [] :=
    ⟨rfl, rfl, by intro p hp; simp [view] at hp⟩
  have := (runSession_good cfg eqv s0 items _ [] h0 (by simpa using hfresh)).1
  simp only [List.nil_append] at this
  exact this.streams

/-- No subscriber is lost, none resurrected: after any session the live subscribers are, in
registration order, exactly the `Pull`s opened and not cancelled since — lazily collected cancelled
listeners and `Pull`s registering while a `Send` delivers (and `collect` runs) make no difference. -/
theorem C04_no_subscriber_lost (cfg : Cfg M K R) (eqv : Eqv M) (s0 : CState M R) (items : List (Item M K))
    (hfresh : (listenIds items).Nodup) :
    (view (runSession cfg eqv { s := s0, ls := [], nw := 0 } items).ls).map (·.1) = eagerIds [] (sactsOf items) ∧
    ((runSession cfg eqv { s := s0, ls := [], nw := 0 } items).ls.map (·.id)).Nodup := by
  have h0 : Good cfg eqv s0 ({ s := s0, ls := [], nw := 0 } : Sess M K R) [] :=
    ⟨rfl, rfl, by intro p hp; simp [view] at hp⟩
  exact ⟨runSession_ids cfg eqv s0 items _ [] h0 (by simpa using hfresh),
    (runSession_good cfg eqv s0 items _ [] h0 (by simpa using hfresh)).2⟩

/-- **At most once, cancelled subscribers included.**  For every schedule of `Listen`s (fresh
identities) and cancels interleaved with the delivery loop of one `Send`: every listener registered when
the loop has finished (`sendRaw`: before the garbage collection — so also a subscription cancelled before
or DURING this `Send`), and hence every listener registered after the `Send`, is
* a listener of the snapshot that has been handed the event exactly once (`d` applied once) — and then it
  was live at the snapshot — or not at all (it was dead, or was cancelled before the loop reached it);
  it is live only if it was live at the snapshot (nobody is resurrected); or
* a listener registered meanwhile, holding exactly the state it registered with (not handed the event).
Never twice, never a made-up state: a cancelled subscriber has received a prefix of what it would have
received. -/
theorem C04_send_at_most_once {ι σ : Type} [DecidableEq ι] (d : σ → σ) (ls : List (Lsn ι σ)) (sched : List (Act ι σ))
    (hf : (ls.map (·.id) ++ schedIds sched).Nodup) :
    (∀ l ∈ sendRaw d ls sched,
      (∃ l0 ∈ ls, l0.id = l.id ∧ (l.alive = true → l0.alive = true) ∧
        (l.st = l0.st ∨ (l.st = d l0.st ∧ l0.alive = true))) ∨
      (l.id ∉ ls.map (·.id) ∧ (Act.listen l.id l.st : Act ι σ) ∈ sched)) ∧
    (∀ l ∈ send d ls sched, l ∈ sendRaw d ls sched) := by
  refine ⟨?_, send_sub_raw d ls sched⟩
  intro l hl
  rcases sendRaw_served d ls sched (List.nodup_append.mp hf).1 (freshSched_of_nodup sched _ hf) l hl with
    ⟨l0, h0, hid, hal, hst⟩ | h
  · refine Or.inl ⟨l0, h0, hid, hal, ?_⟩
    rcases hst with hst | ⟨h1, h2, _⟩
    · exact Or.inl hst
    · exact Or.inr ⟨h1, h2⟩
  · exact Or.inr h

/-! ## Non-vacuity -/

def chCfg : Cfg Msg Mask (List Nat) := { ops := flatOps, gen := flatGen }

def chInit : CState Msg (List Nat) := Coll.init chCfg [("a", { a := 1, s := "", c := none })] []

/-- subscriber 1 opens and is cancelled (its listener stays registered); subscriber 2 opens; a write is
delivered: `Send` visits the dead listener 1, then — mid-delivery — subscriber 3 opens (its seed has the
write), then 2 is visited, then `collect` runs; a second write follows. -/
def chSession : List (Item Msg Mask) :=
  [ .idle (.listen 1 {}), .idle (.cancel 1), .idle (.listen 2 { updatesOnly := true }),
    .call (.update "a" { a := 2, s := "", c := none } {}) [.visit, .listen 3 {}, .visit],
    .call (.update "a" { a := 3, s := "", c := none } {}) [] ]

/-- the hypothesis of the session theorems is satisfiable -/
example : (listenIds chSession).Nodup := by decide

/-- subscriber 3, registered while the first write was being delivered and a dead listener was being
collected, is still subscribed, was seeded with that write and receives the second one; subscriber 2
received both; the cancelled subscriber is gone -/
example : (view (runSession chCfg none { s := chInit, ls := [], nw := 0 } chSession).ls).map
      (fun p => (p.1, p.2.got.map (fun e => (e.kind, e.old.map (·.a), e.new.map (·.a), e.seed)))) =
    [ (2, [(.update, some 1, some 2, false), (.update, some 2, some 3, false)]),
      (3, [(.add, none, some 2, true), (.update, some 2, some 3, false)]) ] := by rfl

/-- the garbage collection really ran in that session: the dead listener is no longer registered -/
example : ((runSession chCfg none { s := chInit, ls := [], nw := 0 } chSession).ls.map (·.id)) = [2, 3] := by rfl

/-- the statement of `C04_send_churn` is sharp: a `collect` that swaps in the listeners the delivery
loop found active (`sendSwap`, not the code) loses the subscriber that registered during the `Send` —
the eager bus keeps it -/
example :
    view (sendSwap (fun n : Nat => n + 1) [{ id := 1, alive := false, st := 0 }] [.listen 2 7]) = [] ∧
    view (send (fun n : Nat => n + 1) [{ id := 1, alive := false, st := 0 }] [.listen 2 7]) = [(2, 7)] := by
  constructor <;> rfl

/-- a subscription cancelled DURING a `Send`: listener 2 is cancelled after listener 1 was served and
before its own turn — 1 and 3 are served once, 2 not at all (and is collected), in the raw list it is
still there, dead and unserved; cancelled after its turn it has been served, once -/
example :
    (sendRaw (fun n : Nat => n + 1) [{ id := 1, st := 0 }, { id := 2, st := 0 }, { id := 3, st := 0 }]
        [.visit, .cancel 2]).map (fun l => (l.id, l.alive, l.st)) = [(1, true, 1), (2, false, 0), (3, true, 1)] ∧
    view (send (fun n : Nat => n + 1) [{ id := 1, st := 0 }, { id := 2, st := 0 }, { id := 3, st := 0 }]
        [.visit, .cancel 2]) = [(1, 1), (3, 1)] ∧
    (sendRaw (fun n : Nat => n + 1) [{ id := 1, st := 0 }, { id := 2, st := 0 }, { id := 3, st := 0 }]
        [.visit, .visit, .cancel 2]).map (fun l => (l.id, l.alive, l.st)) = [(1, true, 1), (2, false, 1), (3, true, 1)] := by
  refine ⟨?_, ?_, ?_⟩ <;> rfl

end ScVerif.C04
