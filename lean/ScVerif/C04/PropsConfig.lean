import ScVerif.C04.Config
import ScVerif.C04.Props
/-!
# C04 — which equivalence a resource ends up with (option LISTS)

"equivalent consecutive values are suppressed ONLY when an equivalence is configured": the
configuration is what `computeConfig` makes of the whole option list, in order.  Only property theorems
and their non-vacuity examples live in this file.
-/
namespace ScVerif.C04
open ScVerif.C01

variable {M K R : Type}

/-- The last equivalence option of the list decides, whatever comes before it and whatever other options
come after it - a nil comparer (`e = none`) included: `WithEquivalence(nil)` clears an earlier one. -/
theorem C04_equivalence_last_option_decides (pre post : List (ResOpt M)) (e : Eqv M)
    (hpost : ∀ o ∈ post, o = ResOpt.other) :
    resolveEqv (pre ++ ResOpt.equivalence e :: post) = e := by
  unfold resolveEqv
  rw [foldl_apply_eq, eqvOpts_append]
  simp [eqvOpts, eqvOpts_other post hpost]

/-- No equivalence option in the list: no equivalence (the default). -/
theorem C04_no_equivalence_option_none (opts : List (ResOpt M)) (h : ∀ o ∈ opts, o = ResOpt.other) :
    resolveEqv (M := M) opts = none := by
  unfold resolveEqv
  rw [foldl_apply_eq, eqvOpts_other opts h]
  rfl

/-- An equivalence that was configured and then cleared suppresses nothing: every bus event of a
Collection is forwarded (projected, otherwise unchanged) and every successful Set of a Value is
delivered, in order - for ANY earlier options (any comparer switched on before). -/
theorem C04_cleared_equivalence_delivers_every_event (cfg : Cfg M K R) (pre post : List (ResOpt M))
    (hpost : ∀ o ∈ post, o = ResOpt.other) (o : SubOpts K) :
    (∀ e : CEvent M, collForward cfg (resolveEqv (pre ++ ResOpt.equivalence none :: post)) o e =
      some { e with old := filterOpt cfg.ops o.readMask e.old, new := filterOpt cfg.ops o.readMask e.new }) ∧
    (∀ (last : Option M) (evs : List (VEvent M)),
      forwardAll cfg (resolveEqv (pre ++ ResOpt.equivalence none :: post)) o last evs =
      evs.map (fun e => { value := cfg.ops.filter o.readMask e.value, time := e.time, seed := false, lastSeed := false })) := by
  rw [C04_equivalence_last_option_decides pre post none hpost]
  exact ⟨fun e => rfl, fun last evs => (C04_value_suppression cfg o evs).2 last⟩

/-- non-vacuity: a comparer that relates everything, then cleared, then another option -/
example : resolveEqv [ResOpt.other, .equivalence (some (fun (_ _ : Option Nat) => true)), .equivalence none, .other] = none := by
  exact C04_equivalence_last_option_decides [ResOpt.other, .equivalence (some (fun (_ _ : Option Nat) => true))] [.other] none
    (by simp)

/-- ... and the other way round the later comparer is in force -/
example : (resolveEqv [ResOpt.equivalence none, .equivalence (some (fun (_ _ : Option Nat) => true))]).isSome = true := rfl

end ScVerif.C04
