import ScVerif.C04.IncludeLemmas
/-!
# C04 ∘ C08 — the include-filtered stream of a real write history

C04 proves that the bus events of any call sequence are an exact edit script of the contents
(`Replay`); C08 proves, for any well-formed history (`C09.WFHist`), that mapping it through
`CollectionChange.include` gives a well-formed history of the include-FILTERED collection whose fold
is the filter of the unfiltered fold.  This file connects the two models (read-only import of C08's)
and states the composition for the histories C04's model generates.
-/
namespace ScVerif.C04
open ScVerif.C01

variable {M K R : Type}

/-- Composition C04 ∘ C08.  For EVERY include predicate, state and call sequence: the bus events of
the history, mapped through `CollectionChange.include` (C08's model), are a well-formed history of
the include-filtered collection — every delivered change is an edit of the filtered view built so far
(ADD only of an id not listed, UPDATE/REMOVE only of a listed one, old = previous new) — and folding
them from the filtered contents at subscription time gives exactly the filtered contents at the end:
one delivered change per successful write that is visible through the predicate (before or after),
none for writes that stay invisible. -/
theorem C04_include_composition (cfg : Cfg M K R) (h : EqRefl cfg.ops) (p : Option (C08.Pred String M))
    (s : CState M R) (ops : List (COp M K)) :
    C09.WFHist (C08.filterView p (contents s)) (((busEvents cfg s ops).map toC09).filterMap (C08.includeChange p)) ∧
    C09.fold (((busEvents cfg s ops).map toC09).filterMap (C08.includeChange p)) (C08.filterView p (contents s)) =
      C08.filterView p (contents (Coll.run cfg s ops).2) := by
  obtain ⟨hwf, hfold⟩ := replay_wfHist (run_replay cfg h ops s)
  have := C08.C08_fold_commutes p (contents s) ((busEvents cfg s ops).map toC09) hwf
  rw [hfold] at this
  exact this

end ScVerif.C04
