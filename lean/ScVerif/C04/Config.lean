import ScVerif.C04.Pull
/-!
# The resource options that decide the equivalence (pkg/resource/opt.go, computeConfig)

`NewValue` / `NewCollection` start from the default configuration (`equivalence = nil`) and apply the
caller's options IN ORDER; `WithEquivalence(e)` assigns `config.equivalence = e` whatever `e` is - a nil
Comparer included - and `WithMessageEquivalence` / `WithNoDuplicates` are `WithEquivalence` of a
particular comparer.  So the last equivalence option of the list decides, and `WithEquivalence(nil)`
after a default that switched de-duplication on switches it off again (the trait models are built from
default option lists followed by the caller's).
-/
namespace ScVerif.C04

variable {M : Type}

/-- a resource option, as far as the equivalence is concerned -/
inductive ResOpt (M : Type)
  /-- `WithEquivalence(e)`; `none` = a nil Comparer -/
  | equivalence (e : Eqv M)
  /-- any other option (clock, rng, initial value, …): does not touch the equivalence -/
  | other

/-- one option applied to the configuration's `equivalence` field -/
def ResOpt.apply : Eqv M → ResOpt M → Eqv M
  | _, .equivalence e => e
  | cur, .other => cur

/-- `computeConfig`: the options applied in order on the default (no equivalence) -/
def resolveEqv (opts : List (ResOpt M)) : Eqv M := opts.foldl ResOpt.apply none

/-- the equivalence options of a list, in order -/
def eqvOpts : List (ResOpt M) → List (Eqv M)
  | [] => []
  | .equivalence e :: rest => e :: eqvOpts rest
  | .other :: rest => eqvOpts rest

theorem foldl_apply_eq (cur : Eqv M) (opts : List (ResOpt M)) :
    opts.foldl ResOpt.apply cur = ((eqvOpts opts).getLast?).getD cur := by
  induction opts generalizing cur with
  | nil => rfl
  | cons o rest ih =>
    cases o with
    | other => simpa [eqvOpts, ResOpt.apply] using ih cur
    | equivalence e =>
      simp only [List.foldl_cons, ResOpt.apply, eqvOpts, ih]
      cases h : eqvOpts rest with
      | nil => simp
      | cons x xs =>
        simp only [List.getLast?_cons_cons]
        cases hl : (x :: xs).getLast? with
        | none => simp at hl
        | some v => rfl

theorem eqvOpts_append (a b : List (ResOpt M)) : eqvOpts (a ++ b) = eqvOpts a ++ eqvOpts b := by
  induction a with
  | nil => rfl
  | cons o rest ih => cases o <;> simp [eqvOpts, ih]

theorem eqvOpts_other (post : List (ResOpt M)) (h : ∀ o ∈ post, o = ResOpt.other) : eqvOpts post = [] := by
  induction post with
  | nil => rfl
  | cons o rest ih =>
    have ho := h o (by simp)
    subst ho
    simpa [eqvOpts] using ih (fun o ho => h o (by simp [ho]))

end ScVerif.C04
