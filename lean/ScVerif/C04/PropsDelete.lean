import ScVerif.C04.Lemmas
import ScVerif.C01.IdLemmas
import ScVerif.C01.Flat
/-!
# C04 — more event fields: the REMOVE of a `Delete` whose first read is stale; intercepted ids

`Collection.Delete` reads the item under the read lock, runs the caller's checks without any lock, then
takes the write lock and re-reads: if the entry is no longer the one it read it retries with the fresh
entry (up to 5 attempts).  With one caller at a time the first attempt decides (`deleteLoop_first`, used
by all of `Props.lean`).  Here the first read is ARBITRARY — whatever an earlier or overlapping call
left behind before this `Delete` got the write lock: the event, if any, must describe the item that is
actually removed, not the one first read.

Only property theorems and their non-vacuity examples live in this file.
-/
namespace ScVerif.C04
open ScVerif.C01
variable {M K R : Type}

/-- `proto.Equal` relates only equal messages (model messages are immutable values) -/
def EqSound (ops : MsgOps M K) : Prop := ∀ a b, ops.eq a b = true → a = b

/-- what a `Delete` of `id` may do in state `s`: change and announce nothing, or remove the item that
is stored under `id`, return its body, and announce exactly that as one REMOVE event -/
def DeleteOutcome (s : CState M R) (id : String) (r : COut M × CState M R) : Prop :=
  (r.1.events = [] ∧ r.2 = s) ∨
  (∃ it, lookup s.items id = some it ∧ r.1.val = some it.body ∧ r.1.err = none ∧
    r.1.events = [{ id := id, time := s.clock, kind := .remove, old := some it.body, new := none }] ∧
    (∀ e ∈ r.1.events, IsEdit (contents s) (contents r.2) e))

/-- **Stale first read.**  For every state `s` at the time the write lock is taken, every first read
`stale` (absent, an older version of the item, an item since removed, …), every option record and at
least two attempts: a `Delete` either changes and announces nothing, or removes the item that IS stored
under the id, returns that item's body, and announces exactly one event: a REMOVE of that id whose old
value is the stored body (= the value returned), carrying the clock reading of this call — an exact
edit of the contents. -/
theorem C04_delete_removes_current (cfg : Cfg M K R) (h : EqRefl cfg.ops) (hs : EqSound cfg.ops)
    (wr : WriteReq M K) (id : String) (fuel : Nat) (stale : Option (Item M)) (s : CState M R) :
    DeleteOutcome s id (deleteLoop cfg wr id (fuel + 2) stale s) := by
  have nothing : ∀ (v : Option M) (c : Option Code),
      DeleteOutcome s id (({ val := v, err := c, events := [], idCalls := [], createdCalls := 0 } : COut M), s) :=
    fun _ _ => Or.inl ⟨rfl, rfl⟩
  -- removing the current item
  have removed : ∀ it, lookup s.items id = some it →
      DeleteOutcome s id
        (({ val := some it.body, err := none,
            events := [{ id := id, time := s.clock, kind := .remove, old := some it.body, new := none }],
            idCalls := [], createdCalls := 0 } : COut M),
         ({ s with clock := s.clock + cfg.tick, items := eraseItem s.items id } : CState M R)) := by
    intro it hl
    refine Or.inr ⟨it, hl, rfl, rfl, rfl, ?_⟩
    intro e he
    simp only [List.mem_singleton] at he
    subst he
    have hb : contents s id = some it.body := by simp [contents, hl]
    have ha : contents ({ s with clock := s.clock + cfg.tick, items := eraseItem s.items id } : CState M R) id = none := by
      simp [contents, lookup_eraseItem]
    refine ⟨hb.symm, ha.symm, ?_, Or.inl (by rw [hb]; rfl), by rw [hb, ha]; rfl, ⟨rfl, rfl⟩⟩
    intro k hk
    simp only [contents, lookup_eraseItem]
    simp [show k ≠ id from hk]
  -- a fresh read decides at once
  have fresh : ∀ fuel' : Nat, DeleteOutcome s id (deleteLoop cfg wr id (fuel' + 1) (lookup s.items id) s) := by
    intro fuel'
    rw [deleteLoop_first cfg h]
    cases hl : lookup s.items id with
    | none => simp only []; split <;> exact nothing _ _
    | some it =>
      simp only []
      cases wr.expectedCheck with
      | none =>
        cases wr.expectedValue with
        | none => exact removed it hl
        | some ev =>
          simp only []
          split
          · exact nothing _ _
          · exact removed it hl
      | some chk =>
        cases hc : chk (some it.body) with
        | some e => simp only [hc]; exact nothing _ _
        | none =>
          simp only [hc]
          cases wr.expectedValue with
          | none => exact removed it hl
          | some ev =>
            simp only []
            split
            · exact nothing _ _
            · exact removed it hl
  rw [show fuel + 2 = (fuel + 1) + 1 from rfl]
  unfold deleteLoop
  cases stale with
  | none => simp only []; split <;> exact nothing _ _
  | some it =>
    -- after the caller's checks on the value first read: re-read under the write lock
    have tail : DeleteOutcome s id
        (if !(sameItem cfg.ops (lookup s.items id) (some it)) then deleteLoop cfg wr id (fuel + 1) (lookup s.items id) s
         else
          (({ val := some it.body, err := none,
              events := [{ id := id, time := (nowC cfg s).1, kind := .remove, old := some it.body, new := none }],
              idCalls := [], createdCalls := 0 } : COut M),
           ({ (nowC cfg s).2 with items := eraseItem (nowC cfg s).2.items id } : CState M R))) := by
      split
      · exact fresh fuel
      · rename_i hsame
        cases hl : lookup s.items id with
        | none => simp [hl, sameItem] at hsame
        | some it2 =>
          simp only [hl, sameItem, Bool.not_eq_true, Bool.not_eq_false', Bool.and_eq_true, beq_iff_eq] at hsame
          have hbody : it2.body = it.body := hs _ _ hsame.2
          have := removed it2 hl
          rw [hbody] at this
          exact this
    simp only []
    cases wr.expectedCheck with
    | none =>
      cases wr.expectedValue with
      | none => exact tail
      | some ev =>
        simp only []
        split
        · exact nothing _ _
        · exact tail
    | some chk =>
      cases hc : chk (some it.body) with
      | some e => simp only [hc]; exact nothing _ _
      | none =>
        simp only [hc]
        cases wr.expectedValue with
        | none => exact tail
        | some ev =>
          simp only []
          split
          · exact nothing _ _
          · exact tail

/-- **Events carry intercepted ids.**  With an id interceptor configured (`WithIDInterceptor`), every
event of every call sequence — hence every non-seed event of every `Pull` stream, and every change a
`PullID(id)` compares with its own intercepted id — names the interceptor's image of some id (the id
given to the call, or a generated candidate): never a raw id. -/
theorem C04_event_ids_intercepted (cfg : Cfg M K R) (h : EqRefl cfg.ops) (ops : List (COp M K)) :
    ∀ s : CState M R, ∀ e ∈ busEvents cfg s ops, ∃ x, e.id = icptId cfg x := by
  induction ops with
  | nil => intro s e he; simp [busEvents, Coll.run] at he
  | cons op ops ih =>
    intro s e he
    simp only [busEvents, Coll.run, List.flatMap_cons, List.mem_append] at he
    rcases he with he | he
    · have := (step_ids cfg h s op).1 e.id
      apply this
      cases hr : (Coll.step cfg s op).1 with
      | got v => rw [hr] at he; simp [eventsOf] at he
      | listed vs => rw [hr] at he; simp [eventsOf] at he
      | wrote o =>
        rw [hr] at he
        simp only [eventsOf] at he
        simp only [resIds, List.mem_append, List.mem_map]
        exact Or.inl ⟨e, he, rfl⟩
    · exact ih _ e he

/-! ## Non-vacuity -/

/-- the flat message model's `proto.Equal` is sound and reflexive -/
example : EqSound (flatOps) ∧ EqRefl (flatOps) := by
  constructor
  · intro a b hab; simpa [flatOps] using hab
  · intro a; simp [flatOps]

def dlCfg : Cfg Msg Mask (List Nat) := { ops := flatOps, gen := flatGen }

/-- a `Delete` whose first read saw `a = 1` (and checked it: `WithExpectedCheck`-free here) while the
item stored when it gets the write lock is `a = 2`: it retries, removes and announces the stored one -/
example : ((deleteLoop dlCfg {} "a" 5 (some { body := { a := 1, s := "", c := none }, time := 0 })
      (Coll.init dlCfg [("a", { a := 2, s := "", c := none })] [])).1.events.map
        (fun e => (e.id, e.kind, e.old.map (·.a), e.new.map (·.a)))) = [("a", .remove, some 2, none)] := by rfl

/-- a first read of an item that has since been removed: NotFound, nothing announced -/
example : ((deleteLoop dlCfg {} "a" 5 (some { body := { a := 1, s := "", c := none }, time := 0 })
      (Coll.init dlCfg [] [])).1.events.length, (deleteLoop dlCfg {} "a" 5 (some { body := { a := 1, s := "", c := none }, time := 0 })
      (Coll.init dlCfg [] [])).1.err) = (0, some .notFound) := by rfl

/-- with an interceptor the event carries the intercepted id, also for the REMOVE -/
example : (busEvents { dlCfg with icpt := some (fun s => s ++ "!") } (Coll.init dlCfg [] [])
      [.add "ab" { a := 1, s := "", c := none } {}, .delete "ab" {}]).map (fun e => (e.id, e.kind)) =
    [("ab!", .add), ("ab!", .remove)] := by rfl

end ScVerif.C04
