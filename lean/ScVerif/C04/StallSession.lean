import ScVerif.C04.Stall
import ScVerif.C04.ValueSession
/-!
# C04 — a `Value` written while some consumers are not receiving

A session over a fixed set of `Value.Pull` subscriptions: `Value.Set`s, and consumers that stop
receiving (`hold`) and receive again (`resume`).  A held subscription's forwarder takes ONE bus event,
runs it through read mask and equivalence, and blocks handing the result on (`hand`); while it holds
something it does not come back to its bus channel, so the next announcement times out on it
(`Stall.lean`): the writer is told the `Set` failed.

Ghost fields (`seed`, `last0`, `seen`) record what the subscription started with and the bus events its
forwarder was handed; the log records, per `Set`, the events it announced and whether the writer was
told it succeeded.
-/
namespace ScVerif.C04
open ScVerif.C01
variable {M K R : Type}

/-- a `Value.Pull` subscription whose consumer may stop receiving -/
structure HSt (M K : Type) where
  opts : SubOpts K
  /-- `Value.Pull`'s loop variable -/
  last : Option M
  /-- what the consumer has received -/
  got : List (VDeliv M)
  /-- what the forwarder is blocked handing to a consumer that is not receiving -/
  hand : List (VDeliv M)
  held : Bool
  /-- ghost: what it had received, and its `last`, when the session started -/
  seed : List (VDeliv M)
  last0 : Option M
  /-- ghost: the bus events its forwarder has been handed during the session -/
  seen : List (VEvent M)

/-- `l.send` under the deadline for such a subscription -/
def tryH (cfg : Cfg M K R) (eqv : Eqv M) (evs : List (VEvent M)) (st : HSt M K) : Option (HSt M K) :=
  let out := forwardAll cfg eqv st.opts st.last evs
  let last' := forwardLast cfg eqv st.opts st.last evs
  if st.held then
    if st.hand.isEmpty then some { st with last := last', hand := out, seen := st.seen ++ evs } else none
  else some { st with last := last', got := st.got ++ out, seen := st.seen ++ evs }

inductive HOp (M K : Type)
  | set (msg : M) (wr : WriteReq M K)
  | hold (i : Nat)
  | resume (i : Nat)

/-- the session state: the value, the bus's listeners, the log (newest first): the events each `Set`
announced and whether the writer was told it succeeded -/
structure HSess (M K : Type) where
  s : VState M
  ls : List (Lsn Nat (HSt M K))
  log : List (List (VEvent M) × Bool)

def onId (i : Nat) (f : HSt M K → HSt M K) (ls : List (Lsn Nat (HSt M K))) : List (Lsn Nat (HSt M K)) :=
  ls.map (fun l => if l.id = i then { l with st := f l.st } else l)

def hStep (cfg : Cfg M K R) (eqv : Eqv M) (x : HSess M K) : HOp M K → HSess M K
  | .set msg wr =>
    let r := Value.set cfg x.s msg wr
    if r.1.events.isEmpty then
      -- nothing to announce: no `Send` (the writer is told whatever `Value.set` decided)
      { x with s := r.2, log := ([], r.1.err.isNone) :: x.log }
    else
      let b := sendDl (tryH cfg eqv r.1.events) x.ls
      -- the value is stored either way; a `Send` that timed out makes `Value.set` answer with an error
      { s := r.2, ls := b.1, log := (r.1.events, b.2) :: x.log }
  | .hold i => { x with ls := onId i (fun st => { st with held := true }) x.ls }
  | .resume i => { x with ls := onId i (fun st => { st with held := false, got := st.got ++ st.hand, hand := [] }) x.ls }

def hRun (cfg : Cfg M K R) (eqv : Eqv M) (x : HSess M K) (ops : List (HOp M K)) : HSess M K :=
  ops.foldl (hStep cfg eqv) x

/-- `seen` is made of the events of SOME of the logged writes, in write order, each once, and of every
write the writer was told succeeded (log newest first) -/
inductive Reached {E : Type} : List (List E × Bool) → List E → Prop
  | nil : Reached [] []
  | hit (evs : List E) (ok : Bool) (log : List (List E × Bool)) (seen : List E) :
      Reached log seen → Reached ((evs, ok) :: log) (seen ++ evs)
  | miss (evs : List E) (log : List (List E × Bool)) (seen : List E) :
      Reached log seen → Reached ((evs, false) :: log) seen

/-- the invariant of one live subscription -/
structure HGood (cfg : Cfg M K R) (eqv : Eqv M) (log : List (List (VEvent M) × Bool)) (st : HSt M K) : Prop where
  stream : st.got ++ st.hand = st.seed ++ forwardAll cfg eqv st.opts st.last0 st.seen
  last : st.last = forwardLast cfg eqv st.opts st.last0 st.seen
  reached : Reached log st.seen
  free : st.held = false → st.hand = []

def AllGood (cfg : Cfg M K R) (eqv : Eqv M) (x : HSess M K) : Prop :=
  ∀ l ∈ x.ls, l.alive = true → HGood cfg eqv x.log l.st

theorem reached_nil_events {E : Type} {log : List (List E × Bool)} {seen : List E} (ok : Bool)
    (h : Reached log seen) : Reached (([], ok) :: log) seen := by
  have := Reached.hit [] ok log seen h
  simpa using this

theorem tryH_good (cfg : Cfg M K R) (eqv : Eqv M) (evs : List (VEvent M)) (ok : Bool)
    (log : List (List (VEvent M) × Bool)) (st st' : HSt M K)
    (h : HGood cfg eqv log st) (ht : tryH cfg eqv evs st = some st') :
    HGood cfg eqv ((evs, ok) :: log) st' := by
  unfold tryH at ht
  simp only [] at ht
  split at ht
  · rename_i hh
    split at ht
    · rename_i he
      cases ht
      have hnil : st.hand = [] := List.isEmpty_iff.mp he
      refine ⟨?_, ?_, Reached.hit _ _ _ _ h.reached, fun hf => by simp [hh] at hf⟩
      · have := h.stream
        rw [hnil, List.append_nil] at this
        simp only [forwardAll_append, ← h.last, this, List.append_assoc]
      · simp only [forwardLast_append, ← h.last]
    · cases ht
  · rename_i hh
    cases ht
    have hf : st.held = false := by cases hst : st.held <;> simp_all
    have hnil := h.free hf
    refine ⟨?_, ?_, Reached.hit _ _ _ _ h.reached, fun _ => hnil⟩
    · have := h.stream
      rw [hnil, List.append_nil] at this
      simp only [hnil, List.append_nil, forwardAll_append, ← h.last, this, List.append_assoc]
    · simp only [forwardLast_append, ← h.last]

theorem serve_good (cfg : Cfg M K R) (eqv : Eqv M) (evs : List (VEvent M)) (ok : Bool)
    (log : List (List (VEvent M) × Bool)) (l : Lsn Nat (HSt M K))
    (hs : stalledAt (tryH cfg eqv evs) l = false) (ha : l.alive = true)
    (h : HGood cfg eqv log l.st) :
    HGood cfg eqv ((evs, ok) :: log) (serve (tryH cfg eqv evs) l).st ∧ (serve (tryH cfg eqv evs) l).alive = true := by
  unfold serve
  rw [if_pos ha]
  cases ht : tryH cfg eqv evs l.st with
  | none => simp [stalledAt, ha, ht] at hs
  | some st' => exact ⟨tryH_good cfg eqv evs ok log l.st st' h ht, ha⟩

theorem onId_good (cfg : Cfg M K R) (eqv : Eqv M) (i : Nat) (f : HSt M K → HSt M K) (x : HSess M K)
    (hf : ∀ st, HGood cfg eqv x.log st → HGood cfg eqv x.log (f st)) (h : AllGood cfg eqv x) :
    AllGood cfg eqv { x with ls := onId i f x.ls } := by
  intro l hl ha
  simp only [onId, List.mem_map] at hl
  obtain ⟨l0, hl0, rfl⟩ := hl
  by_cases hi : l0.id = i
  · simp only [hi, if_true] at ha ⊢
    exact hf _ (h l0 hl0 ha)
  · simp only [hi, if_false] at ha ⊢
    exact h l0 hl0 ha

theorem hStep_good (cfg : Cfg M K R) (eqv : Eqv M) (x : HSess M K) (op : HOp M K)
    (h : AllGood cfg eqv x) : AllGood cfg eqv (hStep cfg eqv x op) := by
  cases op with
  | set msg wr =>
    simp only [hStep]
    split
    · intro l hl ha
      have g := h l hl ha
      exact ⟨g.stream, g.last, reached_nil_events _ g.reached, g.free⟩
    · obtain ⟨pre, rest, h1, h2, h3, h4, h5⟩ :=
        sendDlLoop_split (tryH cfg eqv (Value.set cfg x.s msg wr).1.events) x.ls
      intro l hl ha
      simp only [sendDl] at hl ⊢
      split at hl
      · -- the loop ran to its end (`rest = []`) and met a cancelled listener: `collect`
        rename_i hc
        simp only [Bool.and_eq_true] at hc
        have hr : rest = [] := h4.mp hc.1
        rw [if_pos (by simp only [Bool.and_eq_true]; exact hc)]
        simp only []
        have hl' := (List.mem_filter.mp (show l ∈ List.filter (·.alive) _ from hl)).1
        rw [h2, hr, List.append_nil] at hl'
        obtain ⟨l0, hl0, rfl⟩ := List.mem_map.mp hl'
        have hmem : l0 ∈ x.ls := by rw [h1]; exact List.mem_append_left _ hl0
        have ha0 : l0.alive = true := by
          unfold serve at ha
          split at ha
          · assumption
          · exact ha
        exact (serve_good cfg eqv _ true x.log l0 (h3 l0 hl0) ha0 (h l0 hmem ha0)).1
      · rename_i hc
        rw [if_neg hc]
        rw [h2] at hl
        rcases List.mem_append.mp hl with hl | hl
        · obtain ⟨l0, hl0, rfl⟩ := List.mem_map.mp hl
          have hmem : l0 ∈ x.ls := by rw [h1]; exact List.mem_append_left _ hl0
          have ha0 : l0.alive = true := by
            unfold serve at ha
            split at ha
            · assumption
            · exact ha
          exact (serve_good cfg eqv _ _ x.log l0 (h3 l0 hl0) ha0 (h l0 hmem ha0)).1
        · -- at or after the stalled listener: untouched, and the writer is told the write failed
          have hne : rest ≠ [] := List.ne_nil_of_mem hl
          have hok : (sendDlLoop (tryH cfg eqv (Value.set cfg x.s msg wr).1.events) x.ls).2 = false := by
            cases hb : (sendDlLoop (tryH cfg eqv (Value.set cfg x.s msg wr).1.events) x.ls).2 with
            | false => rfl
            | true => exact absurd (h4.mp hb) hne
          have hmem : l ∈ x.ls := by rw [h1]; exact List.mem_append_right _ hl
          have g := h l hmem ha
          rw [hok]
          exact ⟨g.stream, g.last, Reached.miss _ _ _ g.reached, g.free⟩
  | hold i =>
    exact onId_good cfg eqv i _ x (fun st g => ⟨g.stream, g.last, g.reached, fun hf => by simp at hf⟩) h
  | resume i =>
    refine onId_good cfg eqv i _ x (fun st g => ⟨?_, g.last, g.reached, fun _ => rfl⟩) h
    simp only [List.append_nil]
    exact g.stream

theorem hRun_good (cfg : Cfg M K R) (eqv : Eqv M) (ops : List (HOp M K)) :
    ∀ x : HSess M K, AllGood cfg eqv x → AllGood cfg eqv (hRun cfg eqv x ops) := by
  induction ops with
  | nil => intro x h; exact h
  | cons op ops ih =>
    intro x h
    simp only [hRun, List.foldl_cons]
    exact ih _ (hStep_good cfg eqv x op h)

/-- all logged writes succeeded ⇒ `seen` is every announced event, in write order -/
theorem reached_all_ok {E : Type} {log : List (List E × Bool)} {seen : List E}
    (h : Reached log seen) (hok : ∀ e ∈ log, e.2 = true) :
    seen = (log.reverse.map (·.1)).flatten := by
  induction h with
  | nil => rfl
  | hit evs ok log seen _ ih =>
    have := ih (fun e he => hok e (List.mem_cons_of_mem _ he))
    simp [this]
  | miss evs log seen _ _ =>
    have := hok (evs, false) List.mem_cons_self
    cases this

end ScVerif.C04
