import ScVerif.C04.ValueSession
import ScVerif.C04.PullIDSession
import ScVerif.C04.GPrefix
import ScVerif.C01.Flat
/-!
# C04 — property theorems: sessions of `Value.Pull` and of `Collection.PullID` subscribers

`PropsChurn.lean` proves "exactly the seed and then one event per successful write, in order" for every
`Collection.Pull` subscriber of every session with subscriber churn.  The same must hold for the other
two kinds of backpressured subscriber the package offers, on the same `minibus.Bus`:

* `Value.Pull` — its equivalence compares against the last value *this subscription sent*, so its
  stream depends on per-subscription state that must survive the churn of the others;
* `Collection.PullID` — one listener (its inner `Pull`), forwarding the changes of one id until the
  item is removed, alongside ordinary `Pull`s on the same collection.

`GSession.lean` states the bus life cycle once for any feed (`step` / `open` / `fwd`);
`ValueSession.lean` and `PullIDSession.lean` instantiate it and prove that the fold it yields IS
`valStream` / `collStream` / `pullIDStream`.

Only property theorems and their non-vacuity examples live in this file.
-/
namespace ScVerif.C04
open ScVerif.C01
variable {M K R : Type}

/-- **Every `Value.Pull` subscriber of every session.**  For every initial state, every sequence of
calls on the `Value` (Sets that succeed or fail, Gets), every equivalence and every churn —
`Value.Pull`s opening with any options and subscriptions being cancelled between the calls and at any
point of any `Bus.Send` — each subscriber live at the end has been sent exactly `valStream`: its seed
from the state at its registration, then every later successful Set, once, in order, projected by ITS
read mask and suppressed iff the equivalence relates it to the last value sent to THIS subscriber.  The
live subscribers are exactly the `Pull`s opened and not cancelled, in order, identities distinct. -/
theorem C04_value_session_streams (cfg : Cfg M K R) (eqv : Eqv M) (s0 : VState M)
    (items : List (GItem (VOp M K) (SubOpts K))) (hfresh : (gListenIds items).Nodup) :
    (∀ p ∈ view (gRunSession (valFeed cfg eqv) { s := s0, ls := [], nw := 0 } items).ls,
      p.2.regAt ≤ (gCallsOf items).length ∧ p.2.st.opts = p.2.o ∧
      p.2.st.got = valStream cfg eqv p.2.o (Value.run cfg s0 ((gCallsOf items).take p.2.regAt)).2
        ((gCallsOf items).drop p.2.regAt)) ∧
    (view (gRunSession (valFeed cfg eqv) { s := s0, ls := [], nw := 0 } items).ls).map (·.1) =
      gEagerIds [] (gActsOf items) ∧
    ((gRunSession (valFeed cfg eqv) { s := s0, ls := [], nw := 0 } items).ls.map (·.id)).Nodup := by
  obtain ⟨h1, h2, h3⟩ := gSession_streams (valFeed cfg eqv) s0 items hfresh
  refine ⟨?_, h2, h3⟩
  intro p hp
  obtain ⟨hle, hst⟩ := h1 p hp
  have hrun := (valFeed_run cfg eqv ((gCallsOf items).take p.2.regAt) s0).2
  have hs := valFeed_stream cfg eqv p.2.o (Value.run cfg s0 ((gCallsOf items).take p.2.regAt)).2
    ((gCallsOf items).drop p.2.regAt)
  rw [hrun] at hst
  rw [hst]
  exact ⟨hle, hs.2, hs.1⟩

/-- what a subscription of a collection must have been sent -/
def collSpec (cfg : Cfg M K R) (eqv : Eqv M) (s : CState M R) (ops : List (COp M K)) : COpen K → CSubSt M K
  | .pull o => .pull o (collStream cfg eqv o s ops)
  | .pullID o id => .pullID o (icptId cfg id) (pullIDStream cfg eqv o s id ops).1 (pullIDStream cfg eqv o s id ops).2

/-- **`Pull` and `PullID` subscribers on one bus.**  For every initial state, every sequence of calls
on the collection, every equivalence and every churn — `Pull`s and `PullID`s (any options, any id, with
or without id interceptor) opening and being cancelled between the calls and at any point of any
`Bus.Send` — each subscriber live at the end holds exactly its spec: a `Pull` has been sent `collStream`;
a `PullID(id)` has forwarded `pullIDStream`: the item's seed value if it existed at registration, then
the new value of every later successful Add/Update of the intercepted id that its inner `Pull` delivers,
once, in order, up to the first REMOVE of that id, and its channel is closed iff such a REMOVE was
delivered — whatever the other subscribers did meanwhile.  The live subscribers are exactly those
opened and not cancelled, in order, identities distinct. -/
theorem C04_pullid_session_streams (cfg : Cfg M K R) (eqv : Eqv M) (s0 : CState M R)
    (items : List (GItem (COp M K) (COpen K))) (hfresh : (gListenIds items).Nodup) :
    (∀ p ∈ view (gRunSession (collFeed cfg eqv) { s := s0, ls := [], nw := 0 } items).ls,
      p.2.regAt ≤ (gCallsOf items).length ∧
      p.2.st = collSpec cfg eqv (Coll.run cfg s0 ((gCallsOf items).take p.2.regAt)).2
        ((gCallsOf items).drop p.2.regAt) p.2.o) ∧
    (view (gRunSession (collFeed cfg eqv) { s := s0, ls := [], nw := 0 } items).ls).map (·.1) =
      gEagerIds [] (gActsOf items) ∧
    ((gRunSession (collFeed cfg eqv) { s := s0, ls := [], nw := 0 } items).ls.map (·.id)).Nodup := by
  obtain ⟨h1, h2, h3⟩ := gSession_streams (collFeed cfg eqv) s0 items hfresh
  refine ⟨?_, h2, h3⟩
  intro p hp
  obtain ⟨hle, hst⟩ := h1 p hp
  have hrun := (collFeed_run cfg eqv ((gCallsOf items).take p.2.regAt) s0).2
  have hs := collFeed_stream cfg eqv (Coll.run cfg s0 ((gCallsOf items).take p.2.regAt)).2
    ((gCallsOf items).drop p.2.regAt)
  rw [hrun] at hst
  refine ⟨hle, ?_⟩
  rw [hst]
  cases p.2.o with
  | pull o => exact hs.1 o
  | pullID o id => exact hs.2 o id

/-- **A cancelled subscriber has received a prefix of its stream.**  For every feed (`Collection.Pull`
and `PullID`: `collFeed`; `Value.Pull`: `valFeed`), every session from the empty bus and every listener
still registered at its end — live, or cancelled between two calls or in the middle of a `Send` and not
yet collected: what it holds is its seed from the state at its registration folded with the events of
the calls up to some call `k` (`regAt ≤ k ≤` number of calls) — each of those calls' events handed to it
exactly once, in order, none skipped — and `k` is the last call if it is live.  (A dead listener is never
handed anything again: `C04_send_at_most_once`.) -/
theorem C04_cancelled_subscriber_prefix {S Op E O σ : Type} (F : Feed S Op E O σ) (s0 : S)
    (items : List (GItem Op O)) (hfresh : (gListenIds items).Nodup) :
    ∀ l ∈ (gRunSession F { s := s0, ls := [], nw := 0 } items).ls,
      ∃ k, l.st.regAt ≤ k ∧ k ≤ (gCallsOf items).length ∧ (l.alive = true → k = (gCallsOf items).length) ∧
        l.st.st = gStream F l.st.o (gRun F s0 ((gCallsOf items).take l.st.regAt)).2
          (((gCallsOf items).take k).drop l.st.regAt) :=
  gSession_prefix F s0 items hfresh

/-! ## Non-vacuity -/

def seCfg : Cfg Msg Mask (List Nat) := { ops := flatOps, gen := flatGen }

/-- a `Value` session: subscriber 1 (equivalence "same a") opens, 2 opens and is cancelled; a Set is
delivered while 3 opens mid-`Send` (its seed has the Set) and the dead listener 2 is collected; a Set
that only changes `s` is suppressed for 1 and 3 by the equivalence; a third Set reaches both -/
def seValSession : List (GItem (VOp Msg Mask) (SubOpts Mask)) :=
  [ .idle (.listen 1 {}), .idle (.listen 2 {}), .idle (.cancel 2),
    .call (.set { a := 2, s := "", c := none } {}) [.visit, .listen 3 {}, .visit],
    .call (.set { a := 2, s := "x", c := none } {}) [],
    .call (.set { a := 3, s := "x", c := none } {}) [] ]

example : (gListenIds seValSession).Nodup := by decide

example : (view (gRunSession (valFeed seCfg (some (fun x y => x.map (·.a) == y.map (·.a))))
      { s := Value.init seCfg (some { a := 1, s := "", c := none }), ls := [], nw := 0 } seValSession).ls).map
      (fun p => (p.1, p.2.st.got.map (fun d => (d.value.a, d.value.s, d.seed)))) =
    [ (1, [(1, "", true), (2, "", false), (3, "x", false)]),
      (3, [(2, "", true), (3, "x", false)]) ] := by rfl

/-- a collection session with a `Pull` (1), a `PullID("a")` (2) and a `PullID("b")` (3): update of a, add
of b, delete of a (ends 2), re-add of a (2 stays ended), while a fourth subscriber comes and goes -/
def seCollSession : List (GItem (COp Msg Mask) (COpen Mask)) :=
  [ .idle (.listen 1 (.pull { updatesOnly := true })), .idle (.listen 2 (.pullID {} "a")),
    .idle (.listen 3 (.pullID {} "b")),
    .call (.update "a" { a := 2, s := "", c := none } {}) [.visit, .listen 4 (.pull {})],
    .call (.add "b" { a := 7, s := "", c := none } {}) [.cancel 4],
    .call (.delete "a" {}) [],
    .call (.add "a" { a := 9, s := "", c := none } {}) [] ]

example : (gListenIds seCollSession).Nodup := by decide

example : (view (gRunSession (collFeed seCfg none)
      { s := Coll.init seCfg [("a", { a := 1, s := "", c := none })] [], ls := [], nw := 0 } seCollSession).ls).map
      (fun p => (p.1, match p.2.st with
        | .pull _ got => (got.map (fun e => (e.id, e.new.map (·.a))), false)
        | .pullID _ _ got ended => (got.map (fun d => ("", some d.value.a)), ended))) =
    [ (1, [("a", some 2), ("b", some 7), ("a", none), ("a", some 9)], false),
      (2, [("", some 1), ("", some 2)], true),
      (3, [("", some 7)], false) ] := by rfl

/-- subscriber 2 is cancelled in the middle of the first `Send`, after its own turn (no dead listener is
met, nothing is collected); the second call fails and announces nothing (no `Send`): 2 is still
registered, dead, holding the prefix `k = 1` of its stream; subscriber 1 is live and holds everything -/
def sePrefixSession : List (GItem (COp Msg Mask) (COpen Mask)) :=
  [ .idle (.listen 1 (.pull { updatesOnly := true })), .idle (.listen 2 (.pull { updatesOnly := true })),
    .call (.update "a" { a := 2, s := "", c := none } {}) [.visit, .visit, .cancel 2],
    .call (.add "a" { a := 3, s := "", c := none } {}) [] ]

example : (gListenIds sePrefixSession).Nodup := by decide

example : ((gRunSession (collFeed seCfg none)
      { s := Coll.init seCfg [("a", { a := 1, s := "", c := none })] [], ls := [], nw := 0 } sePrefixSession).ls).map
      (fun l => (l.id, l.alive, match l.st.st with
        | .pull _ got => got.map (fun e => e.new.map (·.a))
        | .pullID _ _ _ _ => [])) =
    [ (1, true, [some 2]), (2, false, [some 2]) ] := by rfl

end ScVerif.C04
