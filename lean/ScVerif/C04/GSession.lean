import ScVerif.C04.Bus
/-!
# C04 — sessions over ANY resource that publishes on a bus

`Session.lean` is about `Collection.Pull` subscribers.  `Value.Pull` and `Collection.PullID`
subscribers sit on the same `minibus.Bus` with the same life cycle: the subscription takes what it
needs from the state and registers a listener (one atomic step with respect to commits), a
successful write commits and `Send`s its events to a snapshot of the listeners, a cancelled listener
stays registered until some `Send` collects it.  This file states that life cycle once, for a `Feed`:

* `step`  — one call of the writer: the bus events it announces and the next state;
* `open`  — a subscription up to its registration: the subscriber's state with its seed queued;
* `fwd`   — the subscription's forwarding loop handed the events of one `Send`.

and proves, for every session (calls, subscriptions opening and being cancelled between the calls and at
any point of any `Send`), that each live subscriber's state is `open` at the state of its registration
folded with `fwd` over the events of every later call — nothing missed, nothing twice.  The instances
are in `ValueSession.lean` (`Value.Pull`) and `PullIDSession.lean` (`Pull` and `PullID` on one bus).
-/
namespace ScVerif.C04

structure Feed (S Op E O σ : Type) where
  step : S → Op → List E × S
  «open» : S → O → σ
  fwd : List E → σ → σ
  /-- a forwarding loop handed nothing forwards nothing -/
  fwd_nil : ∀ st, fwd [] st = st

variable {S Op E O σ : Type}

/-- an open subscription: its state; ghost: the options it opened with and how many of the session's
calls had been made when it registered -/
structure GSub (O σ : Type) where
  st : σ
  o : O
  regAt : Nat

inductive GAct (O : Type)
  | visit
  | listen (id : Nat) (o : O)
  | cancel (id : Nat)

inductive GItem (Op O : Type)
  /-- between two calls -/
  | idle (a : GAct O)
  /-- one call of the writer, and what happens while its `Send` (if any) delivers -/
  | call (op : Op) (sched : List (GAct O))

structure GSess (S O σ : Type) where
  s : S
  ls : List (Lsn Nat (GSub O σ))
  nw : Nat

def gToAct (F : Feed S Op E O σ) (s : S) (nw : Nat) : GAct O → Act Nat (GSub O σ)
  | .visit => .visit
  | .listen i o => .listen i { st := F.open s o, o := o, regAt := nw }
  | .cancel i => .cancel i

def gDeliver (F : Feed S Op E O σ) (evs : List E) (p : GSub O σ) : GSub O σ :=
  { p with st := F.fwd evs p.st }

def gRunItem (F : Feed S Op E O σ) (x : GSess S O σ) : GItem Op O → GSess S O σ
  | .idle a => { x with ls := idle x.ls (gToAct F x.s x.nw a) }
  | .call op sched =>
    let r := F.step x.s op
    let acts := sched.map (gToAct F r.2 (x.nw + 1))
    match r.1 with
    | [] => { s := r.2, ls := acts.foldl idle x.ls, nw := x.nw + 1 }
    | e :: es => { s := r.2, ls := send (gDeliver F (e :: es)) x.ls acts, nw := x.nw + 1 }

def gRunSession (F : Feed S Op E O σ) (x : GSess S O σ) (items : List (GItem Op O)) : GSess S O σ :=
  items.foldl (gRunItem F) x

/-- the calls of a sequence: the events each announces, and the final state -/
def gRun (F : Feed S Op E O σ) : S → List Op → List (List E) × S
  | s, [] => ([], s)
  | s, op :: ops => ((F.step s op).1 :: (gRun F (F.step s op).2 ops).1, (gRun F (F.step s op).2 ops).2)

/-- THE SPEC: what a subscriber that opens with `o` in state `s` and then watches `ops` holds -/
def gStream (F : Feed S Op E O σ) (o : O) (s : S) (ops : List Op) : σ :=
  (gRun F s ops).1.foldl (fun st evs => F.fwd evs st) (F.open s o)

def gCallsOf : List (GItem Op O) → List Op
  | [] => []
  | .idle _ :: rest => gCallsOf rest
  | .call op _ :: rest => op :: gCallsOf rest

def gActIds : List (GAct O) → List Nat
  | [] => []
  | .listen i _ :: rest => i :: gActIds rest
  | _ :: rest => gActIds rest

def gListenIds : List (GItem Op O) → List Nat
  | [] => []
  | .idle a :: rest => gActIds [a] ++ gListenIds rest
  | .call _ sched :: rest => gActIds sched ++ gListenIds rest

def gEagerIds (ids : List Nat) : List (GAct O) → List Nat
  | [] => ids
  | .visit :: rest => gEagerIds ids rest
  | .listen i _ :: rest => gEagerIds (ids ++ [i]) rest
  | .cancel i :: rest => gEagerIds (ids.filter (· ≠ i)) rest

def gActsOf : List (GItem Op O) → List (GAct O)
  | [] => []
  | .idle a :: rest => a :: gActsOf rest
  | .call _ sched :: rest => sched ++ gActsOf rest

/-! ## lemmas -/

theorem gRun_append (F : Feed S Op E O σ) (a b : List Op) :
    ∀ s : S, gRun F s (a ++ b) =
      ((gRun F s a).1 ++ (gRun F (gRun F s a).2 b).1, (gRun F (gRun F s a).2 b).2) := by
  induction a with
  | nil => intro s; simp [gRun]
  | cons op ops ih => intro s; simp only [List.cons_append, gRun, ih]

theorem gStream_nil (F : Feed S Op E O σ) (o : O) (s : S) : gStream F o s [] = F.open s o := rfl

theorem gStream_snoc (F : Feed S Op E O σ) (o : O) (s : S) (ops : List Op) (op : Op) :
    gStream F o s (ops ++ [op]) = F.fwd (F.step (gRun F s ops).2 op).1 (gStream F o s ops) := by
  simp only [gStream, gRun_append, List.foldl_append]
  simp [gRun]

theorem gRun_snoc_state (F : Feed S Op E O σ) (s0 : S) (ws : List Op) (op : Op) :
    (gRun F s0 (ws ++ [op])).2 = (F.step (gRun F s0 ws).2 op).2 := by
  rw [gRun_append]; simp [gRun]

def GStreamOK (F : Feed S Op E O σ) (s0 : S) (ws : List Op) (p : GSub O σ) : Prop :=
  p.regAt ≤ ws.length ∧
  p.st = gStream F p.o (gRun F s0 (ws.take p.regAt)).2 (ws.drop p.regAt)

structure GGood (F : Feed S Op E O σ) (s0 : S) (x : GSess S O σ) (ws : List Op) : Prop where
  state : x.s = (gRun F s0 ws).2
  count : x.nw = ws.length
  streams : ∀ p ∈ view x.ls, GStreamOK F s0 ws p.2

theorem gStreamOK_new (F : Feed S Op E O σ) (s0 : S) (ws : List Op) (o : O) :
    GStreamOK F s0 ws { st := F.open (gRun F s0 ws).2 o, o := o, regAt := ws.length } := by
  refine ⟨Nat.le_refl _, ?_⟩
  simp [gStream_nil]

theorem gStreamOK_snoc (F : Feed S Op E O σ) (s0 : S) (ws : List Op) (op : Op) (p : GSub O σ)
    (h : GStreamOK F s0 ws p) :
    GStreamOK F s0 (ws ++ [op]) (gDeliver F (F.step (gRun F s0 ws).2 op).1 p) := by
  obtain ⟨h1, h2⟩ := h
  refine ⟨by simp only [gDeliver, List.length_append, List.length_singleton]; omega, ?_⟩
  simp only [gDeliver]
  rw [List.take_append_of_le_length h1, List.drop_append_of_le_length h1, gStream_snoc, h2]
  congr 3
  have := gRun_append F (ws.take p.regAt) (ws.drop p.regAt) s0
  rw [List.take_append_drop] at this
  rw [this]

theorem gActIds_eq (F : Feed S Op E O σ) (s : S) (nw : Nat) (sched : List (GAct O)) :
    schedIds (sched.map (gToAct F s nw)) = gActIds sched := by
  induction sched with
  | nil => rfl
  | cons a rest ih => cases a <;> simp [gToAct, schedIds, gActIds, ih]

theorem g_fold_idle_view {ι τ : Type} [DecidableEq ι] (acts : List (Act ι τ)) :
    ∀ ls : List (Lsn ι τ), view (acts.foldl idle ls) = acts.foldl eagerAct (view ls) := by
  induction acts with
  | nil => intro ls; rfl
  | cons a rest ih => intro ls; simp only [List.foldl_cons, ih, idle_view]

theorem g_forall_fold_eagerAct {ι τ : Type} [DecidableEq ι] (P : τ → Prop) (acts : List (Act ι τ)) (v : List (ι × τ))
    (hv : ∀ p ∈ v, P p.2) (ha : ∀ i st, (Act.listen i st : Act ι τ) ∈ acts → P st) :
    ∀ p ∈ acts.foldl eagerAct v, P p.2 := by
  intro p hp
  rcases mem_fold_eagerAct acts v p hp with h | h
  · exact hv p h
  · exact ha _ _ h

theorem gDeliver_nil (F : Feed S Op E O σ) (p : GSub O σ) : gDeliver F [] p = p := by
  simp [gDeliver, F.fwd_nil]

theorem mem_gToAct_listen (F : Feed S Op E O σ) (s : S) (nw : Nat) (sched : List (GAct O)) (i : Nat)
    (p : GSub O σ) (h : (Act.listen i p : Act Nat (GSub O σ)) ∈ sched.map (gToAct F s nw)) :
    ∃ o, p = { st := F.open s o, o := o, regAt := nw } := by
  simp only [List.mem_map] at h
  obtain ⟨a, _, ha⟩ := h
  cases a with
  | visit => simp [gToAct] at ha
  | cancel j => simp [gToAct] at ha
  | listen j o =>
    simp only [gToAct, Act.listen.injEq] at ha
    exact ⟨o, ha.2.symm⟩

/-- one item of a session keeps every live subscriber's state exact, whatever the churn -/
theorem gRunItem_good (F : Feed S Op E O σ) (s0 : S) (x : GSess S O σ) (ws : List Op)
    (item : GItem Op O) (hg : GGood F s0 x ws)
    (hn : (x.ls.map (·.id) ++ gListenIds [item]).Nodup) :
    GGood F s0 (gRunItem F x item) (ws ++ gCallsOf [item]) ∧
    ((gRunItem F x item).ls.map (·.id)).Sublist (x.ls.map (·.id) ++ gListenIds [item]) := by
  cases item with
  | idle a =>
    simp only [gCallsOf, List.append_nil, gRunItem, gListenIds]
    refine ⟨⟨hg.state, hg.count, ?_⟩, ?_⟩
    · simp only [idle_view]
      cases a with
      | visit => exact hg.streams
      | cancel j =>
        intro p hp
        simp only [gToAct, eagerAct, List.mem_filter] at hp
        exact hg.streams p hp.1
      | listen j o =>
        intro p hp
        simp only [gToAct, eagerAct, List.mem_append, List.mem_singleton] at hp
        rcases hp with hp | hp
        · exact hg.streams p hp
        · subst hp
          simp only [hg.state, hg.count]
          exact gStreamOK_new F s0 ws o
    · cases a with
      | visit => simp [gToAct, idle, gActIds]
      | cancel j => simp [gToAct, idle, gActIds, ids_markDead]
      | listen j o => simp [gToAct, idle, gActIds, register]
  | call op sched =>
    simp only [gCallsOf, gListenIds, List.append_nil] at hn ⊢
    have hstate : (F.step x.s op).2 = (gRun F s0 (ws ++ [op])).2 := by
      rw [gRun_snoc_state, hg.state]
    have hcount : x.nw + 1 = (ws ++ [op]).length := by simp [hg.count]
    have hnew : ∀ i p, (Act.listen i p : Act Nat (GSub O σ)) ∈
        sched.map (gToAct F (F.step x.s op).2 (x.nw + 1)) → GStreamOK F s0 (ws ++ [op]) p := by
      intro i p h
      obtain ⟨o, ho⟩ := mem_gToAct_listen F _ _ sched i p h
      subst ho
      rw [hstate, hcount]
      exact gStreamOK_new F s0 (ws ++ [op]) o
    have hold : ∀ p ∈ view x.ls, GStreamOK F s0 (ws ++ [op]) (gDeliver F (F.step x.s op).1 p.2) := by
      intro p hp
      have := gStreamOK_snoc F s0 ws op p.2 (hg.streams p hp)
      rw [← hg.state] at this
      exact this
    simp only [gRunItem]
    split
    · rename_i hev
      refine ⟨⟨hstate, hcount, ?_⟩, ?_⟩
      · rw [g_fold_idle_view]
        refine g_forall_fold_eagerAct _ _ _ ?_ hnew
        intro p hp
        have := hold p hp
        rw [hev, gDeliver_nil] at this
        exact this
      · rw [ids_fold_idle, gActIds_eq]
        exact List.Sublist.refl _
    · rename_i e es hev
      have hn' : (x.ls.map (·.id)).Nodup := (List.nodup_append.mp hn).1
      have hfresh : freshSched (x.ls.map (·.id)) (sched.map (gToAct F (F.step x.s op).2 (x.nw + 1))) := by
        apply freshSched_of_nodup
        rw [gActIds_eq]; exact hn
      refine ⟨⟨hstate, hcount, ?_⟩, ?_⟩
      · rw [(send_view _ _ _ hn' hfresh).1]
        refine g_forall_fold_eagerAct _ _ _ ?_ hnew
        intro p hp
        simp only [List.mem_map] at hp
        obtain ⟨q, hq, rfl⟩ := hp
        have := hold q hq
        rw [hev] at this
        exact this
      · have := ids_send_sublist (gDeliver F (e :: es)) x.ls (sched.map (gToAct F (F.step x.s op).2 (x.nw + 1)))
        rw [gActIds_eq] at this
        exact this

theorem gListenIds_cons (item : GItem Op O) (rest : List (GItem Op O)) :
    gListenIds (item :: rest) = gListenIds [item] ++ gListenIds rest := by
  cases item <;> simp [gListenIds]

theorem gCallsOf_cons (item : GItem Op O) (rest : List (GItem Op O)) :
    gCallsOf (item :: rest) = gCallsOf [item] ++ gCallsOf rest := by
  cases item <;> simp [gCallsOf]

theorem gRunSession_good (F : Feed S Op E O σ) (s0 : S) (items : List (GItem Op O)) :
    ∀ (x : GSess S O σ) (ws : List Op), GGood F s0 x ws →
      (x.ls.map (·.id) ++ gListenIds items).Nodup →
      GGood F s0 (gRunSession F x items) (ws ++ gCallsOf items) ∧
      ((gRunSession F x items).ls.map (·.id)).Nodup := by
  induction items with
  | nil =>
    intro x ws hg hn
    simp only [gListenIds, List.append_nil] at hn
    simpa [gRunSession, gCallsOf] using And.intro hg hn
  | cons item rest ih =>
    intro x ws hg hn
    rw [gListenIds_cons, ← List.append_assoc] at hn
    obtain ⟨h1, h2⟩ := gRunItem_good F s0 x ws item hg (List.nodup_append.mp hn).1
    have hn' : ((gRunItem F x item).ls.map (·.id) ++ gListenIds rest).Nodup :=
      (List.Sublist.append h2 (List.Sublist.refl _)).nodup hn
    have := ih _ _ h1 hn'
    rw [gCallsOf_cons, ← List.append_assoc]
    exact this

theorem g_fold_ids_toAct (F : Feed S Op E O σ) (s : S) (nw : Nat) (sched : List (GAct O)) :
    ∀ ids : List Nat, (sched.map (gToAct F s nw)).foldl idsStep ids = gEagerIds ids sched := by
  induction sched with
  | nil => intro ids; rfl
  | cons a rest ih =>
    intro ids
    cases a <;> simp only [List.map_cons, List.foldl_cons, gToAct, gEagerIds, idsStep, ih]

theorem gEagerIds_append (a b : List (GAct O)) : ∀ ids, gEagerIds ids (a ++ b) = gEagerIds (gEagerIds ids a) b := by
  induction a with
  | nil => intro ids; rfl
  | cons x xs ih => intro ids; cases x <;> simp only [List.cons_append, gEagerIds, ih]

theorem gRunItem_ids (F : Feed S Op E O σ) (x : GSess S O σ) (item : GItem Op O)
    (hn : (x.ls.map (·.id) ++ gListenIds [item]).Nodup) :
    (view (gRunItem F x item).ls).map (·.1) = gEagerIds ((view x.ls).map (·.1)) (gActsOf [item]) := by
  cases item with
  | idle a =>
    simp only [gRunItem, idle_view, gActsOf]
    cases a <;> simp [gToAct, eagerAct, gEagerIds, List.filter_map] <;> rfl
  | call op sched =>
    simp only [gListenIds, List.append_nil] at hn
    simp only [gRunItem, gActsOf, List.append_nil]
    split
    · rw [g_fold_idle_view, ids_fold_eagerAct, g_fold_ids_toAct]
    · have hn' : (x.ls.map (·.id)).Nodup := (List.nodup_append.mp hn).1
      have hfresh : freshSched (x.ls.map (·.id)) (sched.map (gToAct F (F.step x.s op).2 (x.nw + 1))) := by
        apply freshSched_of_nodup
        rw [gActIds_eq]; exact hn
      rw [(send_view _ _ _ hn' hfresh).1, ids_fold_eagerAct, g_fold_ids_toAct, List.map_map]
      rfl

theorem gActsOf_cons (item : GItem Op O) (rest : List (GItem Op O)) :
    gActsOf (item :: rest) = gActsOf [item] ++ gActsOf rest := by
  cases item <;> simp [gActsOf]

theorem gRunSession_ids (F : Feed S Op E O σ) (s0 : S) (items : List (GItem Op O)) :
    ∀ (x : GSess S O σ) (ws : List Op), GGood F s0 x ws →
      (x.ls.map (·.id) ++ gListenIds items).Nodup →
      (view (gRunSession F x items).ls).map (·.1) = gEagerIds ((view x.ls).map (·.1)) (gActsOf items) := by
  induction items with
  | nil => intro x ws _ _; rfl
  | cons item rest ih =>
    intro x ws hg hn
    rw [gListenIds_cons, ← List.append_assoc] at hn
    have hn1 := (List.nodup_append.mp hn).1
    obtain ⟨h1, h2⟩ := gRunItem_good F s0 x ws item hg hn1
    have hn' : ((gRunItem F x item).ls.map (·.id) ++ gListenIds rest).Nodup :=
      (List.Sublist.append h2 (List.Sublist.refl _)).nodup hn
    have := ih _ _ h1 hn'
    rw [gActsOf_cons, gEagerIds_append, ← gRunItem_ids F x item hn1]
    exact this

/-- the session theorem for any feed, from the empty bus -/
theorem gSession_streams (F : Feed S Op E O σ) (s0 : S) (items : List (GItem Op O))
    (hfresh : (gListenIds items).Nodup) :
    (∀ p ∈ view (gRunSession F { s := s0, ls := [], nw := 0 } items).ls,
      p.2.regAt ≤ (gCallsOf items).length ∧
      p.2.st = gStream F p.2.o (gRun F s0 ((gCallsOf items).take p.2.regAt)).2 ((gCallsOf items).drop p.2.regAt)) ∧
    (view (gRunSession F { s := s0, ls := [], nw := 0 } items).ls).map (·.1) = gEagerIds [] (gActsOf items) ∧
    ((gRunSession F { s := s0, ls := [], nw := 0 } items).ls.map (·.id)).Nodup := by
  have h0 : GGood F s0 ({ s := s0, ls := [], nw := 0 } : GSess S O σ) [] :=
    ⟨rfl, rfl, by intro p hp; simp [view] at hp⟩
  have h1 := gRunSession_good F s0 items _ [] h0 (by simpa using hfresh)
  have h2 := gRunSession_ids F s0 items _ [] h0 (by simpa using hfresh)
  simp only [List.nil_append] at h1
  exact ⟨h1.1.streams, h2, h1.2⟩

end ScVerif.C04
