import ScVerif.Base.Line
/-! Driver handler for C04 (stub: replaced by the property's owner). -/
namespace ScVerif.C04

def handle (_toks : List String) : String := "!bad-op"

end ScVerif.C04
