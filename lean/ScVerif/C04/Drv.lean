import ScVerif.C01.Drv
import ScVerif.C04.Pull
/-!
Driver handler for C04 (stateful): a C01 resource plus the open backpressured subscriptions.

```
newc|newv <C01 config> [eqv=<equal|sameA>]             -> ok
sub name=<k> [rm=<mask>] [uo]                          -> seed=[…]
subid name=<k> id=<id> [rm=<mask>] [uo]                -> seed=[…]      (PullID; deliveries end with $ once the stream has ended)
unsub name=<k>                                         -> ok
upd|add|del|vset … (as C01)                            -> val=… err=… | k1=[delivered…] k2=[…]
```
-/
namespace ScVerif.C04
open ScVerif.C01 ScVerif.Line

def namedEqv : String → Option (Option Msg → Option Msg → Bool)
  | "equal" => some (fun x y => decide (x = y))
  | "sameA" => some (fun x y => optA x == optA y)
  | _ => none

structure Sub where
  name : String
  opts : SubOpts Mask
  last : Option Msg   -- Value.Pull's `last`
  pid : Option String := none   -- PullID: the (intercepted) id
  ended : Bool := false         -- PullID: the stream has ended

inductive Res
  | none
  | coll (cfg : FCfg) (s : CState Msg (List Nat))
  | val (cfg : FCfg) (s : VState Msg)

structure DrvState where
  res : Res := .none
  eqv : Eqv Msg := none
  subs : List Sub := []


def parseSubOpts? (kv : KV) : Option (SubOpts Mask) := do
  let rm ← optKey kv "rm" parseMask?
  pure { readMask := rm, updatesOnly := kvHas kv "uo" }

def showVDeliv (d : VDeliv Msg) : String := s!"{showMsg d.value}|{d.time}|{showFlags d.seed d.lastSeed}"

/-- one subscription's share of the bus events of one collection write -/
def deliverSubC (cfg : FCfg) (eqv : Eqv Msg) (evs : List (CEvent Msg)) (sb : Sub) : String × Sub :=
  let got := evs.filterMap (collForward cfg eqv sb.opts)
  match sb.pid with
  | none => (s!"{sb.name}={showList (got.map showCEvent)}", sb)
  | some id =>
    if sb.ended then (s!"{sb.name}=[]$", sb)
    else
      let r := pullIDLoop id got
      (s!"{sb.name}={showList (r.1.map showVDeliv)}" ++ (if r.2 then "$" else ""), { sb with ended := r.2 })

/-- deliver the bus events of one collection write to every subscription -/
def deliverC (cfg : FCfg) (eqv : Eqv Msg) (subs : List Sub) (evs : List (CEvent Msg)) : String :=
  " ".intercalate (subs.map (fun sb => (deliverSubC cfg eqv evs sb).1))

def deliverCSubs (cfg : FCfg) (eqv : Eqv Msg) (subs : List Sub) (evs : List (CEvent Msg)) : List Sub :=
  subs.map (fun sb => (deliverSubC cfg eqv evs sb).2)

/-- deliver the bus events of one value write; returns the answer and the subscriptions with their
updated `last` -/
def deliverV (cfg : FCfg) (eqv : Eqv Msg) (subs : List Sub) (evs : List (VEvent Msg)) : String × List Sub :=
  let stepSub (sb : Sub) : String × Sub :=
    let r := evs.foldl (fun (acc : List (VDeliv Msg) × Option Msg) e =>
      match valForward cfg eqv sb.opts acc.2 e with
      | (some d, l) => (acc.1 ++ [d], l)
      | (none, l) => (acc.1, l)) ([], sb.last)
    (s!"{sb.name}={showList (r.1.map showVDeliv)}", { sb with last := r.2 })
  let rs := subs.map stepSub
  (" ".intercalate (rs.map (·.1)), rs.map (·.2))

/-- `racea` / `raceb`: a subscriber opens while write `w` is in flight.
`racea`: the subscriber is held between its snapshot and its bus registration while the write runs;
a write that commits cannot proceed (the subscriber holds the read lock), so the subscribe step comes
first (`blocked=true`); a write that does not commit, or an updates-only subscriber (takes no lock and
registers only when released), lets the write finish first.
`raceb`: the write is held between commit and publication (Update/Add/Set have such a point) while
the subscriber opens: the seed has the write, its event arrives afterwards (`parked=true`). -/
def raceKeys : List String := ["w", "sname", "srm", "suo"]

def raceSubOpts? (kv : KV) : Option (SubOpts Mask) := do
  let rm ← optKey kv "srm" parseMask?
  pure { readMask := rm, updatesOnly := kvHas kv "suo" }

def handleRace (st : DrvState) (isA : Bool) (kv : KV) : Option (DrvState × String) := do
  let w ← kvGet kv "w"
  let name ← kvGet kv "sname"
  let so ← raceSubOpts? kv
  let kvW := kv.filter (fun p => !(raceKeys.contains p.1))
  let wr ← parseWriteReq? kvW
  let flagName := if isA then "blocked" else "parked"
  match st.res with
  | .coll cfg s =>
    let id ← kvGet kv "id"
    let r ← (match w with
      | "upd" => (kvGet kv "msg").bind parseMsg? |>.map (fun m => Coll.update cfg s id m wr)
      | "add" => (kvGet kv "msg").bind parseMsg? |>.map (fun m => Coll.add cfg s id m wr)
      | "del" => some (Coll.delete cfg s id wr)
      | _ => none)
    let (o, s') := r
    let commits := !o.events.isEmpty
    let subFirst := if isA then commits && !so.updatesOnly else false
    let subBetween := if isA then false else commits && (w == "upd" || w == "add")
    let newSub : Sub := { name := name, opts := so, last := none }
    let head := s!"val={showOptMsg o.val} err={showErr o.err} | "
    if subFirst then
      pure ({ st with res := .coll cfg s', subs := deliverCSubs cfg st.eqv (st.subs ++ [newSub]) o.events },
            s!"{flagName}=true seed={showList ((collSeed cfg s so).map showCEvent)} " ++ head ++
            deliverC cfg st.eqv (st.subs ++ [newSub]) o.events)
    else if subBetween then
      pure ({ st with res := .coll cfg s', subs := deliverCSubs cfg st.eqv (st.subs ++ [newSub]) o.events },
            s!"{flagName}=true seed={showList ((collSeed cfg s' so).map showCEvent)} " ++ head ++
            deliverC cfg st.eqv (st.subs ++ [newSub]) o.events)
    else
      let old := deliverC cfg st.eqv st.subs o.events
      pure ({ st with res := .coll cfg s', subs := deliverCSubs cfg st.eqv st.subs o.events ++ [newSub] },
            s!"{flagName}=false seed={showList ((collSeed cfg s' so).map showCEvent)} " ++ head ++
            (if st.subs.isEmpty then "" else old ++ " ") ++ s!"{name}=[]")
  | .val cfg s =>
    if w != "vset" then none
    let m ← (kvGet kv "msg").bind parseMsg?
    let (o, s') := Value.set cfg s m wr
    let commits := !o.events.isEmpty
    let subFirst := if isA then commits && !so.updatesOnly else false
    let subBetween := if isA then false else commits
    let head := s!"val={showOptMsg o.val} err={showErr o.err} | "
    if subFirst || subBetween then
      let sd := valSeed cfg (if subFirst then s else s') so
      let newSub : Sub := { name := name, opts := so, last := sd.2 }
      let (ans, subs') := deliverV cfg st.eqv (st.subs ++ [newSub]) o.events
      pure ({ st with res := .val cfg s', subs := subs' },
            s!"{flagName}=true seed={showList (sd.1.map showVDeliv)} " ++ head ++ ans)
    else
      let (old, subs') := deliverV cfg st.eqv st.subs o.events
      let sd := valSeed cfg s' so
      let newSub : Sub := { name := name, opts := so, last := sd.2 }
      pure ({ st with res := .val cfg s', subs := subs' ++ [newSub] },
            s!"{flagName}=false seed={showList (sd.1.map showVDeliv)} " ++ head ++
            (if st.subs.isEmpty then "" else old ++ " ") ++ s!"{name}=[]")
  | .none => none

def handleOpt (st : DrvState) (toks : List String) : Option (DrvState × String) :=
  match toks with
  | [] => none
  | op :: rest => do
    let kv ← parseKV rest
    match op, st.res with
    | "racea", _ => handleRace st true kv
    | "raceb", _ => handleRace st false kv
    | "newc", _ =>
      let cfg ← parseCfg? kv
      let rng ← parseRng? ((kvGet kv "rng").getD "")
      let init ← parseInit? ((kvGet kv "init").getD "")
      let eqv ← optKey kv "eqv" namedEqv
      pure ({ res := .coll cfg (Coll.init cfg init rng), eqv := eqv, subs := [] }, "ok")
    | "newv", _ =>
      let cfg ← parseCfg? kv
      let init ← optKey kv "init" parseMsg?
      let eqv ← optKey kv "eqv" namedEqv
      pure ({ res := .val cfg (Value.init cfg init), eqv := eqv, subs := [] }, "ok")
    | "sub", .coll cfg s =>
      let name ← kvGet kv "name"
      let o ← parseSubOpts? kv
      pure ({ st with subs := st.subs ++ [{ name := name, opts := o, last := none }] },
            "seed=" ++ showList ((collSeed cfg s o).map showCEvent))
    | "subid", .coll cfg s =>
      let name ← kvGet kv "name"
      let id ← kvGet kv "id"
      let o ← parseSubOpts? kv
      let r := pullIDLoop (icptId cfg id) (collSeed cfg s o)
      pure ({ st with subs := st.subs ++ [{ name := name, opts := o, last := none, pid := some (icptId cfg id), ended := r.2 }] },
            "seed=" ++ showList (r.1.map showVDeliv))
    | "sub", .val cfg s =>
      let name ← kvGet kv "name"
      let o ← parseSubOpts? kv
      let sd := valSeed cfg s o
      pure ({ st with subs := st.subs ++ [{ name := name, opts := o, last := sd.2 }] },
            "seed=" ++ showList (sd.1.map showVDeliv))
    | "unsub", _ =>
      let name ← kvGet kv "name"
      pure ({ st with subs := st.subs.filter (·.name ≠ name) }, "ok")
    | "upd", .coll cfg s =>
      let id ← kvGet kv "id"
      let msg ← (kvGet kv "msg").bind parseMsg?
      let wr ← parseWriteReq? kv
      let (o, s') := Coll.update cfg s id msg wr
      pure ({ st with res := .coll cfg s', subs := deliverCSubs cfg st.eqv st.subs o.events },
            s!"val={showOptMsg o.val} err={showErr o.err} | " ++ deliverC cfg st.eqv st.subs o.events)
    | "add", .coll cfg s =>
      let id ← kvGet kv "id"
      let msg ← (kvGet kv "msg").bind parseMsg?
      let wr ← parseWriteReq? kv
      let (o, s') := Coll.add cfg s id msg wr
      pure ({ st with res := .coll cfg s', subs := deliverCSubs cfg st.eqv st.subs o.events },
            s!"val={showOptMsg o.val} err={showErr o.err} | " ++ deliverC cfg st.eqv st.subs o.events)
    | "del", .coll cfg s =>
      let id ← kvGet kv "id"
      let wr ← parseWriteReq? kv
      let (o, s') := Coll.delete cfg s id wr
      pure ({ st with res := .coll cfg s', subs := deliverCSubs cfg st.eqv st.subs o.events },
            s!"val={showOptMsg o.val} err={showErr o.err} | " ++ deliverC cfg st.eqv st.subs o.events)
    | "vset", .val cfg s =>
      let msg ← (kvGet kv "msg").bind parseMsg?
      let wr ← parseWriteReq? kv
      let (o, s') := Value.set cfg s msg wr
      let (ans, subs') := deliverV cfg st.eqv st.subs o.events
      pure ({ st with res := .val cfg s', subs := subs' },
            s!"val={showOptMsg o.val} err={showErr o.err} | " ++ ans)
    | _, _ => none

def handleS (st : DrvState) (toks : List String) : DrvState × String :=
  match handleOpt st toks with
  | some r => r
  | none => (st, "!bad-op")

end ScVerif.C04
