import ScVerif.C01.Drv
import ScVerif.C04.Pull
import ScVerif.C04.Bus
import ScVerif.C04.Stall
import ScVerif.C04.Config
import ScVerif.C04.Waste
/-!
Driver handler for C04 (stateful): a C01 resource plus its bus (`Bus.lean`): the listeners of the
backpressured subscriptions opened so far.  `unsub` only marks a listener dead (its context is
cancelled); a write that announces an event runs `Bus.send` — snapshot, deliver, `collect` iff a dead
listener was met — and `racec` registers a new listener while that `Send` is in flight.

```
newc|newv <C01 config> [eqv=<equal|sameA|nil>,…]      -> ok   (the equivalence options in order: `resolveEqv`, Config.lean)
sub name=<k> [rm=<mask>] [uo]                          -> seed=[…]
subid name=<k> id=<id> [rm=<mask>] [uo]                -> seed=[…]      (PullID; deliveries end with $ once the stream has ended)
unsub name=<k>                                         -> ok
upd|add|del|vset … (as C01)                            -> val=… err=… | k1=[delivered…] k2=[…]   (live subscriptions)
racea|raceb|racec w=<upd|add|del|vset> sname=<k> [srm=<mask>] [suo] … (the write's keys)
racee w=<upd|add|del|vset> cname=<k> … (the write's keys)   -> parked=… val=… err=… | k1=[…]   (subscriptions still open)
raced id=<id> [am] [ev=…] [chk=…] u=<upd|add|del> uid=<id> [umsg=<msg>] [ucia] [uwt=<t>]
                                                       -> uval=… uerr=… | k1=[…] || val=… err=… | k1=[…]
racef sname=<k> [srm=<mask>] [suo] tname=<m> [trm=<mask>] [tuo] order=<12|21>
                                                       -> seed=[…] seed2=[…]   (two Pulls whose Bus.Listen calls overlap; released in `order`)
hold name=<k>                                          -> ok            (the consumer of k stops receiving)
stallw w=<upd|add|del> rname=<k> … (the write's keys)  -> k=[…] || val=… err=… | k1=[…]   (Collection: the write waits for the held k)
resume name=<k>                                        -> k=[…]         (it receives again: what its forwarder was holding)
waste [hist=<id:area,…>] val=<id:area> [later=<id:area,…>] [rm=<id|area>] [uo]
                                                       -> stream=[…]    (stateless: wastepb PullWasteRecords, Waste.lean)
```
While a subscription is held its forwarder takes ONE change off the bus and blocks handing it on; the
next `vset` that announces a change finds it stalled: `Bus.Send` (`Stall.lean`, `sendDl`) gives up at
the 5 s deadline, `Value.set` answers `val=nil err=Unknown` although the value is stored, the
subscriptions registered before the stalled one have the change, the others do not.
-/
namespace ScVerif.C04
open ScVerif.C01 ScVerif.Line

def namedEqv : String → Option (Option Msg → Option Msg → Bool)
  | "equal" => some (fun x y => decide (x = y))
  | "sameA" => some (fun x y => optA x == optA y)
  | _ => none

/-- one equivalence option of the resource: a named comparer, or `nil` = `WithEquivalence(nil)` -/
def parseEqvTok (s : String) : Option (ResOpt Msg) :=
  if s == "nil" then some (.equivalence none) else (namedEqv s).map (fun f => .equivalence (some f))

/-- `eqv=<opt>,<opt>,…`: the equivalence options of the resource in the order given, resolved as
`computeConfig` does (each overwrites) -/
def parseEqvList? (kv : KV) : Option (Eqv Msg) :=
  match kvGet kv "eqv" with
  | none => some none
  | some s => ((s.splitOn ",").mapM parseEqvTok).map resolveEqv

structure Sub where
  name : String
  opts : SubOpts Mask
  last : Option Msg   -- Value.Pull's `last`
  pid : Option String := none   -- PullID: the (intercepted) id
  ended : Bool := false         -- PullID: the stream has ended
  held : Bool := false          -- the consumer is not receiving (Value)
  hand : List (VDeliv Msg) := []   -- what the forwarder is blocked handing to a held consumer
  out : List (VDeliv Msg) := []    -- what the consumer received of the write being announced (transient)
  handC : List (CEvent Msg) := []  -- Collection: what the forwarder of a held consumer has taken off the bus

inductive Res
  | none
  | coll (cfg : FCfg) (s : CState Msg (List Nat))
  | val (cfg : FCfg) (s : VState Msg)

structure DrvState where
  res : Res := .none
  eqv : Eqv Msg := none
  /-- `b.listeners`: cancelled listeners stay until a `Send` collects them -/
  subs : List (Lsn String Sub) := []

/-- the subscriptions whose context is live, in registration order -/
def live (ls : List (Lsn String Sub)) : List Sub := (ls.filter (·.alive)).map (·.st)

def mkSub (sb : Sub) : Act String Sub := .listen sb.name sb


def parseSubOpts? (kv : KV) : Option (SubOpts Mask) := do
  let rm ← optKey kv "rm" parseMask?
  pure { readMask := rm, updatesOnly := kvHas kv "uo" }

def showVDeliv (d : VDeliv Msg) : String := s!"{showMsg d.value}|{d.time}|{showFlags d.seed d.lastSeed}"

/-- one subscription's share of the bus events of one collection write -/
def deliverSubC (cfg : FCfg) (eqv : Eqv Msg) (evs : List (CEvent Msg)) (sb : Sub) : String × Sub :=
  let got := evs.filterMap (collForward cfg eqv sb.opts)
  match sb.pid with
  | none =>
    -- a held consumer receives nothing; its forwarder keeps what it was handed
    if sb.held then (s!"{sb.name}=[]", { sb with handC := sb.handC ++ got })
    else (s!"{sb.name}={showList (got.map showCEvent)}", sb)
  | some id =>
    if sb.ended then (s!"{sb.name}=[]$", sb)
    else
      let r := pullIDLoop id got
      (s!"{sb.name}={showList (r.1.map showVDeliv)}" ++ (if r.2 then "$" else ""), { sb with ended := r.2 })

/-- what the live subscriptions receive of the bus events of one collection write -/
def deliverC (cfg : FCfg) (eqv : Eqv Msg) (subs : List Sub) (evs : List (CEvent Msg)) : String :=
  " ".intercalate (subs.map (fun sb => (deliverSubC cfg eqv evs sb).1))

/-- one subscription's share of the bus events of one value write (updates `Value.Pull`'s `last`) -/
def deliverSubV (cfg : FCfg) (eqv : Eqv Msg) (evs : List (VEvent Msg)) (sb : Sub) : String × Sub :=
  let r := evs.foldl (fun (acc : List (VDeliv Msg) × Option Msg) e =>
    match valForward cfg eqv sb.opts acc.2 e with
    | (some d, l) => (acc.1 ++ [d], l)
    | (none, l) => (acc.1, l)) ([], sb.last)
  (s!"{sb.name}={showList (r.1.map showVDeliv)}", { sb with last := r.2 })

/-- one bus event through the forwarding loop of `Value.Pull`, accumulating what is sent on -/
def fwdStep (cfg : FCfg) (eqv : Eqv Msg) (o : SubOpts Mask) (acc : List (VDeliv Msg) × Option Msg) (e : VEvent Msg) :
    List (VDeliv Msg) × Option Msg :=
  match valForward cfg eqv o acc.2 e with
  | (some d, l) => (acc.1 ++ [d], l)
  | (none, l) => (acc.1, l)

/-- `l.send` under the deadline of `Value.set`, for one subscription: a held one whose forwarder already
holds a change does not take another (`none`); a held one with a free forwarder takes it (and keeps it);
any other forwards to its consumer -/
def tryV (cfg : FCfg) (eqv : Eqv Msg) (evs : List (VEvent Msg)) (sb : Sub) : Option Sub :=
  let r := evs.foldl (fwdStep cfg eqv sb.opts) ([], sb.last)
  if sb.held then
    if sb.hand.isEmpty then some { sb with last := r.2, hand := r.1, out := [] } else none
  else some { sb with last := r.2, out := r.1 }

def clearOut (ls : List (Lsn String Sub)) : List (Lsn String Sub) :=
  ls.map (fun l => { l with st := { l.st with out := [] } })

def showOut (subs : List Sub) : String :=
  " ".intercalate (subs.map (fun sb => s!"{sb.name}={showList (sb.out.map showVDeliv)}"))

def deliverV (cfg : FCfg) (eqv : Eqv Msg) (subs : List Sub) (evs : List (VEvent Msg)) : String :=
  " ".intercalate (subs.map (fun sb => (deliverSubV cfg eqv evs sb).1))

/-- the bus side of a write: no event, no `Send` (whatever else happens, happens on an idle bus); else
one `Bus.send` with `sched` happening while it delivers -/
def publish {ε : Type} (d : List ε → Sub → Sub) (ls : List (Lsn String Sub)) (evs : List ε)
    (sched : List (Act String Sub)) : List (Lsn String Sub) :=
  if evs.isEmpty then sched.foldl idle ls else send (d evs) ls sched

def dC (cfg : FCfg) (eqv : Eqv Msg) (evs : List (CEvent Msg)) (sb : Sub) : Sub := (deliverSubC cfg eqv evs sb).2
def dV (cfg : FCfg) (eqv : Eqv Msg) (evs : List (VEvent Msg)) (sb : Sub) : Sub := (deliverSubV cfg eqv evs sb).2

/-- `racea` / `raceb` / `racec`: a subscriber opens while write `w` is in flight.
`racea`: the subscriber is held between its snapshot and its bus registration while the write runs;
a write that commits cannot proceed (the subscriber holds the read lock), so the subscribe step comes
first (`blocked=true`); a write that does not commit, or an updates-only subscriber (takes no lock and
registers only when released), lets the write finish first.
`raceb`: the write is held between commit and publication (Update/Add/Set have such a point) while
the subscriber opens: the seed has the write, its event arrives afterwards (`parked=true`).
`racec`: the write is held inside `Bus.Send`, after the snapshot of the listeners (`parked=true` iff it
announces an event), while the subscriber opens: the seed has the write, the new listener is not in
the snapshot (nothing of this write is delivered to it) but must survive the `collect` at the end of
that `Send`.  A Delete publishes under the resource lock, so a subscriber that wants a seed waits for
it (`blocked=true`) and registers right after. -/
def raceKeys : List String := ["w", "sname", "srm", "suo"]

def raceSubOpts? (kv : KV) : Option (SubOpts Mask) := do
  let rm ← optKey kv "srm" parseMask?
  pure { readMask := rm, updatesOnly := kvHas kv "suo" }

inductive RaceKind | a | b | c
  deriving DecidableEq

def handleRace (st : DrvState) (rk : RaceKind) (kv : KV) : Option (DrvState × String) := do
  let w ← kvGet kv "w"
  let name ← kvGet kv "sname"
  let so ← raceSubOpts? kv
  let kvW := kv.filter (fun p => !(raceKeys.contains p.1))
  let wr ← parseWriteReq? kvW
  let flag (b : Bool) (blocked : Bool) : String := match rk with
    | .a => s!"blocked={b}"
    | .b => s!"parked={b}"
    | .c => s!"parked={b} blocked={blocked}"
  match st.res with
  | .coll cfg s =>
    let id ← kvGet kv "id"
    let r ← (match w with
      | "upd" => (kvGet kv "msg").bind parseMsg? |>.map (fun m => Coll.update cfg s id m wr)
      | "add" => (kvGet kv "msg").bind parseMsg? |>.map (fun m => Coll.add cfg s id m wr)
      | "del" => some (Coll.delete cfg s id wr)
      | _ => none)
    let (o, s') := r
    let commits := !o.events.isEmpty
    let subFirst := rk == .a && commits && !so.updatesOnly
    let subBetween := rk == .b && commits && (w == "upd" || w == "add")
    let newSub : Sub := { name := name, opts := so, last := none }
    let head := s!"val={showOptMsg o.val} err={showErr o.err} | "
    let old := deliverC cfg st.eqv (live st.subs) o.events
    let oldS := if (live st.subs).isEmpty then "" else old ++ " "
    if subFirst || subBetween then
      -- the new listener is registered before the `Send` takes its snapshot
      let ls := register st.subs name newSub
      pure ({ st with res := .coll cfg s', subs := publish (dC cfg st.eqv) ls o.events [] },
            flag true false ++ s!" seed={showList ((collSeed cfg (if subFirst then s else s') so).map showCEvent)} " ++ head ++
            deliverC cfg st.eqv (live ls) o.events)
    else if rk == .c && commits then
      -- the new listener registers while the `Send` is in flight, after its snapshot
      pure ({ st with res := .coll cfg s', subs := publish (dC cfg st.eqv) st.subs o.events [mkSub newSub] },
            flag true (w == "del" && !so.updatesOnly) ++ s!" seed={showList ((collSeed cfg s' so).map showCEvent)} " ++ head ++
            oldS ++ s!"{name}=[]")
    else
      pure ({ st with res := .coll cfg s', subs := register (publish (dC cfg st.eqv) st.subs o.events []) name newSub },
            flag false false ++ s!" seed={showList ((collSeed cfg s' so).map showCEvent)} " ++ head ++
            oldS ++ s!"{name}=[]")
  | .val cfg s =>
    if w != "vset" then none
    let m ← (kvGet kv "msg").bind parseMsg?
    let (o, s') := Value.set cfg s m wr
    let commits := !o.events.isEmpty
    let subFirst := rk == .a && commits && !so.updatesOnly
    let subBetween := rk == .b && commits
    let head := s!"val={showOptMsg o.val} err={showErr o.err} | "
    let old := deliverV cfg st.eqv (live st.subs) o.events
    let oldS := if (live st.subs).isEmpty then "" else old ++ " "
    if subFirst || subBetween then
      let sd := valSeed cfg (if subFirst then s else s') so
      let newSub : Sub := { name := name, opts := so, last := sd.2 }
      let ls := register st.subs name newSub
      pure ({ st with res := .val cfg s', subs := publish (dV cfg st.eqv) ls o.events [] },
            flag true false ++ s!" seed={showList (sd.1.map showVDeliv)} " ++ head ++ deliverV cfg st.eqv (live ls) o.events)
    else
      let sd := valSeed cfg s' so
      let newSub : Sub := { name := name, opts := so, last := sd.2 }
      let subs' := if rk == .c && commits then publish (dV cfg st.eqv) st.subs o.events [mkSub newSub]
        else register (publish (dV cfg st.eqv) st.subs o.events []) name newSub
      pure ({ st with res := .val cfg s', subs := subs' },
            flag (rk == .c && commits) false ++ s!" seed={showList (sd.1.map showVDeliv)} " ++ head ++
            oldS ++ s!"{name}=[]")
  | .none => none

/-- `racee`: the write is held inside `Bus.Send`, after the snapshot of the listeners, while the
subscription `cname` (in the snapshot) is cancelled: `Bus.send` with the schedule `[cancel cname]`.  A
write that announces nothing never reaches the bus (`parked=false`): the cancel happens on an idle
bus.  Printed: what the subscriptions still open receive. -/
def handleRaceE (st : DrvState) (kv : KV) : Option (DrvState × String) := do
  let w ← kvGet kv "w"
  let cname ← kvGet kv "cname"
  let kvW := kv.filter (fun p => !(["w", "cname"].contains p.1))
  let wr ← parseWriteReq? kvW
  let sched : List (Act String Sub) := [.cancel cname]
  match st.res with
  | .coll cfg s =>
    let id ← kvGet kv "id"
    let r ← (match w with
      | "upd" => (kvGet kv "msg").bind parseMsg? |>.map (fun m => Coll.update cfg s id m wr)
      | "add" => (kvGet kv "msg").bind parseMsg? |>.map (fun m => Coll.add cfg s id m wr)
      | "del" => some (Coll.delete cfg s id wr)
      | _ => none)
    let (o, s') := r
    pure ({ st with res := .coll cfg s', subs := publish (dC cfg st.eqv) st.subs o.events sched },
          s!"parked={!o.events.isEmpty} val={showOptMsg o.val} err={showErr o.err} | " ++
          deliverC cfg st.eqv (live (markDead cname st.subs)) o.events)
  | .val cfg s =>
    if w != "vset" then none
    let m ← (kvGet kv "msg").bind parseMsg?
    let (o, s') := Value.set cfg s m wr
    pure ({ st with res := .val cfg s', subs := publish (dV cfg st.eqv) st.subs o.events sched },
          s!"parked={!o.events.isEmpty} val={showOptMsg o.val} err={showErr o.err} | " ++
          deliverV cfg st.eqv (live (markDead cname st.subs)) o.events)
  | .none => none

/-- `Collection.Update` / `Delete` announce with `context.TODO()`: no deadline.  A write that announces
something while the forwarder of a held consumer is still holding a change waits until that consumer
receives again - on its own it never returns -/
def collBlocked (st : DrvState) {ε : Type} (evs : List ε) : Bool :=
  !evs.isEmpty && (live st.subs).any (fun sb => sb.held && !sb.handC.isEmpty)

def handleBase (st : DrvState) (toks : List String) : Option (DrvState × String) :=
  match toks with
  | [] => none
  | op :: rest => do
    let kv ← parseKV rest
    match op, st.res with
    | "racea", _ => handleRace st .a kv
    | "raceb", _ => handleRace st .b kv
    | "racec", _ => handleRace st .c kv
    | "racee", _ => handleRaceE st kv
    | "raced", .coll cfg s =>
      -- a Delete is held right after its first read (coll.delete.afterRead) while another write of the
      -- writer runs to completion; then the Delete goes on with its now possibly stale read
      let id ← kvGet kv "id"
      let u ← kvGet kv "u"
      let uid ← kvGet kv "uid"
      let ukv : KV := kv.filterMap (fun p =>
        if p.1 == "ucia" then some ("cia", p.2) else if p.1 == "uwt" then some ("wt", p.2) else none)
      let uwr ← parseWriteReq? ukv
      let wr ← parseWriteReq? (kv.filter (fun p => !(["u", "uid", "umsg", "ucia", "uwt"].contains p.1)))
      let stale := lookup s.items (icptId cfg id)
      let r1 ← (match u with
        | "upd" => (kvGet kv "umsg").bind parseMsg? |>.map (fun m => Coll.update cfg s uid m uwr)
        | "add" => (kvGet kv "umsg").bind parseMsg? |>.map (fun m => Coll.add cfg s uid m uwr)
        | "del" => some (Coll.delete cfg s uid uwr)
        | _ => none)
      let (o1, s1) := r1
      let subs1 := publish (dC cfg st.eqv) st.subs o1.events []
      let (o2, s2) := deleteLoop cfg wr (icptId cfg id) 5 stale s1
      pure ({ st with res := .coll cfg s2, subs := publish (dC cfg st.eqv) subs1 o2.events [] },
            s!"uval={showOptMsg o1.val} uerr={showErr o1.err} | " ++ deliverC cfg st.eqv (live st.subs) o1.events ++
            s!" || val={showOptMsg o2.val} err={showErr o2.err} | " ++ deliverC cfg st.eqv (live subs1) o2.events)
    | "racef", _ =>
      -- two Pulls whose `Bus.Listen` calls overlap (both held at bus.listen.beforeRegister, released in
      -- `order`): `Listen` appends under the bus's write lock, so both are registered, in release order
      let n1 ← kvGet kv "sname"
      let n2 ← kvGet kv "tname"
      let o1 ← raceSubOpts? kv
      let rm2 ← optKey kv "trm" parseMask?
      let o2 : SubOpts Mask := { readMask := rm2, updatesOnly := kvHas kv "tuo" }
      let order ← kvGet kv "order"
      if order != "12" && order != "21" then none
      let mk : String → SubOpts Mask → Option (Sub × String) := fun n o =>
        match st.res with
        | .coll cfg s => some ({ name := n, opts := o, last := none }, showList ((collSeed cfg s o).map showCEvent))
        | .val cfg s => let sd := valSeed cfg s o
                        some ({ name := n, opts := o, last := sd.2 }, showList (sd.1.map showVDeliv))
        | .none => none
      let (sb1, seed1) ← mk n1 o1
      let (sb2, seed2) ← mk n2 o2
      let subs' := if order == "12" then register (register st.subs n1 sb1) n2 sb2
                   else register (register st.subs n2 sb2) n1 sb1
      pure ({ st with subs := subs' }, s!"seed={seed1} seed2={seed2}")
    | "hold", .val _ _ =>
      let name ← kvGet kv "name"
      if !(live st.subs).any (fun sb => sb.name == name) then none
      pure ({ st with subs := st.subs.map (fun l => if l.id == name && l.alive then { l with st := { l.st with held := true } } else l) }, "ok")
    | "resume", .val _ _ =>
      let name ← kvGet kv "name"
      let sb ← (live st.subs).find? (fun sb => sb.name == name)
      pure ({ st with subs := st.subs.map (fun l => if l.id == name && l.alive then { l with st := { l.st with held := false, hand := [] } } else l) },
            s!"{name}={showList (sb.hand.map showVDeliv)}")
    | "hold", .coll _ _ =>
      let name ← kvGet kv "name"
      if !(live st.subs).any (fun sb => sb.name == name && sb.pid.isNone) then none
      pure ({ st with subs := st.subs.map (fun l => if l.id == name && l.alive then { l with st := { l.st with held := true } } else l) }, "ok")
    | "resume", .coll _ _ =>
      let name ← kvGet kv "name"
      let sb ← (live st.subs).find? (fun sb => sb.name == name)
      pure ({ st with subs := st.subs.map (fun l => if l.id == name && l.alive then { l with st := { l.st with held := false, handC := [] } } else l) },
            s!"{name}={showList (sb.handC.map showCEvent)}")
    | "newc", _ =>
      let cfg ← parseCfg? kv
      let rng ← parseRng? ((kvGet kv "rng").getD "")
      let init ← parseInit? ((kvGet kv "init").getD "")
      let eqv ← parseEqvList? kv
      -- `NewCollection` keeps an initial record under the id interceptor's image of its id (fix 215ba16)
      pure ({ res := .coll cfg (Coll.init cfg (init.map (fun kv => (icptId cfg kv.1, kv.2))) rng), eqv := eqv, subs := [] }, "ok")
    | "newv", _ =>
      let cfg ← parseCfg? kv
      let init ← optKey kv "init" parseMsg?
      let eqv ← parseEqvList? kv
      pure ({ res := .val cfg (Value.init cfg init), eqv := eqv, subs := [] }, "ok")
    | "sub", .coll cfg s =>
      let name ← kvGet kv "name"
      let o ← parseSubOpts? kv
      pure ({ st with subs := register st.subs name { name := name, opts := o, last := none } },
            "seed=" ++ showList ((collSeed cfg s o).map showCEvent))
    | "subid", .coll cfg s =>
      let name ← kvGet kv "name"
      let id ← kvGet kv "id"
      let o ← parseSubOpts? kv
      let r := pullIDLoop (icptId cfg id) (collSeed cfg s o)
      pure ({ st with subs := register st.subs name { name := name, opts := o, last := none, pid := some (icptId cfg id), ended := r.2 } },
            "seed=" ++ showList (r.1.map showVDeliv))
    | "sub", .val cfg s =>
      let name ← kvGet kv "name"
      let o ← parseSubOpts? kv
      let sd := valSeed cfg s o
      pure ({ st with subs := register st.subs name { name := name, opts := o, last := sd.2 } },
            "seed=" ++ showList (sd.1.map showVDeliv))
    | "unsub", _ =>
      -- the context is cancelled; the listener stays registered until a `Send` collects it
      let name ← kvGet kv "name"
      pure ({ st with subs := markDead name st.subs }, "ok")
    | "upd", .coll cfg s =>
      let id ← kvGet kv "id"
      let msg ← (kvGet kv "msg").bind parseMsg?
      let wr ← parseWriteReq? kv
      let (o, s') := Coll.update cfg s id msg wr
      if collBlocked st o.events then none
      pure ({ st with res := .coll cfg s', subs := publish (dC cfg st.eqv) st.subs o.events [] },
            s!"val={showOptMsg o.val} err={showErr o.err} | " ++ deliverC cfg st.eqv (live st.subs) o.events)
    | "add", .coll cfg s =>
      let id ← kvGet kv "id"
      let msg ← (kvGet kv "msg").bind parseMsg?
      let wr ← parseWriteReq? kv
      let (o, s') := Coll.add cfg s id msg wr
      if collBlocked st o.events then none
      pure ({ st with res := .coll cfg s', subs := publish (dC cfg st.eqv) st.subs o.events [] },
            s!"val={showOptMsg o.val} err={showErr o.err} | " ++ deliverC cfg st.eqv (live st.subs) o.events)
    | "del", .coll cfg s =>
      let id ← kvGet kv "id"
      let wr ← parseWriteReq? kv
      let (o, s') := Coll.delete cfg s id wr
      if collBlocked st o.events then none
      pure ({ st with res := .coll cfg s', subs := publish (dC cfg st.eqv) st.subs o.events [] },
            s!"val={showOptMsg o.val} err={showErr o.err} | " ++ deliverC cfg st.eqv (live st.subs) o.events)
    | "vset", .val cfg s =>
      let msg ← (kvGet kv "msg").bind parseMsg?
      let wr ← parseWriteReq? kv
      let (o, s') := Value.set cfg s msg wr
      if (live st.subs).any (·.held) && !o.events.isEmpty then
        -- a consumer is not receiving: `Bus.Send` under the 5 s deadline of `Value.set`
        let r := sendDl (tryV cfg st.eqv o.events) (clearOut st.subs)
        let head := if r.2 then s!"val={showOptMsg o.val} err={showErr o.err} | " else "val=nil err=Unknown | "
        pure ({ st with res := .val cfg s', subs := r.1 }, head ++ showOut (live r.1))
      else
      pure ({ st with res := .val cfg s', subs := publish (dV cfg st.eqv) st.subs o.events [] },
            s!"val={showOptMsg o.val} err={showErr o.err} | " ++ deliverV cfg st.eqv (live st.subs) o.events)
    | _, _ => none

/-- a waste record as the driver sees it: (id, area) -/
abbrev WRec := String × String

def parseWRec? (s : String) : Option WRec :=
  match s.splitOn ":" with
  | [i, a] => some (i, a)
  | _ => none

def parseWRecs? (s : String) : Option (List WRec) :=
  if s = "" then some [] else (s.splitOn ",").mapM parseWRec?

def showWRec (r : WRec) : String := r.1 ++ ":" ++ r.2

/-- the read mask of a `PullWasteRecordsRequest` on the two fields the driver carries -/
def wProj (rm : Option String) (r : WRec) : WRec :=
  match rm with
  | some "id" => (r.1, "")
  | some "area" => ("", r.2)
  | _ => r

/-- `waste [hist=<id:area,…>] val=<id:area> [later=<id:area,…>] [rm=<id|area>] [uo]` (stateless): the stream of a
`PullWasteRecords` opened on the wastepb model whose history is `hist` and whose value is `val`, the bus
handing it `later` afterwards (`Waste.lean`, `wasteStream`).

`stallw w=<upd|add|del> rname=<k> …(the write's keys)`: the write is started while the forwarder of
the held subscription `rname` is full, so its `Send` waits at that listener (no deadline); then the
consumer of `rname` receives again: it is given what its forwarder held, the forwarder takes the write's
change and the `Send` goes on to the later listeners.  Observably: `resume rname`, then the write on a
bus where nobody is stalled.  Answer: `<resume answer> || <write answer>`. -/
def handleOpt (st : DrvState) (toks : List String) : Option (DrvState × String) :=
  match toks with
  | "waste" :: rest => do
    let kv ← parseKV rest
    let hist ← parseWRecs? ((kvGet kv "hist").getD "")
    let val ← parseWRec? ((kvGet kv "val").getD ":")
    let later ← parseWRecs? ((kvGet kv "later").getD "")
    let rm := kvGet kv "rm"
    if !(rm == none || rm == some "id" || rm == some "area") then none
    pure (st, "stream=" ++ showList ((wasteStream (wProj rm) (kvHas kv "uo") ⟨hist, val⟩ later).map showWRec))
  | "stallw" :: rest => do
    let kv ← parseKV rest
    let w ← kvGet kv "w"
    let rname ← kvGet kv "rname"
    if !(w == "upd" || w == "add" || w == "del") then none
    let (st1, a1) ← handleBase st ["resume", s!"name={rname}"]
    let keep := rest.filter (fun t => !(t.startsWith "w=" || t.startsWith "rname=" || (w == "del" && t.startsWith "msg=")))
    let (st2, a2) ← handleBase st1 (w :: keep)
    pure (st2, s!"{a1} || {a2}")
  | _ => handleBase st toks

def handleS (st : DrvState) (toks : List String) : DrvState × String :=
  match handleOpt st toks with
  | some r => r
  | none => (st, "!bad-op")

end ScVerif.C04
