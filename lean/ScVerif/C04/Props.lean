import ScVerif.C04.Lemmas
import ScVerif.C01.Flat
/-!
# C04 — property theorems

Property (fixed text): "A backpressured subscriber to a resource written by one writer at a time
receives, after the seed, exactly one event per successful write in write order and none for failed
writes; each event carries the right id, kind (ADD, UPDATE, REMOVE), new value and old value (equal to
the previous new value for that id) and the write's change time, and equivalent consecutive values
are suppressed only when an equivalence is configured. Seed events come first, sorted by id, flagged
as seed, with exactly the final one flagged last-seed and carrying the item's stored change time;
updates-only subscriptions receive no seed."

The stream is the function `collStream` / `valStream` (`Pull.lean`) of the state at subscription
time, the subscription options and the later calls; writes are C01's model.  All theorems hold for
every message type / message operations with reflexive `proto.Equal`, every configuration, every
option record, arbitrary callbacks and equivalences, every state and every finite history.

Only property theorems and their non-vacuity examples live in this file.
-/
namespace ScVerif.C04
open ScVerif.C01
variable {M K R : Type}

/-- Exactly one event per successful write, none for a failed one: every Update/Add/Delete (any
options, any state) either changes nothing and announces nothing — and then it failed, or is a Delete of
a missing id with allow-missing (returns nil) — or succeeds, returns a value, and announces exactly
one event, which is exactly the edit it made to the contents. -/
theorem C04_one_event_per_success (cfg : Cfg M K R) (h : EqRefl cfg.ops) (s : CState M R) (op : COp M K)
    (o : COut M) (s' : CState M R) (hstep : Coll.step cfg s op = (.wrote o, s')) :
    (o.events = [] ∧ contents s' = contents s ∧ (o.err ≠ none ∨ o.val = none)) ∨
    (∃ e, o.events = [e] ∧ o.err = none ∧ o.val ≠ none ∧ IsEdit (contents s) (contents s') e) := by
  have conv : ∀ o s', WriteEffect cfg s o s' →
      (o.events = [] ∧ contents s' = contents s ∧ (o.err ≠ none ∨ o.val = none)) ∨
      (∃ e, o.events = [e] ∧ o.err = none ∧ o.val ≠ none ∧ IsEdit (contents s) (contents s') e) := by
    intro o s' he
    cases he with
    | nothing h1 h2 h3 => exact Or.inl ⟨h1, h2, h3⟩
    | edit e h1 h2 h3 _ h5 => exact Or.inr ⟨e, h1, h2, h5, h3⟩
  cases op with
  | get id ro => simp [Coll.step] at hstep
  | list ro => simp [Coll.step] at hstep
  | update id msg wr =>
    simp only [Coll.step, Prod.mk.injEq, CRes.wrote.injEq] at hstep
    rw [← hstep.1, ← hstep.2]; exact conv _ _ (update_effect cfg h s id msg wr).1
  | add id msg wr =>
    simp only [Coll.step, Coll.add, Prod.mk.injEq, CRes.wrote.injEq] at hstep
    rw [← hstep.1, ← hstep.2]; exact conv _ _ (update_effect cfg h s id msg _).1
  | delete id wr =>
    simp only [Coll.step, Prod.mk.injEq, CRes.wrote.injEq] at hstep
    rw [← hstep.1, ← hstep.2]; exact conv _ _ (delete_effect cfg h s id wr).1

/-- Event fields. The event of an Update/Add carries as new value the result returned to the writer;
the event of a Delete is a REMOVE whose old value is the value returned to the writer.  (That the id,
the kind — ADD iff the id was absent, UPDATE otherwise, REMOVE — and the old value are right is
`IsEdit` in `C04_one_event_per_success` / `C04_edit_script`.) -/
theorem C04_event_fields (cfg : Cfg M K R) (h : EqRefl cfg.ops) (s : CState M R) (id : String) (msg : M)
    (wr : WriteReq M K) :
    (∀ e ∈ (Coll.update cfg s id msg wr).1.events, e.new = (Coll.update cfg s id msg wr).1.val ∧ e.kind ≠ .remove) ∧
    (∀ e ∈ (Coll.add cfg s id msg wr).1.events, e.new = (Coll.add cfg s id msg wr).1.val ∧ e.kind = .add) ∧
    (∀ e ∈ (Coll.delete cfg s id wr).1.events, e.kind = .remove ∧ e.old = (Coll.delete cfg s id wr).1.val) := by
  have kindU : ∀ (wr : WriteReq M K) (e : CEvent M), e ∈ (Coll.update cfg s id msg wr).1.events →
      e.new = (Coll.update cfg s id msg wr).1.val ∧ e.kind = kindOf (contents s e.id) e.new ∧ e.new ≠ none := by
    intro wr e he
    have h1 := (update_effect cfg h s id msg wr).2 e he
    have h2 := (update_effect cfg h s id msg wr).1
    cases h2 with
    | nothing h3 _ _ => rw [h3] at he; simp at he
    | edit e' h3 _ h5 _ h7 =>
      rw [h3] at he; simp only [List.mem_singleton] at he; subst he
      refine ⟨h1.1, ?_, ?_⟩
      · rw [h5.kind_eq, ← h5.new_eq]
      · rw [h1.1]; exact h7
  refine ⟨?_, ?_, ?_⟩
  · intro e he
    obtain ⟨h1, h2, h3⟩ := kindU wr e he
    refine ⟨h1, ?_⟩
    rw [h2]
    cases hb : contents s e.id <;> cases hn : e.new <;> simp_all [kindOf]
  · intro e he
    unfold Coll.add at he ⊢
    obtain ⟨h1, h2, h3⟩ := kindU _ e he
    refine ⟨h1, ?_⟩
    -- Add expects the id absent: a successful Add is an ADD
    have h4 := (update_effect cfg h s id msg { wr with expectAbsent := true, createIfAbsent := true }).1
    have he' := coll_update_eq cfg h s id msg { wr with expectAbsent := true, createIfAbsent := true }
    have ho := spec_update_outcome cfg (abs s) id msg { wr with expectAbsent := true, createIfAbsent := true }
    rw [he'.1] at he
    revert he
    generalize Spec.update cfg (abs s) id msg { wr with expectAbsent := true, createIfAbsent := true } = r at ho
    intro he
    cases ho with
    | invalid c _ => simp [failOut] at he
    | exhausted rng' _ _ _ => simp [failOut] at he
    | alreadyExists id1 calls t1 it _ hr _ _ => simp [failOut] at he
    | precondition id1 calls t1 it c _ hr _ hx _ => simp at hx
    | notFound id1 calls t1 _ hr _ _ => simp [failOut] at he
    | createFailed id1 calls t1 c _ hr _ _ _ => simp [failOut] at he
    | updated id1 calls t1 it new _ _ _ hx _ => simp at hx
    | created id1 calls t1 new _ _ _ _ _ =>
      unfold Spec.commit at he
      cases hw : wr.writeTime <;> simp [hw] at he <;> rw [he]
  · intro e he
    have := (delete_effect cfg h s id wr).2 e he
    exact ⟨this.1, this.2.1⟩

/-- The stream is an exact, ordered edit script: replaying, in order, all events of ANY call
sequence on the contents at the start reproduces the contents at the end, and every single event is
an edit of the view built by its predecessors — its old value is that view's value for its id (hence
the previous event's new value for that id, or the seeded one), its kind is ADD iff the view has no
such id, UPDATE if it has, REMOVE if the new value is absent. -/
theorem C04_edit_script (cfg : Cfg M K R) (h : EqRefl cfg.ops) (s : CState M R) (ops : List (COp M K)) :
    Replay (contents s) (busEvents cfg s ops) (contents (Coll.run cfg s ops).2) :=
  run_replay cfg h ops s

/-- a call that succeeded and returned a value -/
def succWrite : CRes M → Bool
  | .wrote o => o.err.isNone && o.val.isSome
  | _ => false

/-- Count and order over a whole history: the bus carries exactly as many events as there are
successful value-returning writes, and they are the per-call events concatenated in call order. -/
theorem C04_event_count (cfg : Cfg M K R) (h : EqRefl cfg.ops) (ops : List (COp M K)) :
    ∀ s : CState M R, (busEvents cfg s ops).length = ((Coll.run cfg s ops).1.filter succWrite).length := by
  have one : ∀ (s : CState M R) (op : COp M K),
      (eventsOf (Coll.step cfg s op).1).length = if succWrite (Coll.step cfg s op).1 then 1 else 0 := by
    intro s op
    rcases hst : Coll.step cfg s op with ⟨r, s'⟩
    cases r with
    | got v => simp [eventsOf, succWrite]
    | listed vs => simp [eventsOf, succWrite]
    | wrote o =>
      rcases C04_one_event_per_success cfg h s op o s' hst with ⟨h1, _, h3⟩ | ⟨e, h1, h2, h3, _⟩
      · simp only [eventsOf, h1, succWrite, List.length_nil]
        rcases h3 with h3 | h3
        · have : o.err.isNone = false := by cases he : o.err <;> simp_all
          simp [this]
        · simp [h3]
      · have : o.val.isSome = true := by cases hv : o.val <;> simp_all
        simp [eventsOf, h1, succWrite, h2, this]
  induction ops with
  | nil => intro s; rfl
  | cons op ops ih =>
    intro s
    simp only [busEvents, Coll.run, List.flatMap_cons, List.length_append, List.filter_cons]
    have := ih (Coll.step cfg s op).2
    simp only [busEvents] at this
    rw [this, one s op]
    split <;> simp <;> omega

/-- Without an equivalence a subscriber receives the seed and then every bus event, in order,
projected by its read mask; with one, exactly those the equivalence does not suppress. -/
theorem C04_stream_is_seed_then_events (cfg : Cfg M K R) (eqv : Eqv M) (o : SubOpts K) (s : CState M R)
    (ops : List (COp M K)) :
    collStream cfg none o s ops = collSeed cfg s o ++ (busEvents cfg s ops).map (fun e =>
      { e with old := filterOpt cfg.ops o.readMask e.old, new := filterOpt cfg.ops o.readMask e.new }) ∧
    collStream cfg eqv o s ops = collSeed cfg s o ++ (busEvents cfg s ops).filterMap (collForward cfg eqv o) := by
  refine ⟨?_, rfl⟩
  unfold collStream
  congr 1
  induction busEvents cfg s ops with
  | nil => rfl
  | cons e es ih => simp only [List.filterMap_cons, collForward, List.map_cons, ih]

/-- Change time: the event of an Update/Add carries the write time if one was given, else the second
clock reading of that write (`clock + tick`); the item is stored with the write time, else the first
reading (`clock`).  So both are readings taken during the write, and they coincide exactly when a
write time is given or the clock does not move during the write (`tick = 0`). A Delete's event
carries the one clock reading of that Delete. -/
theorem C04_event_time (cfg : Cfg M K R) (h : EqRefl cfg.ops) (s : CState M R) (id : String) (msg : M)
    (wr : WriteReq M K) :
    (∀ e ∈ (Coll.update cfg s id msg wr).1.events,
      e.time = wr.writeTime.getD (s.clock + cfg.tick) ∧
      (lookup (Coll.update cfg s id msg wr).2.items e.id).map (·.time) = some (wr.writeTime.getD s.clock) ∧
      (Coll.update cfg s id msg wr).2.clock = (match wr.writeTime with | some _ => s.clock | none => s.clock + cfg.tick + cfg.tick) ∧
      ((wr.writeTime.isSome ∨ cfg.tick = 0) →
        (lookup (Coll.update cfg s id msg wr).2.items e.id).map (·.time) = some e.time)) ∧
    (∀ e ∈ (Coll.delete cfg s id wr).1.events,
      e.time = s.clock ∧ (Coll.delete cfg s id wr).2.clock = s.clock + cfg.tick) := by
  constructor
  · intro e he
    obtain ⟨_, h2, h3, h4⟩ := (update_effect cfg h s id msg wr).2 e he
    refine ⟨h2, h3, h4, ?_⟩
    intro hc
    rw [h3, h2]
    rcases hc with hc | hc
    · cases hw : wr.writeTime with
      | none => simp [hw] at hc
      | some w => rfl
    · simp [hc]
  · intro e he
    have := (delete_effect cfg h s id wr).2 e he
    exact ⟨this.2.2.1, this.2.2.2⟩

/-- Suppression (Collection): an event is suppressed iff an equivalence is configured and it relates
the (projected) old and new value of that very change; otherwise it is delivered, projected and
otherwise unchanged. -/
theorem C04_suppression_iff_equiv (cfg : Cfg M K R) (eqv : Eqv M) (o : SubOpts K) (e : CEvent M) :
    (collForward cfg eqv o e = none ↔
      ∃ f, eqv = some f ∧ f (filterOpt cfg.ops o.readMask e.old) (filterOpt cfg.ops o.readMask e.new) = true) ∧
    (∀ d, collForward cfg eqv o e = some d →
      d = { e with old := filterOpt cfg.ops o.readMask e.old, new := filterOpt cfg.ops o.readMask e.new }) := by
  unfold collForward
  cases eqv with
  | none => simp
  | some f =>
    simp only []
    cases hf : f (filterOpt cfg.ops o.readMask e.old) (filterOpt cfg.ops o.readMask e.new) <;> simp [hf]

/-- what `Value.Pull` delivers from `last` on: consecutive deliveries are never equivalent -/
def NoEquivNeighbours (f : Option M → Option M → Bool) : Option M → List (VDeliv M) → Prop
  | _, [] => True
  | last, d :: ds => f last (some d.value) = false ∧ NoEquivNeighbours f (some d.value) ds

/-- Suppression (Value): with an equivalence `f`, a value is delivered iff `f` does not relate it to
the last value delivered (the seed as delivered, or nothing), so no two consecutive deliveries are
equivalent; without one, every successful Set is delivered, in order, projected. -/
theorem C04_value_suppression (cfg : Cfg M K R) (o : SubOpts K) (evs : List (VEvent M)) :
    (∀ (f : Option M → Option M → Bool) (last : Option M),
      NoEquivNeighbours f last (forwardAll cfg (some f) o last evs)) ∧
    (∀ last, forwardAll cfg none o last evs =
      evs.map (fun e => { value := cfg.ops.filter o.readMask e.value, time := e.time, seed := false, lastSeed := false })) := by
  constructor
  · intro f
    induction evs with
    | nil => intro last; exact trivial
    | cons e es ih =>
      intro last
      simp only [forwardAll, valForward]
      cases hf : f last (some (cfg.ops.filter o.readMask e.value)) with
      | true => simp only [↓reduceIte]; exact ih last
      | false => simp only [Bool.false_eq_true, ↓reduceIte]; exact ⟨hf, ih _⟩
  · induction evs with
    | nil => intro last; rfl
    | cons e es ih => intro last; simp only [forwardAll, valForward, List.map_cons, ih]

/-- Value writes: a Set announces exactly one event iff it succeeds; the event carries the result
returned to the writer and the write time, else the second clock reading of the write. -/
theorem C04_value_events (cfg : Cfg M K R) (h : EqRefl cfg.ops) (s : VState M) (msg : M) (wr : WriteReq M K) :
    ((Value.set cfg s msg wr).1.err ≠ none → (Value.set cfg s msg wr).1.events = []) ∧
    ((Value.set cfg s msg wr).1.err = none →
      ∃ new, (Value.set cfg s msg wr).1.val = some new ∧
        (Value.set cfg s msg wr).1.events = [{ value := new, time := wr.writeTime.getD (s.clock + cfg.tick) }] ∧
        (Value.set cfg s msg wr).2.value = some new ∧
        (Value.set cfg s msg wr).2.changeTime = wr.writeTime.getD s.clock) := by
  rw [value_set_eq cfg h]
  unfold Spec.set
  simp only []
  cases cfg.ops.validate (fieldUpdater cfg wr) msg with
  | some c => simp
  | none =>
    simp only []
    cases Spec.newValue cfg.ops wr (fieldUpdater cfg wr) msg s.value (s.value.getD cfg.ops.zero) with
    | error c => simp
    | ok new => cases wr.writeTime <;> simp

/-- Seed. Updates-only: none. Otherwise (on any state whose ids are distinct — every reachable
state): one event per stored item, ids strictly increasing, every one an ADD of the projected item
with no old value, flagged seed, carrying the item's stored change time, and exactly the last one
flagged last-seed. -/
theorem C04_seed (cfg : Cfg M K R) (s : CState M R) (o : SubOpts K) (hn : NodupKeys s.items) :
    (o.updatesOnly = true → collSeed cfg s o = []) ∧
    (o.updatesOnly = false →
      ((collSeed cfg s o).map (·.id)).Pairwise (· < ·) ∧
      (∀ id, id ∈ (collSeed cfg s o).map (·.id) ↔ (lookup s.items id).isSome) ∧
      (∀ e ∈ collSeed cfg s o, ∃ it, lookup s.items e.id = some it ∧ e.time = it.time ∧ e.kind = .add ∧
        e.old = none ∧ e.new = some (cfg.ops.filter o.readMask it.body) ∧ e.seed = true) ∧
      (collSeed cfg s o).map (·.lastSeed) =
        List.replicate ((collSeed cfg s o).length - 1) false ++ (if collSeed cfg s o = [] then [] else [true])) := by
  constructor
  · intro hu; simp [collSeed, hu]
  · intro hu
    have hsl : itemSlice s ({} : ReadReq M K) = s.items := by
      simp [itemSlice, excluded]
    simp only [collSeed, hu, Bool.false_eq_true, ↓reduceIte, hsl]
    refine ⟨?_, ?_, ?_, ?_⟩
    · rw [seedEvents_ids]; exact sorted_sortById _ hn
    · intro id
      rw [seedEvents_ids]
      simp only [List.mem_map]
      constructor
      · rintro ⟨kv, hkv, rfl⟩
        have := (mem_iff_lookup _ hn kv.1 kv.2).mp ((mem_sortById _ _).mp hkv)
        simp [this]
      · intro hs
        cases hl : lookup s.items id with
        | none => simp [hl] at hs
        | some it => exact ⟨(id, it), (mem_sortById _ _).mpr ((mem_iff_lookup _ hn id it).mpr hl), rfl⟩
    · intro e he
      obtain ⟨kv, hkv, h1, h2, h3, h4, h5, h6⟩ := seedEvents_mem _ _ _ e he
      refine ⟨kv.2, ?_, h2, h3, h4, h5, h6⟩
      rw [h1]
      exact (mem_iff_lookup _ hn kv.1 kv.2).mp ((mem_sortById _ _).mp hkv)
    · rw [seedEvents_lastSeed, seedEvents_length]
      have : (seedEvents cfg.ops o.readMask (sortById s.items) = []) ↔ (sortById s.items = []) := by
        constructor
        · intro h0
          have := congrArg List.length h0
          rw [seedEvents_length] at this
          exact List.eq_nil_of_length_eq_zero this
        · intro h0; rw [h0]; rfl
      by_cases h0 : sortById s.items = [] <;> simp [h0, this, seedEvents]

/-- A subscriber opening while a write is in flight.  Subscribing (snapshot + bus registration) is one
atomic step with respect to commits, so it falls before the write's commit, between its commit and
its publication, or after both (`SubOrder`).  In every case folding what the subscriber is sent onto
its seed yields the contents at the end of the history — no successful write is lost.  If the
subscribe step comes first, the write and everything after it is delivered exactly once, as an exact
edit script of the seed.  If it falls between commit and publication, the seed already contains the
write, its late event is a stale duplicate that leaves the seeded view unchanged (its new value IS
the seeded value for its id), and everything after it is an exact edit script of the seed.  If it
comes last, the seed contains the write and nothing of it is delivered. -/
theorem C04_subscribe_atomic (cfg : Cfg M K R) (h : EqRefl cfg.ops) (s : CState M R) (w : COp M K)
    (rest : List (COp M K)) (ord : SubOrder) :
    (raceBusEvents cfg s w rest ord).foldl applyEv (contents (raceSeedState cfg s w ord)) =
      contents (Coll.run cfg (Coll.step cfg s w).2 rest).2 ∧
    (ord = .subFirst →
      Replay (contents s) (raceBusEvents cfg s w rest ord) (contents (Coll.run cfg (Coll.step cfg s w).2 rest).2)) ∧
    (ord = .subBetween →
      (∀ e ∈ eventsOf (Coll.step cfg s w).1,
        applyEv (contents (Coll.step cfg s w).2) e = contents (Coll.step cfg s w).2 ∧
        e.new = contents (Coll.step cfg s w).2 e.id) ∧
      Replay (contents (Coll.step cfg s w).2) (busEvents cfg (Coll.step cfg s w).2 rest)
        (contents (Coll.run cfg (Coll.step cfg s w).2 rest).2)) ∧
    (ord = .subLast →
      Replay (contents (Coll.step cfg s w).2) (raceBusEvents cfg s w rest ord)
        (contents (Coll.run cfg (Coll.step cfg s w).2 rest).2)) := by
  have hstep := step_effect cfg h s w
  have hrest := run_replay cfg h rest (Coll.step cfg s w).2
  have hall : Replay (contents s) (eventsOf (Coll.step cfg s w).1 ++ busEvents cfg (Coll.step cfg s w).2 rest)
      (contents (Coll.run cfg (Coll.step cfg s w).2 rest).2) := Replay.append hstep hrest
  -- the write's events are at most one edit s → s'
  have hstale : ∀ e ∈ eventsOf (Coll.step cfg s w).1,
      applyEv (contents (Coll.step cfg s w).2) e = contents (Coll.step cfg s w).2 ∧
      e.new = contents (Coll.step cfg s w).2 e.id := by
    intro e he
    have hedit := step_events_edit cfg h s w e he
    exact ⟨applyEv_stale hedit, hedit.new_eq⟩
  refine ⟨?_, ?_, ?_, ?_⟩
  · cases ord with
    | subFirst => exact replay_fold hall
    | subLast => exact replay_fold hrest
    | subBetween =>
      simp only [raceBusEvents, raceSeedState, List.foldl_append]
      have : (eventsOf (Coll.step cfg s w).1).foldl applyEv (contents (Coll.step cfg s w).2) =
          contents (Coll.step cfg s w).2 := by
        have gen : ∀ evs : List (CEvent M), (∀ e ∈ evs, applyEv (contents (Coll.step cfg s w).2) e = contents (Coll.step cfg s w).2) →
            evs.foldl applyEv (contents (Coll.step cfg s w).2) = contents (Coll.step cfg s w).2 := by
          intro evs
          induction evs with
          | nil => intro _; rfl
          | cons e es ih =>
            intro hh
            simp only [List.foldl_cons, hh e (by simp)]
            exact ih (fun e' he' => hh e' (by simp [he']))
        exact gen _ (fun e he => (hstale e he).1)
      rw [this]
      exact replay_fold hrest
  · intro ho; subst ho; exact hall
  · intro ho; subst ho; exact ⟨hstale, hrest⟩
  · intro ho; subst ho; exact hrest

/-- does this change end a `PullID` stream of its id -/
def endsStream (e : CEvent M) : Bool := decide (e.kind = .remove) || e.new.isNone

/-- PullID is a filtered Pull: what `PullID(id)` forwards is exactly what the `Pull` with the same
options delivers, restricted to the changes of that id, cut at (and excluding) the first change that
removes the item, each as a `ValueChange` carrying the new value and the change time, flagged seed and
last-seed iff it is the item's seed value; the stream has ended iff such a removing change was
delivered.  (For every list of delivered changes; `pullIDStream` is this loop over `collStream`.) -/
theorem C04_pullid_is_filtered_pull (id : String) (es : List (CEvent M)) :
    (pullIDLoop id es).1 =
      (((es.filter (fun e => decide (e.id = id))).takeWhile (fun e => !endsStream e)).filterMap
        (fun e => e.new.map (toDeliv e))) ∧
    ((pullIDLoop id es).2 = true ↔ ∃ e ∈ es, e.id = id ∧ endsStream e = true) := by
  induction es with
  | nil => simp [pullIDLoop]
  | cons e es ih =>
    by_cases hid : e.id = id
    · by_cases hk : e.kind = .remove
      · simp only [pullIDLoop, hid, ne_eq, not_true_eq_false, ↓reduceIte, hk, List.filter_cons, decide_true,
          List.takeWhile_cons, endsStream, Bool.true_or, Bool.not_true, Bool.false_eq_true,
          List.filterMap_nil, List.mem_cons, true_and]
        exact ⟨fun _ => ⟨e, Or.inl rfl, hid, by simp [hk]⟩, fun _ => trivial⟩
      · cases hn : e.new with
        | none =>
          simp only [pullIDLoop, hid, ne_eq, not_true_eq_false, ↓reduceIte, hk, hn, List.filter_cons, decide_true,
            List.takeWhile_cons, endsStream, decide_false, Option.isNone_none, Bool.or_true, Bool.not_true,
            Bool.false_eq_true, List.filterMap_nil, List.mem_cons, true_and]
          exact ⟨fun _ => ⟨e, Or.inl rfl, hid, by simp [hn]⟩, fun _ => trivial⟩
        | some v =>
          have hends : endsStream e = false := by simp [endsStream, hk, hn]
          simp only [pullIDLoop, hid, ne_eq, not_true_eq_false, ↓reduceIte, hk, hn, List.filter_cons, decide_true,
            List.takeWhile_cons, hends, Bool.not_false, List.filterMap_cons, Option.map_some, List.mem_cons]
          refine ⟨by rw [ih.1], ?_⟩
          rw [ih.2]
          constructor
          · rintro ⟨e', he', h1, h2⟩; exact ⟨e', Or.inr he', h1, h2⟩
          · rintro ⟨e', he' | he', h1, h2⟩
            · subst he'; rw [hends] at h2; cases h2
            · exact ⟨e', he', h1, h2⟩
    · simp only [pullIDLoop, ne_eq, hid, not_false_eq_true, ↓reduceIte, List.filter_cons, decide_false,
        Bool.false_eq_true, List.mem_cons]
      refine ⟨ih.1, ?_⟩
      rw [ih.2]
      constructor
      · rintro ⟨e', he', h1, h2⟩; exact ⟨e', Or.inr he', h1, h2⟩
      · rintro ⟨e', he' | he', h1, h2⟩
        · subst he'; exact absurd h1 hid
        · exact ⟨e', he', h1, h2⟩

/-- End on remove: for the stream of a real history, a change delivered without a new value IS a
REMOVE (the defensive "no new value but not a REMOVE" branch of PullID is dead), so a `PullID` stream
ends exactly when a REMOVE of its id is delivered, and every change forwarded before that carries
the new value of an ADD or UPDATE. -/
theorem C04_pullid_ends_on_remove (cfg : Cfg M K R) (h : EqRefl cfg.ops) (eqv : Eqv M) (o : SubOpts K)
    (s : CState M R) (id : String) (ops : List (COp M K)) :
    (∀ e ∈ collStream cfg eqv o s ops, e.new = none ↔ e.kind = .remove) ∧
    ((pullIDStream cfg eqv o s id ops).2 = true ↔
      ∃ e ∈ collStream cfg eqv o s ops, e.id = icptId cfg id ∧ e.kind = .remove) := by
  have hall : ∀ e ∈ collStream cfg eqv o s ops, e.new = none ↔ e.kind = .remove := by
    intro e he
    simp only [collStream, List.mem_append, List.mem_filterMap] at he
    rcases he with he | ⟨b, hb, hf⟩
    · -- a seed event
      simp only [collSeed] at he
      split at he
      · simp at he
      · obtain ⟨kv, _, _, _, h3, _, h5, _⟩ := seedEvents_mem _ _ _ e he
        simp [h3, h5]
    · obtain ⟨v1, v2, hed⟩ := replay_mem (run_replay cfg h ops s) b hb
      have hd := (C04_suppression_iff_equiv cfg eqv o b).2 e hf
      subst hd
      simp only [filterOpt, Option.map_eq_none_iff]
      exact ⟨isEdit_new_none hed, isEdit_remove hed⟩
  refine ⟨hall, ?_⟩
  unfold pullIDStream
  rw [(C04_pullid_is_filtered_pull (icptId cfg id) (collStream cfg eqv o s ops)).2]
  constructor
  · rintro ⟨e, he, h1, h2⟩
    refine ⟨e, he, h1, ?_⟩
    simp only [endsStream, Bool.or_eq_true, decide_eq_true_eq, Option.isNone_iff_eq_none] at h2
    rcases h2 with h2 | h2
    · exact h2
    · exact (hall e he).mp h2
  · rintro ⟨e, he, h1, h2⟩
    exact ⟨e, he, h1, by simp [endsStream, h2]⟩

/-- PullID seed: a (not updates-only) `PullID(id)` opened on a state with distinct ids starts with
exactly one seed value if the item exists — the projected item with its stored change time, flagged
seed and last-seed wherever the id sorts among the collection's ids — and with none otherwise. -/
theorem C04_pullid_seed (cfg : Cfg M K R) (s : CState M R) (o : SubOpts K) (id : String) (hn : NodupKeys s.items)
    (hu : o.updatesOnly = false) :
    pullIDLoop id (collSeed cfg s o) =
      match lookup s.items id with
      | some it => ([{ value := cfg.ops.filter o.readMask it.body, time := it.time, seed := true, lastSeed := true }], false)
      | none => ([], false) := by
  have key : ∀ l : List (String × Item M), NodupKeys l →
      pullIDLoop id (seedEvents cfg.ops o.readMask l) =
        match lookup l id with
        | some it => ([{ value := cfg.ops.filter o.readMask it.body, time := it.time, seed := true, lastSeed := true }], false)
        | none => ([], false) := by
    intro l
    induction l with
    | nil => intro _; rfl
    | cons x xs ih =>
      intro hnd
      obtain ⟨k, v⟩ := x
      have hnd' : NodupKeys xs := by
        simp only [NodupKeys, List.map_cons, List.pairwise_cons] at hnd; exact hnd.2
      have hnot : k = id → lookup xs id = none := by
        intro hk
        cases hl : lookup xs id with
        | none => rfl
        | some w =>
          exfalso
          have hm := (mem_iff_lookup xs hnd' id w).mpr hl
          simp only [NodupKeys, List.map_cons, List.pairwise_cons, List.mem_map, forall_exists_index, and_imp,
            forall_apply_eq_imp_iff₂] at hnd
          exact hnd.1 (id, w) hm hk
      have ih' := ih hnd'
      cases xs with
      | nil =>
        simp only [seedEvents, pullIDLoop, seedEvent, lookup, ne_eq]
        by_cases hk : k = id <;> simp [hk, toDeliv]
      | cons y ys =>
        simp only [seedEvents, pullIDLoop, seedEvent, ne_eq] at ih' ⊢
        by_cases hk : k = id
        · have := hnot hk
          simp only [this] at ih'
          simp [hk, lookup, toDeliv, ih']
        · simp only [hk, not_false_eq_true, ↓reduceIte, lookup]
          exact ih'
  have hsl : itemSlice s ({} : ReadReq M K) = s.items := by simp [itemSlice, excluded]
  have hsorted := sorted_sortById s.items hn
  have hnd : NodupKeys (sortById s.items) := by
    unfold NodupKeys
    exact List.Pairwise.imp (fun h => String.ne_of_lt h) hsorted
  have hlk : lookup (sortById s.items) id = lookup s.items id := by
    cases hl : lookup s.items id with
    | some it => exact (mem_iff_lookup _ hnd id it).mp ((mem_sortById _ _).mpr ((mem_iff_lookup _ hn id it).mpr hl))
    | none =>
      cases hl2 : lookup (sortById s.items) id with
      | none => rfl
      | some it =>
        have := (mem_iff_lookup _ hn id it).mp ((mem_sortById _ _).mp ((mem_iff_lookup _ hnd id it).mpr hl2))
        rw [hl] at this; cases this
  simp only [collSeed, hu, Bool.false_eq_true, ↓reduceIte, hsl]
  rw [key _ hnd, hlk]

/-! ## Non-vacuity -/

def exCfg : Cfg Msg Mask (List Nat) := { ops := flatOps, gen := flatGen }

def exInit : CState Msg (List Nat) := Coll.init exCfg [("b", { a := 1, s := "x", c := none }), ("a", { a := 2, s := "", c := some 3 })] []

/-- the hypothesis of `C04_seed` holds on every state built by `Coll.init` -/
example (records : List (String × Msg)) : NodupKeys (Coll.init exCfg records []).items :=
  nodupKeys_init exCfg records []

def exHistory : List (COp Msg Mask) :=
  [ .add "c" { a := 1, s := "", c := none } {}, .add "c" { a := 2, s := "", c := none } {},
    .update "c" { a := 5, s := "", c := none } { writeTime := some 40 }, .delete "c" {}, .delete "zz" { allowMissing := true } ]

/-- a subscriber with read mask {a}: two seeds (sorted, last flagged), then ADD, UPDATE, REMOVE — the
failing Add and the no-op Delete announce nothing -/
example : (collStream exCfg none { readMask := some [.a] } exInit exHistory).map
      (fun e => (e.id, e.time, e.kind, e.old.map (·.a), e.new.map (·.a), e.seed, e.lastSeed)) =
    [ ("a", 0, .add, none, some 2, true, false), ("b", 0, .add, none, some 1, true, true),
      ("c", 2, .add, none, some 1, false, false), ("c", 40, .update, some 1, some 5, false, false),
      ("c", 3, .remove, some 5, none, false, false) ] := by rfl

end ScVerif.C04
