import ScVerif.C10.Pipe
/-!
C10 — WHEN a single-item trait adapter subscribes.

`metadatapb.Collection.PullMetadata`, `hailpb.Model.PullHail`, `publicationpb.Model.PullPublication`,
`vendingpb.Model.PullConsumable` / `PullStock`:

    recv := collection.PullID(ctx, id, opts...)      -- `sync = true` (after fix b83c31f: all of them)
    go func() { defer close(send); for change := range recv { … } }()
    return send

Before the fix four of them ranged over the call INSIDE the goroutine (`sync = false`): the subscription was made
whenever that goroutine got to run, possibly after the subscribing call had returned.

The model has the item (`present`), the subscribing call (`ret`), the moment the `PullID` subscription is made
(`sub`: the listener is registered and the seed taken in one step, as `Collection.onUpdate` does under the
collection's read lock), writers (`upd` / `del`: `Collection.Update` / `Collection.Delete` of the watched item,
which publish to the subscription only if it exists at that moment; `other`: any change of any other item) and the steps of the subscription's pipeline
(`Pipe.lean`, with its PullID stage).  `missed` records a REMOVE published after the call had returned and before
the subscription existed; `removed` a REMOVE handed to the subscription.
-/
namespace ScVerif.C10

structure LConfig where
  sync : Bool
  uo : Bool                    -- WithUpdatesOnly: no seed
  present : Bool := true       -- the item exists in the collection
  returned : Bool := false     -- the subscribing call has returned
  subscribed : Bool := false   -- the PullID subscription has been made
  missed : Bool := false
  removed : Bool := false
  p : PConfig

inductive LMove
  | ret | sub | upd (tag : Nat) | del | other (m : Msg) | pipe (m : PMove)

/-- the pipeline of a `PullID(target)` subscription at the moment it is made -/
def LConfig.seed (c : LConfig) : List Msg :=
  if c.present && !c.uo then [⟨c.p.target, .add, 0⟩] else []

def lstep (c : LConfig) : LMove → Option LConfig
  | .ret =>
    -- a synchronous adapter returns only after its PullID call
    if c.returned = false ∧ (c.sync = true → c.subscribed = true) then some { c with returned := true } else none
  | .sub =>
    -- an asynchronous adapter's goroutine exists from the `go` statement on: it may run before or after the return
    if c.subscribed = false then some { c with subscribed := true, p := { c.p with fwQ := c.seed } } else none
  | .upd tag =>
    if c.subscribed then
      (pstep c.p (.push ⟨c.p.target, if c.present then .update else .add, tag⟩)).map fun p' =>
        { c with present := true, p := p' }
    else some { c with present := true }
  | .del =>
    if c.present = false then none
    else if c.subscribed then
      (pstep c.p (.push ⟨c.p.target, .remove, 0⟩)).map fun p' => { c with present := false, removed := true, p := p' }
    else some { c with present := false, missed := c.missed || c.returned }
  | .other m =>
    -- a write on ANOTHER item of the collection: published to the same subscription (its PullID stage skips it)
    if m.id = c.p.target then none
    else if c.subscribed then (pstep c.p (.push m)).map fun p' => { c with p := p' }
    else some c
  | .pipe m =>
    match m with
    | .push _ => none            -- events reach the pipeline through `upd` / `del` only
    | m => if c.subscribed then (pstep c.p m).map fun p' => { c with p := p' } else none

def lnext (c : LConfig) (m : LMove) : LConfig := (lstep c m).getD c
def lrun (c : LConfig) (sched : List LMove) : LConfig := sched.foldl lnext c

/-- a fresh subscription call on an existing item -/
def linit (sync uo : Bool) (p : PConfig) : LConfig := { sync := sync, uo := uo, p := p }

/-- invariant of a synchronous adapter: once the call has returned the subscription exists, and no REMOVE was missed -/
def LSync (c : LConfig) : Prop := (c.returned = true → c.subscribed = true) ∧ c.missed = false

theorem lsync_next (c : LConfig) (m : LMove) (hs : c.sync = true) :
    LSync c → LSync (lnext c m) ∧ (lnext c m).sync = true := by
  intro ⟨h1, h2⟩
  unfold lnext
  cases m with
  | ret =>
    simp only [lstep]; split
    · rename_i hg; exact ⟨⟨fun _ => hg.2 hs, h2⟩, hs⟩
    · exact ⟨⟨h1, h2⟩, hs⟩
  | sub =>
    simp only [lstep]; split
    · exact ⟨⟨fun _ => rfl, h2⟩, hs⟩
    · exact ⟨⟨h1, h2⟩, hs⟩
  | upd tag =>
    simp only [lstep]; split
    · cases hp : pstep c.p (.push ⟨c.p.target, if c.present then .update else .add, tag⟩) with
      | none => exact ⟨⟨h1, h2⟩, hs⟩
      | some p' => exact ⟨⟨h1, h2⟩, hs⟩
    · exact ⟨⟨h1, h2⟩, hs⟩
  | del =>
    simp only [lstep]; split
    · exact ⟨⟨h1, h2⟩, hs⟩
    · split
      · cases hp : pstep c.p (.push ⟨c.p.target, .remove, 0⟩) with
        | none => exact ⟨⟨h1, h2⟩, hs⟩
        | some p' => exact ⟨⟨h1, h2⟩, hs⟩
      · rename_i hsub
        refine ⟨⟨h1, ?_⟩, hs⟩
        have : c.returned = false := by
          cases hr : c.returned with
          | false => rfl
          | true => exact absurd (h1 hr) hsub
        simp [h2, this]
  | other x =>
    simp only [lstep]; split
    · exact ⟨⟨h1, h2⟩, hs⟩
    · split
      · cases hp : pstep c.p (.push x) with
        | none => exact ⟨⟨h1, h2⟩, hs⟩
        | some p' => exact ⟨⟨h1, h2⟩, hs⟩
      · exact ⟨⟨h1, h2⟩, hs⟩
  | pipe m =>
    simp only [lstep]
    split
    · exact ⟨⟨h1, h2⟩, hs⟩
    · split
      · cases hp : pstep c.p _ with
        | none => exact ⟨⟨h1, h2⟩, hs⟩
        | some p' => exact ⟨⟨h1, h2⟩, hs⟩
      · exact ⟨⟨h1, h2⟩, hs⟩

theorem lsync_run (c : LConfig) (sched : List LMove) (hs : c.sync = true) :
    LSync c → LSync (lrun c sched) := by
  induction sched generalizing c with
  | nil => exact id
  | cons m ms ih =>
    intro h
    have := lsync_next c m hs h
    exact ih (lnext c m) this.2 this.1

end ScVerif.C10
