import ScVerif.C10.LateInv
/-!
# C10 — property theorems, part 5: "a single-item subscription also ends when the item is removed", from the moment
# the subscribing call has returned

The single-item trait adapters (`metadatapb.Collection.PullMetadata`, `hailpb.Model.PullHail`,
`publicationpb.Model.PullPublication`, `vendingpb.Model.PullConsumable` / `PullStock`) on top of
`Collection.PullID`; model in `Late.lean`.  After fix b83c31f all of them make the `PullID` subscription before they
return (`sync = true`); the shape before the fix (`sync = false`: subscription made by the goroutine the call starts) is
kept in the model and proved to miss a removal.  All theorems: every schedule of subscribing call, writers (updates,
deletes and re-adds of the watched item), pipeline goroutines, consumer and cancel.
-/
namespace ScVerif.C10

/-- A synchronous adapter: under every schedule, once the subscribing call has returned the subscription exists, and
no REMOVE of the item published after the return was sent to nobody — for every pipeline shape (backpressure or
not, updates-only or not). -/
theorem C10_adapter_subscribes_before_return (uo : Bool) (p : PConfig) (sched : List LMove) :
    let c := lrun (linit true uo p) sched
    (c.returned = true → c.subscribed = true) ∧ c.missed = false :=
  lsync_run (linit true uo p) sched rfl ⟨fun h => by simp [linit] at h, rfl⟩

/-- … so a `Delete` of the item that happens after the return — at any later moment, under any schedule — hands its
REMOVE to the subscription's pipeline (`removed`), where `C10_pullid_ends_on_remove` takes over. -/
theorem C10_adapter_remove_after_return_reaches_subscription (uo : Bool) (p : PConfig) (sched : List LMove)
    (c' : LConfig) :
    let c := lrun (linit true uo p) sched
    c.returned = true → lstep c .del = some c' → c'.removed = true ∧ c'.missed = false := by
  intro c hr hs
  have hI := C10_adapter_subscribes_before_return uo p sched
  have hsub : c.subscribed = true := hI.1 hr
  have hmiss : c.missed = false := hI.2
  clear_value c
  simp only [lstep] at hs
  by_cases hpr : c.present = false
  · rw [if_pos hpr] at hs; cases hs
  · rw [if_neg hpr, if_pos hsub] at hs
    cases hp : pstep c.p (.push ⟨c.p.target, .remove, 0⟩) with
    | none => simp [hp] at hs
    | some p' =>
      simp only [hp, Option.map_some, Option.some.injEq] at hs
      subst hs
      exact ⟨rfl, hmiss⟩

/-- End of a backpressure single-item subscription (any adapter shape, every schedule): from the step in which a
REMOVE of the item is handed to the subscription on, the subscription has ended (`pidDone`: its channel is closed),
or the subscriber has cancelled, or the REMOVE sits in the forwarder's hand as the next thing the PullID stage will
see — it is never dropped, overtaken or merged away. -/
theorem C10_adapter_remove_in_flight (sync uo : Bool) (p : PConfig) (hp : p.Plain) (sched : List LMove) :
    let c := lrun (linit sync uo p) sched
    c.removed = true → c.p.InFlight :=
  (lflight_run (linit sync uo p) sched ⟨hp, fun h => by simp [linit] at h, fun h => by simp [linit] at h⟩).2.2

/-- … and while it sits there, the subscription is not stuck: either the PullID stage can take it — which closes
the subscriber's channel and cancels the inner Pull — or the subscriber still has an earlier change to receive. -/
theorem C10_in_flight_remove_progress (p : PConfig) (hpl : p.Plain) (hfix : p.fixed = true) (tag : Nat)
    (hpd : p.pidDone = false) (hfd : p.fwDone = false) (hq : p.fwQ = [⟨p.target, .remove, tag⟩]) :
    (∃ p', pstep p .xferFP = some p' ∧ p'.outClosed = true ∧ p'.cancelled = true) ∨ (pstep p .consume).isSome := by
  obtain ⟨_, hpid, _⟩ := hpl
  cases hpq : p.pidQ with
  | nil =>
    left
    refine ⟨_, by simp only [pstep, hq]; rw [if_pos ⟨hpid, hfd, hpd, hpq⟩], ?_, ?_⟩ <;>
      simp [pidRecv, Msg.remove, PConfig.outClosed, hpid, hfix]
  | cons m r =>
    right
    simp [pstep, hpid, hpq, hpd]

/-- The adapter shape before fix b83c31f (`for change := range collection.PullID(…)` inside the goroutine): there is
a schedule — the call returns, the item is deleted, only then the goroutine subscribes — after which the item is gone,
the REMOVE was sent to nobody, the subscription is live and idle (nothing to forward, no step of its goroutines
enabled besides waiting), its channel open: it ends only if the subscriber cancels. -/
theorem C10_late_subscribe_misses_remove :
    ∃ (p : PConfig) (sched : List LMove), p.Plain ∧
      let c := lrun (linit false false p) sched
      c.returned = true ∧ c.present = false ∧ c.missed = true ∧ c.removed = false ∧ c.subscribed = true ∧
      c.p.outClosed = false ∧ c.p.cancelled = false ∧
      ∀ m : PMove, m ≠ .cancel → lstep c (.pipe m) = none := by
  refine ⟨{ hasEx := false, exMerge := false, hasPid := true, target := 7, fixed := true, keep := fun _ => true },
    [.ret, .del, .sub], ⟨rfl, rfl, fun _ => rfl⟩, rfl, rfl, rfl, rfl, rfl, rfl, rfl, ?_⟩
  intro m hm
  cases m <;> first | rfl | exact absurd rfl hm

/-- non-vacuity of the synchronous theorems: subscribe, return, delete — the REMOVE is in the forwarder's hand; one
step of the PullID stage later the channel is closed -/
example :
    let p : PConfig := { hasEx := false, exMerge := false, hasPid := true, target := 7, fixed := true, keep := fun _ => true }
    let c := lrun (linit true true p) [.sub, .ret, .del]
    c.returned = true ∧ c.removed = true ∧ c.missed = false ∧ c.p.fwQ = [⟨7, .remove, 0⟩] ∧
      (lrun c [.pipe .xferFP]).p.outClosed = true := by decide

/-- … and a synchronous adapter cannot return first: `ret` is not enabled before `sub` -/
example :
    let p : PConfig := { hasEx := false, exMerge := false, hasPid := true, target := 7, fixed := true, keep := fun _ => true }
    (lstep (linit true false p) .ret).isNone = true := by decide

end ScVerif.C10
