import ScVerif.C10.LateInv
import ScVerif.C10.LateLossy
/-!
# C10 — property theorems, part 5: "a single-item subscription also ends when the item is removed", from the moment
# the subscribing call has returned

The single-item trait adapters (`metadatapb.Collection.PullMetadata`, `hailpb.Model.PullHail`,
`publicationpb.Model.PullPublication`, `vendingpb.Model.PullConsumable` / `PullStock`) on top of
`Collection.PullID`; model in `Late.lean`.  After fix b83c31f all of them make the `PullID` subscription before they
return (`sync = true`); the shape before the fix (`sync = false`: subscription made by the goroutine the call starts) is
kept in the model and proved to miss a removal.  All theorems: every schedule of subscribing call, writers (updates,
deletes and re-adds of the watched item), pipeline goroutines, consumer and cancel.
-/
namespace ScVerif.C10

/-- A synchronous adapter: under every schedule, once the subscribing call has returned the subscription exists, and
no REMOVE of the item published after the return was sent to nobody — for every pipeline shape (backpressure or
not, updates-only or not). -/
theorem C10_adapter_subscribes_before_return (uo : Bool) (p : PConfig) (sched : List LMove) :
    let c := lrun (linit true uo p) sched
    (c.returned = true → c.subscribed = true) ∧ c.missed = false :=
  lsync_run (linit true uo p) sched rfl ⟨fun h => by simp [linit] at h, rfl⟩

/-- … so a `Delete` of the item that happens after the return — at any later moment, under any schedule — hands its
REMOVE to the subscription's pipeline (`removed`), where `C10_pullid_ends_on_remove` takes over. -/
theorem C10_adapter_remove_after_return_reaches_subscription (uo : Bool) (p : PConfig) (sched : List LMove)
    (c' : LConfig) :
    let c := lrun (linit true uo p) sched
    c.returned = true → lstep c .del = some c' → c'.removed = true ∧ c'.missed = false := by
  intro c hr hs
  have hI := C10_adapter_subscribes_before_return uo p sched
  have hsub : c.subscribed = true := hI.1 hr
  have hmiss : c.missed = false := hI.2
  clear_value c
  simp only [lstep] at hs
  by_cases hpr : c.present = false
  · rw [if_pos hpr] at hs; cases hs
  · rw [if_neg hpr, if_pos hsub] at hs
    cases hp : pstep c.p (.push ⟨c.p.target, .remove, 0⟩) with
    | none => simp [hp] at hs
    | some p' =>
      simp only [hp, Option.map_some, Option.some.injEq] at hs
      subst hs
      exact ⟨rfl, hmiss⟩

/-- End of a backpressure single-item subscription (any adapter shape, every schedule): from the step in which a
REMOVE of the item is handed to the subscription on, the subscription has ended (`pidDone`: its channel is closed),
or the subscriber has cancelled, or the REMOVE sits in the forwarder's hand as the next thing the PullID stage will
see — it is never dropped, overtaken or merged away.  `p.Plain`: a backpressure PullID pipeline whose forwarder filter
(`WithInclude`, the collection's equivalence) is ARBITRARY except that it never drops a REMOVE of the watched item. -/
theorem C10_adapter_remove_in_flight (sync uo : Bool) (p : PConfig) (hp : p.Plain) (sched : List LMove) :
    let c := lrun (linit sync uo p) sched
    c.removed = true → c.p.InFlight :=
  (lflight_run (linit sync uo p) sched ⟨hp, fun h => by simp [linit] at h, fun h => by simp [linit] at h⟩).2.2

/-- … and while it sits there, the subscription is not stuck: either the PullID stage can take it — which closes
the subscriber's channel and cancels the inner Pull — or the subscriber still has an earlier change to receive. -/
theorem C10_in_flight_remove_progress (p : PConfig) (hpl : p.Plain) (hfix : p.fixed = true) (tag : Nat)
    (hpd : p.pidDone = false) (hfd : p.fwDone = false) (hq : p.fwQ = [⟨p.target, .remove, tag⟩]) :
    (∃ p', pstep p .xferFP = some p' ∧ p'.outClosed = true ∧ p'.cancelled = true) ∨ (pstep p .consume).isSome := by
  obtain ⟨_, hpid, _⟩ := hpl
  cases hpq : p.pidQ with
  | nil =>
    left
    refine ⟨_, by simp only [pstep, hq]; rw [if_pos ⟨hpid, hfd, hpd, hpq⟩], ?_, ?_⟩ <;>
      simp [pidRecv, Msg.remove, PConfig.outClosed, hpid, hfix]
  | cons m r =>
    right
    simp [pstep, hpid, hpq, hpd]

/-- The adapter shape before fix b83c31f (`for change := range collection.PullID(…)` inside the goroutine): there is
a schedule — the call returns, the item is deleted, only then the goroutine subscribes — after which the item is gone,
the REMOVE was sent to nobody, the subscription is live and idle (nothing to forward, no step of its goroutines
enabled besides waiting), its channel open: it ends only if the subscriber cancels. -/
theorem C10_late_subscribe_misses_remove :
    ∃ (p : PConfig) (sched : List LMove), p.Plain ∧
      let c := lrun (linit false false p) sched
      c.returned = true ∧ c.present = false ∧ c.missed = true ∧ c.removed = false ∧ c.subscribed = true ∧
      c.p.outClosed = false ∧ c.p.cancelled = false ∧
      ∀ m : PMove, m ≠ .cancel → lstep c (.pipe m) = none := by
  refine ⟨{ hasEx := false, exMerge := false, hasPid := true, target := 7, fixed := true, keep := fun _ => true },
    [.ret, .del, .sub], ⟨rfl, rfl, fun _ => rfl⟩, rfl, rfl, rfl, rfl, rfl, rfl, rfl, ?_⟩
  intro m hm
  cases m <;> first | rfl | exact absurd rfl hm

/-- non-vacuity of the synchronous theorems: subscribe, return, delete — the REMOVE is in the forwarder's hand; one
step of the PullID stage later the channel is closed -/
example :
    let p : PConfig := { hasEx := false, exMerge := false, hasPid := true, target := 7, fixed := true, keep := fun _ => true }
    let c := lrun (linit true true p) [.sub, .ret, .del]
    c.returned = true ∧ c.removed = true ∧ c.missed = false ∧ c.p.fwQ = [⟨7, .remove, 0⟩] ∧
      (lrun c [.pipe .xferFP]).p.outClosed = true := by decide

/-- … and a synchronous adapter cannot return first: `ret` is not enabled before `sub` -/
example :
    let p : PConfig := { hasEx := false, exMerge := false, hasPid := true, target := 7, fixed := true, keep := fun _ => true }
    (lstep (linit true false p) .ret).isNone = true := by decide

/-- WITHOUT backpressure (`mergeCollectionExcess` in front of the forwarder, `mergeChanges` incl. ADD+REMOVE
annihilation and REMOVE+ADD = REPLACE): a single-item subscription made while the item exists, under every schedule
of updates, deletes and re-adds of the item, changes of any other items of the collection (`other`), pipeline
goroutines, subscriber and cancel — whenever the item is gone,
the subscription has ended, or the subscriber has cancelled, or the REMOVE is still on its way: queued in the merge
stage, or in the forwarder's hand.  It is never merged away (an ADD can only annihilate a REMOVE whose predecessor
REMOVE already went downstream), dropped or overtaken.  (A delete followed by a re-add before the merge stage was
drained is one REPLACE: the item exists again and the subscription goes on.) -/
theorem C10_lossy_single_item_remove_never_merged_away (sync uo fixed : Bool) (target : Nat) (sched : List LMove) :
    let c := lrun (lsubscribed sync uo target fixed) sched
    c.present = false →
      c.p.pidDone = true ∨ c.p.cancelled = true ∨
      (∃ m ∈ c.p.exQ, m.id = c.p.target ∧ m.kind = .remove) ∨ c.p.RemoveInHand := by
  intro c hgone
  have hI : LLossy c := llossy_run _ sched (llossy_init sync uo target fixed)
  cases he : ent c.p.target c.p.exQ with
  | none =>
    rcases hI.w (Or.inl ⟨he, hgone⟩) with h | h | h
    · exact Or.inl h
    · exact Or.inr (Or.inl h)
    · exact Or.inr (Or.inr (Or.inr h))
  | some m =>
    have hk : m.kind = .remove := (hI.wf m he).mpr hgone
    have hmem : m ∈ c.p.exQ := List.mem_of_find?_eq_some he
    have hid : m.id = c.p.target := by simpa using List.find?_some he
    exact Or.inr (Or.inr (Or.inl ⟨m, hmem, hid, hk⟩))

/-- … under ANY include filter and ANY equivalence of the collection (`WithInclude`, `WithEquivalence`,
`WithMessageEquivalence`, `WithNoDuplicates`: the forwarder's `keep` is an arbitrary predicate on changes) that never
drops a REMOVE of the watched item — as no comparer does that, like `cmp.Equal`, does not relate a message to the
absent new value of a REMOVE.  Changes of the item that the filter drops (duplicates, excluded values) do not matter:
whenever the item is gone, the subscription has ended, was cancelled, or the REMOVE is queued / in the forwarder's
hand. -/
theorem C10_lossy_remove_never_lost_under_any_filter (sync uo fixed : Bool) (target : Nat) (keep : Msg → Bool)
    (hk : ∀ tag, keep ⟨target, .remove, tag⟩ = true) (sched : List LMove) :
    let c := lrun (lsubscribedK sync uo target fixed keep) sched
    c.present = false →
      c.p.pidDone = true ∨ c.p.cancelled = true ∨
      (∃ m ∈ c.p.exQ, m.id = c.p.target ∧ m.kind = .remove) ∨ c.p.RemoveInHand := by
  intro c hgone
  have hI : LLossy c := llossy_run _ sched (llossy_initK sync uo target fixed keep hk)
  cases he : ent c.p.target c.p.exQ with
  | none =>
    rcases hI.w (Or.inl ⟨he, hgone⟩) with h | h | h
    · exact Or.inl h
    · exact Or.inr (Or.inl h)
    · exact Or.inr (Or.inr (Or.inr h))
  | some m =>
    have hk : m.kind = .remove := (hI.wf m he).mpr hgone
    have hmem : m ∈ c.p.exQ := List.mem_of_find?_eq_some he
    have hid : m.id = c.p.target := by simpa using List.find?_some he
    exact Or.inr (Or.inr (Or.inl ⟨m, hmem, hid, hk⟩))

/-- The hypothesis is what the code must provide.  An equivalence that DOES relate the old value of a REMOVE to its
absent new value (a comparer wrapper that reads nil as the empty message, on an item whose view is empty) makes the
forwarder drop the REMOVE: there is a schedule — subscribe, return, the seed received, delete — after which the REMOVE
was handed to the subscription (`removed`) and is nowhere: nothing queued, nothing in flight, the channel open, not
cancelled, and no step of the subscription's goroutines enabled.  It ends only if the subscriber cancels. -/
theorem C10_equivalence_relating_remove_to_nil_never_ends :
    ∃ (p : PConfig) (sched : List LMove), p.hasEx = false ∧ p.hasPid = true ∧
      (∀ m, m.kind ≠ .remove → p.keep m = true) ∧
      let c := lrun (linit true false p) sched
      c.returned = true ∧ c.present = false ∧ c.removed = true ∧ c.missed = false ∧
      c.p.fwQ = [] ∧ c.p.pidQ = [] ∧ c.p.out = [⟨p.target, .add, 0⟩] ∧ c.p.outClosed = false ∧ c.p.cancelled = false ∧
      ∀ m : PMove, m ≠ .cancel → lstep c (.pipe m) = none := by
  refine ⟨{ hasEx := false, exMerge := false, hasPid := true, target := 7, fixed := true,
            keep := fun m => match m.kind with | .remove => false | _ => true },
    [.sub, .ret, .pipe .xferFP, .pipe .consume, .del], rfl, rfl, ?_, rfl, rfl, rfl, rfl, rfl, rfl, rfl, rfl, rfl, ?_⟩
  · intro m hm
    cases hk : m.kind <;> simp_all
  · intro m hm
    cases m <;> first | rfl | exact absurd rfl hm

/-- … and a queued change does not sit there for ever: while the merge stage holds something and nothing has
ended, a step of the subscription's goroutines or of the subscriber is enabled (the merge stage hands over, the
PullID stage takes the forwarder's change, or the subscriber has a change to receive). -/
theorem C10_lossy_queued_change_progress (p : PConfig) (m : Msg) (r : List Msg) (hex : p.hasEx = true)
    (hpid : p.hasPid = true) (hq : p.exQ = m :: r) (hxd : p.exDone = false) (hfd : p.fwDone = false)
    (hpd : p.pidDone = false) :
    (pstep p .xferEF).isSome ∨ (pstep p .xferFP).isSome ∨ (pstep p .consume).isSome := by
  cases hf : p.fwQ with
  | nil => left; simp [pstep, hq, hex, hxd, hfd, hf]
  | cons x xs =>
    cases hpq : p.pidQ with
    | nil => right; left; simp [pstep, hf, hpid, hfd, hpd, hpq]
    | cons y ys => right; right; simp [pstep, hpid, hpq, hpd]

/-- non-vacuity: an update and the delete are merged into one REMOVE behind the undelivered seed; the item re-added
before the merge stage was drained makes it a REPLACE (the subscription goes on, the item exists) -/
example :
    let c := lrun (lsubscribed true false 7 true) [.upd 1, .other ⟨3, .add, 5⟩, .del]
    c.present = false ∧ c.p.exQ = [⟨3, .add, 5⟩, ⟨7, .remove, 0⟩] ∧ c.p.fwQ = [⟨7, .add, 0⟩] ∧
      (lrun c [.upd 2]).p.exQ = [⟨3, .add, 5⟩, ⟨7, .replace, 2⟩] ∧ (lrun c [.upd 2]).present = true := by decide

/-- The adapter's own channel follows: once the subscription underneath has ended (its channel is closed and drained)
— through the item's removal just as through a cancel — the adapter goroutine is not stuck: it returns (closing the
channel it gave to the subscriber), or it still offers its last change, which the subscriber can receive; and with
the context cancelled it can always leave. -/
theorem C10_adapter_ends_when_subscription_ends (a : AConfig) (hd : a.aDone = false) (hc : a.p.outClosed = true)
    (hq : if a.p.hasPid then a.p.pidQ = [] else a.p.fwQ = []) :
    (∃ a', astep a .aExitIn = some a' ∧ a'.aDone = true) ∨ (astep a .aSend).isSome := by
  cases hh : a.hold with
  | false =>
    left
    exact ⟨{ a with aDone := true }, by simp only [astep]; rw [if_pos ⟨hd, hh, hc, hq⟩], rfl⟩
  | true => right; simp [astep, hd, hh]

end ScVerif.C10
