import ScVerif.C10.GroupFan
/-!
# C10 — property theorems, part 9: the Pull fan-in of a trait Group

A Group's Pull handler (lightpb `(*Group).PullBrightness`, onoffpb `(*Group).PullOnOff`) subscribes to every member
through pkg/group `Execute` in a goroutine of its own and folds the members' changes into one stream.  The
subscription ends when the stream's context is cancelled, when the members fail, or when the hand-over to the client
(`server.Send`) fails in the middle of it; in each case every goroutine started for it has to terminate.  Model:
`GroupFan.lean` (`buffered` = `returnErr` has capacity 1, `waits` = the handler receives `returnErr` before it returns
a Send error; any number of members, any execution strategy: an erroring member may or may not cancel the others).
-/
namespace ScVerif.C10

/-- Whenever the handler has left its loop — it returned (`returnErr` received: members done or context cancelled), or
its Send failed — the context the members run on is cancelled, by the handler itself: the stream's context need not be
(the client's transport may have gone without it). -/
theorem C10_group_pull_return_cancels_members (buffered waits : Bool) (n : Nat)
    (h : buffered = true ∨ waits = true) (sched : List GMove) :
    let c := grun (ginit buffered waits n) sched
    c.handler ≠ .loop → c.cancelled = true := by
  intro c
  exact (ginv_run sched _ (ginv_init buffered waits n h)).doneCancelled

/-- With `returnErr` buffered or the failed-Send path waiting for it (the code has both), for any number of members
and any schedule of member changes, member errors (cancelling the others or not), hand-overs, successful and failed
Sends, and the stream's cancellation: once the members' context is cancelled — by the stream, by a member error under
ExecuteAll, or by the handler on its way out — either every goroutine of the subscription has returned (members,
fan-in goroutine, handler), or one of them can take a step; and every step that can be taken strictly decreases
`gmeasure`.  So under any schedule the subscription is completely gone after at most `gmeasure` further steps. -/
theorem C10_group_pull_ends_once_cancelled (buffered waits : Bool) (n : Nat)
    (h : buffered = true ∨ waits = true) (sched : List GMove) :
    let c := grun (ginit buffered waits n) sched
    c.cancelled = true →
      (c.allDone ∨ ∃ m, genabled c m = true) ∧
      ∀ m, genabled c m = true → gmeasure (gstep c m) < gmeasure c := by
  intro c hc
  have hI : GInv c := ginv_run sched _ (ginv_init buffered waits n h)
  exact ⟨gprogress c hI hc, fun m he => gdecreases c m hc he⟩

/-- … and nothing is left parked on the way: the fan-in goroutine's result is always taken or buffered — when
`group.Execute` has returned and the goroutine is gone, the handler has returned too or the result sits in the buffer
for it. -/
theorem C10_group_pull_result_never_stranded (buffered waits : Bool) (n : Nat)
    (h : buffered = true ∨ waits = true) (sched : List GMove) :
    let c := grun (ginit buffered waits n) sched
    (c.exec = .sending → c.handler = .done → c.buffered = true ∧ c.buf = false) ∧
    (c.exec = .done → c.handler = .done ∨ c.buf = true) := by
  intro c
  have hI : GInv c := ginv_run sched _ (ginv_init buffered waits n h)
  refine ⟨fun hx hd => ?_, hI.execBuf⟩
  constructor
  · rcases hI.doneExec hd with h' | h'
    · rw [hx] at h'; cases h'
    · exact h'
  · cases hb : c.buf with
    | false => rfl
    | true => have := hI.bufExec hb; rw [hx] at this; cases this

/-- The hypothesis is needed: an unbuffered `returnErr` together with a failed-Send path that just returns (each
harmless alone, by the theorems above) strands the fan-in goroutine.  One member sends a change, the Send of it fails,
the handler returns (its deferred cancel ends the member), `group.Execute` returns — and the goroutine sits in
`returnErr <- err` with nobody left to receive: no step of anything is enabled, for ever. -/
theorem C10_group_pull_unbuffered_without_wait_strands_fan_in :
    ∃ sched : List GMove,
      let c := grun (ginit false false 1) sched
      c.handler = .done ∧ c.cancelled = true ∧ c.exec = .sending ∧ ∀ m, genabled c m = false := by
  refine ⟨[.value, .handOver false, .memberErr false, .execDone], rfl, rfl, rfl, ?_⟩
  intro m
  cases m <;> rfl

/-- non-vacuity: a whole life — two members, a change handed over and sent, the next Send fails, the handler waits for
the members and the fan-in goroutine, everything has returned -/
example : (grun (ginit true true 2)
    [.value, .handOver true, .value, .value, .handOver false, .handGiveUp, .memberErr true, .memberErr false,
     .execDone, .execSend, .recvErr]).allDone := by
  refine ⟨rfl, rfl, rfl, rfl⟩

/-- non-vacuity: the stream is cancelled while the handler sits in its loop: the members fail, the result is handed
over by rendezvous (unbuffered, but the handler waits) -/
example : (grun (ginit false true 1) [.streamCancel, .memberErr false, .execDone, .recvErr]).allDone := by
  refine ⟨rfl, rfl, rfl, rfl⟩

end ScVerif.C10
