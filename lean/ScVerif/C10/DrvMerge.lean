import ScVerif.Base.Line
import ScVerif.C10.NetEffect
/-!
Driver glue for the kind algebra of `mergeChanges` (`mergeKind`, `mergeSeq`): `mseq <kinds>` folds the change types
(letters a u r p, in order of arrival, nothing taken out in between) and answers the held change type or `none`.
-/
namespace ScVerif.C10

def kindOfChar? : Char → Option Kind
  | 'a' => some .add | 'u' => some .update | 'r' => some .remove | 'p' => some .replace | _ => none

def showHeld : Option Kind → String
  | none => "none" | some .add => "a" | some .update => "u" | some .remove => "r" | some .replace => "p"

def handleMerge (toks : List String) : String :=
  match toks with
  | [ks] =>
    match ks.toList.mapM kindOfChar? with
    | some kinds => if kinds.isEmpty then "!bad-op" else showHeld (mergeSeq none kinds)
    | none => "!bad-op"
  | _ => "!bad-op"

end ScVerif.C10
