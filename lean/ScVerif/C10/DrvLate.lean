import ScVerif.Base.Line
import ScVerif.C10.Late
/-!
Driver glue for the late-subscription model (`Late.lean`): an acceptor for the single-item scenarios of the harness.

`late <sync> <uo> <bp> <pre> <del|cancel> <observed>`: a single-item adapter (`sync`: it subscribes before it
returns) on an existing item; once the subscribing call has returned the scenario updates the item `pre` times and
then deletes it (or cancels); the subscriber receives all the time.  The driver explores EVERY interleaving of the
subscribing call, the subscription step, the writes and the pipeline's goroutines, collects the outcomes of the
quiescent end states (`closed=<the subscriber's channel is closed>,n=<changes received>`; for `cancel` only
`closed=…`), and answers `ok <observed>` if the observation is among them, else `no <outcome1>|<outcome2>|…`.
Nothing here is proved about (I/O glue).
-/
namespace ScVerif.C10

open ScVerif.Line

structure LNode where
  c : LConfig
  todo : List LMove

def showKindL : Kind → String | .add => "a" | .update => "u" | .remove => "r" | .replace => "p"
def showMsgsL (l : List Msg) : String := ",".intercalate (l.map fun m => s!"{showKindL m.kind}{m.tag}")

def LNode.key (n : LNode) : String :=
  let c := n.c; let p := c.p
  s!"{c.present}{c.returned}{c.subscribed}{c.missed}{c.removed}|{p.cancelled}{p.inClosed}{p.exDone}{p.fwDone}{p.pidDone}|" ++
  s!"{showMsgsL p.exQ}|{showMsgsL p.fwQ}|{showMsgsL p.pidQ}|{p.out.length}|{n.todo.length}"

def latePipeMoves : List PMove :=
  [.consume, .xferEF, .xferFP, .exExit, .fwExitIn, .fwExitCtx, .pidExitIn, .pidExitCtx, .closeIn]

/-- every enabled step: of the subscribing call, of the subscription's goroutines and the (always receiving)
subscriber, and — once the call has returned — the scenario's next write -/
def LNode.succs (n : LNode) : List LNode :=
  let own := ([LMove.ret, LMove.sub] ++ latePipeMoves.map LMove.pipe).filterMap fun m =>
    (lstep n.c m).map fun c' => { n with c := c' }
  let wr := match n.todo with
    | w :: r => if n.c.returned then (match lstep n.c w with | some c' => [{ c := c', todo := r }] | none => []) else []
    | [] => []
  own ++ wr

def lateOutcome (withN : Bool) (n : LNode) : String :=
  let base := s!"closed={n.c.p.outClosed}"
  let base := if withN then base ++ s!",n={n.c.p.out.length}" else base
  if n.todo.isEmpty then base else base ++ ",writer-blocked"

def lateExplore (withN : Bool) : Nat → List LNode → List String → List String → List String
  | 0, _, _, finals => finals ++ ["!fuel"]
  | _, [], _, finals => finals
  | fuel + 1, n :: rest, seen, finals =>
    let k := n.key
    if seen.contains k then lateExplore withN fuel rest seen finals
    else
      let ss := n.succs
      if ss.isEmpty then
        let o := lateOutcome withN n
        lateExplore withN fuel rest (k :: seen) (if finals.contains o then finals else finals ++ [o])
      else lateExplore withN fuel (ss ++ rest) (k :: seen) finals

def handleLate (toks : List String) : String :=
  match toks with
  | [sync, uo, bp, pre, action, observed] =>
    match parseBool? sync, parseBool? uo, parseBool? bp, parseNat? pre with
    | some sync, some uo, some bp, some pre =>
      if pre > 8 then "!bad-op" else
      let p : PConfig := { hasEx := !bp, exMerge := true, hasPid := true, target := 7, fixed := true, keep := fun _ => true }
      let ws := (List.range pre).map fun i => LMove.upd (i + 1)
      let last? : Option LMove :=
        if action = "del" then some .del else if action = "cancel" then some (.pipe .cancel) else none
      match last? with
      | none => "!bad-op"
      | some last =>
        let outs := lateExplore (action = "del") 20000 [{ c := linit sync uo p, todo := ws ++ [last] }] [] []
        if outs.contains observed then "ok " ++ observed else "no " ++ "|".intercalate outs
    | _, _, _, _ => "!bad-op"
  | _ => "!bad-op"

end ScVerif.C10
