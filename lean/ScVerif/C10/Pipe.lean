/-
C10 — model of the forwarding goroutines of ONE subscription in `pkg/resource`:

    bus listener channel ─▶ [excess stage] ─▶ forwarder ─▶ [PullID stage] ─▶ consumer

* excess stage (only without backpressure): `minibus.DropExcess` (keeps the newest message) or
  `mergeCollectionExcess` (a queue, one entry per id, changes of one id merged by `mergeChanges`: ADD then
  REMOVE annihilate); it ALWAYS accepts input, offers its head when it
  holds something, and exits only when its input is closed (it never looks at the context).
* forwarder: the goroutine of `Value.Pull` / `Collection.Pull`: offers its seed values first, then
  `for event := range in` ▸ filter ▸ `select { out <- change | <-ctx.Done() }`.  While it holds a message it
  does not receive; while it waits for input it does not look at the context.
* PullID stage: the goroutine of `Collection.PullID` (after the fixes 0f3ccd4/d125dc4: it derives a child
  context shared with the inner `Pull` and cancels it when it returns; `fixed = false` is the code before).
* environment: `push m` (a `Bus.Send` delivers `m` on the listener channel — possible only while the first
  stage accepts), `consume`, `cancel` (the subscriber's context), `closeIn` (the bus watcher closes the
  listener channel; by the bus model this happens only, and always eventually, after the cancel).

Every unbuffered channel is a rendezvous: a transfer step needs the sender offering and the receiver
receiving.
-/
namespace ScVerif.C10

/-- `types.ChangeType` of a `CollectionChange` (a `ValueChange` has none: `Value.Set` events are `update`) -/
inductive Kind
  | add | update | remove | replace
deriving DecidableEq, Repr

structure Msg where
  id : Nat
  kind : Kind
  tag : Nat
deriving DecidableEq, Repr

/-- the event is a REMOVE (`change.ChangeType == types.ChangeType_REMOVE`) -/
def Msg.remove (m : Msg) : Bool := m.kind == .remove

/-- `mergeChanges(a, b)` of `pkg/resource/backpressure.go` on the change types: the type of the merged change, or
`none` when the two annihilate (`send = false`: an ADD that nobody has seen yet followed by the REMOVE of the same
item).  The merged change carries `b`'s new value (here: its tag). -/
def mergeKind : Kind → Kind → Option Kind
  | .add, .remove => none
  | .add, _ => some .add
  | .update, .add => some .replace
  | .update, k => some k
  | .replace, .remove => some .remove
  | .replace, _ => some .replace
  | .remove, .remove => some .remove
  | .remove, _ => some .replace

structure PConfig where
  hasEx : Bool                 -- no backpressure: an excess stage sits behind the bus channel
  exMerge : Bool               -- it is mergeCollectionExcess (else DropExcess)
  hasPid : Bool                -- the subscription is a PullID
  target : Nat                 -- … of this id
  fixed : Bool                 -- PullID cancels the inner Pull's (child) context when it returns
  keep : Msg → Bool            -- the forwarder's include/equivalence filter
  cancelled : Bool := false    -- the context the stages select on
  inClosed : Bool := false     -- the bus listener channel is closed
  exQ : List Msg := []
  exDone : Bool := false
  fwQ : List Msg := []         -- initially the seed values
  fwDone : Bool := false
  pidQ : List Msg := []
  pidDone : Bool := false
  out : List Msg := []         -- what the consumer has received

inductive PMove
  | push (m : Msg) | consume | cancel | closeIn
  | xferEF | xferFP | exExit | fwExitIn | fwExitCtx | pidExitIn | pidExitCtx
deriving DecidableEq, Repr

/-- the input channel of the forwarder is closed -/
def PConfig.fwInClosed (c : PConfig) : Bool := if c.hasEx then c.exDone else c.inClosed
/-- the channel handed to the consumer is closed -/
def PConfig.outClosed (c : PConfig) : Bool := if c.hasPid then c.pidDone else c.fwDone
/-- every goroutine of the subscription has returned -/
def PConfig.allDone (c : PConfig) : Bool :=
  (!c.hasEx || c.exDone) && c.fwDone && (!c.hasPid || c.pidDone)

/-- what the excess stage holds after receiving `m`.  `DropExcess`: just `m`.  `mergeCollectionExcess`: if a change
of the same id is still queued it is taken out of the queue and merged with `m` (`mergeChanges`); the merged change
goes to the BACK of the queue, or — ADD then REMOVE — nothing does. -/
def mergeQ (q : List Msg) (m : Msg) : List Msg :=
  match q.find? (fun x => x.id = m.id) with
  | none => q ++ [m]
  | some old =>
    match mergeKind old.kind m.kind with
    | none => q.filter (fun x => x.id ≠ m.id)
    | some k => q.filter (fun x => x.id ≠ m.id) ++ [{ m with kind := k }]

def exRecv (c : PConfig) (m : Msg) : PConfig :=
  if c.exMerge then { c with exQ := mergeQ c.exQ m } else { c with exQ := [m] }

def fwRecv (c : PConfig) (m : Msg) : PConfig :=
  if c.keep m then { c with fwQ := [m] } else c

def pidRecv (c : PConfig) (m : Msg) : PConfig :=
  if m.id ≠ c.target then c
  else if m.remove then { c with pidDone := true, cancelled := c.cancelled || c.fixed }
  else { c with pidQ := [m] }

def pstep (c : PConfig) : PMove → Option PConfig
  | .push m =>
    if c.inClosed then none
    else if c.hasEx then (if c.exDone then none else some (exRecv c m))
    else if c.fwDone = false ∧ c.fwQ = [] then some (fwRecv c m) else none
  | .consume =>
    if c.hasPid then
      match c.pidQ with
      | m :: r => if c.pidDone then none else some { c with pidQ := r, out := c.out ++ [m] }
      | [] => none
    else
      match c.fwQ with
      | m :: r => if c.fwDone then none else some { c with fwQ := r, out := c.out ++ [m] }
      | [] => none
  | .cancel => some { c with cancelled := true }
  | .closeIn => if c.cancelled = true ∧ c.inClosed = false then some { c with inClosed := true } else none
  | .xferEF =>
    match c.exQ with
    | m :: r =>
      if c.hasEx = true ∧ c.exDone = false ∧ c.fwDone = false ∧ c.fwQ = [] then some (fwRecv { c with exQ := r } m)
      else none
    | [] => none
  | .xferFP =>
    match c.fwQ with
    | m :: r =>
      if c.hasPid = true ∧ c.fwDone = false ∧ c.pidDone = false ∧ c.pidQ = [] then some (pidRecv { c with fwQ := r } m)
      else none
    | [] => none
  | .exExit =>
    if c.hasEx = true ∧ c.exDone = false ∧ c.inClosed = true then some { c with exDone := true, exQ := [] } else none
  | .fwExitIn =>
    if c.fwDone = false ∧ c.fwQ = [] ∧ c.fwInClosed = true then some { c with fwDone := true } else none
  | .fwExitCtx =>
    if c.fwDone = false ∧ c.fwQ ≠ [] ∧ c.cancelled = true then some { c with fwDone := true, fwQ := [] } else none
  | .pidExitIn =>
    if c.hasPid = true ∧ c.pidDone = false ∧ c.pidQ = [] ∧ c.fwDone = true then
      some { c with pidDone := true, cancelled := c.cancelled || c.fixed }
    else none
  | .pidExitCtx =>
    if c.hasPid = true ∧ c.pidDone = false ∧ c.pidQ ≠ [] ∧ c.cancelled = true then
      some { c with pidDone := true, pidQ := [] }
    else none

def pnext (c : PConfig) (m : PMove) : PConfig := (pstep c m).getD c
def prun (c : PConfig) (sched : List PMove) : PConfig := sched.foldl pnext c

/-! ### ids as the callers spell them

`Collection.Update`, `Collection.Delete` and `Collection.PullID` first run the caller's id through the
collection's id interceptor (`c.idInterceptor`; the identity when none is configured): the item is stored,
and every event about it is published, under the intercepted id. -/

/-- the event `Collection.Update(raw, …)` / `Collection.Delete(raw)` publishes on the bus -/
def changeOf (icpt : Nat → Nat) (raw : Nat) (kind : Kind) (tag : Nat) : Msg := ⟨icpt raw, kind, tag⟩

/-- the id `Collection.PullID(ctx, raw)` compares the events of its inner `Pull` with -/
def pullIDTarget (icpt : Nat → Nat) (raw : Nat) : Nat := icpt raw

/-! ### a consumer that ranges over the channel

The generated gRPC `Pull…` handlers of the trait models are `for change := range model.Pull…(ctx) { send }`:
they do not look at the context themselves and return only when the channel is closed. -/

structure RConfig where
  p : PConfig
  hDone : Bool := false        -- the handler has returned

inductive RMove
  | pipe (m : PMove)           -- a step of the subscription or its environment (`consume` = one loop iteration)
  | hExit                      -- `range` sees the close: the handler returns

def rstep (h : RConfig) : RMove → Option RConfig
  | .pipe m =>
    if m = .consume ∧ h.hDone = true then none    -- a handler that has returned does not receive
    else (pstep h.p m).map fun p' => { h with p := p' }
  | .hExit =>
    if h.hDone = false ∧ h.p.outClosed = true ∧ (if h.p.hasPid then h.p.pidQ = [] else h.p.fwQ = []) then
      some { h with hDone := true }
    else none

/-! ### a trait-model adapter

`onoffpb.Model.PullOnOff` and its siblings: a goroutine that ranges over the `pkg/resource` channel and hands each
change, converted, to the subscriber on a channel of its own.  After fix aa57613 that hand-over is
`select { case <-ctx.Done(): return; case send <- change: }` (`watchesCtx = true`); before, it was a bare
`send <- change`. -/

structure AConfig where
  p : PConfig
  watchesCtx : Bool
  hold : Bool := false         -- the adapter has a change in hand and offers it to the subscriber
  aDone : Bool := false        -- the adapter goroutine has returned (its channel is closed)

inductive AMove
  | pipe (m : PMove)           -- a step of the underlying subscription or its environment (not `consume`)
  | aRecv                      -- the adapter receives one change from the pkg/resource channel
  | aSend                      -- the subscriber receives the change the adapter offers
  | aExitIn                    -- `range` sees the close
  | aExitCtx                   -- the `ctx.Done()` case of the hand-over
deriving DecidableEq

def astep (a : AConfig) : AMove → Option AConfig
  | .pipe m => if m = .consume then none else (pstep a.p m).map fun p' => { a with p := p' }
  | .aRecv =>
    if a.aDone = false ∧ a.hold = false then (pstep a.p .consume).map fun p' => { a with p := p', hold := true }
    else none
  | .aSend => if a.aDone = false ∧ a.hold = true then some { a with hold := false } else none
  | .aExitIn =>
    if a.aDone = false ∧ a.hold = false ∧ a.p.outClosed = true ∧
        (if a.p.hasPid then a.p.pidQ = [] else a.p.fwQ = []) then some { a with aDone := true }
    else none
  | .aExitCtx =>
    if a.watchesCtx = true ∧ a.aDone = false ∧ a.hold = true ∧ a.p.cancelled = true then
      some { a with aDone := true, hold := false }
    else none

/-! ### the gRPC handler of a trait `ModelServer` on top of an adapter

`for change := range model.Pull…(server.Context(), …) { if err := server.Send(…); err != nil { return err } }`: the
handler receives from the ADAPTER's channel; it returns when that channel is closed, or — at any moment — when the
stream's `Send` fails (the client went away), leaving the adapter with nobody receiving. -/

structure GConfig where
  a : AConfig
  gDone : Bool := false        -- the handler has returned

inductive GMove
  | ad (m : AMove)             -- a step of the adapter, the subscription or its environment (`aSend` = one loop iteration)
  | gFail                      -- `server.Send` returned an error: the handler returns
  | gExit                      -- `range` sees the adapter's channel closed: the handler returns

def gstep (g : GConfig) : GMove → Option GConfig
  | .ad m => if m = .aSend ∧ g.gDone = true then none else (astep g.a m).map fun a' => { g with a := a' }
  | .gFail => if g.gDone = false then some { g with gDone := true } else none
  | .gExit => if g.gDone = false ∧ g.a.aDone = true ∧ g.a.hold = false then some { g with gDone := true } else none

/-- termination measure: one unit per live goroutine plus, per held message, its distance to the exit -/
def pmu (c : PConfig) : Nat :=
  (if c.hasEx && !c.exDone then 1 + 3 * c.exQ.length else 0) +
  (if !c.fwDone then 1 + 2 * c.fwQ.length else 0) +
  (if c.hasPid && !c.pidDone then 1 + c.pidQ.length else 0)

end ScVerif.C10
