/-
C10 — executable interleaving model of `internal/minibus/bus.go`.

One atomic step = one lock-delimited section or one channel rendezvous of the Go code:

* `Bus.Send`      : `sSnapshot` (copy of `b.listeners` under `listenerM.RLock`) ▸ per listener of the copy
                    `sAcquire` (`l.m.RLock`) ▸ one of `sDeliver` / `sListenCancelled` / `sSendCancelled`
                    (the three `select` cases of `listener.send`) ▸ `sRelease` (deferred `RUnlock`, loop
                    bookkeeping, early `return false`) ▸ `sFinish` ▸ optional `sCollect` (`Bus.collect`)
* `Bus.Listen`    : `lSpawn` (the `go func(){ <-ctx.Done(); l.stop() }`) ▸ `lRegister` (append under `listenerM.Lock`)
* watcher / `stop`: `wAwake` (`<-ctx.Done()` returns) ▸ `wLockReq` (`l.m.Lock()` announced: new readers wait, as
                    `sync.RWMutex` does) ▸ `wLockAcq` (no reader left) ▸ `wClose` (`close(l.ch)`, guarded by
                    `l.ch != nil`) ▸ `wNil` (`l.ch = nil`) ▸ `wUnlock`
* environment     : `cancel l` (the listen context), `cancelSend t` (the send context), `recvReq l` (the
                    consumer of listener `l` posts one receive).  All enabled at any time.

A panic of the Go runtime (send on a closed, non-nil channel; close of a closed channel) is an explicit
outcome: it sets `panicked`.  Listeners and senders are indexed by `Nat` (any number of each).
-/
namespace ScVerif.C10

/-- Point update of a `Nat`-indexed family. -/
def upd {α : Type} (f : Nat → α) (i : Nat) (v : α) : Nat → α := fun j => if j = i then v else f j

@[simp] theorem upd_same {α : Type} (f : Nat → α) (i : Nat) (v : α) : upd f i v i = v := by simp [upd]
theorem upd_other {α : Type} (f : Nat → α) {i j : Nat} (v : α) (h : j ≠ i) : upd f i v j = f j := by simp [upd, h]
theorem upd_apply {α : Type} (f : Nat → α) (i j : Nat) (v : α) : upd f i v j = if j = i then v else f j := rfl

structure Ev where
  sender : Nat
  seq : Nat
deriving DecidableEq, Repr

/-- program counter of the goroutine `go func(){ <-ctx.Done(); l.stop() }` -/
inductive WPc | none | await | enter | wait | locked | closing | unlock | done
deriving DecidableEq, Repr

/-- program counter of the `Bus.Listen` call -/
inductive LPc | init | spawned | registered
deriving DecidableEq, Repr

structure Listener where
  cancelled : Bool := false      -- l.ctx is Done
  closed : Bool := false         -- close(l.ch) has been executed
  isNil : Bool := false          -- l.ch == nil
  readers : List Nat := []       -- senders holding l.m.RLock
  wWait : Bool := false          -- a Lock() is queued on l.m (new RLock calls wait)
  wHeld : Bool := false          -- l.m is write-locked
  wpc : WPc := .none
  lpc : LPc := .init
  rcvReady : Bool := false       -- the consumer is blocked in a receive on l.ch
  recvd : List Ev := []          -- what the consumer has received, oldest first
  sawClose : Bool := false       -- a receive of the consumer returned !ok

/-- which `select` case of `listener.send` fired -/
inductive Sel | delivered | listenCancelled | sendCancelled
deriving DecidableEq, Repr

inductive SPc | idle | loop | rlocked | selected (o : Sel) | gc
deriving DecidableEq, Repr

structure Sender where
  pc : SPc := .idle
  cur : Nat := 0                 -- sequence number of the current (or last) Send call
  todo : Nat := 0                -- Send calls still to make
  snap : List Nat := []          -- the copy of b.listeners taken by the current call
  visited : List Nat := []       -- prefix of `snap` already processed
  rest : List Nat := []          -- suffix of `snap` still to process (head = current listener)
  needGc : Bool := false
  ctxDone : Bool := false        -- the send context of the current call is Done
  results : List Bool := []      -- `ok` of the finished calls, oldest first

structure Config where
  ls : Nat → Listener
  ss : Nat → Sender
  bus : List Nat                 -- b.listeners
  panicked : Bool

inductive Move
  | cancel (l : Nat) | cancelSend (t : Nat) | recvReq (l : Nat)
  | lSpawn (l : Nat) | lRegister (l : Nat)
  | wAwake (l : Nat) | wLockReq (l : Nat) | wLockAcq (l : Nat) | wClose (l : Nat) | wNil (l : Nat) | wUnlock (l : Nat)
  | sSnapshot (t : Nat) | sAcquire (t : Nat) | sDeliver (t : Nat) | sListenCancelled (t : Nat)
  | sSendCancelled (t : Nat) | sRelease (t : Nat) | sFinish (t : Nat) | sCollect (t : Nat)
deriving DecidableEq, Repr

def Config.setL (c : Config) (l : Nat) (v : Listener) : Config := { c with ls := upd c.ls l v }
def Config.setS (c : Config) (t : Nat) (v : Sender) : Config := { c with ss := upd c.ss t v }

/-- One atomic step; `none` = the move is not enabled in `c`. -/
def step (c : Config) : Move → Option Config
  | .cancel l => some (c.setL l { c.ls l with cancelled := true })
  | .cancelSend t =>
    if (c.ss t).pc ≠ .idle then some (c.setS t { c.ss t with ctxDone := true }) else none
  | .recvReq l =>
    let L := c.ls l
    if L.rcvReady = false ∧ L.sawClose = false then
      if L.closed then some (c.setL l { L with sawClose := true })
      else some (c.setL l { L with rcvReady := true })
    else none
  | .lSpawn l =>
    let L := c.ls l
    if L.lpc = .init then some (c.setL l { L with lpc := .spawned, wpc := .await }) else none
  | .lRegister l =>
    let L := c.ls l
    if L.lpc = .spawned then some { (c.setL l { L with lpc := .registered }) with bus := c.bus ++ [l] } else none
  | .wAwake l =>
    let L := c.ls l
    if L.wpc = .await ∧ L.cancelled = true then some (c.setL l { L with wpc := .enter }) else none
  | .wLockReq l =>
    let L := c.ls l
    if L.wpc = .enter then some (c.setL l { L with wpc := .wait, wWait := true }) else none
  | .wLockAcq l =>
    let L := c.ls l
    if L.wpc = .wait ∧ L.readers = [] then some (c.setL l { L with wpc := .locked, wWait := false, wHeld := true })
    else none
  | .wClose l =>
    let L := c.ls l
    if L.wpc = .locked then
      if L.isNil then some (c.setL l { L with wpc := .unlock })
      else if L.closed then some { (c.setL l { L with wpc := .closing }) with panicked := true }
      else some (c.setL l { L with wpc := .closing, closed := true, rcvReady := false,
                                   sawClose := L.sawClose || L.rcvReady })
    else none
  | .wNil l =>
    let L := c.ls l
    if L.wpc = .closing then some (c.setL l { L with wpc := .unlock, isNil := true }) else none
  | .wUnlock l =>
    let L := c.ls l
    if L.wpc = .unlock then some (c.setL l { L with wpc := .done, wHeld := false }) else none
  | .sSnapshot t =>
    let S := c.ss t
    if S.pc = .idle ∧ 0 < S.todo then
      some (c.setS t { S with pc := .loop, cur := S.cur + 1, todo := S.todo - 1, snap := c.bus, visited := [],
                              rest := c.bus, needGc := false, ctxDone := false })
    else none
  | .sAcquire t =>
    let S := c.ss t
    match S.rest with
    | [] => none
    | l :: _ =>
      let L := c.ls l
      if S.pc = .loop ∧ L.wWait = false ∧ L.wHeld = false then
        some ((c.setL l { L with readers := t :: L.readers }).setS t { S with pc := .rlocked })
      else none
  | .sDeliver t =>
    let S := c.ss t
    match S.rest with
    | [] => none
    | l :: _ =>
      let L := c.ls l
      if S.pc = .rlocked ∧ L.isNil = false ∧ L.rcvReady = true then
        if L.closed then
          some { (c.setS t { S with pc := .selected .delivered }) with panicked := true }
        else
          some ((c.setL l { L with recvd := L.recvd ++ [⟨t, S.cur⟩], rcvReady := false }).setS t
                  { S with pc := .selected .delivered })
      else none
  | .sListenCancelled t =>
    let S := c.ss t
    match S.rest with
    | [] => none
    | l :: _ =>
      if S.pc = .rlocked ∧ (c.ls l).cancelled = true then
        some (c.setS t { S with pc := .selected .listenCancelled })
      else none
  | .sSendCancelled t =>
    let S := c.ss t
    match S.rest with
    | [] => none
    | _ :: _ =>
      if S.pc = .rlocked ∧ S.ctxDone = true then
        some (c.setS t { S with pc := .selected .sendCancelled })
      else none
  | .sRelease t =>
    let S := c.ss t
    match S.rest with
    | [] => none
    | l :: r =>
      let L := c.ls l
      match S.pc with
      | .selected o =>
        let c1 := c.setL l { L with readers := L.readers.filter (· ≠ t) }
        if o = .sendCancelled then
          some (c1.setS t { S with pc := .idle, rest := [], results := S.results ++ [false] })
        else
          some (c1.setS t { S with pc := .loop, rest := r, visited := S.visited ++ [l],
                                   needGc := S.needGc || decide (o = .listenCancelled) })
      | _ => none
  | .sFinish t =>
    let S := c.ss t
    if S.pc = .loop ∧ S.rest = [] then
      if S.needGc then some (c.setS t { S with pc := .gc })
      else some (c.setS t { S with pc := .idle, results := S.results ++ [true] })
    else none
  | .sCollect t =>
    let S := c.ss t
    if S.pc = .gc then
      some { (c.setS t { S with pc := .idle, results := S.results ++ [true] }) with
             bus := c.bus.filter (fun l => !(c.ls l).cancelled) }
    else none

/-- A disabled move leaves the configuration unchanged (the scheduler picked a blocked goroutine). -/
def next (c : Config) (m : Move) : Config := (step c m).getD c

/-- A schedule is a list of moves; running it is a fold. -/
def run (c : Config) (sched : List Move) : Config := sched.foldl next c

/-- Initial configuration: nothing subscribed, sender `t` has `todo t` calls to make. -/
def init (todo : Nat → Nat) : Config :=
  { ls := fun _ => {}, ss := fun t => { todo := todo t }, bus := [], panicked := false }

theorem run_nil (c : Config) : run c [] = c := rfl
theorem run_cons (c : Config) (m : Move) (ms : List Move) : run c (m :: ms) = run (next c m) ms := rfl
theorem run_append (c : Config) (a b : List Move) : run c (a ++ b) = run (run c a) b := by
  simp [run, List.foldl_append]

end ScVerif.C10
