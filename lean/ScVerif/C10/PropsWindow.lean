import ScVerif.C10.Window
import ScVerif.C10.PropsLate
/-!
# C10 — property theorems, part 6: the seed-and-register window of a subscription

"A single-item subscription also ends when the item is removed" rests on `Collection.onUpdate` taking the seed values
and registering the bus listener as ONE step with respect to writers.  `Window.lean` splits the step in two (`snap`,
`reg`) and models what makes them one: the collection's read lock, held from the snapshot until `bus.Listen` has
returned, which keeps `Collection.Update` / `Collection.Delete` out.  All theorems: every schedule of `snap`, `reg`,
the subscribing call's return, updates / deletes / re-adds of the watched item, changes of other items, pipeline
goroutines, subscriber and cancel; every pipeline shape; every adapter shape.
-/
namespace ScVerif.C10

/-- REFINEMENT: with the lock, whatever the split model does, the atomic model (`Late.lean`) does too: the state
reached by any schedule of the split model is reached by a schedule of the atomic model (`snap` maps to nothing,
`reg` to `sub`, every other step to itself) — so every theorem of `PropsLate` holds of the split model. -/
theorem C10_subscribe_under_read_lock_refines_atomic_step (sync uo : Bool) (p : PConfig) (sched : List WMove) :
    ∃ ls : List LMove, (wrun (winit true sync uo p) sched).l = lrun (linit sync uo p) ls :=
  (winv_run (linit sync uo p) sched (winit true sync uo p) rfl (winv_init true sync uo p) ⟨[], rfl⟩).2

/-- With the lock, under every schedule: a subscription that was SHOWN the item (its seed contained it) and whose item
is gone has been handed a REMOVE of it — no delete falls between the snapshot and the registration. -/
theorem C10_shown_then_removed_is_told (sync uo : Bool) (p : PConfig) (sched : List WMove) :
    let w := wrun (winit true sync uo p) sched
    w.l.subscribed = true → w.shown = true → w.l.present = false → w.l.removed = true :=
  (winv_run (linit sync uo p) sched (winit true sync uo p) rfl (winv_init true sync uo p) ⟨[], rfl⟩).1.told

/-- … and (backpressure pipeline) that REMOVE has ended the subscription, or the subscriber cancelled, or it sits in
the forwarder's hand next in line for the PullID stage (`C10_in_flight_remove_progress` then gives the enabled step). -/
theorem C10_shown_then_removed_ends_or_in_flight (sync uo : Bool) (p : PConfig) (hp : p.Plain) (sched : List WMove) :
    let w := wrun (winit true sync uo p) sched
    w.l.subscribed = true → w.shown = true → w.l.present = false → w.l.p.InFlight := by
  intro w hs hsh hg
  have hr : w.l.removed = true := C10_shown_then_removed_is_told sync uo p sched hs hsh hg
  obtain ⟨ls, hls⟩ := C10_subscribe_under_read_lock_refines_atomic_step sync uo p sched
  have := C10_adapter_remove_in_flight sync uo p hp ls
  simp only at this
  change w.l = _ at hls
  rw [← hls] at this
  exact this hr

/-- The lock is what does it.  Released before `bus.Listen` (the `defer c.mu.RUnlock()` moved into a helper that
returns the snapshot), there is a schedule — snapshot, delete, registration, the seed handed on and received — after
which the subscriber has been shown the item, the item is gone, no REMOVE was handed to the subscription, nothing is
in flight, its channel is open, it was not cancelled, and no step of its goroutines is enabled: it ends only if the
subscriber cancels. -/
theorem C10_window_without_lock_misses_remove :
    ∃ (p : PConfig) (sched : List WMove), p.Plain ∧
      let w := wrun (winit false true false p) sched
      w.l.subscribed = true ∧ w.shown = true ∧ w.l.present = false ∧ w.l.removed = false ∧
      w.l.p.out = [⟨p.target, .add, 0⟩] ∧ w.l.p.outClosed = false ∧ w.l.p.cancelled = false ∧
      ∀ m : PMove, m ≠ .cancel → lstep w.l (.pipe m) = none := by
  refine ⟨{ hasEx := false, exMerge := false, hasPid := true, target := 7, fixed := true, keep := fun _ => true },
    [.snap, .mv .del, .reg, .mv (.pipe .xferFP), .mv (.pipe .consume)], ⟨rfl, rfl, fun _ => rfl⟩,
    rfl, rfl, rfl, rfl, rfl, rfl, rfl, ?_⟩
  intro m hm
  cases m <;> first | rfl | exact absurd rfl hm

/-- non-vacuity, and the lock at work: after the snapshot of a subscription that is not updates-only neither a delete
nor an update nor a write on another item is enabled; they are after the registration (and, with backpressure, once the forwarder
has handed on the seed), and then the delete hands its
REMOVE to the subscription that was shown the item -/
example :
    let p : PConfig := { hasEx := false, exMerge := false, hasPid := true, target := 7, fixed := true, keep := fun _ => true }
    let w := wrun (winit true true false p) [.snap]
    (wstep w (.mv .del)).isNone = true ∧ (wstep w (.mv (.upd 1))).isNone = true ∧
      (wstep w (.mv (.other ⟨3, .add, 1⟩))).isNone = true ∧
      (let w' := wrun w [.mv .del, .reg, .mv .ret, .mv (.pipe .xferFP), .mv .del]
       w'.l.subscribed = true ∧ w'.shown = true ∧ w'.l.present = false ∧ w'.l.removed = true ∧
         w'.l.p.fwQ = [⟨7, .remove, 0⟩]) := by decide

/-- an updates-only subscription takes no lock (and no seed): a delete inside its window goes through, the subscription
was shown nothing -/
example :
    let p : PConfig := { hasEx := false, exMerge := false, hasPid := true, target := 7, fixed := true, keep := fun _ => true }
    let w := wrun (winit true true true p) [.snap, .mv .del, .reg]
    w.l.subscribed = true ∧ w.l.present = false ∧ w.shown = false ∧ w.l.p.fwQ = [] := by decide

end ScVerif.C10
