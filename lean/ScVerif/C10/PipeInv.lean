import ScVerif.C10.Pipe
import ScVerif.C10.BusReach
/-! Small invariants used by the C10 property theorems (helper lemmas). -/
namespace ScVerif.C10

/-- a stage that has returned holds nothing (its channel is closed and empty) -/
def PConfig.Tidy (c : PConfig) : Prop :=
  (c.fwDone = true → c.fwQ = []) ∧ (c.pidDone = true → c.pidQ = [])

theorem tidy_step {c c' : PConfig} {m : PMove} (h : c.Tidy) (hs : pstep c m = some c') : c'.Tidy := by
  obtain ⟨h1, h2⟩ := h
  cases m <;> simp only [pstep] at hs <;> (repeat' (split at hs)) <;>
    first
      | (cases hs; done)
      | (simp only [Option.some.injEq] at hs; subst hs
         simp only [PConfig.Tidy, fwRecv, exRecv, pidRecv] at *
         (repeat' split) <;> simp_all)

theorem tidy_prun {c : PConfig} (sched : List PMove) (h : c.Tidy) : (prun c sched).Tidy := by
  induction sched generalizing c with
  | nil => exact h
  | cons m ms ih =>
    show (prun (pnext c m) ms).Tidy
    apply ih
    unfold pnext
    cases hs : pstep c m with
    | none => simpa using h
    | some c' => simpa using tidy_step h hs

/-- the excess stage returns only after its input, the bus channel, was closed -/
def PConfig.ExOrder (c : PConfig) : Prop := c.exDone = true → c.inClosed = true

theorem exOrder_step {c c' : PConfig} {m : PMove} (h : c.ExOrder) (hs : pstep c m = some c') : c'.ExOrder := by
  cases m <;> simp only [pstep] at hs <;> (repeat' (split at hs)) <;>
    first
      | (cases hs; done)
      | (simp only [Option.some.injEq] at hs; subst hs
         simp only [PConfig.ExOrder, fwRecv, exRecv, pidRecv] at *
         (repeat' split) <;> simp_all)

/-- the watcher goroutine, once started, is never "not started" again -/
theorem wpc_ne_none_next (c : Config) (m : Move) (l : Nat) :
    (c.ls l).wpc ≠ .none → ((next c m).ls l).wpc ≠ .none := by
  intro h
  unfold next
  cases m <;> simp only [step] <;> (repeat' split) <;>
    simp only [Option.getD_some, Option.getD_none, Config.setL, Config.setS, upd_apply] <;>
    (repeat' split) <;> simp_all

theorem wpc_ne_none_run (c : Config) (sched : List Move) (l : Nat) :
    (c.ls l).wpc ≠ .none → ((run c sched).ls l).wpc ≠ .none := by
  induction sched generalizing c with
  | nil => exact id
  | cons m ms ih => intro h; exact ih (next c m) (wpc_ne_none_next c m l h)

end ScVerif.C10
