import ScVerif.C10.Pipe
import ScVerif.C10.BusReach
/-! Small invariants used by the C10 property theorems (helper lemmas). -/
namespace ScVerif.C10

/-- a stage that has returned holds nothing (its channel is closed and empty) -/
def PConfig.Tidy (c : PConfig) : Prop :=
  (c.fwDone = true → c.fwQ = []) ∧ (c.pidDone = true → c.pidQ = [])

theorem tidy_step {c c' : PConfig} {m : PMove} (h : c.Tidy) (hs : pstep c m = some c') : c'.Tidy := by
  obtain ⟨h1, h2⟩ := h
  cases m <;> simp only [pstep] at hs <;> (repeat' (split at hs)) <;>
    first
      | (cases hs; done)
      | (simp only [Option.some.injEq] at hs; subst hs
         simp only [PConfig.Tidy, fwRecv, exRecv, pidRecv] at *
         (repeat' split) <;> simp_all)

theorem tidy_prun {c : PConfig} (sched : List PMove) (h : c.Tidy) : (prun c sched).Tidy := by
  induction sched generalizing c with
  | nil => exact h
  | cons m ms ih =>
    show (prun (pnext c m) ms).Tidy
    apply ih
    unfold pnext
    cases hs : pstep c m with
    | none => simpa using h
    | some c' => simpa using tidy_step h hs

/-- an adapter that has returned offers nothing -/
def AConfig.ATidy (a : AConfig) : Prop := a.aDone = true → a.hold = false

theorem atidy_step {a a' : AConfig} {m : AMove} (h : a.ATidy) (hs : astep a m = some a') : a'.ATidy := by
  unfold AConfig.ATidy at *
  cases m with
  | pipe pm =>
    simp only [astep] at hs
    split at hs
    · cases hs
    · cases hp : pstep a.p pm with
      | none => simp [hp] at hs
      | some p' => simp [hp] at hs; subst hs; exact h
  | aRecv =>
    simp only [astep] at hs
    split at hs
    · rename_i hg
      cases hp : pstep a.p .consume with
      | none => simp [hp] at hs
      | some p' => simp [hp] at hs; subst hs; intro hd; simp [hg.1] at hd
    · cases hs
  | aSend =>
    simp only [astep] at hs
    split at hs
    · simp only [Option.some.injEq] at hs; subst hs; intro _; rfl
    · cases hs
  | aExitIn =>
    by_cases hg : a.aDone = false ∧ a.hold = false ∧ a.p.outClosed = true ∧
        (if a.p.hasPid then a.p.pidQ = [] else a.p.fwQ = [])
    · simp only [astep, hg, and_self, if_true, Option.some.injEq] at hs; subst hs; intro _; first | rfl | exact hg.2.1
    · simp only [astep, hg, if_false] at hs; cases hs
  | aExitCtx =>
    by_cases hg : a.watchesCtx = true ∧ a.aDone = false ∧ a.hold = true ∧ a.p.cancelled = true
    · simp only [astep, hg, and_self, if_true, Option.some.injEq] at hs; subst hs; intro _; rfl
    · simp only [astep, hg, if_false] at hs; cases hs

/-- the excess stage returns only after its input, the bus channel, was closed -/
def PConfig.ExOrder (c : PConfig) : Prop := c.exDone = true → c.inClosed = true

theorem exOrder_step {c c' : PConfig} {m : PMove} (h : c.ExOrder) (hs : pstep c m = some c') : c'.ExOrder := by
  cases m <;> simp only [pstep] at hs <;> (repeat' (split at hs)) <;>
    first
      | (cases hs; done)
      | (simp only [Option.some.injEq] at hs; subst hs
         simp only [PConfig.ExOrder, fwRecv, exRecv, pidRecv] at *
         (repeat' split) <;> simp_all)

/-- nothing of a subscription ends by itself: the bus channel is closed only after the cancel, the forwarder returns
only after the cancel (or the close, which comes after it), and — code after fix 0f3ccd4 — when the PullID goroutine
has returned the (child) context is cancelled -/
def PConfig.Causal (c : PConfig) : Prop :=
  (c.inClosed = true → c.cancelled = true) ∧ (c.exDone = true → c.inClosed = true) ∧
  (c.fwDone = true → c.cancelled = true) ∧ (c.fixed = true → c.pidDone = true → c.cancelled = true)

theorem causal_step {c c' : PConfig} {m : PMove} (h : c.Causal) (hs : pstep c m = some c') :
    c'.Causal ∧ c'.fixed = c.fixed := by
  obtain ⟨h1, h2, h3, h4⟩ := h
  cases m <;> simp only [pstep] at hs <;> (repeat' (split at hs)) <;>
    first
      | (cases hs; done)
      | (simp only [Option.some.injEq] at hs; subst hs
         simp only [PConfig.Causal, PConfig.fwInClosed, fwRecv, exRecv, pidRecv] at *
         (repeat' split) <;> simp_all <;>
           (rename_i hg; obtain ⟨_, _, hg⟩ := hg; split at hg <;> simp_all))

/-- the watcher goroutine, once started, is never "not started" again -/
theorem wpc_ne_none_next (c : Config) (m : Move) (l : Nat) :
    (c.ls l).wpc ≠ .none → ((next c m).ls l).wpc ≠ .none := by
  intro h
  unfold next
  cases m <;> simp only [step] <;> (repeat' split) <;>
    simp only [Option.getD_some, Option.getD_none, Config.setL, Config.setS, upd_apply] <;>
    (repeat' split) <;> simp_all

theorem wpc_ne_none_run (c : Config) (sched : List Move) (l : Nat) :
    (c.ls l).wpc ≠ .none → ((run c sched).ls l).wpc ≠ .none := by
  induction sched generalizing c with
  | nil => exact id
  | cons m ms ih => intro h; exact ih (next c m) (wpc_ne_none_next c m l h)

end ScVerif.C10
