import ScVerif.C10.BusMeasure
import ScVerif.C10.BusSend
/-!
# C10 — property theorems, part 1: the event bus (`internal/minibus/bus.go`)

Property (fixed text): "Cancelling a subscription's context at any moment (before, during or after
deliveries, with writers active) closes its channel, never panics, never deadlocks or stalls writers
or other subscribers beyond the cancel itself, and every goroutine started for it terminates; a
single-item subscription also ends when the item is removed. An event sent on the bus reaches every
listener that is live for the whole send exactly once, in per-sender order, and never reaches a
channel after it was closed."

All theorems quantify over: any number of listeners and senders (indexed by `Nat`), any number of
`Send` calls per sender (`todo`), and EVERY schedule (`sched : List Move`) — including `cancel`,
`cancelSend` and `recvReq` environment moves at arbitrary positions.  Only property theorems and
non-vacuity examples live in this file.
-/
namespace ScVerif.C10

/-- No schedule reaches a Go runtime panic (send on a closed non-nil channel, close of a closed channel). -/
theorem C10_no_panic (todo : Nat → Nat) (sched : List Move) :
    (run (init todo) sched).panicked = false :=
  (inv_reach todo sched).lock.noPanic

/-- RLock held ⇒ no close in between: in every configuration reachable under any schedule, a sender
that holds the read lock of listener `l` (it is inside `select`, or past it and not yet unlocked)
excludes the write lock, and the channel is not in the closed-but-not-nil window; hence every enabled
`deliver` step targets an open channel and does not panic. -/
theorem C10_no_send_on_closed (c : Config) (hc : Reachable c) (t l : Nat) :
    (Holding (c.ss t) l → (c.ls l).wHeld = false ∧ ¬ ((c.ls l).closed = true ∧ (c.ls l).isNil = false)) ∧
    (∀ c', step c (.sDeliver t) = some c' → (c.ss t).rest.head? = some l →
        (c.ls l).closed = false ∧ c'.panicked = false) := by
  have hI := hc.inv
  refine ⟨fun h => hI.lock.not_closing h, ?_⟩
  intro c' hs hl
  have hp := (inv_step hI hs).lock.noPanic
  refine ⟨?_, hp⟩
  simp only [step] at hs
  split at hs
  · cases hs
  · rename_i l' tl heq
    have : l' = l := by rw [heq] at hl; simpa using hl
    subst this
    split at hs
    · rename_i hg
      have hold : Holding (c.ss t) l' := ⟨Or.inl hg.1, by simp [heq]⟩
      have := (hI.lock.not_closing hold).2
      cases hcl : (c.ls l').closed with
      | false => rfl
      | true => exact absurd ⟨hcl, hg.2.1⟩ this
    · cases hs

/-- Exactly once: when the loop of a `Send` call has gone through its whole snapshot (the call is
about to return `true`), every listener that was registered when the snapshot was taken and whose
context is still not cancelled (so it was live for the whole send: `cancelled` never reverts, see
`C10_cancelled_stable`) has received this call's event exactly once.  Every schedule. -/
theorem C10_exactly_once (c : Config) (hc : Reachable c) (t l : Nat) :
    (c.ss t).pc = .loop → (c.ss t).rest = [] → l ∈ (c.ss t).snap → (c.ls l).cancelled = false →
    (c.ls l).recvd.count ⟨t, (c.ss t).cur⟩ = 1 := by
  intro hpc hrest hl hcan
  have hI := hc.inv
  have hsplit := hI.struct.snapSplit t
  have hv : l ∈ (c.ss t).visited := by
    rcases hsplit with h | h
    · rw [hpc] at h; cases h
    · rw [hrest, List.append_nil] at h; rw [h]; exact hl
  have hmem : (⟨t, (c.ss t).cur⟩ : Ev) ∈ (c.ls l).recvd := by
    rcases hI.deliv.visitedOk t l hv with h | h
    · exact h
    · rw [hcan] at h; cases h
  have hle := count_le_one_of_pairwise _ (hI.deliv.order l) ⟨t, (c.ss t).cur⟩
  have hpos : 0 < (c.ls l).recvd.count ⟨t, (c.ss t).cur⟩ := List.count_pos_iff.mpr hmem
  omega

/-- non-vacuity of `C10_exactly_once`: a schedule that reaches its hypotheses (one listener, one Send) -/
example :
    let c := run (init fun _ => 1)
      [.lSpawn 0, .lRegister 0, .sSnapshot 0, .sAcquire 0, .recvReq 0, .sDeliver 0, .sRelease 0]
    (c.ss 0).pc = .loop ∧ (c.ss 0).rest = [] ∧ 0 ∈ (c.ss 0).snap ∧ (c.ls 0).cancelled = false ∧
      (c.ls 0).recvd = [⟨0, 1⟩] := by decide

/-- …and a schedule in which the listener is cancelled during the send: the event is not delivered, the
call still returns `true` (`results = [true]`) and the dead listener is collected. -/
example :
    let c := run (init fun _ => 1)
      [.lSpawn 0, .lRegister 0, .sSnapshot 0, .sAcquire 0, .cancel 0, .sListenCancelled 0, .sRelease 0,
       .sFinish 0, .sCollect 0]
    (c.ss 0).results = [true] ∧ (c.ls 0).recvd = [] ∧ c.bus = [] := by decide

/-- A cancelled listen context stays cancelled under every move (so "not cancelled at the end of the
send" means "live for the whole send"). -/
theorem C10_cancelled_stable (c : Config) (m : Move) (l : Nat) :
    (c.ls l).cancelled = true → ((next c m).ls l).cancelled = true := by
  intro h
  unfold next
  cases m <;> simp only [step] <;> (repeat' split) <;>
    simp only [Option.getD_some, Option.getD_none, Config.setL, Config.setS, upd_apply] <;>
    (repeat' split) <;> simp_all

/-- `cancelled_stable` along a whole schedule -/
theorem C10_cancelled_stable_run (c : Config) (sched : List Move) (l : Nat) :
    (c.ls l).cancelled = true → ((run c sched).ls l).cancelled = true := by
  induction sched generalizing c with
  | nil => exact id
  | cons m ms ih => intro h; exact ih (next c m) (C10_cancelled_stable c m l h)

/-- Churn: a registered listener whose context is live is never dropped from `b.listeners`, whoever
collects and whenever (every schedule; `Bus.collect` of any sender may run while other Sends are in
flight).  So it is in the snapshot of every Send that starts later, and `C10_exactly_once` — which is
about the sender's snapshot and holds while other senders collect — applies to it. -/
theorem C10_live_listener_stays_registered (c : Config) (sched : List Move) (l : Nat) :
    l ∈ c.bus → ((run c sched).ls l).cancelled = false → l ∈ (run c sched).bus := by
  induction sched generalizing c with
  | nil => intro h _; exact h
  | cons m ms ih =>
    intro hb hfin
    have hnow : ((next c m).ls l).cancelled = false := by
      cases hc : ((next c m).ls l).cancelled with
      | false => rfl
      | true => rw [show run c (m :: ms) = run (next c m) ms from rfl,
                    C10_cancelled_stable_run (next c m) ms l hc] at hfin; cases hfin
    have hc0 : (c.ls l).cancelled = false := by
      cases hc : (c.ls l).cancelled with
      | false => rfl
      | true => rw [C10_cancelled_stable c m l hc] at hnow; cases hnow
    refine ih (next c m) ?_ hfin
    unfold next
    cases m <;> simp only [step] <;> (repeat' split) <;>
      simp only [Option.getD_some, Option.getD_none, Config.setL, Config.setS] <;>
      first
        | exact hb
        | (simp only [List.mem_append]; exact Or.inl hb)
        | (simp only [List.mem_filter]; exact ⟨hb, by simp [hc0]⟩)

/-- non-vacuity / churn example: sender 1 collects the cancelled listener 1 while sender 0's Send is in
flight; listener 0 (live) stays registered, receives sender 0's event once, and sender 0 — working on
its own snapshot, which still names listener 1 — completes. -/
example :
    let c := run (init fun _ => 1)
      [.lSpawn 0, .lRegister 0, .lSpawn 1, .lRegister 1, .sSnapshot 0, .sSnapshot 1, .cancel 1,
       .sAcquire 1, .recvReq 0, .sDeliver 1, .sRelease 1, .sAcquire 1, .sListenCancelled 1, .sRelease 1,
       .sFinish 1, .sCollect 1,
       .sAcquire 0, .recvReq 0, .sDeliver 0, .sRelease 0, .sAcquire 0, .sListenCancelled 0, .sRelease 0]
    c.bus = [0] ∧ (c.ss 0).snap = [0, 1] ∧ (c.ss 0).pc = .loop ∧ (c.ss 0).rest = [] ∧
      (c.ls 0).recvd = [⟨1, 1⟩, ⟨0, 1⟩] := by decide

/-- Per-sender order, on every listener, under every schedule: of two events received on one channel
from the same sender, the earlier received one comes from the earlier `Send` call (no duplicate, no
reordering). -/
theorem C10_per_sender_order (todo : Nat → Nat) (sched : List Move) (l : Nat) :
    ((run (init todo) sched).ls l).recvd.Pairwise (fun a b => a.sender = b.sender → a.seq < b.seq) :=
  (inv_reach todo sched).deliv.order l

/-- Nothing is received that was not sent: every received event carries the number of a `Send` call its
sender has actually started. -/
theorem C10_received_was_sent (todo : Nat → Nat) (sched : List Move) (l : Nat) (e : Ev) :
    e ∈ ((run (init todo) sched).ls l).recvd → 1 ≤ e.seq → e.seq ≤ ((run (init todo) sched).ss e.sender).cur :=
  fun h _ => (inv_reach todo sched).deliv.bound l e h

/-- `cancel l` is always enabled, changes nothing but `l`'s `cancelled` flag, and never disables a move
of anybody else: whatever was enabled before the cancel is enabled after it. -/
theorem C10_others_unaffected (c : Config) (l : Nat) :
    ∃ c', step c (.cancel l) = some c' ∧
      c'.ss = c.ss ∧ c'.bus = c.bus ∧ c'.panicked = c.panicked ∧
      (∀ l', l' ≠ l → c'.ls l' = c.ls l') ∧
      (c'.ls l).recvd = (c.ls l).recvd ∧ (c'.ls l).readers = (c.ls l).readers ∧
      (∀ m, (step c m).isSome → (step c' m).isSome) := by
  refine ⟨_, rfl, rfl, rfl, rfl, ?_, ?_, ?_, ?_⟩
  · intro l' h; simp [Config.setL, upd_apply, h]
  · simp [Config.setL]
  · simp [Config.setL]
  · intro m
    cases m <;> simp only [step, Config.setL, upd_apply] <;> (repeat' split) <;> simp_all <;> grind

/-- The writer is not held beyond the cancel: a sender blocked in the `select` of `listener.send` on
`l` (no receiver) has an enabled move as soon as `l` is cancelled, then releases the lock and moves on
to the rest of its snapshot. -/
theorem C10_cancel_unblocks_writer (c : Config) (t l : Nat) (tl : List Nat)
    (hpc : (c.ss t).pc = .rlocked) (hrest : (c.ss t).rest = l :: tl) :
    ∃ c2, step (next c (.cancel l)) (.sListenCancelled t) = some c2 ∧
      ∃ c3, step c2 (.sRelease t) = some c3 ∧ (c3.ss t).pc = .loop ∧ (c3.ss t).rest = tl := by
  simp [next, step, Config.setL, Config.setS, hrest, hpc]

/-- is `m` a step of listener `l`'s watcher goroutine? -/
def watcherMove (l : Nat) (m : Move) : Bool :=
  m = .wAwake l || m = .wLockReq l || m = .wLockAcq l || m = .wClose l || m = .wNil l || m = .wUnlock l

/-- After `cancel l`, in every reachable configuration, the goroutines that must finish for `l`'s channel
to be closed are never all blocked: while the watcher has not returned, either the watcher itself has an
enabled step, or it waits for the write lock and then a sender that still holds `l`'s read lock has one
(`listenCancelled` in its `select`, or its `RUnlock`) — and no new reader can get in (`wWait`). -/
theorem C10_cancel_releases (c : Config) (hc : Reachable c) (l : Nat)
    (hcan : (c.ls l).cancelled = true) (hw : (c.ls l).wpc ≠ .none) (hd : (c.ls l).wpc ≠ .done) :
    (∃ m, watcherMove l m = true ∧ (step c m).isSome) ∨
    ((c.ls l).wpc = .wait ∧ (c.ls l).wWait = true ∧
      ∃ t, t ∈ (c.ls l).readers ∧ ((step c (.sListenCancelled t)).isSome ∨ (step c (.sRelease t)).isSome)) := by
  have hI := hc.inv
  cases hpc : (c.ls l).wpc with
  | none => exact absurd hpc hw
  | done => exact absurd hpc hd
  | await => exact Or.inl ⟨.wAwake l, by simp [watcherMove], by simp [step, hpc, hcan]⟩
  | enter => exact Or.inl ⟨.wLockReq l, by simp [watcherMove], by simp [step, hpc]⟩
  | locked => exact Or.inl ⟨.wClose l, by simp [watcherMove], by simp only [step, hpc]; (repeat' split) <;> simp_all⟩
  | closing => exact Or.inl ⟨.wNil l, by simp [watcherMove], by simp [step, hpc]⟩
  | unlock => exact Or.inl ⟨.wUnlock l, by simp [watcherMove], by simp [step, hpc]⟩
  | wait =>
    cases hr : (c.ls l).readers with
    | nil => exact Or.inl ⟨.wLockAcq l, by simp [watcherMove], by simp [step, hpc, hr]⟩
    | cons t ts =>
      refine Or.inr ⟨rfl, by rw [hI.lock.wait l, hpc]; rfl, t, by simp, ?_⟩
      have hmem : t ∈ (c.ls l).readers := by rw [hr]; simp
      obtain ⟨hpcs, hhead⟩ := (hI.lock.readers t l).1 hmem
      cases hrest : (c.ss t).rest with
      | nil => rw [hrest] at hhead; cases hhead
      | cons l' tl =>
        have hl : l' = l := by rw [hrest] at hhead; simpa using hhead
        subst hl
        rcases hpcs with h | ⟨o, h⟩
        · exact Or.inl (by simp [step, hrest, h, hcan])
        · refine Or.inr ?_
          simp only [step, hrest, h]
          split <;> simp

/-- non-vacuity of `C10_cancel_releases`: the watcher waits for the write lock while a sender, parked
inside `listener.send`, still holds the read lock — the situation the K4 tie observes on the real code. -/
example :
    let c := run (init fun _ => 1)
      [.lSpawn 0, .lRegister 0, .sSnapshot 0, .sAcquire 0, .cancel 0, .wAwake 0, .wLockReq 0, .wLockAcq 0]
    (c.ls 0).cancelled = true ∧ (c.ls 0).wpc = .wait ∧ (c.ls 0).readers = [0] ∧
      (step c (.sListenCancelled 0)).isSome = true ∧ (step c (.wLockAcq 0)).isSome = false := by decide

/-- The waiting watcher cannot be starved: while it waits for the write lock (`wpc = wait`), no step of
anybody adds a reader to `l` (a queued `Lock` makes new `RLock` calls wait), so the set of readers it
waits for only shrinks; each of them has at most its `select` step and its `RUnlock` left (previous
theorem: both enabled once `l` is cancelled). -/
theorem C10_waiting_watcher_not_starved (c c' : Config) (hc : Reachable c) (m : Move) (l : Nat)
    (hw : (c.ls l).wpc = .wait) (hs : step c m = some c') :
    ∀ t, t ∈ (c'.ls l).readers → t ∈ (c.ls l).readers := by
  have hwait := hc.inv.lock.wait l
  rw [hw] at hwait
  cases m <;> simp only [step] at hs <;> (repeat' (split at hs)) <;>
    first
      | (cases hs; done)
      | (simp only [Option.some.injEq] at hs; subst hs; bus_auto)

/-- The watcher's own steps strictly decrease `wsteps`, and no step of anybody else (senders, consumers,
other listeners, cancels) changes it: the watcher terminates after at most six of its own steps. -/
theorem C10_watcher_terminates (c c' : Config) (m : Move) (l : Nat) (hs : step c m = some c')
    (hm : m ≠ .lSpawn l) :
    (watcherMove l m = true → wsteps (c'.ls l).wpc < wsteps (c.ls l).wpc) ∧
    (watcherMove l m = false → (c'.ls l).wpc = (c.ls l).wpc) := by
  cases m <;> simp only [step] at hs <;> (repeat' (split at hs)) <;>
    first
      | (cases hs; done)
      | (simp only [Option.some.injEq] at hs; subst hs
         simp only [watcherMove, Config.setL, Config.setS, upd_apply] at *
         (repeat' split) <;> simp_all [wsteps] <;> grind)

/-- the termination measure of `l`'s shutdown at bus level, ordered lexicographically: the watcher's
remaining steps, then (while it waits for the write lock) the steps its readers still need -/
def busMu (c : Config) (l : Nat) : Nat × Nat :=
  (wsteps (c.ls l).wpc, if (c.ls l).wpc = .wait then rsum c l else 0)

/-- Termination at bus level is a theorem, not only progress: under EVERY step of anybody (other than
the `Listen` call that creates the watcher) the measure `busMu · l` does not increase in the
lexicographic order; every step of `l`'s watcher strictly decreases its first component; and while the
watcher waits, every step of a sender holding `l`'s read lock (`select` outcome or `RUnlock`) strictly
decreases the second.  With `C10_cancel_releases` (one of those steps is always enabled after the cancel)
and well-foundedness of the order, every fair schedule brings the watcher to `done`, i.e. the channel
is closed (`C10_done_closed`). -/
theorem C10_cancel_terminates_bus (c c' : Config) (hc : Reachable c) (m : Move) (l : Nat)
    (hs : step c m = some c') (hm : m ≠ .lSpawn l) :
    ((busMu c' l).1 < (busMu c l).1 ∨ ((busMu c' l).1 = (busMu c l).1 ∧ (busMu c' l).2 ≤ (busMu c l).2)) ∧
    (watcherMove l m = true → (busMu c' l).1 < (busMu c l).1) ∧
    (∀ t, (c.ls l).wpc = .wait → t ∈ (c.ls l).readers → readerMove t m = true →
        (busMu c' l).1 = (busMu c l).1 ∧ (busMu c' l).2 < (busMu c l).2) := by
  have hW := C10_watcher_terminates c c' m l hs hm
  have hI := hc.inv.lock
  cases hwm : watcherMove l m with
  | true =>
    have := hW.1 hwm
    refine ⟨Or.inl this, fun _ => this, ?_⟩
    intro t _ _ hr
    exfalso
    cases m <;> simp [watcherMove, readerMove] at hwm hr
  | false =>
    have hpc := hW.2 hwm
    refine ⟨Or.inr ⟨by simp [busMu, hpc], ?_⟩, fun h => by simp at h, ?_⟩
    · simp only [busMu, hpc]
      split
      · rename_i hw; exact rsum_step_le hI hw hs
      · exact Nat.le_refl _
    · intro t hw ht hr
      refine ⟨by simp [busMu, hpc], ?_⟩
      simp only [busMu, hpc, hw, if_true]
      exact rsum_step_lt hI ht hr hs

/-- the lexicographic order on `Nat × Nat` used above is well founded: no infinite descent -/
theorem C10_busMu_order_wf : WellFounded (Prod.Lex (· < ·) (· < ·) : Nat × Nat → Nat × Nat → Prop) :=
  (Prod.lex ⟨_, Nat.lt_wfRel.wf⟩ ⟨_, Nat.lt_wfRel.wf⟩).wf

/-- …and when it has returned, the channel is closed and nil, under every schedule. -/
theorem C10_done_closed (c : Config) (hc : Reachable c) (l : Nat) (hd : (c.ls l).wpc = .done) :
    (c.ls l).closed = true ∧ (c.ls l).isNil = true ∧ (c.ls l).wHeld = false := by
  have hI := hc.inv.lock
  refine ⟨?_, ?_, ?_⟩
  · rw [hI.closed l, hd]; rfl
  · rw [hI.nil l, hd]; rfl
  · rw [hI.held l, hd]; rfl

/-- A `Send` without a deadline is never abandoned.  `Collection.Update` and `Collection.Delete` publish with
`context.TODO()`: no `cancelSend t` ever happens for such a sender `t`.  Then, under every schedule (any number of
listeners, stalled, cancelled or receiving; other senders with deadlines), `t` never takes the `<-ctx.Done()` case
of `listener.send`, and every call it has finished returned `true` — it went through its WHOLE snapshot, so by
`C10_exactly_once` every listener live for the whole send got the event, also the ones registered behind a
listener that stalled for however long. -/
theorem C10_send_without_deadline_never_abandons (todo : Nat → Nat) (sched : List Move) (t : Nat)
    (h : ∀ m ∈ sched, m ≠ .cancelSend t) :
    let c := run (init todo) sched
    (c.ss t).pc ≠ .selected .sendCancelled ∧ (∀ r ∈ (c.ss t).results, r = true) :=
  (noAbandon_run (init todo) sched t h (noAbandon_init todo t)).2

/-- … and it waits for as long as it takes: parked in `listener.send` on a listener that neither receives nor is
cancelled, a sender whose own context is live has no enabled step (it resumes with the receive or the cancel). -/
theorem C10_send_without_deadline_waits (c : Config) (t l : Nat) (tl : List Nat)
    (hpc : (c.ss t).pc = .rlocked) (hrest : (c.ss t).rest = l :: tl) (hctx : (c.ss t).ctxDone = false)
    (hlive : (c.ls l).cancelled = false) (hidle : (c.ls l).rcvReady = false) :
    step c (.sDeliver t) = none ∧ step c (.sListenCancelled t) = none ∧ step c (.sSendCancelled t) = none ∧
    step c (.sRelease t) = none ∧ step c (.sFinish t) = none ∧ step c (.sAcquire t) = none := by
  simp [step, hpc, hrest, hctx, hlive, hidle]

/-- Why the hypothesis matters (and what a deadline on a collection write would do): a `Send` whose context ends
while it is parked on the stalled listener 0 returns `false` and SKIPS listener 1 behind it, which is live, has
posted a receive, and never gets the event — for a REMOVE, a single-item subscription that does not end. -/
theorem C10_send_deadline_skips_listeners_behind :
    ∃ sched : List Move,
      let c := run (init fun _ => 1) sched
      (c.ss 0).results = [false] ∧ (c.ss 0).pc = .idle ∧ (c.ss 0).snap = [0, 1] ∧
      (c.ls 1).cancelled = false ∧ (c.ls 1).rcvReady = true ∧ (c.ls 1).recvd = [] :=
  ⟨[.lSpawn 0, .lRegister 0, .lSpawn 1, .lRegister 1, .recvReq 1, .sSnapshot 0, .sAcquire 0, .cancelSend 0,
    .sSendCancelled 0, .sRelease 0], by decide⟩

/-- non-vacuity of `C10_send_without_deadline_waits`, reached by a schedule -/
example :
    let c := run (init fun _ => 1) [.lSpawn 0, .lRegister 0, .sSnapshot 0, .sAcquire 0]
    (c.ss 0).pc = .rlocked ∧ (c.ss 0).rest = [0] ∧ (c.ss 0).ctxDone = false ∧ (c.ls 0).cancelled = false ∧
      (c.ls 0).rcvReady = false := by decide

end ScVerif.C10
