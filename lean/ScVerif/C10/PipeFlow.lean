import ScVerif.C10.SysRefine
/-!
C10 — what flows through a subscription's pipeline (helper lemmas for the delivery theorems of `PropsFlow.lean`).

* `flow`: everything the subscription holds or has handed to the user, oldest first.  Every pipeline step keeps
  `flow` a SUBSEQUENCE (modulo the change type, which `mergeChanges` rewrites) of `flow ++ what was pushed`: stages
  drop (lossy stage, filter, PullID's other items, exits) and merge, they never duplicate, reorder or invent.
* a backpressure PullID with a pass-all filter: as long as the forwarder and the PullID goroutine are alive,
  `out ++ pidQ ++ (fwQ restricted to the item)` is EXACTLY the history restricted to the item.
-/
namespace ScVerif.C10

/-- what identifies an event for its writer: the item and the written value (the change type is rewritten by
`mergeChanges`) -/
def Msg.key (m : Msg) : Nat × Nat := (m.id, m.tag)

/-- everything inside the subscription, oldest first: received by the user, held by the PullID stage, by the
forwarder (initially: the seed values), by the excess stage -/
def PConfig.flow (c : PConfig) : List Msg :=
  c.out ++ ((if c.hasPid then c.pidQ else []) ++ (c.fwQ ++ (if c.hasEx then c.exQ else [])))

theorem mergeQ_sub (q : List Msg) (m : Msg) : ((mergeQ q m).map Msg.key).Sublist ((q ++ [m]).map Msg.key) := by
  unfold mergeQ
  split
  · exact List.Sublist.refl _
  · split
    · exact ((List.filter_sublist).trans (List.sublist_append_left _ _)).map _
    · rename_i k _
      have h1 : ((q.filter fun (x : Msg) => x.id ≠ m.id) ++ [{ m with kind := k }]).map Msg.key =
          ((q.filter fun (x : Msg) => x.id ≠ m.id) ++ [m]).map Msg.key := by simp [Msg.key]
      rw [h1]
      exact (List.Sublist.append (List.filter_sublist) (List.Sublist.refl _)).map _

theorem sub_mid {α} {a b c b' : List α} (h : b'.Sublist b) : (a ++ (b' ++ c)).Sublist (a ++ (b ++ c)) :=
  List.Sublist.append (List.Sublist.refl _) (List.Sublist.append h (List.Sublist.refl _))

/-- one step: nothing duplicated, reordered or invented -/
theorem flow_step {c c' : PConfig} {m : PMove} (hs : pstep c m = some c') :
    c'.hasPid = c.hasPid ∧ c'.hasEx = c.hasEx ∧
    (c'.flow.map Msg.key).Sublist ((c.flow ++ pushesOf [m]).map Msg.key) := by
  cases m with
  | push x =>
    simp only [pstep] at hs
    (repeat' (split at hs)) <;>
      first
        | (cases hs; done)
        | (simp only [Option.some.injEq] at hs; subst hs
           simp only [exRecv, fwRecv, PConfig.flow, pushesOf]
           (repeat' split) <;> simp_all [List.map_append] <;>
             (simpa [List.map_append] using mergeQ_sub c.exQ x))
  | _ =>
    simp only [pstep] at hs
    (repeat' (split at hs)) <;>
      first
        | (cases hs; done)
        | (simp only [Option.some.injEq] at hs; subst hs
           simp only [fwRecv, pidRecv, PConfig.flow, pushesOf]
           (repeat' split) <;> simp_all [List.map_append])

/-- every strict execution: nothing duplicated, reordered or invented -/
theorem flow_pexec {p c : PConfig} {ps : List PMove} (h : pexec p ps = some c) :
    (c.flow.map Msg.key).Sublist ((p.flow ++ pushesOf ps).map Msg.key) := by
  induction ps generalizing p with
  | nil => simp only [pexec, Option.some.injEq] at h; subst h; simp [pushesOf]
  | cons m ms ih =>
    simp only [pexec] at h
    cases hs : pstep p m with
    | none => simp [hs] at h
    | some p1 =>
      simp [hs] at h
      have h1 := (flow_step hs).2.2
      have h2 := ih h
      have hpush : pushesOf (m :: ms) = pushesOf [m] ++ pushesOf ms := pushesOf_append [m] ms
      rw [hpush, ← List.append_assoc]
      refine h2.trans ?_
      rw [List.map_append, List.map_append (l₁ := p.flow ++ pushesOf [m])]
      exact List.Sublist.append h1 (List.Sublist.refl _)

/-! ### a backpressure PullID hands over exactly the history of its item -/

/-- the events about item `t` -/
def onItem (t : Nat) (l : List Msg) : List Msg := l.filter fun x => x.id = t

theorem onItem_append (t : Nat) (a b : List Msg) : onItem t (a ++ b) = onItem t a ++ onItem t b := by
  simp [onItem]

/-- `H` = the seed values followed by everything pushed so far -/
structure PidInv (c : PConfig) (H : List Msg) : Prop where
  exact : c.fwDone = false → c.pidDone = false → c.out ++ (c.pidQ ++ onItem c.target c.fwQ) = onItem c.target H
  pre : ∃ t, c.out ++ (c.pidQ ++ t) = onItem c.target H
  live : ∀ x, x ∈ c.out ++ c.pidQ → x.remove = false

theorem pidInv_step {c c' : PConfig} {m : PMove} {H : List Msg} (hex : c.hasEx = false) (hpid : c.hasPid = true)
    (hk : ∀ x, c.keep x = true) (hI : PidInv c H) (hs : pstep c m = some c') :
    c'.hasEx = false ∧ c'.hasPid = true ∧ c'.keep = c.keep ∧ c'.target = c.target ∧
    PidInv c' (H ++ pushesOf [m]) := by
  obtain ⟨h1, ⟨t, h2⟩, h3⟩ := hI
  cases m with
  | push x =>
    simp only [pstep, hex] at hs
    split at hs
    · cases hs
    · simp only [Bool.false_eq_true, if_false] at hs
      split at hs
      · rename_i hg
        simp only [Option.some.injEq, fwRecv, hk, if_true] at hs; subst hs
        refine ⟨hex, hpid, rfl, rfl, ?_, ⟨t ++ onItem c.target [x], ?_⟩, h3⟩
        · intro _ hp
          have e := h1 hg.1 hp
          rw [hg.2] at e
          have e0 : onItem c.target ([] : List Msg) = [] := rfl
          rw [e0, List.append_nil] at e
          simp only [pushesOf, onItem_append]
          rw [← e]; simp [List.append_assoc]
        · simp only [pushesOf, onItem_append]
          rw [← h2]; simp [List.append_assoc]
      · cases hs
  | consume =>
    simp only [pstep, hpid, if_true] at hs
    split at hs
    · rename_i x r hq
      split at hs
      · cases hs
      · rename_i hd
        simp only [Option.some.injEq] at hs; subst hs
        refine ⟨hex, rfl, rfl, rfl, ?_, ⟨t, ?_⟩, ?_⟩
        · intro hf _
          have := h1 hf (by simpa using hd)
          simpa [hq, pushesOf, List.append_assoc] using this
        · simpa [hq, pushesOf, List.append_assoc] using h2
        · intro y hy; apply h3; rw [hq]
          simp only [List.mem_append, List.mem_cons, List.not_mem_nil, or_false] at hy ⊢
          rcases hy with (h | h) | h
          · exact Or.inl h
          · exact Or.inr (Or.inl h)
          · exact Or.inr (Or.inr h)
    · cases hs
  | cancel =>
    simp only [pstep, Option.some.injEq] at hs; subst hs
    exact ⟨hex, hpid, rfl, rfl, by simpa [pushesOf] using h1, ⟨t, by simpa [pushesOf] using h2⟩, h3⟩
  | closeIn =>
    simp only [pstep] at hs
    split at hs
    · simp only [Option.some.injEq] at hs; subst hs
      exact ⟨hex, hpid, rfl, rfl, by simpa [pushesOf] using h1, ⟨t, by simpa [pushesOf] using h2⟩, h3⟩
    · cases hs
  | xferEF =>
    simp only [pstep] at hs
    split at hs
    · split at hs
      · rename_i hg; rw [hex] at hg; simp at hg
      · cases hs
    · cases hs
  | xferFP =>
    simp only [pstep] at hs
    split at hs
    · rename_i x r hq
      split at hs
      · rename_i hg
        obtain ⟨_, g2, g3, g4⟩ := hg
        have e1 := h1 g2 g3
        simp only [g4, List.nil_append, hq] at e1
        simp only [Option.some.injEq, pidRecv] at hs
        by_cases hid : x.id ≠ c.target
        · simp [hid] at hs; subst hs
          refine ⟨hex, hpid, rfl, rfl, ?_, ⟨t, by simpa [pushesOf] using h2⟩, h3⟩
          intro _ _
          have hx : onItem c.target (x :: r) = onItem c.target r := by simp [onItem, hid]
          simpa [pushesOf, g4, hx] using e1
        · have hid' : x.id = c.target := by simpa using hid
          simp [hid'] at hs
          have hx : onItem c.target (x :: r) = x :: onItem c.target r := by simp [onItem, hid']
          cases hrm : x.remove with
          | true =>
            simp [hrm] at hs; subst hs
            exact ⟨hex, hpid, rfl, rfl, by simp, ⟨t, by simpa [pushesOf] using h2⟩, h3⟩
          | false =>
            simp [hrm] at hs; subst hs
            refine ⟨hex, hpid, rfl, rfl, ?_, ⟨onItem c.target r, ?_⟩, ?_⟩
            · intro _ _; simpa [pushesOf, hx] using e1
            · simpa [pushesOf, hx] using e1
            · intro y hy
              simp only [List.mem_append, List.mem_singleton] at hy
              rcases hy with hy | hy
              · exact h3 y (by simp [hy])
              · subst hy; exact hrm
      · cases hs
    · cases hs
  | exExit =>
    simp only [pstep] at hs
    split at hs
    · rename_i hg; rw [hex] at hg; simp at hg
    · cases hs
  | fwExitIn =>
    simp only [pstep] at hs
    split at hs
    · simp only [Option.some.injEq] at hs; subst hs
      exact ⟨hex, hpid, rfl, rfl, by simp, ⟨t, by simpa [pushesOf] using h2⟩, h3⟩
    · cases hs
  | fwExitCtx =>
    simp only [pstep] at hs
    split at hs
    · simp only [Option.some.injEq] at hs; subst hs
      exact ⟨hex, hpid, rfl, rfl, by simp, ⟨t, by simpa [pushesOf] using h2⟩, h3⟩
    · cases hs
  | pidExitIn =>
    simp only [pstep] at hs
    split at hs
    · simp only [Option.some.injEq] at hs; subst hs
      exact ⟨hex, hpid, rfl, rfl, by simp, ⟨t, by simpa [pushesOf] using h2⟩, h3⟩
    · cases hs
  | pidExitCtx =>
    simp only [pstep] at hs
    split at hs
    · simp only [Option.some.injEq] at hs; subst hs
      refine ⟨hex, hpid, rfl, rfl, by simp, ⟨c.pidQ ++ t, by simpa [pushesOf] using h2⟩, ?_⟩
      intro y hy; exact h3 y (by simp at hy; simp [hy])
    · cases hs

theorem pidInv_pexec {p c : PConfig} {ps : List PMove} {H : List Msg} (hex : p.hasEx = false) (hpid : p.hasPid = true)
    (hk : ∀ x, p.keep x = true) (hI : PidInv p H) (h : pexec p ps = some c) :
    c.target = p.target ∧ PidInv c (H ++ pushesOf ps) := by
  induction ps generalizing p H with
  | nil => simp only [pexec, Option.some.injEq] at h; subst h; exact ⟨rfl, by simpa [pushesOf] using hI⟩
  | cons m ms ih =>
    simp only [pexec] at h
    cases hs : pstep p m with
    | none => simp [hs] at h
    | some p1 =>
      simp [hs] at h
      obtain ⟨a1, a2, a3, a4, a5⟩ := pidInv_step hex hpid hk hI hs
      obtain ⟨b1, b2⟩ := ih a1 a2 (by rw [a3]; exact hk) a5 h
      have hpush : pushesOf (m :: ms) = pushesOf [m] ++ pushesOf ms := pushesOf_append [m] ms
      exact ⟨by rw [b1, a4], by rw [hpush, ← List.append_assoc]; exact b2⟩

/-- a prefix all of whose elements satisfy `p` is a prefix of the `takeWhile p` part -/
theorem prefix_takeWhile {α} (p : α → Bool) : ∀ (l F : List α), l <+: F → (∀ x, x ∈ l → p x = true) → l <+: F.takeWhile p
  | [], _, _, _ => List.nil_prefix
  | a :: l, [], h, _ => by simp at h
  | a :: l, b :: F, h, hp => by
    rw [List.cons_prefix_cons] at h
    obtain ⟨rfl, h⟩ := h
    have ha : p a = true := hp a (by simp)
    rw [List.takeWhile_cons_of_pos ha, List.cons_prefix_cons]
    exact ⟨rfl, prefix_takeWhile p l F h (fun x hx => hp x (by simp [hx]))⟩

theorem pstep_fixed {p p1 : PConfig} {m : PMove} (hs : pstep p m = some p1) : p1.fixed = p.fixed := by
  cases m <;> simp only [pstep] at hs <;> (repeat' (split at hs)) <;>
    first
      | (cases hs; done)
      | (simp only [Option.some.injEq] at hs; subst hs; simp only [fwRecv, exRecv, pidRecv]
         try ((repeat' split) <;> rfl))

theorem pexec_fixed {p c : PConfig} {ps : List PMove} (h : pexec p ps = some c) : c.fixed = p.fixed := by
  induction ps generalizing p with
  | nil => simp only [pexec, Option.some.injEq] at h; rw [h]
  | cons m ms ih =>
    simp only [pexec] at h
    cases hs : pstep p m with
    | none => simp [hs] at h
    | some p1 => simp [hs] at h; rw [ih h, pstep_fixed hs]

theorem count_map_inj {α β} [DecidableEq α] [DecidableEq β] (f : α → β) (hf : ∀ x y, f x = f y → x = y) (a : α) :
    ∀ l : List α, (l.map f).count (f a) = l.count a
  | [] => rfl
  | b :: l => by
    simp only [List.map_cons, List.count_cons, count_map_inj f hf a l]
    by_cases h : b = a
    · subst h; simp
    · have : f b ≠ f a := fun e => h (hf _ _ e)
      simp [h, this]

theorem count_onItem (t : Nat) (m : Msg) (hm : m.id = t) (l : List Msg) : (onItem t l).count m = l.count m := by
  induction l with
  | nil => rfl
  | cons b l ih =>
    by_cases hb : b.id = t
    · have : onItem t (b :: l) = b :: onItem t l := by simp [onItem, hb]
      rw [this, List.count_cons, List.count_cons, ih]
    · have : onItem t (b :: l) = onItem t l := by simp [onItem, hb]
      have hne : b ≠ m := fun e => hb (by rw [e, hm])
      rw [this, ih, List.count_cons]; simp [hne]

end ScVerif.C10
