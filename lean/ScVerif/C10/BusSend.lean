import ScVerif.C10.Bus
/-!
C10 — a `Send` whose context never ends (`Collection.Update` / `Collection.Delete` publish with `context.TODO()`):
it is never abandoned half way through its snapshot.  Lemmas for `PropsBus`.
-/
namespace ScVerif.C10

/-- sender `t` has never given up a call: its send context is live, it is not past the `<-ctx.Done()` case of
`listener.send`, and every call it finished returned `true` -/
def NoAbandon (S : Sender) : Prop :=
  S.ctxDone = false ∧ S.pc ≠ .selected .sendCancelled ∧ ∀ r ∈ S.results, r = true

theorem noAbandon_init (todo : Nat → Nat) (t : Nat) : NoAbandon ((init todo).ss t) := by
  simp [NoAbandon, init]

theorem noAbandon_next (c : Config) (m : Move) (t : Nat) (hm : m ≠ .cancelSend t) :
    NoAbandon (c.ss t) → NoAbandon ((next c m).ss t) := by
  intro h
  obtain ⟨h1, h2, h3⟩ := h
  unfold next
  cases m <;> simp only [step] <;> (repeat' split) <;>
    simp only [Option.getD_some, Option.getD_none, Config.setL, Config.setS, upd_apply, NoAbandon] <;>
    (try split) <;> simp_all

theorem noAbandon_run (c : Config) (sched : List Move) (t : Nat) (hs : ∀ m ∈ sched, m ≠ .cancelSend t) :
    NoAbandon (c.ss t) → NoAbandon ((run c sched).ss t) := by
  induction sched generalizing c with
  | nil => exact id
  | cons m ms ih =>
    intro h
    exact ih (next c m) (fun x hx => hs x (List.mem_cons_of_mem _ hx))
      (noAbandon_next c m t (hs m List.mem_cons_self) h)

end ScVerif.C10
