import ScVerif.C10.BusDeliv
/-! All invariants together, for every schedule (helper lemmas for the C10 property theorems). -/
namespace ScVerif.C10

structure Inv (c : Config) : Prop where
  lock : LockInv c
  struct : StructInv c
  deliv : DelivInv c

theorem inv_init (todo : Nat → Nat) : Inv (init todo) :=
  ⟨lockInv_init todo, structInv_init todo, delivInv_init todo⟩

theorem inv_step {c c' : Config} {m : Move} (h : Inv c) (hs : step c m = some c') : Inv c' :=
  ⟨lockInv_step h.lock hs, structInv_step h.struct hs, delivInv_step h.lock h.struct h.deliv hs⟩

theorem inv_next {c : Config} (m : Move) (h : Inv c) : Inv (next c m) := by
  unfold next
  cases hs : step c m with
  | none => simpa using h
  | some c' => simpa using inv_step h hs

theorem inv_run {c : Config} (sched : List Move) (h : Inv c) : Inv (run c sched) := by
  induction sched generalizing c with
  | nil => exact h
  | cons m ms ih => exact ih (inv_next m h)

/-- every configuration reachable under any schedule satisfies all invariants -/
theorem inv_reach (todo : Nat → Nat) (sched : List Move) : Inv (run (init todo) sched) :=
  inv_run sched (inv_init todo)

/-- `c` is the result of running some schedule from some initial configuration -/
def Reachable (c : Config) : Prop := ∃ todo sched, c = run (init todo) sched

theorem Reachable.inv {c : Config} (h : Reachable c) : Inv c := by
  obtain ⟨todo, sched, rfl⟩ := h
  exact inv_reach todo sched

theorem Reachable.run {c : Config} (h : Reachable c) (sched : List Move) : Reachable (run c sched) := by
  obtain ⟨todo, s0, rfl⟩ := h
  exact ⟨todo, s0 ++ sched, (run_append _ _ _).symm⟩

/-- an `OrdRel`-pairwise list contains each event at most once -/
theorem count_le_one_of_pairwise (xs : List Ev) (h : xs.Pairwise OrdRel) (e : Ev) : xs.count e ≤ 1 := by
  induction xs with
  | nil => simp
  | cons a as ih =>
    rw [List.pairwise_cons] at h
    have ih' := ih h.2
    by_cases hae : a = e
    · subst hae
      have : as.count a = 0 := by
        rw [List.count_eq_zero]
        intro hmem
        have := h.1 a hmem rfl
        omega
      simp [this]
    · simp [hae]; exact ih'

end ScVerif.C10
