import ScVerif.Base.Line
import ScVerif.C10.Window
import ScVerif.C10.DrvLate
/-!
Driver glue for the seed-and-register window (`Window.lean`): an acceptor for the harness's park=listen scenarios.

`window <locked> <uo> <bp> <pre> <observed>`: a synchronous single-item subscription on an existing item has taken its
snapshot and not yet registered its listener; the scenario's writes (`pre` updates of the item, then its delete) are
started NOW.  `through` = the first write is enabled in that state; if so the harness lets all the writes finish inside
the window before the subscription goes on (the model applies them right away), otherwise they stay pending and are
interleaved with everything else.  The driver explores every interleaving from there (registration, the call's
return, the pending writes, the pipeline's goroutines, an always-receiving subscriber), collects the outcomes of the
quiescent end states (`through=<b>,closed=<the subscriber's channel is closed>,n=<changes received>`) and answers
`ok <observed>` if the observation is among them, else `no <outcome1>|<outcome2>|…`.  Nothing here is proved about.
-/
namespace ScVerif.C10

open ScVerif.Line

structure WNode where
  w : WConfig
  todo : List LMove

def WNode.key (n : WNode) : String :=
  LNode.key ⟨n.w.l, n.todo⟩ ++ s!"|{n.w.snapped.isSome}{n.w.shown}"

def WNode.succs (n : WNode) : List WNode :=
  let own := ([WMove.reg, WMove.mv .ret] ++ latePipeMoves.map fun m => WMove.mv (.pipe m)).filterMap fun m =>
    (wstep n.w m).map fun w' => { n with w := w' }
  let wr := match n.todo with
    | x :: r => (match wstep n.w (.mv x) with | some w' => [{ w := w', todo := r }] | none => [])
    | [] => []
  own ++ wr

def windowOutcome (through : Bool) (n : WNode) : String :=
  let base := s!"through={through},closed={n.w.l.p.outClosed},n={n.w.l.p.out.length}"
  if n.todo.isEmpty then base else base ++ ",writer-blocked"

def windowExplore (through : Bool) : Nat → List WNode → List String → List String → List String
  | 0, _, _, finals => finals ++ ["!fuel"]
  | _, [], _, finals => finals
  | fuel + 1, n :: rest, seen, finals =>
    let k := n.key
    if seen.contains k then windowExplore through fuel rest seen finals
    else
      let ss := n.succs
      if ss.isEmpty then
        let o := windowOutcome through n
        windowExplore through fuel rest (k :: seen) (if finals.contains o then finals else finals ++ [o])
      else windowExplore through fuel (ss ++ rest) (k :: seen) finals

def handleWindow (toks : List String) : String :=
  match toks with
  | [locked, uo, bp, pre, observed] =>
    match parseBool? locked, parseBool? uo, parseBool? bp, parseNat? pre with
    | some locked, some uo, some bp, some pre =>
      if pre > 8 then "!bad-op" else
      let p : PConfig := { hasEx := !bp, exMerge := true, hasPid := true, target := 7, fixed := true, keep := fun _ => true }
      let ws := ((List.range pre).map fun i => LMove.upd (i + 1)) ++ [LMove.del]
      let w0 := wnext (winit locked true uo p) .snap
      let through := (wstep w0 (.mv (ws.headD .del))).isSome
      let start : WNode :=
        if through then { w := ws.foldl (fun w m => wnext w (.mv m)) w0, todo := [] } else { w := w0, todo := ws }
      let outs := windowExplore through 20000 [start] [] []
      if outs.contains observed then "ok " ++ observed else "no " ++ "|".intercalate outs
    | _, _, _, _ => "!bad-op"
  | _ => "!bad-op"

end ScVerif.C10
