import ScVerif.C10.BusReach
/-! Termination measure of one listener's shutdown at bus level (helper lemmas for the C10 property theorems). -/
namespace ScVerif.C10

/-- remaining steps of the goroutine `go func(){ <-ctx.Done(); l.stop() }` -/
def wsteps : WPc → Nat
  | .none => 7 | .await => 6 | .enter => 5 | .wait => 4 | .locked => 3 | .closing => 2 | .unlock => 1 | .done => 0

/-- steps a sender that holds a read lock still needs before it has released it: `select`, `RUnlock` -/
def left (s : Sender) : Nat := match s.pc with | .rlocked => 2 | _ => 1

theorem left_pos (s : Sender) : 0 < left s := by unfold left; split <;> omega

/-- total number of steps the readers of `l` need before `l.m` is free -/
def rsum (c : Config) (l : Nat) : Nat := ((c.ls l).readers.map fun t => left (c.ss t)).sum

theorem sum_map_le {xs : List Nat} {f g : Nat → Nat} (h : ∀ x, x ∈ xs → g x ≤ f x) :
    (xs.map g).sum ≤ (xs.map f).sum := by
  induction xs with
  | nil => simp
  | cons a as ih =>
    simp only [List.map_cons, List.sum_cons]
    have := h a (by simp)
    have := ih (fun x hx => h x (by simp [hx]))
    omega

theorem sum_map_filter_le (xs : List Nat) (f : Nat → Nat) (p : Nat → Bool) :
    ((xs.filter p).map f).sum ≤ (xs.map f).sum := by
  induction xs with
  | nil => simp
  | cons a as ih =>
    simp only [List.filter_cons]
    split <;> simp only [List.map_cons, List.sum_cons] <;> omega

theorem sum_map_lt {xs : List Nat} {f g : Nat → Nat} {t : Nat} (ht : t ∈ xs) (hlt : g t < f t)
    (h : ∀ x, x ∈ xs → g x ≤ f x) : (xs.map g).sum < (xs.map f).sum := by
  induction xs with
  | nil => cases ht
  | cons a as ih =>
    simp only [List.map_cons, List.sum_cons]
    have hle := sum_map_le (xs := as) (f := f) (g := g) (fun x hx => h x (by simp [hx]))
    have ha := h a (by simp)
    rcases List.mem_cons.mp ht with rfl | hmem
    · omega
    · have := ih hmem (fun x hx => h x (by simp [hx]))
      omega

theorem sum_map_filter_ne_lt {xs : List Nat} {f : Nat → Nat} {t : Nat} (ht : t ∈ xs) (hpos : 0 < f t) :
    ((xs.filter (· ≠ t)).map f).sum < (xs.map f).sum := by
  induction xs with
  | nil => cases ht
  | cons a as ih =>
    have hle := sum_map_filter_le as f (· ≠ t)
    simp only [ne_eq] at hle ih ⊢
    by_cases hat : a = t
    · subst hat
      simp only [List.filter_cons, not_true_eq_false, decide_false, Bool.false_eq_true, ↓reduceIte,
        List.map_cons, List.sum_cons]
      omega
    · have hmem : t ∈ as := by
        rcases List.mem_cons.mp ht with h | h
        · exact absurd h.symm hat
        · exact h
      have := ih hmem
      simp only [List.filter_cons, hat, not_false_eq_true, decide_true, ↓reduceIte, List.map_cons,
        List.sum_cons]
      omega

/-- `rsum` does not grow when the reader list stays or is filtered and no remaining reader's need grows -/
theorem rsum_le {c c' : Config} {l : Nat}
    (hr : (c'.ls l).readers = (c.ls l).readers ∨ ∃ p : Nat → Bool, (c'.ls l).readers = (c.ls l).readers.filter p)
    (hl : ∀ t, t ∈ (c'.ls l).readers → left (c'.ss t) ≤ left (c.ss t)) : rsum c' l ≤ rsum c l := by
  unfold rsum
  have h1 := sum_map_le (xs := (c'.ls l).readers) (f := fun t => left (c.ss t)) (g := fun t => left (c'.ss t)) hl
  rcases hr with hr | ⟨p, hr⟩
  · rw [hr] at h1 ⊢; exact h1
  · have h2 := sum_map_filter_le (c.ls l).readers (fun t => left (c.ss t)) p
    rw [hr] at h1 ⊢
    omega

macro "ms_auto" : tactic =>
  `(tactic| (intros; (try simp only [Config.setL, Config.setS, upd_apply, Holding] at *); grind [left]))

/-- While the watcher of `l` waits for the write lock, no step of anybody increases `rsum · l`. -/
theorem rsum_step_le {c c' : Config} {m : Move} {l : Nat} (hI : LockInv c) (hw : (c.ls l).wpc = .wait)
    (hs : step c m = some c') : rsum c' l ≤ rsum c l := by
  have hwait := hI.wait l
  rw [hw] at hwait
  have hr := hI.readers
  cases m
  all_goals
    simp only [step] at hs <;> (repeat' (split at hs)) <;>
    first
      | (cases hs; done)
      | (simp only [Option.some.injEq] at hs; subst hs
         first
           | (refine rsum_le (Or.inl ?_) ?_ <;> ms_auto)
           | (refine rsum_le (Or.inr ⟨_, rfl⟩) ?_ <;> ms_auto)
           | (refine rsum_le ?_ ?_ <;> ms_auto))

theorem rsum_lt_select {c c' : Config} {l t : Nat} (hr : (c'.ls l).readers = (c.ls l).readers)
    (ht : t ∈ (c.ls l).readers) (hlt : left (c'.ss t) < left (c.ss t))
    (hl : ∀ x, x ∈ (c.ls l).readers → left (c'.ss x) ≤ left (c.ss x)) : rsum c' l < rsum c l := by
  unfold rsum; rw [hr]; exact sum_map_lt ht hlt hl

theorem rsum_lt_release {c c' : Config} {l t : Nat}
    (hr : (c'.ls l).readers = (c.ls l).readers.filter (· ≠ t)) (ht : t ∈ (c.ls l).readers)
    (hs : ∀ x, x ≠ t → c'.ss x = c.ss x) : rsum c' l < rsum c l := by
  unfold rsum; rw [hr]
  have h1 : ((c.ls l).readers.filter (· ≠ t)).map (fun x => left (c'.ss x)) =
      ((c.ls l).readers.filter (· ≠ t)).map (fun x => left (c.ss x)) := by
    apply List.map_congr_left
    intro x hx
    have : x ≠ t := by simpa using (List.mem_filter.mp hx).2
    rw [hs x this]
  rw [h1]
  exact sum_map_filter_ne_lt ht (left_pos _)

/-- is `m` a step of sender `t` inside `listener.send` (after `RLock`): its `select` or its `RUnlock` -/
def readerMove (t : Nat) (m : Move) : Bool :=
  m = .sDeliver t || m = .sListenCancelled t || m = .sSendCancelled t || m = .sRelease t

/-- a `select` outcome: the sender's record changes only in `pc : rlocked ↦ selected o` -/
theorem rsum_lt_of_select {c c' : Config} {l t : Nat} {o : Sel} (ht : t ∈ (c.ls l).readers)
    (hpc : (c.ss t).pc = .rlocked) (hr : (c'.ls l).readers = (c.ls l).readers)
    (ht' : (c'.ss t).pc = .selected o) (hs : ∀ x, x ≠ t → c'.ss x = c.ss x) : rsum c' l < rsum c l := by
  refine rsum_lt_select hr ht ?_ ?_
  · simp [left, hpc, ht']
  · intro x _
    by_cases hx : x = t
    · subst hx; simp [left, hpc, ht']
    · rw [hs x hx]; exact Nat.le_refl _

/-- Every step of a sender that holds `l`'s read lock strictly decreases `rsum · l`. -/
theorem rsum_step_lt {c c' : Config} {m : Move} {l t : Nat} (hI : LockInv c) (ht : t ∈ (c.ls l).readers)
    (hm : readerMove t m = true) (hs : step c m = some c') : rsum c' l < rsum c l := by
  obtain ⟨hpc, hhead⟩ := (hI.readers t l).1 ht
  have hm' : m = .sDeliver t ∨ m = .sListenCancelled t ∨ m = .sSendCancelled t ∨ m = .sRelease t := by
    simp only [readerMove, Bool.or_eq_true, decide_eq_true_eq] at hm
    rcases hm with ((h | h) | h) | h <;> simp [h]
  rcases hm' with rfl | rfl | rfl | rfl
  · simp only [step] at hs
    split at hs
    · cases hs
    · rename_i l' tl heq
      have hl : l' = l := by rw [heq] at hhead; simpa using hhead
      subst hl
      split at hs
      · rename_i hg
        split at hs <;> (simp only [Option.some.injEq] at hs; subst hs)
        · exact rsum_lt_of_select (o := .delivered) ht hg.1 (by simp [Config.setS])
            (by simp [Config.setS]) (by intro x hx; simp [Config.setS, upd_apply, hx])
        · exact rsum_lt_of_select (o := .delivered) ht hg.1 (by simp [Config.setS, Config.setL])
            (by simp [Config.setS]) (by intro x hx; simp [Config.setS, Config.setL, upd_apply, hx])
      · cases hs
  · simp only [step] at hs
    split at hs
    · cases hs
    · split at hs
      · rename_i hg
        simp only [Option.some.injEq] at hs; subst hs
        exact rsum_lt_of_select (o := .listenCancelled) ht hg.1 (by simp [Config.setS])
          (by simp [Config.setS]) (by intro x hx; simp [Config.setS, upd_apply, hx])
      · cases hs
  · simp only [step] at hs
    split at hs
    · cases hs
    · split at hs
      · rename_i hg
        simp only [Option.some.injEq] at hs; subst hs
        exact rsum_lt_of_select (o := .sendCancelled) ht hg.1 (by simp [Config.setS])
          (by simp [Config.setS]) (by intro x hx; simp [Config.setS, upd_apply, hx])
      · cases hs
  · simp only [step] at hs
    split at hs
    · cases hs
    · rename_i l' tl heq
      have hl : l' = l := by rw [heq] at hhead; simpa using hhead
      subst hl
      split at hs
      · split at hs <;> (simp only [Option.some.injEq] at hs; subst hs) <;>
          exact rsum_lt_release (by simp [Config.setS, Config.setL]) ht
            (by intro x hx; simp [Config.setS, Config.setL, upd_apply, hx])
      · cases hs

end ScVerif.C10
