import ScVerif.C10.Bus
/-! Lock-discipline invariant of the bus model (helper lemmas for the C10 property theorems). -/
namespace ScVerif.C10

def WPc.held : WPc → Bool | .locked | .closing | .unlock => true | _ => false
def WPc.isClosed : WPc → Bool | .closing | .unlock | .done => true | _ => false
def WPc.nilled : WPc → Bool | .unlock | .done => true | _ => false

/-- sender `s` holds the read lock of listener `l` -/
def Holding (s : Sender) (l : Nat) : Prop :=
  (s.pc = .rlocked ∨ ∃ o, s.pc = .selected o) ∧ s.rest.head? = some l

structure LockInv (c : Config) : Prop where
  noPanic : c.panicked = false
  readers : ∀ t l, t ∈ (c.ls l).readers ↔ Holding (c.ss t) l
  mutex : ∀ l, (c.ls l).wHeld = true → (c.ls l).readers = []
  held : ∀ l, (c.ls l).wHeld = (c.ls l).wpc.held
  wait : ∀ l, (c.ls l).wWait = decide ((c.ls l).wpc = .wait)
  closed : ∀ l, (c.ls l).closed = (c.ls l).wpc.isClosed
  nil : ∀ l, (c.ls l).isNil = (c.ls l).wpc.nilled
  fresh : ∀ l, (c.ls l).lpc = .init → (c.ls l).wpc = .none

macro "bus_auto" : tactic =>
  `(tactic| (intros; (try simp only [Config.setL, Config.setS, upd_apply, Holding] at *); grind [WPc.held, WPc.isClosed, WPc.nilled]))

theorem lockInv_init (todo : Nat → Nat) : LockInv (init todo) := by
  constructor <;> simp [init, Holding, WPc.held, WPc.isClosed, WPc.nilled]

/-- While a sender holds the read lock the channel is not in the "closed but not yet nil" window
(and in fact not write-locked at all). -/
theorem LockInv.not_closing {c : Config} (h : LockInv c) {t l : Nat} (ht : Holding (c.ss t) l) :
    (c.ls l).wHeld = false ∧ ¬ ((c.ls l).closed = true ∧ (c.ls l).isNil = false) := by
  have hmem := (h.readers t l).2 ht
  have hne : (c.ls l).readers ≠ [] := by intro h0; rw [h0] at hmem; cases hmem
  have hheld : (c.ls l).wHeld = false := by
    cases hh : (c.ls l).wHeld with
    | false => rfl
    | true => exact absurd (h.mutex l hh) hne
  refine ⟨hheld, ?_⟩
  have h1 := h.held l; have h2 := h.closed l; have h3 := h.nil l
  rw [hheld] at h1
  intro ⟨hc, hn⟩
  rw [hc] at h2; rw [hn] at h3
  cases hw : (c.ls l).wpc <;> simp [hw, WPc.held, WPc.isClosed, WPc.nilled] at h1 h2 h3

theorem lockInv_step {c c' : Config} {m : Move} (h : LockInv c) (hs : step c m = some c') : LockInv c' := by
  have hnc := @LockInv.not_closing c h
  obtain ⟨hp, hr, hm, hh, hw, hc, hn, hf⟩ := h
  cases m
  case sDeliver t =>
    simp only [step] at hs
    split at hs
    · simp at hs
    · rename_i l tl heq
      split at hs
      · rename_i hg
        have hold : Holding (c.ss t) l := ⟨Or.inl hg.1, by simp [heq]⟩
        have hno := (hnc hold).2
        split at hs
        · rename_i hcl; exact absurd ⟨hcl, hg.2.1⟩ hno
        · simp only [Option.some.injEq] at hs; subst hs; constructor <;> bus_auto
      · simp at hs
  all_goals
    simp only [step] at hs <;> (repeat' (split at hs)) <;>
    first
      | (simp at hs; done)
      | (simp only [Option.some.injEq] at hs; subst hs; constructor <;> bus_auto)

end ScVerif.C10
