import ScVerif.C10.NetEffect
import ScVerif.C10.NetRun
/-!
# C10 — property theorems, part 7: what `mergeChanges` owes the receiver

Without backpressure the changes of an item that arrive while the consumer is away are folded into one held change
(`mergeCollectionExcess` / `mergeChanges`; model: `mergeQ` / `mergeKind`).  "A single-item subscription also ends when
the item is removed" — and a `Collection.Pull` subscriber is told of the removal — only if that fold never loses the
net effect: a receiver that was shown the item and is behind by delete, re-add, delete is still owed a REMOVE.
-/
namespace ScVerif.C10

/-- One merge: for every view `s` a receiver can have of the item and every two changes the collection can publish in
that order, the merged change is one the receiver can apply and takes its view where the two would have; and when
nothing is left (ADD then REMOVE) the two cancel exactly: the view is back where it was. -/
theorem C10_mergeChanges_preserves_net_effect (s : Bool) (a b : Kind)
    (ha : okKind s a = true) (hb : okKind (applyKind s a) b = true) :
    match mergeKind a b with
    | none => applyKind (applyKind s a) b = s
    | some k => okKind s k = true ∧ applyKind s k = applyKind (applyKind s a) b := by
  have h := mergeKind_net s a b ha hb
  cases hm : mergeKind a b with
  | none => rw [hm] at h; exact h
  | some k => rw [hm] at h; exact h

/-- The merge stage, for every item `t`: let the receiver have been told `s0`, let the stage hold for `t` a change
that brings `s0` to the item's state `s` (or nothing, `s = s0`), and let ANY sequence of changes arrive — of any items,
interleaved in any way, those of `t` being changes the collection can publish one after the other from `s` (updates,
deletes, re-adds, deletes again …).  Then the stage holds for `t` a change the receiver can apply and that brings it
to the item's final state, or it holds nothing and the receiver is up to date.  In particular a receiver that believes
the item exists while the item is gone is owed a queued REMOVE. -/
theorem C10_merge_stage_preserves_net_effect (t : Nat) (s0 s : Bool) (q ms : List Msg)
    (hq : NetOK s0 s ((ent t q).map (·.kind))) (hv : validSeq s (kindsOf t ms) = true) :
    NetOK s0 (applySeq s (kindsOf t ms)) ((ent t (ms.foldl mergeQ q)).map (·.kind)) := by
  rw [ent_foldl_mergeQ]
  exact mergeSeq_net s0 (kindsOf t ms) s _ hq hv

/-- … spelled out for the case the property is about: the receiver was shown the item (`s0 = true`), the item is gone
in the end — then a REMOVE of it is queued, whatever was merged on the way. -/
theorem C10_merge_stage_owes_remove (t : Nat) (s : Bool) (q ms : List Msg)
    (hq : NetOK true s ((ent t q).map (·.kind))) (hv : validSeq s (kindsOf t ms) = true)
    (hgone : applySeq s (kindsOf t ms) = false) :
    ∃ m, ent t (ms.foldl mergeQ q) = some m ∧ m.kind = .remove := by
  have h := C10_merge_stage_preserves_net_effect t true s q ms hq hv
  rw [hgone] at h
  cases he : ent t (ms.foldl mergeQ q) with
  | none => rw [he] at h; exact absurd (show false = true from h) (by decide)
  | some m =>
    rw [he] at h
    refine ⟨m, rfl, ?_⟩
    obtain ⟨_, h2⟩ := h
    cases hk : m.kind <;> simp_all [applyKind]

/-- The merge stage as a machine, EVERY run: changes of any items arrive in any order (those of item `t` being what the
collection can publish given the item's state), the forwarder takes the head of the queue at any moments in between.
At every point the queue holds at most one change of `t`, and what the receiver has been handed so far (`told`) plus
that queued change add up to the item's state — so whenever nothing of `t` is queued (in particular once the queue has
been drained) the receiver's view of the item is right: every removal and every re-creation has been handed on. -/
theorem C10_merge_stage_every_run_adds_up (t : Nat) (s : Bool) (moves : List EMove) :
    let e := erun t { q := [], told := s, st := s } moves
    cnt t e.q ≤ 1 ∧ NetOK e.told e.st ((ent t e.q).map (·.kind)) ∧ (ent t e.q = none → e.told = e.st) := by
  intro e
  have h : EInv t e := einv_run t moves _ ⟨by simp [cnt], rfl⟩
  refine ⟨h.uniq, h.net, fun hn => ?_⟩
  have := h.net
  rw [hn] at this
  exact this.symm

/-- non-vacuity: update, (taken), delete, re-add, delete, (taken): the receiver saw the update, then the REMOVE -/
example :
    let e := erun 7 { q := [], told := true, st := true }
      [.arrive ⟨7, .update, 1⟩, .take, .arrive ⟨7, .remove, 0⟩, .arrive ⟨3, .add, 9⟩, .arrive ⟨7, .add, 2⟩,
       .arrive ⟨7, .remove, 0⟩]
    e.q = [⟨3, .add, 9⟩, ⟨7, .remove, 0⟩] ∧ e.told = true ∧ e.st = false ∧
      (erun 7 e [.take, .take]).told = false ∧ (erun 7 e [.take, .take]).q = [] := by decide

/-- non-vacuity: two updates queued behind a receiver that knows the item, then delete, re-add, delete with changes of
another item in between: one REMOVE is queued (behind the other item's ADD) -/
example :
    let ms : List Msg := [⟨7, .update, 1⟩, ⟨7, .update, 2⟩, ⟨7, .remove, 0⟩, ⟨3, .add, 9⟩, ⟨7, .add, 4⟩, ⟨7, .remove, 0⟩]
    validSeq true (kindsOf 7 ms) = true ∧ applySeq true (kindsOf 7 ms) = false ∧
      ms.foldl mergeQ [] = [⟨3, .add, 9⟩, ⟨7, .remove, 0⟩] := by decide

/-- … and an item the receiver never saw, added and deleted behind it, leaves nothing (the receiver is up to date) -/
example :
    let ms : List Msg := [⟨7, .add, 1⟩, ⟨7, .update, 2⟩, ⟨7, .remove, 0⟩]
    validSeq false (kindsOf 7 ms) = true ∧ ms.foldl mergeQ [] = [] := by decide

end ScVerif.C10
