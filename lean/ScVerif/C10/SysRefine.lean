import ScVerif.C10.SysReach
import ScVerif.C10.PipeInv
/-!
C10 — the composed model refines both of its halves (helper lemmas).

Every composed step projects to a list of steps of the bus model and, for each listener, to a list of steps of
that listener's pipeline model, ALL of them enabled (strict execution `exec` / `pexec`, not the "skip if
disabled" runs), and the two projections agree on the data: the messages pushed into pipeline `l` are exactly
the payloads of the events the bus model records as received by listener `l`, in the same order.
-/
namespace ScVerif.C10

/-- strict execution of a bus schedule: every move has to be enabled -/
def exec (c : Config) : List Move → Option Config
  | [] => some c
  | m :: ms => (step c m).bind fun c' => exec c' ms

/-- strict execution of a pipeline schedule -/
def pexec (p : PConfig) : List PMove → Option PConfig
  | [] => some p
  | m :: ms => (pstep p m).bind fun p' => pexec p' ms

theorem exec_append {c c' c'' : Config} {a b : List Move} (h1 : exec c a = some c') (h2 : exec c' b = some c'') :
    exec c (a ++ b) = some c'' := by
  induction a generalizing c with
  | nil => simp only [exec, Option.some.injEq] at h1; subst h1; simpa using h2
  | cons m ms ih =>
    simp only [exec] at h1
    cases hs : step c m with
    | none => simp [hs] at h1
    | some c1 => simp [hs] at h1; simp [exec, hs, ih h1]

theorem pexec_append {c c' c'' : PConfig} {a b : List PMove} (h1 : pexec c a = some c') (h2 : pexec c' b = some c'') :
    pexec c (a ++ b) = some c'' := by
  induction a generalizing c with
  | nil => simp only [pexec, Option.some.injEq] at h1; subst h1; simpa using h2
  | cons m ms ih =>
    simp only [pexec] at h1
    cases hs : pstep c m with
    | none => simp [hs] at h1
    | some c1 => simp [hs] at h1; simp [pexec, hs, ih h1]

/-- a strict execution is in particular a run -/
theorem run_of_exec {c c' : Config} {a : List Move} (h : exec c a = some c') : run c a = c' := by
  induction a generalizing c with
  | nil => simp only [exec, Option.some.injEq] at h; simpa [run] using h
  | cons m ms ih =>
    simp only [exec] at h
    cases hs : step c m with
    | none => simp [hs] at h
    | some c1 => simp [hs] at h; rw [run_cons, next_of_step hs]; exact ih h

/-- the messages a pipeline schedule pushes into the first stage -/
def pushesOf : List PMove → List Msg
  | [] => []
  | .push m :: r => m :: pushesOf r
  | _ :: r => pushesOf r

theorem pushesOf_append (a b : List PMove) : pushesOf (a ++ b) = pushesOf a ++ pushesOf b := by
  induction a with
  | nil => rfl
  | cons m ms ih => cases m <;> simp [pushesOf, ih]

/-- bus half of a composed move -/
def projB (s : Sys) : SMove → List Move
  | .bus m => [m]
  | .deliver t =>
    match (s.bus.ss t).rest with
    | [] => []
    | l :: _ => [.recvReq l, .sDeliver t]
  | .cancel l => [.cancel l]
  | .close l => [.wClose l]
  | .pipe l m =>
    match pstep (s.pipe l) m with
    | some p' => if p'.cancelled = true ∧ (s.bus.ls l).cancelled = false then [.cancel l] else []
    | none => []

/-- the half of a composed move that concerns the pipeline of listener `l` -/
def projP (pl : Ev → Msg) (s : Sys) (l : Nat) : SMove → List PMove
  | .bus _ => []
  | .deliver t =>
    match (s.bus.ss t).rest with
    | [] => []
    | l' :: _ => if l' = l then [.push (pl ⟨t, (s.bus.ss t).cur⟩)] else []
  | .cancel l' => if l' = l then [.cancel] else []
  | .close l' => if l' = l ∧ (pstep (s.pipe l) .closeIn).isSome then [.closeIn] else []
  | .pipe l' m => if l' = l ∧ internalP m = true then [m] else []

/-- the event a composed move hands to listener `l` -/
def projE (s : Sys) (l : Nat) : SMove → List Ev
  | .deliver t =>
    match (s.bus.ss t).rest with
    | [] => []
    | l' :: _ => if l' = l then [⟨t, (s.bus.ss t).cur⟩] else []
  | _ => []

theorem projP_pushes (pl : Ev → Msg) (s : Sys) (l : Nat) (m : SMove) :
    pushesOf (projP pl s l m) = (projE s l m).map pl := by
  cases m with
  | bus m => rfl
  | deliver t =>
    simp only [projP, projE]
    split
    · rfl
    · split <;> simp [pushesOf]
  | cancel l' => simp only [projP, projE]; split <;> rfl
  | close l' => simp only [projP, projE]; split <;> rfl
  | pipe l' m =>
    simp only [projP, projE]
    split
    · rename_i hl
      cases m <;> simp [internalP] at hl <;> rfl
    · rfl

theorem sstep_projB {pl : Ev → Msg} {s s' : Sys} {m : SMove} (h : sstep pl s m = some s') :
    exec s.bus (projB s m) = some s'.bus := by
  cases m with
  | bus m =>
    simp only [sstep] at h
    split at h
    · cases hs : step s.bus m with
      | none => simp [hs] at h
      | some b => simp [hs] at h; subst h; simp [projB, exec, hs]
    · cases h
  | deliver t =>
    simp only [sstep] at h
    split at h
    · cases h
    · rename_i l tl heq
      cases h1 : step s.bus (.recvReq l) with
      | none => simp [h1] at h
      | some b1 =>
        cases h2 : step b1 (.sDeliver t) with
        | none => simp [h1, h2] at h
        | some b2 =>
          cases h3 : pstep (s.pipe l) (.push (pl ⟨t, (s.bus.ss t).cur⟩)) with
          | none => simp [h1, h3] at h
          | some p' =>
            simp [h1, h2, h3] at h; subst h
            simp [projB, heq, exec, h1, h2]
  | cancel l => simp only [sstep, Option.some.injEq] at h; subst h; simp [projB, exec, next, step]
  | close l =>
    simp only [sstep] at h
    cases hs : step s.bus (.wClose l) with
    | none => simp [hs] at h
    | some b => simp [hs] at h; subst h; simp [projB, exec, hs]
  | pipe l m =>
    simp only [sstep] at h
    split at h
    · cases hs : pstep (s.pipe l) m with
      | none => simp [hs] at h
      | some p' =>
        simp [hs] at h; subst h
        by_cases hc : p'.cancelled = true ∧ (s.bus.ls l).cancelled = false
        · simp [projB, hs, hc, exec, next, step]
        · simp [projB, hs, hc, exec]
    · cases h

theorem sstep_projP {pl : Ev → Msg} {s s' : Sys} {m : SMove} (h : sstep pl s m = some s') (l : Nat) :
    pexec (s.pipe l) (projP pl s l m) = some (s'.pipe l) := by
  cases m with
  | bus m =>
    simp only [sstep] at h
    split at h
    · cases hs : step s.bus m with
      | none => simp [hs] at h
      | some b => simp [hs] at h; subst h; simp [projP, pexec]
    · cases h
  | deliver t =>
    simp only [sstep] at h
    split at h
    · cases h
    · rename_i l' tl heq
      cases h1 : step s.bus (.recvReq l') with
      | none => simp [h1] at h
      | some b1 =>
        cases h2 : step b1 (.sDeliver t) with
        | none => simp [h1, h2] at h
        | some b2 =>
          cases h3 : pstep (s.pipe l') (.push (pl ⟨t, (s.bus.ss t).cur⟩)) with
          | none => simp [h1, h3] at h
          | some p' =>
            simp [h1, h2, h3] at h; subst h
            by_cases hl : l' = l
            · subst hl; simp [projP, heq, pexec, h3]
            · have hl' : l ≠ l' := fun e => hl e.symm
              simp [projP, heq, pexec, hl, upd_apply, hl']
  | cancel l' =>
    simp only [sstep, Option.some.injEq] at h; subst h
    by_cases hl : l' = l
    · subst hl; simp [projP, pexec, pnext, pstep]
    · have hl' : l ≠ l' := fun e => hl e.symm
      simp [projP, pexec, hl, upd_apply, hl']
  | close l' =>
    simp only [sstep] at h
    cases hs : step s.bus (.wClose l') with
    | none => simp [hs] at h
    | some b =>
      simp [hs] at h; subst h
      by_cases hl : l' = l
      · subst hl
        cases hp : pstep (s.pipe l') .closeIn with
        | none => simp [projP, pexec, pnext, hp]
        | some p' => simp [projP, pexec, pnext, hp]
      · have hl' : l ≠ l' := fun e => hl e.symm
        simp [projP, pexec, hl, upd_apply, hl']
  | pipe l' m =>
    simp only [sstep] at h
    split at h
    · rename_i hint
      cases hs : pstep (s.pipe l') m with
      | none => simp [hs] at h
      | some p' =>
        simp [hs] at h; subst h
        by_cases hl : l' = l
        · subst hl; simp [projP, pexec, hint, hs]
        · have hl' : l ≠ l' := fun e => hl e.symm
          simp [projP, pexec, hl, upd_apply, hl']
    · cases h

/-- a bus step other than a delivery leaves every listener's received list alone -/
theorem step_recvd {c c' : Config} {m : Move} (hm : ∀ t, m ≠ .sDeliver t) (hs : step c m = some c') (l : Nat) :
    (c'.ls l).recvd = (c.ls l).recvd := by
  cases m <;> (try exact absurd rfl (hm _)) <;> simp only [step] at hs <;> (repeat' (split at hs)) <;>
    first
      | (cases hs; done)
      | (simp only [Option.some.injEq] at hs; subst hs
         (try simp only [Config.setL, Config.setS, upd_apply])
         all_goals ((repeat' split) <;> simp_all))

theorem sstep_projE {pl : Ev → Msg} {s s' : Sys} {m : SMove} (h : sstep pl s m = some s') (l : Nat) :
    (s'.bus.ls l).recvd = (s.bus.ls l).recvd ++ projE s l m := by
  cases m with
  | bus m =>
    simp only [sstep] at h
    split at h
    · rename_i hfree
      cases hs : step s.bus m with
      | none => simp [hs] at h
      | some b =>
        simp [hs] at h; subst h
        have hm : ∀ t, m ≠ .sDeliver t := by intro t e; subst e; simp [busFree] at hfree
        simp [projE, step_recvd hm hs l]
    · cases h
  | deliver t =>
    simp only [sstep] at h
    split at h
    · cases h
    · rename_i l' tl heq
      cases h1 : step s.bus (.recvReq l') with
      | none => simp [h1] at h
      | some b1 =>
        cases h2 : step b1 (.sDeliver t) with
        | none => simp [h1, h2] at h
        | some b2 =>
          cases h3 : pstep (s.pipe l') (.push (pl ⟨t, (s.bus.ss t).cur⟩)) with
          | none => simp [h1, h3] at h
          | some p' =>
            simp [h1, h2, h3] at h; subst h
            simp only [projE, heq]
            simp only [step] at h1
            (repeat' (split at h1)) <;>
              first
                | (cases h1; done)
                | (simp only [Option.some.injEq] at h1; subst h1
                   simp only [step, Config.setL, upd_apply, heq, if_true] at h2
                   (repeat' (split at h2)) <;>
                     first
                       | (cases h2; done)
                       | (simp only [Option.some.injEq] at h2; subst h2
                          simp only [Config.setS, upd_apply]
                          grind))
  | cancel l' =>
    simp only [sstep, Option.some.injEq] at h; subst h
    simp only [projE, List.append_nil, next, step, Option.getD_some, Config.setL, upd_apply]
    split <;> simp_all
  | close l' =>
    simp only [sstep] at h
    cases hs : step s.bus (.wClose l') with
    | none => simp [hs] at h
    | some b =>
      simp [hs] at h; subst h
      simp [projE, step_recvd (by intro t e; cases e) hs l]
  | pipe l' m =>
    simp only [sstep] at h
    split at h
    · cases hs : pstep (s.pipe l') m with
      | none => simp [hs] at h
      | some p' =>
        simp [hs] at h; subst h
        simp only [projE, List.append_nil]
        split
        · simp only [next, step, Option.getD_some, Config.setL, upd_apply]
          split <;> simp_all
        · rfl
    · cases h

/-- projections of a whole composed schedule (disabled composed moves contribute nothing) -/
def traceB (pl : Ev → Msg) : Sys → List SMove → List Move
  | _, [] => []
  | s, m :: ms =>
    match sstep pl s m with
    | some s' => projB s m ++ traceB pl s' ms
    | none => traceB pl s ms

def traceP (pl : Ev → Msg) (l : Nat) : Sys → List SMove → List PMove
  | _, [] => []
  | s, m :: ms =>
    match sstep pl s m with
    | some s' => projP pl s l m ++ traceP pl l s' ms
    | none => traceP pl l s ms

def traceE (pl : Ev → Msg) (l : Nat) : Sys → List SMove → List Ev
  | _, [] => []
  | s, m :: ms =>
    match sstep pl s m with
    | some s' => projE s l m ++ traceE pl l s' ms
    | none => traceE pl l s ms

theorem srun_cons (pl : Ev → Msg) (s : Sys) (m : SMove) (ms : List SMove) :
    srun pl s (m :: ms) = srun pl (snext pl s m) ms := rfl

/-- the composed run, projected: strict runs of both halves that agree on the delivered data -/
theorem srun_refines (pl : Ev → Msg) (s : Sys) (sched : List SMove) (l : Nat) :
    exec s.bus (traceB pl s sched) = some (srun pl s sched).bus ∧
    pexec (s.pipe l) (traceP pl l s sched) = some ((srun pl s sched).pipe l) ∧
    ((srun pl s sched).bus.ls l).recvd = (s.bus.ls l).recvd ++ traceE pl l s sched ∧
    pushesOf (traceP pl l s sched) = (traceE pl l s sched).map pl := by
  induction sched generalizing s with
  | nil => simp [traceB, traceP, traceE, exec, pexec, srun, pushesOf]
  | cons m ms ih =>
    rw [srun_cons]
    unfold snext
    cases hs : sstep pl s m with
    | none =>
      simp only [traceB, traceP, traceE, hs, Option.getD_none]
      exact ih s
    | some s' =>
      simp only [traceB, traceP, traceE, hs, Option.getD_some]
      obtain ⟨i1, i2, i3, i4⟩ := ih s'
      refine ⟨exec_append (sstep_projB hs) i1, pexec_append (sstep_projP hs l) i2, ?_, ?_⟩
      · rw [i3, sstep_projE hs l, List.append_assoc]
      · rw [pushesOf_append, i4, projP_pushes, List.map_append]

theorem srun_append (pl : Ev → Msg) (s : Sys) (a b : List SMove) :
    srun pl s (a ++ b) = srun pl (srun pl s a) b := by
  simp [srun, List.foldl_append]

theorem SReachable.srun {pl : Ev → Msg} {s : Sys} (h : SReachable pl s) (sched : List SMove) :
    SReachable pl (srun pl s sched) := by
  obtain ⟨todo, pipes, s0, hf, rfl⟩ := h
  exact ⟨todo, pipes, s0 ++ sched, hf, (srun_append pl _ s0 sched).symm⟩

/-- the bus half of a composed run is a run of the bus model -/
theorem srun_bus_run (pl : Ev → Msg) (s : Sys) (sched : List SMove) :
    (srun pl s sched).bus = run s.bus (traceB pl s sched) :=
  (run_of_exec (srun_refines pl s sched 0).1).symm

/-! ### a backpressure `Pull` forwards everything it is handed, once, in order -/

/-- one step of a pipeline that is just a forwarder with a pass-all filter -/
theorem pstep_lossless {p p1 : PConfig} {m : PMove} (hex : p.hasEx = false) (hpid : p.hasPid = false)
    (hk : ∀ x, p.keep x = true) (h : pstep p m = some p1) :
    p1.hasEx = false ∧ p1.hasPid = false ∧ p1.keep = p.keep ∧
    (p1.fwDone = false → p.fwDone = false ∧ p1.out ++ p1.fwQ = p.out ++ p.fwQ ++ pushesOf [m]) ∧
    (p1.fwDone = true → p1.out = p.out) ∧ (p.fwDone = true → p1.fwDone = true) := by
  cases m <;> simp only [pstep] at h <;> (repeat' (split at h)) <;>
    first
      | (cases h; done)
      | (simp only [Option.some.injEq] at h; subst h
         simp only [fwRecv, exRecv, pidRecv, pushesOf] at *
         (repeat' split) <;> simp_all)

theorem pexec_frozen {p c : PConfig} {ps : List PMove} (hex : p.hasEx = false) (hpid : p.hasPid = false)
    (hk : ∀ x, p.keep x = true) (hd : p.fwDone = true) (h : pexec p ps = some c) :
    c.fwDone = true ∧ c.out = p.out := by
  induction ps generalizing p with
  | nil => simp only [pexec, Option.some.injEq] at h; subst h; exact ⟨hd, rfl⟩
  | cons m ms ih =>
    simp only [pexec] at h
    cases hs : pstep p m with
    | none => simp [hs] at h
    | some p1 =>
      simp [hs] at h
      obtain ⟨a1, a2, a3, _, a5, a6⟩ := pstep_lossless hex hpid hk hs
      have := ih a1 a2 (by rw [a3]; exact hk) (a6 hd) h
      exact ⟨this.1, by rw [this.2, a5 (a6 hd)]⟩

theorem pexec_lossless {p c : PConfig} {ps : List PMove} (hex : p.hasEx = false) (hpid : p.hasPid = false)
    (hk : ∀ x, p.keep x = true) (h : pexec p ps = some c) :
    (c.fwDone = false → c.out ++ c.fwQ = p.out ++ p.fwQ ++ pushesOf ps) ∧
    (p.fwDone = false → c.out <+: p.out ++ p.fwQ ++ pushesOf ps) := by
  induction ps generalizing p with
  | nil =>
    simp only [pexec, Option.some.injEq] at h; subst h
    simp only [pushesOf, List.append_nil]
    exact ⟨fun _ => trivial, fun _ => List.prefix_append _ _⟩
  | cons m ms ih =>
    simp only [pexec] at h
    cases hs : pstep p m with
    | none => simp [hs] at h
    | some p1 =>
      simp [hs] at h
      obtain ⟨a1, a2, a3, a4, a5, a6⟩ := pstep_lossless hex hpid hk hs
      have hk1 : ∀ x, p1.keep x = true := by rw [a3]; exact hk
      obtain ⟨i1, i2⟩ := ih a1 a2 hk1 h
      have hpush : pushesOf (m :: ms) = pushesOf [m] ++ pushesOf ms := pushesOf_append [m] ms
      constructor
      · intro hc
        have hp1 : p1.fwDone = false := by
          cases hd : p1.fwDone with
          | false => rfl
          | true => have := (pexec_frozen a1 a2 hk1 hd h).1; rw [hc] at this; cases this
        rw [i1 hc, (a4 hp1).2, hpush]; simp [List.append_assoc]
      · intro hp
        cases hd : p1.fwDone with
        | false =>
          have := i2 hd
          rw [(a4 hd).2] at this
          rw [hpush]; simpa [List.append_assoc] using this
        | true =>
          rw [(pexec_frozen a1 a2 hk1 hd h).2, a5 hd]
          simp [List.append_assoc]

end ScVerif.C10
