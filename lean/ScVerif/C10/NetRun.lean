import ScVerif.C10.NetEffect
/-!
C10 — the merge stage as a machine: changes arrive (`mergeQ`), the forwarder takes the head of the queue.  `told` is a
receiver's view of item `t` after everything taken so far, `st` the item's state (helper for `PropsMerge`).
-/
namespace ScVerif.C10

structure EState where
  q : List Msg
  told : Bool
  st : Bool

inductive EMove
  | arrive (m : Msg)
  | take

def estep (t : Nat) (e : EState) : EMove → Option EState
  | .arrive m =>
    if m.id = t then
      -- the collection publishes about `t` only what fits its state
      (if okKind e.st m.kind then some { q := mergeQ e.q m, told := e.told, st := applyKind e.st m.kind } else none)
    else some { e with q := mergeQ e.q m }
  | .take =>
    match e.q with
    | [] => none
    | h :: r => some { q := r, told := if h.id = t then applyKind e.told h.kind else e.told, st := e.st }

def enext (t : Nat) (e : EState) (m : EMove) : EState := (estep t e m).getD e
def erun (t : Nat) (e : EState) (ms : List EMove) : EState := ms.foldl (enext t) e

structure EInv (t : Nat) (e : EState) : Prop where
  uniq : cnt t e.q ≤ 1
  net : NetOK e.told e.st ((ent t e.q).map (·.kind))

theorem einv_next (t : Nat) (e : EState) (m : EMove) (h : EInv t e) : EInv t (enext t e m) := by
  unfold enext
  cases m with
  | arrive x =>
    simp only [estep]
    split
    · rename_i hid
      split
      · rename_i hok
        simp only [Option.getD_some]
        subst hid
        refine ⟨(mergeQ_same e.q x).2 h.uniq, ?_⟩
        have hv : validSeq e.st (kindsOf x.id [x]) = true := by simp [kindsOf, validSeq, hok]
        have := mergeSeq_net e.told (kindsOf x.id [x]) e.st _ h.net hv
        rw [← ent_foldl_mergeQ] at this
        simpa [kindsOf, applySeq] using this
      · exact h
    · rename_i hid
      simp only [Option.getD_some]
      obtain ⟨h1, h2⟩ := mergeQ_other t e.q x hid
      exact ⟨by show cnt t (mergeQ e.q x) ≤ 1; rw [h2]; exact h.uniq,
             by show NetOK e.told e.st ((ent t (mergeQ e.q x)).map _); rw [h1]; exact h.net⟩
  | take =>
    simp only [estep]
    cases hq : e.q with
    | nil => simp only [Option.getD_none]; exact h
    | cons x r =>
      simp only [Option.getD_some]
      have hu := h.uniq
      have hn := h.net
      rw [hq] at hu hn
      obtain ⟨hT, hO⟩ := ent_pop t x r hu
      by_cases hid : x.id = t
      · obtain ⟨he, hr, hc⟩ := hT hid
        rw [he] at hn
        obtain ⟨_, hap⟩ : okKind e.told x.kind = true ∧ applyKind e.told x.kind = e.st := hn
        refine ⟨by show cnt t r ≤ 1; omega, ?_⟩
        show NetOK (if x.id = t then applyKind e.told x.kind else e.told) e.st ((ent t r).map _)
        rw [if_pos hid, hr, hap]
        exact rfl
      · obtain ⟨he, hc⟩ := hO hid
        refine ⟨hc, ?_⟩
        show NetOK (if x.id = t then applyKind e.told x.kind else e.told) e.st ((ent t r).map _)
        rw [if_neg hid, he]
        exact hn

theorem einv_run (t : Nat) (ms : List EMove) : ∀ e, EInv t e → EInv t (erun t e ms) := by
  induction ms with
  | nil => intro e h; exact h
  | cons m ms ih => intro e h; exact ih _ (einv_next t e m h)

end ScVerif.C10
