import ScVerif.C10.LateInv
/-!
C10 — the seed-and-register window of a subscription, and the collection's read lock.

`Collection.onUpdate` (behind `Collection.Pull`, hence `PullID` and every adapter on top):

    if !config.UpdatesOnly { c.mu.RLock(); defer c.mu.RUnlock(); res = c.itemSlice(config) }     -- `snap`
    ch := c.bus.Listen(ctx)                                                                         -- `reg`
    return ch, res                                                                                  -- (RUnlock)

`Late.lean` has this as ONE step (`sub`).  Here it is two, and what makes them one is in the model: between `snap`
and `reg` of a subscription that is not updates-only the read lock is held (`locked = true`, the code), and
`Collection.Update` / `Collection.Delete` of ANY item (they take `c.mu.Lock()`) are not enabled.  With
`locked = false` (the lock released before `Listen`: a `defer` that moved into a helper) writers run in the window.

`shown` is a ghost: the seed the subscription was given contained the item.
-/
namespace ScVerif.C10

structure WConfig where
  locked : Bool                          -- the read lock is held from the snapshot until the listener is registered
  snapped : Option (List Msg) := none    -- the seed taken by a subscription that has not registered its listener yet
  shown : Bool := false
  l : LConfig

inductive WMove
  | snap | reg | mv (m : LMove)

/-- a writer needs the collection's write lock -/
def WConfig.writersExcluded (w : WConfig) : Bool := w.locked && w.snapped.isSome && !w.l.uo

def wstep (w : WConfig) : WMove → Option WConfig
  | .snap =>
    if w.l.subscribed = false ∧ w.snapped = none then some { w with snapped := some w.l.seed } else none
  | .reg =>
    match w.snapped with
    | some s =>
      if w.l.subscribed = false then
        some { w with snapped := none, shown := !s.isEmpty, l := { w.l with subscribed := true, p := { w.l.p with fwQ := s } } }
      else none
    | none => none
  | .mv m =>
    match m with
    | .sub => none                          -- replaced by `snap` ; `reg`
    | .upd tag => if w.writersExcluded then none else (lstep w.l (.upd tag)).map fun l' => { w with l := l' }
    | .del => if w.writersExcluded then none else (lstep w.l .del).map fun l' => { w with l := l' }
    | .other x => if w.writersExcluded then none else (lstep w.l (.other x)).map fun l' => { w with l := l' }
    | .ret => (lstep w.l .ret).map fun l' => { w with l := l' }
    | .pipe x => (lstep w.l (.pipe x)).map fun l' => { w with l := l' }

def wnext (w : WConfig) (m : WMove) : WConfig := (wstep w m).getD w
def wrun (w : WConfig) (sched : List WMove) : WConfig := sched.foldl wnext w

def winit (locked sync uo : Bool) (p : PConfig) : WConfig := { locked := locked, l := linit sync uo p }

/-- invariant of the split model with the lock: a pending snapshot is what the atomic step would take right now -/
structure WInv (w : WConfig) : Prop where
  fresh : ∀ s, w.snapped = some s → s = w.l.seed ∧ w.l.subscribed = false
  told : w.l.subscribed = true → w.shown = true → w.l.present = false → w.l.removed = true
  shownSub : w.shown = true → w.l.subscribed = true

theorem seed_eq_of (c c' : LConfig) (hu : c'.uo = c.uo) (ht : c'.p.target = c.p.target)
    (h : c.uo = true ∨ c'.present = c.present) : c'.seed = c.seed := by
  unfold LConfig.seed
  rcases h with h | h
  · simp [hu, h]
  · simp [hu, h, ht]

/-! what one step of the atomic model does to the fields the window looks at -/

theorem lstep_ret_facts {c c' : LConfig} (h : lstep c .ret = some c') :
    c'.uo = c.uo ∧ c'.p.target = c.p.target ∧ c'.subscribed = c.subscribed ∧ c'.present = c.present ∧
      c'.removed = c.removed := by
  simp only [lstep] at h; split at h
  · cases h; exact ⟨rfl, rfl, rfl, rfl, rfl⟩
  · cases h

theorem lstep_pipe_facts {c c' : LConfig} {x : PMove} (h : lstep c (.pipe x) = some c') :
    c.subscribed = true ∧ c'.uo = c.uo ∧ c'.p.target = c.p.target ∧ c'.subscribed = c.subscribed ∧
      c'.present = c.present ∧ c'.removed = c.removed := by
  simp only [lstep] at h
  split at h
  · cases h
  · split at h
    · rename_i hsub
      cases hp : pstep c.p x with
      | none => simp [hp] at h
      | some p' =>
        simp only [hp, Option.map_some, Option.some.injEq] at h; subst h
        exact ⟨hsub, rfl, (pstep_static hp).2.2.1, rfl, rfl, rfl⟩
    · cases h

theorem lstep_other_facts {c c' : LConfig} {x : Msg} (h : lstep c (.other x) = some c') :
    c'.uo = c.uo ∧ c'.p.target = c.p.target ∧ c'.subscribed = c.subscribed ∧ c'.present = c.present ∧
      c'.removed = c.removed := by
  simp only [lstep] at h; split at h
  · cases h
  · split at h
    · cases hp : pstep c.p (.push x) with
      | none => simp [hp] at h
      | some p' =>
        simp only [hp, Option.map_some, Option.some.injEq] at h; subst h
        exact ⟨rfl, (pstep_static hp).2.2.1, rfl, rfl, rfl⟩
    · cases h; exact ⟨rfl, rfl, rfl, rfl, rfl⟩

theorem lstep_upd_facts {c c' : LConfig} {tag : Nat} (h : lstep c (.upd tag) = some c') :
    c'.uo = c.uo ∧ c'.p.target = c.p.target ∧ c'.subscribed = c.subscribed ∧ c'.present = true ∧
      c'.removed = c.removed := by
  simp only [lstep] at h; split at h
  · cases hp : pstep c.p (.push ⟨c.p.target, if c.present then .update else .add, tag⟩) with
    | none => simp [hp] at h
    | some p' =>
      simp only [hp, Option.map_some, Option.some.injEq] at h; subst h
      exact ⟨rfl, (pstep_static hp).2.2.1, rfl, rfl, rfl⟩
  · cases h; exact ⟨rfl, rfl, rfl, rfl, rfl⟩

theorem lstep_del_facts {c c' : LConfig} (h : lstep c .del = some c') :
    c'.uo = c.uo ∧ c'.p.target = c.p.target ∧ c'.subscribed = c.subscribed ∧ c'.present = false ∧
      (c.subscribed = true → c'.removed = true) := by
  simp only [lstep] at h; split at h
  · cases h
  · split at h
    · cases hp : pstep c.p (.push ⟨c.p.target, .remove, 0⟩) with
      | none => simp [hp] at h
      | some p' =>
        simp only [hp, Option.map_some, Option.some.injEq] at h; subst h
        exact ⟨rfl, (pstep_static hp).2.2.1, rfl, rfl, fun _ => rfl⟩
    · rename_i hs
      cases h
      exact ⟨rfl, rfl, rfl, rfl, fun h => absurd h hs⟩

/-- with the lock, a writer that is let through while a snapshot is pending can only mean: updates-only (empty seed) -/
theorem uo_of_not_excluded {w : WConfig} (hl : w.locked = true) (hx : w.writersExcluded = false) (s : List Msg)
    (hs : w.snapped = some s) : w.l.uo = true := by
  simp [WConfig.writersExcluded, hl, hs] at hx
  exact hx

/-- a step of the atomic model that leaves `subscribed` alone and either keeps `present` or happens under an empty
seed, lifted to the window: the invariant is kept as long as `told` is -/
theorem winv_lift {w : WConfig} {l' : LConfig} (h : WInv w)
    (hu : l'.uo = w.l.uo) (ht : l'.p.target = w.l.p.target) (hsb : l'.subscribed = w.l.subscribed)
    (hseed : ∀ s, w.snapped = some s → w.l.uo = true ∨ l'.present = w.l.present)
    (htold : l'.subscribed = true → w.shown = true → l'.present = false → l'.removed = true) :
    WInv { w with l := l' } where
  fresh := fun s hs => by
    obtain ⟨h1, h2⟩ := h.fresh s hs
    exact ⟨by rw [h1]; exact (seed_eq_of w.l l' hu ht (hseed s hs)).symm, by rw [hsb]; exact h2⟩
  told := htold
  shownSub := fun hsh => by rw [hsb]; exact h.shownSub hsh

/-- one step of the split model with the lock: the invariant is kept, and the step is nothing (`snap`) or one step of
the atomic model (`reg` = `sub`) -/
theorem winv_step {w w' : WConfig} {m : WMove} (hl : w.locked = true) (h : WInv w) (hs : wstep w m = some w') :
    WInv w' ∧ w'.locked = true ∧ (w'.l = w.l ∨ ∃ lm, lstep w.l lm = some w'.l) := by
  cases m with
  | snap =>
    simp only [wstep] at hs; split at hs
    · rename_i hc
      cases hs
      refine ⟨⟨?_, h.told, h.shownSub⟩, hl, Or.inl rfl⟩
      intro s hs
      simp only [Option.some.injEq] at hs
      exact ⟨hs.symm, hc.1⟩
    · cases hs
  | reg =>
    simp only [wstep] at hs
    split at hs
    · rename_i s hsn
      split at hs
      · rename_i hns
        cases hs
        have hseed : s = w.l.seed := (h.fresh s hsn).1
        refine ⟨⟨?_, ?_, fun _ => rfl⟩, hl, Or.inr ⟨.sub, ?_⟩⟩
        · intro s' hs'; cases hs'
        · intro _ hsh hpr
          simp only [hseed, LConfig.seed] at hsh
          simp only at hpr
          simp [hpr] at hsh
        · simp [lstep, hns, hseed]
      · cases hs
    · cases hs
  | mv lm =>
    cases lm with
    | sub => simp [wstep] at hs
    | ret =>
      simp only [wstep] at hs
      cases hq : lstep w.l .ret with
      | none => simp [hq] at hs
      | some l' =>
        simp only [hq, Option.map_some, Option.some.injEq] at hs; subst hs
        obtain ⟨hu, ht, hsb, hp, hr⟩ := lstep_ret_facts hq
        exact ⟨winv_lift h hu ht hsb (fun _ _ => Or.inr hp)
          (fun a b c => by rw [hr]; exact h.told (hsb ▸ a) b (hp ▸ c)), hl, Or.inr ⟨_, hq⟩⟩
    | pipe x =>
      simp only [wstep] at hs
      cases hq : lstep w.l (.pipe x) with
      | none => simp [hq] at hs
      | some l' =>
        simp only [hq, Option.map_some, Option.some.injEq] at hs; subst hs
        obtain ⟨_, hu, ht, hsb, hp, hr⟩ := lstep_pipe_facts hq
        exact ⟨winv_lift h hu ht hsb (fun _ _ => Or.inr hp)
          (fun a b c => by rw [hr]; exact h.told (hsb ▸ a) b (hp ▸ c)), hl, Or.inr ⟨_, hq⟩⟩
    | other y =>
      simp only [wstep] at hs
      split at hs
      · cases hs
      · rename_i hx
        cases hq : lstep w.l (.other y) with
        | none => simp [hq] at hs
        | some l' =>
          simp only [hq, Option.map_some, Option.some.injEq] at hs; subst hs
          obtain ⟨hu, ht, hsb, hp, hr⟩ := lstep_other_facts hq
          exact ⟨winv_lift h hu ht hsb (fun _ _ => Or.inr hp)
            (fun a b c => by rw [hr]; exact h.told (hsb ▸ a) b (hp ▸ c)), hl, Or.inr ⟨_, hq⟩⟩
    | upd tag =>
      simp only [wstep] at hs
      split at hs
      · cases hs
      · rename_i hx
        cases hq : lstep w.l (.upd tag) with
        | none => simp [hq] at hs
        | some l' =>
          simp only [hq, Option.map_some, Option.some.injEq] at hs; subst hs
          obtain ⟨hu, ht, hsb, hp, _⟩ := lstep_upd_facts hq
          exact ⟨winv_lift h hu ht hsb (fun s hs => Or.inl (uo_of_not_excluded hl (by simpa using hx) s hs))
            (fun _ _ c => by rw [hp] at c; cases c), hl, Or.inr ⟨_, hq⟩⟩
    | del =>
      simp only [wstep] at hs
      split at hs
      · cases hs
      · rename_i hx
        cases hq : lstep w.l .del with
        | none => simp [hq] at hs
        | some l' =>
          simp only [hq, Option.map_some, Option.some.injEq] at hs; subst hs
          obtain ⟨hu, ht, hsb, _, hr⟩ := lstep_del_facts hq
          exact ⟨winv_lift h hu ht hsb (fun s hs => Or.inl (uo_of_not_excluded hl (by simpa using hx) s hs))
            (fun a _ _ => hr (hsb ▸ a)), hl, Or.inr ⟨_, hq⟩⟩

theorem winv_init (locked sync uo : Bool) (p : PConfig) : WInv (winit locked sync uo p) where
  fresh := fun s hs => by simp [winit] at hs
  told := fun hsub => by simp [winit, linit] at hsub
  shownSub := fun hsh => by simp [winit] at hsh

theorem lrun_snoc (c : LConfig) (sched : List LMove) (m : LMove) : lrun c (sched ++ [m]) = lnext (lrun c sched) m := by
  simp [lrun, List.foldl_append]

/-- every run of the split model with the lock: the invariant, and its atomic-model state is reached by a schedule of
the atomic model -/
theorem winv_run (l0 : LConfig) (sched : List WMove) (w : WConfig) (hl : w.locked = true) (h : WInv w)
    (hr : ∃ ls, w.l = lrun l0 ls) :
    WInv (wrun w sched) ∧ ∃ ls, (wrun w sched).l = lrun l0 ls := by
  induction sched generalizing w with
  | nil => exact ⟨h, hr⟩
  | cons m ms ih =>
    show WInv (wrun (wnext w m) ms) ∧ ∃ ls, (wrun (wnext w m) ms).l = lrun l0 ls
    unfold wnext
    cases hs : wstep w m with
    | none => exact ih w hl h hr
    | some w' =>
      obtain ⟨hi, hl', href⟩ := winv_step hl h hs
      refine ih w' hl' hi ?_
      obtain ⟨ls, hls⟩ := hr
      rcases href with he | ⟨lm, hlm⟩
      · exact ⟨ls, by rw [he]; exact hls⟩
      · exact ⟨ls ++ [lm], by rw [lrun_snoc, ← hls]; simp [lnext, hlm]⟩

end ScVerif.C10
