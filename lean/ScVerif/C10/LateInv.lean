import ScVerif.C10.Late
/-!
C10 — invariants of the late-subscription model (helper lemmas for `PropsLate`).
-/
namespace ScVerif.C10

/-- the shape of the pipeline never changes -/
theorem pstep_static {p p1 : PConfig} {m : PMove} (hs : pstep p m = some p1) :
    p1.hasEx = p.hasEx ∧ p1.hasPid = p.hasPid ∧ p1.target = p.target ∧ p1.keep = p.keep := by
  cases m <;> simp only [pstep] at hs <;> (repeat' (split at hs)) <;>
    first
      | (cases hs; done)
      | (simp only [Option.some.injEq] at hs; subst hs; simp only [fwRecv, exRecv, pidRecv]
         try ((repeat' split) <;> simp))

/-- a backpressure PullID pipeline whose forwarder — whatever else its include filter and the collection's equivalence
(`WithEquivalence` / `WithMessageEquivalence` / `WithNoDuplicates`) drop: `keep` is otherwise ARBITRARY — never drops a
REMOVE of the watched item (a comparer like `cmp.Equal` never relates a message to the absent new value of a
REMOVE) -/
def PConfig.Plain (p : PConfig) : Prop :=
  p.hasEx = false ∧ p.hasPid = true ∧ ∀ tag, p.keep ⟨p.target, .remove, tag⟩ = true

theorem plain_step {p p1 : PConfig} {m : PMove} (h : p.Plain) (hs : pstep p m = some p1) : p1.Plain := by
  obtain ⟨a, b, c, d⟩ := pstep_static hs
  exact ⟨a ▸ h.1, b ▸ h.2.1, fun x => by rw [d, c]; exact h.2.2 x⟩

/-- the REMOVE handed to the subscription has ended it, or is on its way: it sits in the forwarder's hand, next in
line for the PullID stage — unless the subscriber has cancelled in the meantime (then everything ends anyway) -/
def PConfig.InFlight (p : PConfig) : Prop :=
  p.pidDone = true ∨ p.cancelled = true ∨ (p.fwDone = false ∧ ∃ tag, p.fwQ = [⟨p.target, .remove, tag⟩])

theorem inFlight_step {p p1 : PConfig} {m : PMove} (hpl : p.Plain) (h : p.InFlight) (hs : pstep p m = some p1) :
    p1.InFlight := by
  obtain ⟨hex, hpid, hkeep⟩ := hpl
  rcases h with h | h | ⟨hfd, tag, hq⟩
  · -- pidDone is never reset
    left
    cases m <;> simp only [pstep] at hs <;> (repeat' (split at hs)) <;>
      first
        | (cases hs; done)
        | (simp only [Option.some.injEq] at hs; subst hs; simp only [fwRecv, exRecv, pidRecv]
           try ((repeat' split) <;> simp_all))
  · -- neither is cancelled
    right; left
    cases m <;> simp only [pstep] at hs <;> (repeat' (split at hs)) <;>
      first
        | (cases hs; done)
        | (simp only [Option.some.injEq] at hs; subst hs; simp only [fwRecv, exRecv, pidRecv]
           try ((repeat' split) <;> simp_all))
  · cases m <;> simp only [pstep, hq, hex, hpid, hfd] at hs <;> (repeat' (split at hs)) <;>
      first
        | (cases hs; done)
        | (simp only [Option.some.injEq] at hs; subst hs
           simp only [PConfig.InFlight, fwRecv, exRecv, pidRecv] at *
           (repeat' split) <;> simp_all [Msg.remove])

/-- once a REMOVE of the watched item has been handed to the subscription, it stays in flight or has ended it -/
def LFlight (c : LConfig) : Prop :=
  c.p.Plain ∧ (c.removed = true → c.subscribed = true) ∧ (c.removed = true → c.p.InFlight)

theorem lflight_next (c : LConfig) (m : LMove) : LFlight c → LFlight (lnext c m) := by
  intro ⟨hpl, hsb, hf⟩
  unfold lnext
  cases m with
  | ret => simp only [lstep]; split <;> exact ⟨hpl, hsb, hf⟩
  | sub =>
    simp only [lstep]; split
    · rename_i hns
      refine ⟨hpl, fun _ => rfl, ?_⟩
      intro hr
      simp only [Option.getD_some] at hr
      rw [hsb hr] at hns; cases hns
    · exact ⟨hpl, hsb, hf⟩
  | upd tag =>
    simp only [lstep]; split
    · cases hp : pstep c.p (.push ⟨c.p.target, if c.present then .update else .add, tag⟩) with
      | none => exact ⟨hpl, hsb, hf⟩
      | some p' =>
        exact ⟨plain_step hpl hp, hsb, fun hr => by
          have := inFlight_step hpl (hf hr) hp
          obtain ⟨_, _, ht, _⟩ := pstep_static hp
          exact this⟩
    · exact ⟨hpl, hsb, hf⟩
  | del =>
    simp only [lstep]; split
    · exact ⟨hpl, hsb, hf⟩
    · split
      · rename_i hsub
        cases hp : pstep c.p (.push ⟨c.p.target, .remove, 0⟩) with
        | none => exact ⟨hpl, hsb, hf⟩
        | some p' =>
          refine ⟨plain_step hpl hp, fun _ => hsub, fun _ => ?_⟩
          -- a backpressure forwarder takes the event into its (empty) hand
          obtain ⟨hex, hpid, hkeep⟩ := hpl
          simp only [pstep, hex] at hp
          split at hp
          · cases hp
          · simp only [Bool.false_eq_true, if_false] at hp
            split at hp
            · rename_i hg
              simp only [Option.some.injEq] at hp; subst hp
              simp [PConfig.InFlight, fwRecv, hkeep, hg.1]
            · cases hp
      · exact ⟨hpl, hsb, hf⟩
  | other x =>
    simp only [lstep]; split
    · exact ⟨hpl, hsb, hf⟩
    · split
      · cases hp : pstep c.p (.push x) with
        | none => exact ⟨hpl, hsb, hf⟩
        | some p' => exact ⟨plain_step hpl hp, hsb, fun hr => inFlight_step hpl (hf hr) hp⟩
      · exact ⟨hpl, hsb, hf⟩
  | pipe m =>
    simp only [lstep]
    split
    · exact ⟨hpl, hsb, hf⟩
    · split
      · cases hp : pstep c.p _ with
        | none => exact ⟨hpl, hsb, hf⟩
        | some p' => exact ⟨plain_step hpl hp, hsb, fun hr => inFlight_step hpl (hf hr) hp⟩
      · exact ⟨hpl, hsb, hf⟩

theorem lflight_run (c : LConfig) (sched : List LMove) : LFlight c → LFlight (lrun c sched) := by
  induction sched generalizing c with
  | nil => exact id
  | cons m ms ih => intro h; exact ih (lnext c m) (lflight_next c m h)

end ScVerif.C10
