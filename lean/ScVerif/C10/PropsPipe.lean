import ScVerif.C10.Pipe
/-!
# C10 — property theorems, part 2: the forwarding goroutines of one subscription (`pkg/resource`)

"… closes its channel, … every goroutine started for it terminates; a single-item subscription also
ends when the item is removed."  The theorems quantify over every pipeline shape (backpressure on/off,
DropExcess/mergeExcess, Pull/PullID), every filter `keep`, every state and every schedule of the
pipeline's moves.  Only property theorems and non-vacuity examples live in this file.
-/
namespace ScVerif.C10

/-- Once the bus channel is closed (which the bus watcher does after the cancel), EVERY enabled step of
the pipeline other than a repeated `cancel` strictly decreases the measure `pmu` — no message can enter
any more, and each transfer, consumption or exit brings the pipeline closer to empty. -/
theorem C10_pipeline_measure (c c' : PConfig) (m : PMove) (hin : c.inClosed = true)
    (hs : pstep c m = some c') :
    c'.inClosed = true ∧ (m = .cancel → pmu c' = pmu c) ∧ (m ≠ .cancel → pmu c' < pmu c) := by
  cases m <;> simp only [pstep] at hs <;> (repeat' (split at hs)) <;>
    first
      | (cases hs; done)
      | (simp only [Option.some.injEq] at hs; subst hs
         simp only [fwRecv, pidRecv, pmu] at *
         (repeat' split) <;> simp_all <;> omega)

/-- For every schedule: after the bus channel is closed the measure never increases, so at most `pmu c`
further steps (other than repeated cancels) can ever be taken by the subscription's goroutines. -/
theorem C10_pipeline_bounded (c : PConfig) (sched : List PMove) (hin : c.inClosed = true) :
    (prun c sched).inClosed = true ∧ pmu (prun c sched) ≤ pmu c := by
  induction sched generalizing c with
  | nil => exact ⟨hin, Nat.le_refl _⟩
  | cons m ms ih =>
    show (prun (pnext c m) ms).inClosed = true ∧ pmu (prun (pnext c m) ms) ≤ pmu c
    unfold pnext
    cases hs : pstep c m with
    | none => simpa using ih c hin
    | some c' =>
      have h := C10_pipeline_measure c c' m hin hs
      have ih' := ih c' h.1
      refine ⟨by simpa using ih'.1, ?_⟩
      have : pmu c' ≤ pmu c := by
        by_cases hm : m = .cancel
        · exact Nat.le_of_eq (h.2.1 hm)
        · exact Nat.le_of_lt (h.2.2 hm)
      simpa using Nat.le_trans ih'.2 this

/-- Progress (no deadlock inside the subscription): after cancel, the watcher's `closeIn` is enabled, and
once the channel is closed some goroutine of the subscription can always take an exit step until all of
them have returned — whatever each of them holds, with or without a consumer. -/
theorem C10_cancel_releases_pipeline (c : PConfig) (hc : c.cancelled = true) :
    (c.inClosed = false → (pstep c .closeIn).isSome) ∧
    (c.inClosed = true → c.allDone = false →
      ∃ m, m ∈ [PMove.exExit, .fwExitIn, .fwExitCtx, .pidExitIn, .pidExitCtx] ∧ (pstep c m).isSome) := by
  refine ⟨fun h => by simp [pstep, hc, h], ?_⟩
  intro hin hnd
  by_cases h1 : c.hasEx = true ∧ c.exDone = false
  · exact ⟨.exExit, by simp, by simp [pstep, h1, hin]⟩
  · have hfin : c.fwInClosed = true := by
      unfold PConfig.fwInClosed
      cases hE : c.hasEx <;> cases hD : c.exDone <;> simp_all
    by_cases h2 : c.fwDone = false
    · by_cases h3 : c.fwQ = []
      · exact ⟨.fwExitIn, by simp, by simp [pstep, h2, h3, hfin]⟩
      · exact ⟨.fwExitCtx, by simp, by simp [pstep, h2, h3, hc]⟩
    · have hfd : c.fwDone = true := by simpa using h2
      have hp : c.hasPid = true ∧ c.pidDone = false := by
        unfold PConfig.allDone at hnd
        cases hE : c.hasEx <;> cases hD : c.exDone <;> cases hP : c.hasPid <;> cases hQ : c.pidDone <;> simp_all
      by_cases h4 : c.pidQ = []
      · exact ⟨.pidExitIn, by simp, by simp [pstep, hp, h4, hfd]⟩
      · exact ⟨.pidExitCtx, by simp, by simp [pstep, hp, h4, hc]⟩

/-- All goroutines have returned exactly when the measure is zero, and then the consumer's channel is closed. -/
theorem C10_pipeline_done (c : PConfig) :
    (pmu c = 0 ↔ c.allDone = true) ∧ (c.allDone = true → c.outClosed = true) := by
  unfold pmu PConfig.allDone PConfig.outClosed
  cases c.hasEx <;> cases c.exDone <;> cases c.fwDone <;> cases c.hasPid <;> cases c.pidDone <;> simp <;> omega

/-- A single-item subscription ends when the item is removed: when the PullID goroutine receives the
REMOVE of its id, its output channel is closed, and (code after fix 0f3ccd4) the context of the inner
Pull is cancelled — so by the two theorems above everything upstream terminates as well and no writer
is left facing a subscriber that nobody drains. -/
theorem C10_pullid_ends_on_remove (c c' : PConfig) (m : Msg) (r : List Msg)
    (hp : c.hasPid = true) (hf : c.fixed = true) (hq : c.fwQ = m :: r)
    (hid : m.id = c.target) (hrm : m.remove = true) (hs : pstep c .xferFP = some c') :
    c'.outClosed = true ∧ c'.cancelled = true ∧ (c'.inClosed = false → (pstep c' .closeIn).isSome) := by
  simp only [pstep, hq] at hs
  split at hs
  · simp only [Option.some.injEq] at hs; subst hs
    simp [pidRecv, hid, hrm, hf, hp, PConfig.outClosed, pstep]
  · cases hs

/-- non-vacuity: a backpressure PullID(7) that holds the REMOVE of item 7 in its forwarder -/
example : ∃ c c' : PConfig, c.hasPid = true ∧ c.fixed = true ∧ c.fwQ = [⟨7, true, 1⟩] ∧
    pstep c .xferFP = some c' ∧ c'.outClosed = true :=
  ⟨{ hasEx := false, exMerge := false, hasPid := true, target := 7, fixed := true, keep := fun _ => true,
     fwQ := [⟨7, true, 1⟩] }, _, rfl, rfl, rfl, rfl, rfl⟩

/-- The code before fix 0f3ccd4 (`fixed = false`) violates the property, in the model as on the real
code (signature `C10/PullID/after-remove/backpressure/writer-blocked`): after the REMOVE the consumer's
channel is closed, the context is not cancelled, the next event is taken by the inner Pull's forwarder —
and from then on no `push` (a writer's `Bus.Send`) and no step of the subscription is enabled. -/
theorem C10_pullid_unfixed_stalls :
    ∃ c : PConfig, c.fixed = false ∧ c.outClosed = true ∧ c.cancelled = false ∧ c.allDone = false ∧
      (∀ m, pstep c (.push m) = none) ∧
      (∀ mv, mv ∈ [PMove.consume, .closeIn, .xferEF, .xferFP, .exExit, .fwExitIn, .fwExitCtx, .pidExitIn, .pidExitCtx] →
        pstep c mv = none) := by
  refine ⟨prun { hasEx := false, exMerge := false, hasPid := true, target := 7, fixed := false,
                 keep := fun _ => true } [.push ⟨7, true, 1⟩, .xferFP, .push ⟨8, false, 2⟩], rfl, rfl, rfl, rfl, ?_, ?_⟩
  · intro m; rfl
  · intro mv hmv
    simp only [List.mem_cons, List.not_mem_nil, or_false] at hmv
    rcases hmv with h | h | h | h | h | h | h | h | h <;> subst h <;> rfl

end ScVerif.C10
