import ScVerif.C10.Pipe
import ScVerif.C10.PipeInv
import ScVerif.C10.MergeAux
/-!
# C10 — property theorems, part 2: the forwarding goroutines of one subscription (`pkg/resource`)

"… closes its channel, … every goroutine started for it terminates; a single-item subscription also
ends when the item is removed."  The theorems quantify over every pipeline shape (backpressure on/off,
DropExcess/mergeExcess, Pull/PullID), every filter `keep`, every state and every schedule of the
pipeline's moves.  Only property theorems and non-vacuity examples live in this file.
-/
namespace ScVerif.C10

/-- Once the bus channel is closed (which the bus watcher does after the cancel), EVERY enabled step of
the pipeline other than a repeated `cancel` strictly decreases the measure `pmu` — no message can enter
any more, and each transfer, consumption or exit brings the pipeline closer to empty. -/
theorem C10_pipeline_measure (c c' : PConfig) (m : PMove) (hin : c.inClosed = true)
    (hs : pstep c m = some c') :
    c'.inClosed = true ∧ (m = .cancel → pmu c' = pmu c) ∧ (m ≠ .cancel → pmu c' < pmu c) := by
  cases m <;> simp only [pstep] at hs <;> (repeat' (split at hs)) <;>
    first
      | (cases hs; done)
      | (simp only [Option.some.injEq] at hs; subst hs
         simp only [fwRecv, pidRecv, pmu] at *
         (repeat' split) <;> simp_all <;> omega)

/-- For every schedule: after the bus channel is closed the measure never increases, so at most `pmu c`
further steps (other than repeated cancels) can ever be taken by the subscription's goroutines. -/
theorem C10_pipeline_bounded (c : PConfig) (sched : List PMove) (hin : c.inClosed = true) :
    (prun c sched).inClosed = true ∧ pmu (prun c sched) ≤ pmu c := by
  induction sched generalizing c with
  | nil => exact ⟨hin, Nat.le_refl _⟩
  | cons m ms ih =>
    show (prun (pnext c m) ms).inClosed = true ∧ pmu (prun (pnext c m) ms) ≤ pmu c
    unfold pnext
    cases hs : pstep c m with
    | none => simpa using ih c hin
    | some c' =>
      have h := C10_pipeline_measure c c' m hin hs
      have ih' := ih c' h.1
      refine ⟨by simpa using ih'.1, ?_⟩
      have : pmu c' ≤ pmu c := by
        by_cases hm : m = .cancel
        · exact Nat.le_of_eq (h.2.1 hm)
        · exact Nat.le_of_lt (h.2.2 hm)
      simpa using Nat.le_trans ih'.2 this

/-- Progress (no deadlock inside the subscription): after cancel, the watcher's `closeIn` is enabled, and
once the channel is closed some goroutine of the subscription can always take an exit step until all of
them have returned — whatever each of them holds, with or without a consumer. -/
theorem C10_cancel_releases_pipeline (c : PConfig) (hc : c.cancelled = true) :
    (c.inClosed = false → (pstep c .closeIn).isSome) ∧
    (c.inClosed = true → c.allDone = false →
      ∃ m, m ∈ [PMove.exExit, .fwExitIn, .fwExitCtx, .pidExitIn, .pidExitCtx] ∧ (pstep c m).isSome) := by
  refine ⟨fun h => by simp [pstep, hc, h], ?_⟩
  intro hin hnd
  by_cases h1 : c.hasEx = true ∧ c.exDone = false
  · exact ⟨.exExit, by simp, by simp [pstep, h1, hin]⟩
  · have hfin : c.fwInClosed = true := by
      unfold PConfig.fwInClosed
      cases hE : c.hasEx <;> cases hD : c.exDone <;> simp_all
    by_cases h2 : c.fwDone = false
    · by_cases h3 : c.fwQ = []
      · exact ⟨.fwExitIn, by simp, by simp [pstep, h2, h3, hfin]⟩
      · exact ⟨.fwExitCtx, by simp, by simp [pstep, h2, h3, hc]⟩
    · have hfd : c.fwDone = true := by simpa using h2
      have hp : c.hasPid = true ∧ c.pidDone = false := by
        unfold PConfig.allDone at hnd
        cases hE : c.hasEx <;> cases hD : c.exDone <;> cases hP : c.hasPid <;> cases hQ : c.pidDone <;> simp_all
      by_cases h4 : c.pidQ = []
      · exact ⟨.pidExitIn, by simp, by simp [pstep, hp, h4, hfd]⟩
      · exact ⟨.pidExitCtx, by simp, by simp [pstep, hp, h4, hc]⟩

/-- All goroutines have returned exactly when the measure is zero, and then the consumer's channel is closed. -/
theorem C10_pipeline_done (c : PConfig) :
    (pmu c = 0 ↔ c.allDone = true) ∧ (c.allDone = true → c.outClosed = true) := by
  unfold pmu PConfig.allDone PConfig.outClosed
  cases c.hasEx <;> cases c.exDone <;> cases c.fwDone <;> cases c.hasPid <;> cases c.pidDone <;> simp <;> omega

/-- A single-item subscription ends when the item is removed: when the PullID goroutine receives the
REMOVE of its id, its output channel is closed, and (code after fix 0f3ccd4) the context of the inner
Pull is cancelled — so by the two theorems above everything upstream terminates as well and no writer
is left facing a subscriber that nobody drains. -/
theorem C10_pullid_ends_on_remove (c c' : PConfig) (m : Msg) (r : List Msg)
    (hp : c.hasPid = true) (hf : c.fixed = true) (hq : c.fwQ = m :: r)
    (hid : m.id = c.target) (hrm : m.remove = true) (hs : pstep c .xferFP = some c') :
    c'.outClosed = true ∧ c'.cancelled = true ∧ (c'.inClosed = false → (pstep c' .closeIn).isSome) := by
  simp only [pstep, hq] at hs
  split at hs
  · simp only [Option.some.injEq] at hs; subst hs
    simp [pidRecv, hid, hrm, hf, hp, PConfig.outClosed, pstep]
  · cases hs

/-- non-vacuity: a backpressure PullID(7) that holds the REMOVE of item 7 in its forwarder -/
example : ∃ c c' : PConfig, c.hasPid = true ∧ c.fixed = true ∧ c.fwQ = [⟨7, .remove, 1⟩] ∧
    pstep c .xferFP = some c' ∧ c'.outClosed = true :=
  ⟨{ hasEx := false, exMerge := false, hasPid := true, target := 7, fixed := true, keep := fun _ => true,
     fwQ := [⟨7, .remove, 1⟩] }, _, rfl, rfl, rfl, rfl, rfl⟩

/-- … however the ids are spelled.  For EVERY id interceptor `icpt` of the collection: `PullID(ctx, rawSub)`
ends on the event of `Delete(rawDel)` whenever the two spellings name the same item (`icpt rawSub = icpt rawDel`);
`Delete` publishes the intercepted id (`changeOf`), `PullID` compares with the intercepted id (`pullIDTarget`). -/
theorem C10_pullid_ends_any_spelling (icpt : Nat → Nat) (rawSub rawDel tag : Nat) (c c' : PConfig) (r : List Msg)
    (hsame : icpt rawSub = icpt rawDel) (hp : c.hasPid = true) (hf : c.fixed = true)
    (ht : c.target = pullIDTarget icpt rawSub) (hq : c.fwQ = changeOf icpt rawDel .remove tag :: r)
    (hs : pstep c .xferFP = some c') :
    c'.outClosed = true ∧ c'.cancelled = true ∧ (c'.inClosed = false → (pstep c' .closeIn).isSome) :=
  C10_pullid_ends_on_remove c c' _ r hp hf hq (by simp [changeOf, ht, pullIDTarget, hsame]) rfl hs

/-- … and only then: an event about another item (`icpt rawSub ≠ icpt rawOther`), removal or not, is skipped by
the PullID stage — the single-item subscription neither ends nor emits nor cancels anything. -/
theorem C10_pullid_other_item_ignored (icpt : Nat → Nat) (rawSub rawOther tag : Nat) (rm : Kind) (c c' : PConfig)
    (r : List Msg) (hne : icpt rawSub ≠ icpt rawOther) (ht : c.target = pullIDTarget icpt rawSub)
    (hq : c.fwQ = changeOf icpt rawOther rm tag :: r) (hs : pstep c .xferFP = some c') :
    c'.pidDone = c.pidDone ∧ c'.pidQ = c.pidQ ∧ c'.cancelled = c.cancelled ∧ c'.out = c.out ∧ c'.fwQ = r := by
  simp only [pstep, hq] at hs
  split at hs
  · simp only [Option.some.injEq] at hs; subst hs
    have : (changeOf icpt rawOther rm tag).id ≠ c.target := by
      simp [changeOf, ht, pullIDTarget]; exact fun h => hne h.symm
    simp [pidRecv, this]
  · cases hs

/-- non-vacuity, and why `Delete` has to publish the INTERCEPTED id: with the case-folding-like interceptor
`n ↦ n - n % 4`, `PullID(…, 5)` ends on the event of `Delete(6)` (same item 4) — whereas an event carrying the
caller's raw id 6 is skipped and the subscription stays. -/
example :
    let c : PConfig := { hasEx := false, exMerge := false, hasPid := true, target := pullIDTarget (fun n => n - n % 4) 5,
                         fixed := true, keep := fun _ => true }
    ((pstep { c with fwQ := [changeOf (fun n => n - n % 4) 6 .remove 0] } .xferFP).map (·.outClosed)) = some true ∧
    ((pstep { c with fwQ := [⟨6, .remove, 0⟩] } .xferFP).map (·.outClosed)) = some false := by decide

/-- measure of a subscription consumed by a handler that ranges over the channel: the pipeline's plus one
unit for the handler goroutine -/
def rmu (h : RConfig) : Nat := pmu h.p + (if h.hDone then 0 else 1)

/-- The generated gRPC `Pull…` handlers (`for change := range model.Pull…(ctx) { … }`: no `ctx` case of their
own) terminate too: once the bus channel is closed, every enabled step of the subscription's goroutines AND of
the handler (one loop iteration, or leaving the loop on the close) strictly decreases `rmu`; only a repeated
`cancel` leaves it unchanged. -/
theorem C10_range_handler_measure (h h' : RConfig) (m : RMove) (hin : h.p.inClosed = true)
    (hs : rstep h m = some h') :
    h'.p.inClosed = true ∧ (m = .pipe .cancel → rmu h' = rmu h) ∧ (m ≠ .pipe .cancel → rmu h' < rmu h) := by
  cases m with
  | hExit =>
    by_cases hg : h.hDone = false ∧ h.p.outClosed = true ∧ (if h.p.hasPid = true then h.p.pidQ = [] else h.p.fwQ = [])
    · simp only [rstep, hg, and_self, if_true, Option.some.injEq] at hs
      subst hs
      refine ⟨hin, ?_, fun _ => ?_⟩
      · intro e; cases e
      · simp [rmu, hg.1]
    · simp only [rstep, hg, if_false] at hs
      cases hs
  | pipe pm =>
    have key : ∀ p', pstep h.p pm = some p' → h' = { h with p := p' } →
        h'.p.inClosed = true ∧ (RMove.pipe pm = .pipe .cancel → rmu h' = rmu h) ∧
          (RMove.pipe pm ≠ .pipe .cancel → rmu h' < rmu h) := by
      intro p' hp he; subst he
      obtain ⟨a, b, c⟩ := C10_pipeline_measure h.p p' pm hin hp
      refine ⟨a, ?_, ?_⟩
      · intro e; cases e; simp [rmu, b rfl]
      · intro e
        have : pm ≠ .cancel := fun e' => e (by rw [e'])
        have := c this
        simp only [rmu]; omega
    simp only [rstep] at hs
    split at hs
    · cases hs
    · cases hp : pstep h.p pm with
      | none => simp [hp] at hs
      | some p' => simp [hp] at hs; exact key p' hp hs.symm

/-- … and they cannot get stuck: after the cancel and the close of the bus channel, as long as a goroutine of
the subscription is alive or the handler has not returned, an exit step of a stage or the handler's own exit is
enabled — without any cooperation of the handler (it need not receive).  `Tidy` (a returned stage holds
nothing) is an invariant of the pipeline (`tidy_prun`; every fresh subscription satisfies it). -/
theorem C10_range_handler_progress (h : RConfig) (hc : h.p.cancelled = true) (hin : h.p.inClosed = true)
    (ht : h.p.Tidy) (hnd : ¬ (h.p.allDone = true ∧ h.hDone = true)) :
    ∃ m, m ∈ [RMove.pipe .exExit, .pipe .fwExitIn, .pipe .fwExitCtx, .pipe .pidExitIn, .pipe .pidExitCtx, .hExit] ∧
      (rstep h m).isSome := by
  by_cases ha : h.p.allDone = true
  · have hd : h.hDone = false := by
      cases hd : h.hDone with
      | false => rfl
      | true => exact absurd ⟨ha, hd⟩ hnd
    refine ⟨.hExit, by simp, ?_⟩
    have hoc := (C10_pipeline_done h.p).2 ha
    have hq : (if h.p.hasPid = true then h.p.pidQ = [] else h.p.fwQ = []) := by
      unfold PConfig.allDone at ha
      unfold PConfig.outClosed at hoc
      obtain ⟨t1, t2⟩ := ht
      cases hP : h.p.hasPid <;> simp_all
    simp [rstep, hd, hoc, hq]
  · obtain ⟨pm, hmem, hen⟩ := (C10_cancel_releases_pipeline h.p hc).2 hin (by simpa using ha)
    have hne : pm ≠ .consume := by
      simp only [List.mem_cons, List.not_mem_nil, or_false] at hmem
      rcases hmem with rfl | rfl | rfl | rfl | rfl <;> exact fun e => by cases e
    refine ⟨.pipe pm, ?_, ?_⟩
    · simp only [List.mem_cons, List.not_mem_nil, or_false] at hmem ⊢
      rcases hmem with rfl | rfl | rfl | rfl | rfl <;> simp
    · cases hp : pstep h.p pm with
      | none => simp [hp] at hen
      | some p' => simp [rstep, hp, hne]

/-- non-vacuity: a lossy `Value.Pull` ranged over by a handler; after cancel and close, four exit steps bring
`rmu` from 3 to 0: DropExcess, the forwarder and the handler have all returned. -/
example :
    let h0 : RConfig := ⟨{ hasEx := true, exMerge := false, hasPid := false, target := 0, fixed := true,
                            keep := fun _ => true, cancelled := true, inClosed := true }, false⟩
    rmu h0 = 3 ∧
    (((rstep h0 (.pipe .exExit)).bind fun h => (rstep h (.pipe .fwExitIn)).bind fun h => rstep h .hExit).map rmu) = some 0 := by
  decide

/-- measure of a subscription behind a trait-model adapter -/
def amu (a : AConfig) : Nat := 2 * pmu a.p + (if a.aDone then 0 else 1 + (if a.hold then 1 else 0))

/-- Trait-model adapters (fixed aa57613) terminate: once the bus channel is closed every enabled step of the
subscription, of the adapter goroutine and of the subscriber strictly decreases `amu` (a repeated `cancel`
leaves it unchanged). -/
theorem C10_adapter_measure (a a' : AConfig) (m : AMove) (hin : a.p.inClosed = true) (hs : astep a m = some a') :
    a'.p.inClosed = true ∧ (m = .pipe .cancel → amu a' = amu a) ∧ (m ≠ .pipe .cancel → amu a' < amu a) := by
  cases m with
  | pipe pm =>
    simp only [astep] at hs
    split at hs
    · cases hs
    · cases hp : pstep a.p pm with
      | none => simp [hp] at hs
      | some p' =>
        simp [hp] at hs; subst hs
        obtain ⟨x, y, z⟩ := C10_pipeline_measure a.p p' pm hin hp
        refine ⟨x, ?_, ?_⟩
        · intro e; cases e; simp [amu, y rfl]
        · intro e
          have := z (fun e' => e (by rw [e']))
          simp only [amu]; omega
  | aRecv =>
    by_cases hg : a.aDone = false ∧ a.hold = false
    · simp only [astep, hg, and_self, if_true] at hs
      cases hp : pstep a.p .consume with
      | none => simp [hp] at hs
      | some p' =>
        simp [hp] at hs; subst hs
        obtain ⟨x, _, z⟩ := C10_pipeline_measure a.p p' .consume hin hp
        have := z (by intro e; cases e)
        refine ⟨x, ?_, fun _ => ?_⟩
        · intro e; cases e
        · simp only [amu, hg.1, hg.2]; simp; omega
    · simp only [astep, hg, if_false] at hs; cases hs
  | aSend =>
    by_cases hg : a.aDone = false ∧ a.hold = true
    · simp only [astep, hg, and_self, if_true, Option.some.injEq] at hs; subst hs
      refine ⟨hin, ?_, fun _ => ?_⟩
      · intro e; cases e
      · simp [amu, hg.1, hg.2]
    · simp only [astep, hg, if_false] at hs; cases hs
  | aExitIn =>
    by_cases hg : a.aDone = false ∧ a.hold = false ∧ a.p.outClosed = true ∧
        (if a.p.hasPid then a.p.pidQ = [] else a.p.fwQ = [])
    · simp only [astep, hg, and_self, if_true, Option.some.injEq] at hs; subst hs
      refine ⟨hin, ?_, fun _ => ?_⟩
      · intro e; cases e
      · simp [amu, hg.1]; omega
    · simp only [astep, hg, if_false] at hs; cases hs
  | aExitCtx =>
    by_cases hg : a.watchesCtx = true ∧ a.aDone = false ∧ a.hold = true ∧ a.p.cancelled = true
    · simp only [astep, hg, and_self, if_true, Option.some.injEq] at hs; subst hs
      refine ⟨hin, ?_, fun _ => ?_⟩
      · intro e; cases e
      · simp [amu, hg.2.1]; omega
    · simp only [astep, hg, if_false] at hs; cases hs

/-- … and cannot get stuck, whatever the subscriber does: after the cancel and the close of the bus channel, until
every goroutine of the subscription AND the adapter have returned, a step that needs no cooperation of the
subscriber (an exit of a stage, the adapter's `range` seeing the close, or — holding a change nobody takes — its
`ctx.Done()` case) is enabled. -/
theorem C10_adapter_progress (a : AConfig) (hw : a.watchesCtx = true) (hc : a.p.cancelled = true)
    (hin : a.p.inClosed = true) (ht : a.p.Tidy) (hnd : ¬ (a.p.allDone = true ∧ a.aDone = true)) :
    ∃ m, m ≠ .aSend ∧ m ≠ .aRecv ∧ (astep a m).isSome := by
  by_cases ha : a.p.allDone = true
  · have hd : a.aDone = false := by
      cases hd : a.aDone with
      | false => rfl
      | true => exact absurd ⟨ha, hd⟩ hnd
    cases hh : a.hold with
    | true => exact ⟨.aExitCtx, by simp, by simp, by simp [astep, hw, hd, hh, hc]⟩
    | false =>
      have hoc := (C10_pipeline_done a.p).2 ha
      have hq : (if a.p.hasPid = true then a.p.pidQ = [] else a.p.fwQ = []) := by
        unfold PConfig.allDone at ha
        unfold PConfig.outClosed at hoc
        obtain ⟨t1, t2⟩ := ht
        cases hP : a.p.hasPid <;> simp_all
      exact ⟨.aExitIn, by simp, by simp, by simp [astep, hd, hh, hoc, hq]⟩
  · obtain ⟨pm, hmem, hen⟩ := (C10_cancel_releases_pipeline a.p hc).2 hin (by simpa using ha)
    have hne : pm ≠ .consume := by
      simp only [List.mem_cons, List.not_mem_nil, or_false] at hmem
      rcases hmem with rfl | rfl | rfl | rfl | rfl <;> exact fun e => by cases e
    refine ⟨.pipe pm, by simp, by simp, ?_⟩
    cases hp : pstep a.p pm with
    | none => simp [hp] at hen
    | some p' => simp [astep, hp, hne]

/-- measure of a `ModelServer` Pull handler on top of an adapter -/
def gmu (g : GConfig) : Nat := amu g.a + (if g.gDone then 0 else 1)

/-- The gRPC Pull handlers of the trait `ModelServer`s (a loop over the ADAPTER's channel that returns on the close
or as soon as `server.Send` fails) terminate together with everything underneath: once the bus channel is closed,
every enabled step — of the subscription, the adapter, the handler's loop, its return on a failed Send or on the
close — strictly decreases `gmu`; only a repeated `cancel` leaves it unchanged. -/
theorem C10_server_handler_measure (g g' : GConfig) (m : GMove) (hin : g.a.p.inClosed = true)
    (hs : gstep g m = some g') :
    g'.a.p.inClosed = true ∧ (m = .ad (.pipe .cancel) → gmu g' = gmu g) ∧ (m ≠ .ad (.pipe .cancel) → gmu g' < gmu g) := by
  cases m with
  | ad am =>
    simp only [gstep] at hs
    split at hs
    · cases hs
    · cases ha : astep g.a am with
      | none => simp [ha] at hs
      | some a' =>
        simp [ha] at hs; subst hs
        obtain ⟨x, y, z⟩ := C10_adapter_measure g.a a' am hin ha
        refine ⟨x, ?_, ?_⟩
        · intro e; cases e; simp [gmu, y rfl]
        · intro e
          have := z (fun e' => e (by rw [e']))
          simp only [gmu]; omega
  | gFail =>
    simp only [gstep] at hs
    split at hs
    · rename_i hg; simp only [Option.some.injEq] at hs; subst hs
      refine ⟨hin, ?_, fun _ => ?_⟩
      · intro e; cases e
      · simp [gmu, hg]
    · cases hs
  | gExit =>
    simp only [gstep] at hs
    split at hs
    · rename_i hg; simp only [Option.some.injEq] at hs; subst hs
      refine ⟨hin, ?_, fun _ => ?_⟩
      · intro e; cases e
      · simp [gmu, hg.1]
    · cases hs

/-- … and cannot get stuck, whether the stream's `Send` ever fails or not and whether the handler keeps receiving
or has long returned: after the cancel and the close of the bus channel, until every goroutine of the subscription,
the adapter AND the handler have returned, a step that needs neither another loop iteration of the handler nor a
failing `Send` is enabled: an exit of a stage, the adapter's `range` seeing the close or its `ctx.Done()` case, the
handler's `range` seeing the adapter's close.  (`Tidy`, `ATidy`: a returned stage / adapter holds nothing —
invariants, `tidy_step`, `atidy_step`.) -/
theorem C10_server_handler_progress (g : GConfig) (hw : g.a.watchesCtx = true) (hc : g.a.p.cancelled = true)
    (hin : g.a.p.inClosed = true) (ht : g.a.p.Tidy) (hat : g.a.ATidy)
    (hnd : ¬ (g.a.p.allDone = true ∧ g.a.aDone = true ∧ g.gDone = true)) :
    ∃ m, m ≠ .ad .aSend ∧ m ≠ .ad .aRecv ∧ m ≠ .gFail ∧ (gstep g m).isSome := by
  by_cases ha : g.a.p.allDone = true ∧ g.a.aDone = true
  · have hd : g.gDone = false := by
      cases hd : g.gDone with
      | false => rfl
      | true => exact absurd ⟨ha.1, ha.2, hd⟩ hnd
    exact ⟨.gExit, by simp, by simp, by simp, by simp [gstep, hd, ha.2, hat ha.2]⟩
  · obtain ⟨am, h1, h2, hen⟩ := C10_adapter_progress g.a hw hc hin ht ha
    refine ⟨.ad am, ?_, ?_, by simp, ?_⟩
    · intro e; cases e; exact h1 rfl
    · intro e; cases e; exact h2 rfl
    · cases hs : astep g.a am with
      | none => simp [hs] at hen
      | some a' => simp [gstep, hs, h1]

/-- non-vacuity: an `onoffpb`-like server stream (lossy Value.Pull ▸ adapter ▸ handler) whose `Send` failed while the
adapter holds a change: cancel ▸ close, then DropExcess, the forwarder and the adapter (through `ctx.Done()`) return;
`gmu` goes from 6 to 0 without any step of the handler or the client. -/
example :
    let g0 : GConfig := ⟨⟨{ hasEx := true, exMerge := false, hasPid := false, target := 0, fixed := true,
                             keep := fun _ => true, cancelled := true, inClosed := true }, true, true, false⟩, true⟩
    gmu g0 = 6 ∧
    (((gstep g0 (.ad (.pipe .exExit))).bind fun g => (gstep g (.ad (.pipe .fwExitIn))).bind fun g =>
        gstep g (.ad .aExitCtx)).map gmu) = some 0 := by
  decide

/-- The adapters before fix aa57613 (`watchesCtx = false`, a bare `send <- change`) violate the property, in the
model as on the real code (signature `C10/trait/model/goroutine-leak`): the subscriber stopped receiving, a write
arrived, then the cancel — the subscription underneath has terminated completely, the adapter still holds the
change, and no step but the subscriber's own receive is enabled: the goroutine never returns. -/
theorem C10_adapter_unwatched_leaks :
    ∃ a : AConfig, a.watchesCtx = false ∧ a.p.cancelled = true ∧ a.p.inClosed = true ∧ a.p.allDone = true ∧
      a.aDone = false ∧ a.hold = true ∧
      (∀ pm, astep a (.pipe pm) = none ∨ pm = .cancel) ∧ astep a .aRecv = none ∧ astep a .aExitIn = none ∧
      astep a .aExitCtx = none := by
  refine ⟨⟨{ hasEx := false, exMerge := false, hasPid := false, target := 0, fixed := true, keep := fun _ => true,
             cancelled := true, inClosed := true, fwDone := true }, false, true, false⟩,
    rfl, rfl, rfl, rfl, rfl, rfl, ?_, rfl, rfl, rfl⟩
  intro pm
  cases pm <;> simp [astep, pstep, PConfig.fwInClosed]

/-- The code before fix 0f3ccd4 (`fixed = false`) violates the property, in the model as on the real
code (signature `C10/PullID/after-remove/backpressure/writer-blocked`): after the REMOVE the consumer's
channel is closed, the context is not cancelled, the next event is taken by the inner Pull's forwarder —
and from then on no `push` (a writer's `Bus.Send`) and no step of the subscription is enabled. -/
theorem C10_pullid_unfixed_stalls :
    ∃ c : PConfig, c.fixed = false ∧ c.outClosed = true ∧ c.cancelled = false ∧ c.allDone = false ∧
      (∀ m, pstep c (.push m) = none) ∧
      (∀ mv, mv ∈ [PMove.consume, .closeIn, .xferEF, .xferFP, .exExit, .fwExitIn, .fwExitCtx, .pidExitIn, .pidExitCtx] →
        pstep c mv = none) := by
  refine ⟨prun { hasEx := false, exMerge := false, hasPid := true, target := 7, fixed := false,
                 keep := fun _ => true } [.push ⟨7, .remove, 1⟩, .xferFP, .push ⟨8, .update, 2⟩], rfl, rfl, rfl, rfl, ?_, ?_⟩
  · intro m; rfl
  · intro mv hmv
    simp only [List.mem_cons, List.not_mem_nil, or_false] at hmv
    rcases hmv with h | h | h | h | h | h | h | h | h <;> subst h <;> rfl

/-- One entry per id in the excess stage, under every schedule: `mergeCollectionExcess` finds the queued change of
the incoming change's id, takes it out and re-queues the merged one at the back (or nothing: ADD+REMOVE), `DropExcess`
keeps one message — so the queue never holds two changes of one item.  (This is what makes the model's "take every
change of that id out" and the code's "take THE change of that id out" the same thing; C09 proves the same invariant
for its view of the queue.) -/
theorem C10_merge_queue_one_entry_per_id (p : PConfig) (sched : List PMove) (h0 : p.exQ = []) (t : Nat) :
    cnt t (prun p sched).exQ ≤ 1 := by
  have : ∀ (c : PConfig), (∀ t, cnt t c.exQ ≤ 1) → ∀ t, cnt t (prun c sched).exQ ≤ 1 := by
    induction sched with
    | nil => intro c h; exact h
    | cons m ms ih =>
      intro c h
      show ∀ t, cnt t (prun (pnext c m) ms).exQ ≤ 1
      apply ih
      unfold pnext
      cases hs : pstep c m with
      | none => simpa using h
      | some c' => simpa using uniq_step h hs
  exact this p (fun t => by rw [h0]; simp [cnt]) t

/-- non-vacuity: three changes of item 7 and one of item 3 pushed into an undrained merge stage leave one entry each -/
example :
    let p : PConfig := { hasEx := true, exMerge := true, hasPid := false, target := 0, fixed := true, keep := fun _ => true,
                         fwQ := [⟨9, .add, 0⟩] }
    (prun p [.push ⟨7, .update, 1⟩, .push ⟨3, .add, 2⟩, .push ⟨7, .remove, 3⟩, .push ⟨7, .add, 4⟩]).exQ
      = [⟨3, .add, 2⟩, ⟨7, .replace, 4⟩] := by decide

end ScVerif.C10
