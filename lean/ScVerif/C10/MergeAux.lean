import ScVerif.C10.Pipe
/-!
C10 — list lemmas about `mergeQ` (`mergeCollectionExcess`'s queue) seen from ONE item `t`: what the queue holds for
`t` (`ent`), and that it holds at most one change of it.
-/
namespace ScVerif.C10

/-- the queued change of item `t`, if any -/
def ent (t : Nat) (q : List Msg) : Option Msg := q.find? fun x => x.id = t
/-- number of queued changes of item `t` -/
def cnt (t : Nat) (q : List Msg) : Nat := q.countP fun x => x.id = t

theorem ent_none_iff_cnt_zero (t : Nat) (q : List Msg) : ent t q = none ↔ cnt t q = 0 := by
  simp [ent, cnt, List.find?_eq_none, List.countP_eq_zero]

theorem ent_none_of_cnt_zero {t : Nat} {q : List Msg} (h : cnt t q = 0) : ent t q = none :=
  (ent_none_iff_cnt_zero t q).mpr h

theorem cnt_zero_of_ent_none {t : Nat} {q : List Msg} (h : ent t q = none) : cnt t q = 0 :=
  (ent_none_iff_cnt_zero t q).mp h

theorem ent_append (t : Nat) (a b : List Msg) : ent t (a ++ b) = (ent t a).or (ent t b) := by
  simp [ent, List.find?_append]

theorem cnt_append (t : Nat) (a b : List Msg) : cnt t (a ++ b) = cnt t a + cnt t b := by
  simp [cnt, List.countP_append]

theorem ent_filter_self (t : Nat) (q : List Msg) : ent t (q.filter fun x => x.id ≠ t) = none := by
  induction q with
  | nil => rfl
  | cons x xs ih =>
    by_cases hx : x.id = t
    · simp only [List.filter_cons, hx, ne_eq, not_true_eq_false, decide_false]; exact ih
    · simp only [List.filter_cons, hx, ne_eq, not_false_eq_true, decide_true, if_true, ent, List.find?_cons,
        decide_false]
      exact ih

theorem ent_filter_other (t u : Nat) (hne : u ≠ t) (q : List Msg) :
    ent t (q.filter fun x => x.id ≠ u) = ent t q := by
  induction q with
  | nil => rfl
  | cons x xs ih =>
    by_cases hu : x.id = u
    · have hx : x.id ≠ t := fun h => hne (hu ▸ h)
      simp only [List.filter_cons, hu, ne_eq, not_true_eq_false, decide_false]
      simp only [ent, List.find?_cons, hx, decide_false]
      exact ih
    · simp only [List.filter_cons, hu, ne_eq, not_false_eq_true, decide_true, if_true]
      by_cases hx : x.id = t
      · simp [ent, List.find?_cons, hx]
      · simp only [ent, List.find?_cons, hx, decide_false]
        exact ih

theorem cnt_filter_other (t u : Nat) (hne : u ≠ t) (q : List Msg) :
    cnt t (q.filter fun x => x.id ≠ u) = cnt t q := by
  induction q with
  | nil => rfl
  | cons x xs ih =>
    by_cases hu : x.id = u
    · have : x.id ≠ t := fun h => hne (hu ▸ h)
      simp only [List.filter_cons, hu, ne_eq, not_true_eq_false, decide_false]
      simp only [cnt, List.countP_cons, this, decide_false] at ih ⊢
      simpa using ih
    · simp only [List.filter_cons, hu, ne_eq, not_false_eq_true, decide_true, if_true]
      simp only [cnt, List.countP_cons] at ih ⊢
      rw [ih]

/-- a change of ANOTHER item leaves `t`'s queued change alone -/
theorem mergeQ_other (t : Nat) (q : List Msg) (m : Msg) (hm : m.id ≠ t) :
    ent t (mergeQ q m) = ent t q ∧ cnt t (mergeQ q m) = cnt t q := by
  have hnot : ent t [m] = none := by simp [ent, hm]
  have hc0 : cnt t [m] = 0 := by simp [cnt, hm]
  unfold mergeQ
  split
  · rw [ent_append, cnt_append, hnot, hc0]; simp
  · split
    · exact ⟨ent_filter_other t m.id hm q, cnt_filter_other t m.id hm q⟩
    · rename_i k _
      have hnot' : ent t [{ m with kind := k }] = none := by simp [ent, hm]
      have hc0' : cnt t [{ m with kind := k }] = 0 := by simp [cnt, hm]
      rw [ent_append, cnt_append, hnot', hc0', ent_filter_other t m.id hm q, cnt_filter_other t m.id hm q]; simp

/-- a change of item `t` itself: merged with the queued one (`mergeChanges`), at most one entry afterwards -/
theorem mergeQ_same (q : List Msg) (m : Msg) :
    ent m.id (mergeQ q m) =
      (match ent m.id q with
       | none => some m
       | some old => (mergeKind old.kind m.kind).map fun k => { m with kind := k }) ∧
    (cnt m.id q ≤ 1 → cnt m.id (mergeQ q m) ≤ 1) := by
  unfold mergeQ
  have hfind : (q.find? fun x => x.id = m.id) = ent m.id q := rfl
  rw [hfind]
  cases he : ent m.id q with
  | none =>
    have h0 := cnt_zero_of_ent_none he
    refine ⟨?_, fun _ => ?_⟩
    · rw [ent_append, he]; simp [ent]
    · rw [cnt_append, h0]; simp [cnt]
  | some old =>
    have hf := ent_filter_self m.id q
    have hc := cnt_zero_of_ent_none hf
    cases hk : mergeKind old.kind m.kind with
    | none =>
      simp only [hk, Option.map_none]
      exact ⟨hf, fun _ => by rw [hc]; omega⟩
    | some k =>
      simp only [hk, Option.map_some]
      refine ⟨?_, fun _ => ?_⟩
      · rw [ent_append, hf]; simp [ent]
      · rw [cnt_append, hc]; simp [cnt]

/-- taking the head out of a queue that holds at most one change of `t` -/
theorem ent_pop (t : Nat) (h : Msg) (r : List Msg) (hc : cnt t (h :: r) ≤ 1) :
    (h.id = t → ent t (h :: r) = some h ∧ ent t r = none ∧ cnt t r = 0) ∧
    (h.id ≠ t → ent t r = ent t (h :: r) ∧ cnt t r ≤ 1) := by
  constructor
  · intro hid
    have : cnt t r = 0 := by simp only [cnt, List.countP_cons, hid, decide_true, if_true] at hc ⊢; omega
    exact ⟨by simp [ent, List.find?_cons, hid], ent_none_of_cnt_zero this, this⟩
  · intro hid
    refine ⟨by simp [ent, List.find?_cons, hid], ?_⟩
    simp only [cnt, List.countP_cons, hid, decide_false] at hc ⊢
    simpa using hc

theorem cnt_tail_le (t : Nat) (h : Msg) (r : List Msg) : cnt t r ≤ cnt t (h :: r) := by
  simp only [cnt, List.countP_cons]; omega

/-- one entry per id in the queue of the excess stage: preserved by every step of the pipeline -/
theorem uniq_step {c c' : PConfig} {m : PMove} (h : ∀ t, cnt t c.exQ ≤ 1) (hs : pstep c m = some c') :
    ∀ t, cnt t c'.exQ ≤ 1 := by
  intro t
  have ht := h t
  cases m <;> simp only [pstep] at hs <;> (repeat' (split at hs)) <;>
    first
      | (cases hs; done)
      | (simp only [Option.some.injEq] at hs; subst hs; simp only [fwRecv, exRecv, pidRecv]
         (repeat' split) <;> first
           | exact ht
           | (simp [cnt]; done)
           | (rename_i hq _ _; rw [hq] at ht; exact Nat.le_trans (cnt_tail_le t _ _) ht)
           | skip)
  -- push into the excess stage
  all_goals
    rename_i x _ _ _ _
    first
      | (by_cases hx : x.id = t
         · subst hx; exact (mergeQ_same c.exQ x).2 ht
         · rw [(mergeQ_other t c.exQ x hx).2]; exact ht)
      | (simp only [cnt, List.countP_cons, List.countP_nil]; split <;> omega)

end ScVerif.C10
