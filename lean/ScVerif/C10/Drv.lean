import ScVerif.Base.Line
import ScVerif.C10.Bus
import ScVerif.C10.DrvSys
import ScVerif.C10.DrvLate
import ScVerif.C10.DrvWindow
import ScVerif.C10.DrvMerge
import ScVerif.C10.DrvInclude
/-!
Driver handler for C10: an *acceptor* over the bus model (K4 tie) and the pipeline model.

The harness drives the real code through the yield points; after each macro move it reports what it
observes (where each goroutine is parked or blocked, what each consumer has received).  The driver
keeps the set of model configurations consistent with the observations so far; a macro move maps each
to all configurations reachable by letting the released goroutines run to their next yield point or
blocking operation (every interleaving, every `select` choice); the observation filters the set.  An
observation that empties the set is a disagreement.  Nothing here is proved about (I/O glue).
-/
namespace ScVerif.C10

open ScVerif.Line

/-- model configuration + which sender goroutines are currently released by the harness -/
structure HConfig where
  c : Config
  go : Nat → Bool        -- sender released (runs until its next yield point)
  aft : Nat → Bool       -- sender parked at `bus.send.afterSnapshot`
  col : Option Nat := none        -- sender parked at `bus.collect.scanned`: it holds `listenerM.Lock`; its scan
                                  -- (= the model's atomic `sCollect`) is done, only the return is outstanding
  pendR : Nat → Bool := fun _ => false   -- `Listen` released but waiting for `listenerM.Lock`
  pendS : Nat → Bool := fun _ => false   -- `Send` called but waiting for `listenerM.RLock` (snapshot)
  nS : Nat
  nL : Nat

def showEv (e : Ev) : String := s!"{e.sender}.{e.seq}"

def showWPc : WPc → String
  | .none => "n" | .await => "a" | .enter => "e" | .wait => "w" | .locked => "L" | .closing => "C"
  | .unlock => "U" | .done => "d"

def showLPc : LPc → String | .init => "-" | .spawned => "p" | .registered => "+"

def showSel : Sel → String | .delivered => "d" | .listenCancelled => "l" | .sendCancelled => "s"

def showResults (rs : List Bool) : String := String.join (rs.map fun b => if b then "T" else "F")

/-- what the harness can observe of sender `t` -/
def obsSender (h : HConfig) (t : Nat) : String :=
  let S := h.c.ss t
  if h.col = some t then s!"S{t}=c:{showResults S.results.dropLast}"
  else
  let st :=
    match S.pc with
    | .idle => if h.pendS t then "r" else "i"
    | .loop => if h.aft t then "a" else if h.go t then (if S.rest = [] then "?" else "r") else "b"
    | .rlocked => if h.go t then "s" else "k"
    | .selected _ => "?"
    | .gc => if h.col.isSome then "r" else "?"
  s!"S{t}={st}:{showResults S.results}"

def obsListener (h : HConfig) (l : Nat) : String :=
  let L := h.c.ls l
  let evs := ",".intercalate (L.recvd.map showEv)
  let pend := if L.rcvReady then "?" else ""
  let cl := if L.sawClose then "x" else ""
  let lp := if h.pendR l then "B" else showLPc L.lpc
  s!"L{l}={lp}{showWPc L.wpc}[{evs}]{pend}{cl}"

def obs (h : HConfig) : String :=
  ";".intercalate ((List.range h.nS).map (obsSender h) ++ (List.range h.nL).map (obsListener h))

def showNats (xs : List Nat) : String := ",".intercalate (xs.map toString)

/-- complete rendering (identity of a configuration inside the frontier) -/
def full (h : HConfig) : String :=
  let ss := (List.range h.nS).map fun t =>
    let S := h.c.ss t
    let pc := match S.pc with
      | .idle => "i" | .loop => "l" | .rlocked => "r" | .selected o => "s" ++ showSel o | .gc => "g"
    s!"{pc}/{S.cur}/{S.todo}/{showNats S.visited}/{showNats S.rest}/{S.needGc}/{S.ctxDone}/{h.go t}/{h.aft t}"
  let ls := (List.range h.nL).map fun l =>
    let L := h.c.ls l
    s!"{L.cancelled}/{L.closed}/{L.isNil}/{showNats L.readers}/{L.wWait}/{L.wHeld}"
  let cs := match h.col with | some t => s!"c{t}" | none => "c-"
  obs h ++ "#" ++ cs ++ "#" ++ " ".intercalate ss ++ "#" ++ " ".intercalate ls ++ "#" ++ showNats h.c.bus ++ s!"#{h.c.panicked}"

/-- internal moves: those the released goroutines can take without the harness -/
def internalMoves (h : HConfig) : List Move :=
  let sm := (List.range h.nS).flatMap fun t =>
    if h.go t then
      match (h.c.ss t).pc with
      | .loop => if (h.c.ss t).rest = [] then [Move.sFinish t] else [Move.sAcquire t]
      | .rlocked => [Move.sDeliver t, Move.sListenCancelled t, Move.sSendCancelled t]
      | .selected _ => [Move.sRelease t]
      | .gc => if h.col.isSome then [] else [Move.sCollect t]
      | .idle => []
    else if h.pendS t ∧ h.col.isNone then [Move.sSnapshot t]
    else []
  let wm := (List.range h.nL).flatMap fun l =>
    match (h.c.ls l).wpc with
    | .await => [Move.wAwake l]
    | .wait => [Move.wLockAcq l]
    | .locked => [Move.wClose l]
    | .closing => [Move.wNil l]
    | .unlock => [Move.wUnlock l]
    | _ => []
  let rm := (List.range h.nL).flatMap fun l =>
    if h.pendR l ∧ h.col.isNone then [Move.lRegister l] else []
  sm ++ wm ++ rm

/-- after a sender step: parked again at `beforeListener`, or back in the harness -/
def afterMove (h : HConfig) (c' : Config) (m : Move) : HConfig :=
  match m with
  | .sAcquire t => { h with c := c', go := upd h.go t false }   -- parked at `listener.send.locked`
  | .sCollect t => { h with c := c', go := upd h.go t false, col := some t }   -- parked at `bus.collect.scanned`
  | .sSnapshot t => { h with c := c', pendS := upd h.pendS t false, aft := upd h.aft t true, go := upd h.go t false }
  | .lRegister l => { h with c := c', pendR := upd h.pendR l false }
  | .sRelease t | .sFinish t =>
    let S := c'.ss t
    let parked := (S.pc = .loop ∧ S.rest ≠ []) ∨ S.pc = .idle
    { h with c := c', go := if parked then upd h.go t false else h.go }
  | _ => { h with c := c' }

def succs (h : HConfig) : List HConfig :=
  (internalMoves h).filterMap fun m => (step h.c m).map fun c' => afterMove h c' m

/-- all quiescent configurations reachable by internal moves (depth-first, with a seen set) -/
def settle : Nat → List HConfig → List String → List HConfig → List HConfig
  | 0, _, _, done => done
  | _, [], _, done => done
  | fuel + 1, h :: work, seen, done =>
    let key := full h
    if seen.contains key then settle fuel work seen done
    else
      match succs h with
      | [] => settle fuel work (key :: seen) (h :: done)
      | ss => settle fuel (ss ++ work) (key :: seen) done

def settleAll (hs : List HConfig) : List HConfig := settle 20000 hs [] []

/-- a macro move of the harness applied to one configuration (`none` = not applicable there) -/
def macroStep (h : HConfig) : List String → Option HConfig
  | ["send", t] => do
    let t ← parseNat? t
    if h.col.isSome then
      let S := h.c.ss t
      if S.pc = .idle ∧ 0 < S.todo ∧ h.pendS t = false then some { h with pendS := upd h.pendS t true } else none
    else
      let c' ← step h.c (.sSnapshot t)
      some { h with c := c', aft := upd h.aft t true, go := upd h.go t false }
  | ["S", t] => do
    let t ← parseNat? t
    let S := h.c.ss t
    if h.col = some t then some { h with col := none }
    else if S.pc = .loop ∧ h.go t = false then
      if h.aft t then some { h with aft := upd h.aft t false, go := upd h.go t (decide (S.rest = [])) }
      else some { h with go := upd h.go t true }
    else if S.pc = .rlocked ∧ h.go t = false then some { h with go := upd h.go t true }
    else none
  | ["cancel", l] => do
    let l ← parseNat? l
    (step h.c (.cancel l)).map fun c' => { h with c := c' }
  | ["cancelSend", t] => do
    let t ← parseNat? t
    (step h.c (.cancelSend t)).map fun c' => { h with c := c' }
  | ["recv", l] => do
    let l ← parseNat? l
    (step h.c (.recvReq l)).map fun c' => { h with c := c' }
  | ["listen", l] => do
    let l ← parseNat? l
    (step h.c (.lSpawn l)).map fun c' => { h with c := c' }
  | ["R", l] => do
    let l ← parseNat? l
    if h.col.isSome then
      if (h.c.ls l).lpc = .spawned ∧ h.pendR l = false then some { h with pendR := upd h.pendR l true } else none
    else (step h.c (.lRegister l)).map fun c' => { h with c := c' }
  | ["W", l] => do
    let l ← parseNat? l
    (step h.c (.wLockReq l)).map fun c' => { h with c := c' }
  | _ => none

def dedupObs (hs : List HConfig) : List String :=
  hs.foldl (fun acc h => let o := obs h; if acc.contains o then acc else acc ++ [o]) []

structure DState where
  frontier : List HConfig := []
  sfrontier : List HSys := []

/--
Requests:
* `init nS nL todo0,todo1,…`            → `ok`
* `op <observed> <macro…>`              → `ok <observed>` if some model successor shows exactly this
                                           observation, else `no <obs1>|<obs2>|…` (what the model allows)
* `panicked`                            → `true` if any configuration of the frontier has panicked
* `pinit …` / `pop <observed> <macro…>` → the same protocol for the composed model (`DrvSys.lean`)
* `late <sync> <uo> <bp> <pre> <del|cancel> <observed>` → acceptor of the late-subscription model (`DrvLate.lean`)
* `window <locked> <uo> <bp> <pre> <observed>` → acceptor of the seed-and-register window model (`DrvWindow.lean`)
* `mseq <kinds>` → the change type `mergeChanges` leaves held after folding the letters a/u/r/p, or `none` (`DrvMerge.lean`)
* `incl <start> <steps>` → the change types a `WithInclude` subscriber receives for an item that starts `n`/`i`/`e` and goes through the given states (`DrvInclude.lean`)
-/
def handleS (st : DState) (toks : List String) : DState × String :=
  match toks with
  | ["init", nS, nL, todo] =>
    match parseNat? nS, parseNat? nL, parseIntList? todo with
    | some nS, some nL, some td =>
      let tdf := fun t => (td.getD t 0).toNat
      ({ st with frontier := [{ c := init tdf, go := fun _ => false, aft := fun _ => false, nS := nS, nL := nL }] }, "ok")
    | _, _, _ => (st, "!bad-op")
  | "op" :: observed :: mac =>
    let next := settleAll (st.frontier.filterMap fun h => macroStep h mac)
    if next.isEmpty then (st, "!bad-op")
    else
      let keep := next.filter fun h => obs h == observed
      if keep.isEmpty then ({ st with frontier := next }, "no " ++ "|".intercalate (dedupObs next))
      else ({ st with frontier := keep }, "ok " ++ observed)
  | ["panicked"] => (st, showBool (st.frontier.any fun h => h.c.panicked))
  | "pinit" :: rest =>
    match sInit rest with
    | some h =>
      let fr := ssettle 40000 [h] [] []
      ({ st with sfrontier := fr }, "ok " ++ "|".intercalate (sDedupObs fr))
    | none => (st, "!bad-op")
  | "pop" :: observed :: mac =>
    let (fr, ans) := sHandle st.sfrontier observed mac
    ({ st with sfrontier := fr }, ans)
  | "late" :: rest => (st, handleLate rest)
  | "window" :: rest => (st, handleWindow rest)
  | "mseq" :: rest => (st, handleMerge rest)
  | "incl" :: rest => (st, handleInclude rest)
  | _ => (st, "!bad-op")

end ScVerif.C10
