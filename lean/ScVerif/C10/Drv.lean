import ScVerif.Base.Line
/-! Driver handler for C10 (stub: replaced by the property's owner). -/
namespace ScVerif.C10

def handle (_toks : List String) : String := "!bad-op"

end ScVerif.C10
