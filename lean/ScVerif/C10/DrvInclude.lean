import ScVerif.Base.Line
import ScVerif.C10.Include
/-!
Driver glue for `includeChg` (`Include.lean`): `incl <start> <steps>` — the item starts absent (`n`), with a value the
filter includes (`i`) or one it excludes (`e`); every letter of `<steps>` is the state the next change takes it to
(absent → value = ADD, value → absent = REMOVE, value → value = UPDATE).  Answers the change types a subscriber with
the filter receives (letters a u r p, `-` = nothing).  Values are numbers, the filter is "even": the k-th change writes
2k (included) or 2k+1 (excluded); an initial value is 0 or 1.
-/
namespace ScVerif.C10

def inclVal (k : Nat) : Char → Option (Option Nat)
  | 'n' => some none
  | 'i' => some (some (2 * k))
  | 'e' => some (some (2 * k + 1))
  | _ => none

def inclChain : Nat → Option Nat → List Char → Option (List (Chg Nat))
  | _, _, [] => some []
  | k, v, c :: cs =>
    match inclVal k c with
    | none => none
    | some nv =>
      match v, nv with
      | none, none => none   -- not a change
      | _, _ =>
        let kind : Kind := match v, nv with
          | none, _ => .add
          | _, none => .remove
          | _, _ => .update
        (inclChain (k + 1) nv cs).map fun rest => ⟨kind, v, nv⟩ :: rest

def showKinds (ks : List Kind) : String :=
  if ks.isEmpty then "-" else
  String.ofList (ks.map fun | .add => 'a' | .update => 'u' | .remove => 'r' | .replace => 'p')

def handleInclude (toks : List String) : String :=
  match toks with
  | [start, steps] =>
    match start.toList with
    | [s] =>
      match inclVal 0 s with
      | some v0 =>
        match inclChain 1 v0 steps.toList with
        | some cs => showKinds (forwarded (fun n : Nat => n % 2 == 0) cs)
        | none => "!bad-op"
      | none => "!bad-op"
    | _ => "!bad-op"
  | _ => "!bad-op"

end ScVerif.C10
