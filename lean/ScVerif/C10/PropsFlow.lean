import ScVerif.C10.PipeFlow
import ScVerif.C10.PropsSys
/-!
# C10 — property theorems, part 4: what reaches the user's end of ANY subscription

"An event sent on the bus reaches every listener that is live for the whole send exactly once, in per-sender
order" is proved on the bus (`PropsBus.lean`) and carried to the user's end of a backpressure `Pull` by
`C10_e2e_backpressure_lossless`.  This file covers the other shapes — lossy stages (`DropExcess`,
`mergeCollectionExcess` with `mergeChanges`, ADD-then-REMOVE annihilation included), any filter, `PullID` — for
every schedule, cancel at any position included:

* NO shape ever duplicates, reorders or invents an event (`C10_pipeline_no_dup_no_reorder`, end to end
  `C10_e2e_no_dup_no_reorder`): what the user received is a subsequence of `seeds ++ delivered by the bus`,
  comparing events by (item, written value) — the change type is what `mergeChanges` rewrites;
* a backpressure `PullID` is LOSSLESS on its item (`C10_pullid_lossless`, end to end `C10_e2e_pullid_lossless`).

Only property theorems and non-vacuity examples live in this file.
-/
namespace ScVerif.C10

/-- Pipeline level, every shape (backpressure or not, DropExcess or mergeCollectionExcess, Pull or PullID, fixed or
not), every filter, every start state and every strict schedule `ps` (cancel, close and exits anywhere): the
events the user has received, as (item, value) pairs, are a SUBSEQUENCE of what the subscription held at the start
(oldest first) followed by what was pushed into it — never a duplicate, never two events swapped, never an event
nobody wrote. -/
theorem C10_pipeline_no_dup_no_reorder (p c : PConfig) (ps : List PMove) (h : pexec p ps = some c) :
    (c.out.map Msg.key).Sublist ((p.flow ++ pushesOf ps).map Msg.key) := by
  refine List.Sublist.trans ?_ (flow_pexec h)
  unfold PConfig.flow
  rw [List.map_append]
  exact List.sublist_append_left _ _

/-- END TO END, every pipeline shape and filter, every composed schedule: what the user of subscription `l` has
received is, as (item, value) pairs, a subsequence of its seed values followed by the payloads of the events the
bus model records as delivered to listener `l` — for which `C10_exactly_once` / `C10_per_sender_order` hold
(`C10_e2e_bus`).  So no subscription of any kind ever sees an event twice or two events of one writer out of
order, however cancels, closes, merges and drops interleave. -/
theorem C10_e2e_no_dup_no_reorder (pl : Ev → Msg) (todo : Nat → Nat) (pipes : Nat → PConfig)
    (sched : List SMove) (l : Nat) (hf : (pipes l).Fresh) :
    let s := srun pl ⟨init todo, pipes⟩ sched
    ((s.pipe l).out.map Msg.key).Sublist (((pipes l).fwQ ++ (s.bus.ls l).recvd.map pl).map Msg.key) := by
  intro s
  obtain ⟨bs, ps, _, h2, h3⟩ := C10_e2e_refines pl todo pipes sched l
  have h := C10_pipeline_no_dup_no_reorder _ _ ps h2
  obtain ⟨_, _, f3, _, _, f6, _, f8⟩ := hf
  have hflow : (pipes l).flow = (pipes l).fwQ := by
    unfold PConfig.flow; rw [f3, f6, f8]; simp
  rw [hflow, h3] at h
  exact h

/-- non-vacuity, and the annihilation: a lossy `Collection.Pull` whose consumer is not receiving; the forwarder
holds ADD(5), the queue of `mergeCollectionExcess` gets ADD(6), UPDATE(5), then REMOVE(6): ADD(6) and REMOVE(6)
annihilate, the queue holds UPDATE(5) only; the user then receives ADD(5)#1 and UPDATE(5)#3 — a subsequence. -/
example :
    let p : PConfig := { hasEx := true, exMerge := true, hasPid := false, target := 0, fixed := true, keep := fun _ => true }
    let c := prun p [.push ⟨5, .add, 1⟩, .xferEF, .push ⟨6, .add, 2⟩, .push ⟨5, .update, 3⟩, .push ⟨6, .remove, 0⟩,
                     .consume, .xferEF, .consume]
    c.exQ = [] ∧ c.out = [⟨5, .add, 1⟩, ⟨5, .update, 3⟩] := by decide

/-- … and the other merges of `mergeChanges` a subscription's shutdown can meet: REMOVE then ADD of one item is
handed on as one REPLACE (a `PullID` of that item then does NOT end: the item exists), UPDATE then REMOVE as the
REMOVE. -/
example :
    mergeQ [⟨5, .remove, 0⟩] ⟨5, .add, 7⟩ = [⟨5, .replace, 7⟩] ∧
    mergeQ [⟨4, .add, 1⟩, ⟨5, .update, 2⟩] ⟨5, .remove, 0⟩ = [⟨4, .add, 1⟩, ⟨5, .remove, 0⟩] ∧
    mergeQ [⟨4, .add, 1⟩, ⟨5, .update, 2⟩] ⟨4, .update, 3⟩ = [⟨5, .update, 2⟩, ⟨4, .add, 3⟩] := by decide

/-- A backpressure `PullID` (no excess stage, pass-all filter) is lossless on its item, for every strict schedule
from a fresh subscription: (1) as long as the inner Pull's forwarder and the PullID goroutine are alive, what the
user received ++ what the PullID goroutine holds ++ the item's events in the forwarder's hand is EXACTLY the item's
part of `seeds ++ pushed` — nothing lost, duplicated or reordered, other items' events dropped; (2) always, the user
has received a prefix of the item's events up to (excluding) its first REMOVE: nothing after the removal, and never
the removal itself. -/
theorem C10_pullid_lossless (p c : PConfig) (ps : List PMove) (hf : p.Fresh) (hex : p.hasEx = false)
    (hpid : p.hasPid = true) (hk : ∀ x, p.keep x = true) (h : pexec p ps = some c) :
    (c.fwDone = false → c.pidDone = false →
      c.out ++ (c.pidQ ++ onItem p.target c.fwQ) = onItem p.target (p.fwQ ++ pushesOf ps)) ∧
    c.out <+: (onItem p.target (p.fwQ ++ pushesOf ps)).takeWhile (fun x => !x.remove) := by
  obtain ⟨_, _, _, _, f5, f6, f7, f8⟩ := hf
  have h0 : PidInv p p.fwQ := by
    refine ⟨fun _ _ => by rw [f6, f8]; rfl, ⟨onItem p.target p.fwQ, by rw [f6, f8]; rfl⟩, ?_⟩
    intro x hx; rw [f6, f8] at hx; cases hx
  obtain ⟨ht, h1, ⟨t, h2⟩, h3⟩ := pidInv_pexec hex hpid hk h0 h
  rw [ht] at h1 h2
  refine ⟨h1, ?_⟩
  apply prefix_takeWhile
  · exact ⟨c.pidQ ++ t, h2⟩
  · intro x hx
    have := h3 x (List.mem_append_left _ hx)
    simp [this]

/-- END TO END for a backpressure `PullID` on listener `l`, every composed schedule: with `delivered` = the payloads
of the events the bus delivered to the inner Pull's listener, the user has received a prefix of the item's events in
`seeds ++ delivered` up to its first REMOVE, and while both goroutines are alive nothing of the item is missing:
received ++ held = the item's events in `seeds ++ delivered`.  With `C10_exactly_once` / `C10_per_sender_order`
(`C10_e2e_bus`) and `C10_e2e_pullid_ends_on_remove`: a single-item subscriber live for a whole Send gets that
event of its item exactly once, in order, and after the removal nothing more. -/
theorem C10_e2e_pullid_lossless (pl : Ev → Msg) (todo : Nat → Nat) (pipes : Nat → PConfig)
    (sched : List SMove) (l : Nat) (hf : (pipes l).Fresh) (hex : (pipes l).hasEx = false)
    (hpid : (pipes l).hasPid = true) (hk : ∀ x, (pipes l).keep x = true) :
    let s := srun pl ⟨init todo, pipes⟩ sched
    let hist := onItem (pipes l).target ((pipes l).fwQ ++ (s.bus.ls l).recvd.map pl)
    ((s.pipe l).fwDone = false → (s.pipe l).pidDone = false →
      (s.pipe l).out ++ ((s.pipe l).pidQ ++ onItem (pipes l).target (s.pipe l).fwQ) = hist) ∧
    (s.pipe l).out <+: hist.takeWhile (fun x => !x.remove) := by
  intro s hist
  obtain ⟨bs, ps, _, h2, h3⟩ := C10_e2e_refines pl todo pipes sched l
  have := C10_pullid_lossless _ _ ps hf hex hpid hk h2
  rw [h3] at this
  exact this

/-- non-vacuity: backpressure `PullID(7)` with seed value #1; the bus delivers UPDATE(8)#2 (another item),
UPDATE(7)#3, REMOVE(7), and — to the forwarder, before the cancel reaches the bus — UPDATE(7)#4 written after the
removal: the user receives exactly #1, #3 and the close. -/
example :
    let p : PConfig := { hasEx := false, exMerge := false, hasPid := true, target := 7, fixed := true,
                         keep := fun _ => true, fwQ := [⟨7, .add, 1⟩] }
    let c := prun p [.xferFP, .consume, .push ⟨8, .update, 2⟩, .xferFP, .push ⟨7, .update, 3⟩, .xferFP, .consume,
                     .push ⟨7, .remove, 0⟩, .xferFP, .push ⟨7, .update, 4⟩]
    c.out = [⟨7, .add, 1⟩, ⟨7, .update, 3⟩] ∧ c.outClosed = true ∧ c.cancelled = true := by decide

/-- EXACTLY ONCE AT THE USER'S END of a backpressure `Pull` (pass-all filter), every composed schedule: when the loop
of sender `t`'s `Send` has gone through its whole snapshot, every subscription `l` that was registered when the
snapshot was taken and whose context is still not cancelled — live for the whole send — has this call's event exactly
once among what the user has received and what the forwarding goroutine holds out to the user right now; never
twice, never missing.  (`pl` maps distinct events to distinct messages, none of them a seed value; that the
forwarder is still alive follows: it returns only after the cancel.) -/
theorem C10_e2e_exactly_once_at_user (pl : Ev → Msg) (hinj : ∀ x y, pl x = pl y → x = y) (todo : Nat → Nat)
    (pipes : Nat → PConfig) (sched : List SMove) (l t : Nat) (hf : ∀ l, (pipes l).Fresh)
    (hex : (pipes l).hasEx = false) (hpid : (pipes l).hasPid = false) (hk : ∀ x, (pipes l).keep x = true)
    (hseed : ∀ e, pl e ∉ (pipes l).fwQ) :
    let s := srun pl ⟨init todo, pipes⟩ sched
    (s.bus.ss t).pc = .loop → (s.bus.ss t).rest = [] → l ∈ (s.bus.ss t).snap → (s.bus.ls l).cancelled = false →
    ((s.pipe l).out ++ (s.pipe l).fwQ).count (pl ⟨t, (s.bus.ss t).cur⟩) = 1 := by
  intro s hpc hrest hl hcan
  have hr : SReachable pl s := ⟨todo, pipes, sched, hf, rfl⟩
  have hI := hr.sinv
  have hone := C10_exactly_once s.bus hI.reach t l hpc hrest hl hcan
  have halive : (s.pipe l).fwDone = false := by
    cases hd : (s.pipe l).fwDone with
    | false => rfl
    | true =>
      have := (hI.causal l).2.2.1 hd
      rw [hI.link.cancelled l, hcan] at this; cases this
  have hloss := (C10_e2e_backpressure_lossless pl todo pipes sched l (hf l) hex hpid hk).2 halive
  rw [hloss, List.count_append, List.count_eq_zero_of_not_mem (hseed _), count_map_inj pl hinj, hone]

/-- EXACTLY ONCE AT THE USER'S END of a backpressure `PullID` (code after fixes 0f3ccd4/d125dc4), every composed
schedule: an event ABOUT THE ITEM sent while the single-item subscription was live for the whole send is exactly once
among: received by the user, held out to the user by the PullID goroutine, in the inner Pull's forwarder on its way.
(Both goroutines are alive: they return only after a cancel, and PullID's own return on the REMOVE cancels.) -/
theorem C10_e2e_pullid_exactly_once_at_user (pl : Ev → Msg) (hinj : ∀ x y, pl x = pl y → x = y) (todo : Nat → Nat)
    (pipes : Nat → PConfig) (sched : List SMove) (l t : Nat) (hf : ∀ l, (pipes l).Fresh)
    (hex : (pipes l).hasEx = false) (hpid : (pipes l).hasPid = true) (hfix : (pipes l).fixed = true)
    (hk : ∀ x, (pipes l).keep x = true) (hseed : ∀ e, pl e ∉ (pipes l).fwQ) :
    let s := srun pl ⟨init todo, pipes⟩ sched
    (s.bus.ss t).pc = .loop → (s.bus.ss t).rest = [] → l ∈ (s.bus.ss t).snap → (s.bus.ls l).cancelled = false →
    (pl ⟨t, (s.bus.ss t).cur⟩).id = (pipes l).target →
    ((s.pipe l).out ++ ((s.pipe l).pidQ ++ (s.pipe l).fwQ)).count (pl ⟨t, (s.bus.ss t).cur⟩) = 1 := by
  intro s hpc hrest hl hcan hid
  have hr : SReachable pl s := ⟨todo, pipes, sched, hf, rfl⟩
  have hI := hr.sinv
  have hone := C10_exactly_once s.bus hI.reach t l hpc hrest hl hcan
  have hnc : (s.pipe l).cancelled = false := by rw [hI.link.cancelled l, hcan]
  have halive : (s.pipe l).fwDone = false := by
    cases hd : (s.pipe l).fwDone with
    | false => rfl
    | true => have := (hI.causal l).2.2.1 hd; rw [hnc] at this; cases this
  obtain ⟨bs, ps, _, h2, h3⟩ := C10_e2e_refines pl todo pipes sched l
  have hfixed : (s.pipe l).fixed = true := by
    rw [pexec_fixed h2, hfix]
  have hpalive : (s.pipe l).pidDone = false := by
    cases hd : (s.pipe l).pidDone with
    | false => rfl
    | true => have := (hI.causal l).2.2.2 hfixed hd; rw [hnc] at this; cases this
  have hloss := (C10_e2e_pullid_lossless pl todo pipes sched l (hf l) hex hpid hk).1 halive hpalive
  have hc := congrArg (List.count (pl ⟨t, (s.bus.ss t).cur⟩)) hloss
  simp only [List.count_append] at hc
  rw [count_onItem _ _ hid, count_onItem _ _ hid, List.count_append,
    List.count_eq_zero_of_not_mem (hseed _), count_map_inj pl hinj, hone] at hc
  simp only [List.count_append]
  omega

/-- non-vacuity of the two theorems: one listener, one `Send`, the loop is through; the event is in the forwarder's
hand (backpressure Pull) — exactly once, not yet received. -/
example :
    let pipes : Nat → PConfig := fun _ =>
      { hasEx := false, exMerge := false, hasPid := false, target := 0, fixed := true, keep := fun _ => true }
    let s := srun (fun e => ⟨e.sender, .update, e.seq⟩) ⟨init fun _ => 1, pipes⟩
      [.bus (.lSpawn 0), .bus (.lRegister 0), .bus (.sSnapshot 0), .bus (.sAcquire 0), .deliver 0, .bus (.sRelease 0)]
    (s.bus.ss 0).pc = .loop ∧ (s.bus.ss 0).rest = [] ∧ 0 ∈ (s.bus.ss 0).snap ∧ (s.bus.ls 0).cancelled = false ∧
      (s.pipe 0).out = [] ∧ (s.pipe 0).fwQ = [⟨0, .update, 1⟩] := by decide

/-- END TO END: a subscription WITHOUT backpressure never makes a writer wait, whatever its consumer does and
whatever state its stages are in.  In every reachable composed state, a sender that is inside `listener.send` on a
listener whose pipeline starts with an excess stage (`DropExcess` / `mergeCollectionExcess`) can complete its
`select` at once: by the rendezvous with the stage (which always receives — `C10`'s reading of "never stalls
writers", the stage exits only after the bus channel was closed) or, once the subscription is cancelled, through
`l.ctx.Done()`. -/
theorem C10_e2e_lossy_never_blocks_writer (pl : Ev → Msg) (s : Sys) (h : SReachable pl s) (t l : Nat) (tl : List Nat)
    (hpc : (s.bus.ss t).pc = .rlocked) (hrest : (s.bus.ss t).rest = l :: tl) (hex : (s.pipe l).hasEx = true) :
    (sstep pl s (.deliver t)).isSome ∨ (sstep pl s (.bus (.sListenCancelled t))).isSome := by
  have hI := h.sinv
  cases hcan : (s.bus.ls l).cancelled with
  | true => exact Or.inr (C10_e2e_writer_released pl s t l tl hpc hrest hcan)
  | false =>
    left
    have hw : (s.bus.ls l).wpc = .none ∨ (s.bus.ls l).wpc = .await := by
      have := hI.watcher l
      cases hwp : (s.bus.ls l).wpc <;> simp_all
    have hcl : (s.bus.ls l).closed = false := by
      rw [hI.reach.inv.lock.closed l]; rcases hw with hw | hw <;> simp [hw, WPc.isClosed]
    have hnil : (s.bus.ls l).isNil = false := by
      rw [hI.reach.inv.lock.nil l]; rcases hw with hw | hw <;> simp [hw, WPc.nilled]
    have hin : (s.pipe l).inClosed = false := by rw [hI.link.closed l, hcl]
    have hexd : (s.pipe l).exDone = false := by
      cases hd : (s.pipe l).exDone with
      | false => rfl
      | true => have := hI.ex l hd; rw [hin] at this; cases this
    simp [sstep, hrest, step, hI.link.ready l, hI.link.noSaw l, hcl, hnil, hpc, Config.setL,
      pstep, hin, hex, hexd]

/-- non-vacuity: a lossy `Value.Pull` whose consumer never receives; two writers are inside `listener.send` at the
same time (both hold the read lock): each of them can deliver — `DropExcess` takes both, keeping the newer. -/
example :
    let pipes : Nat → PConfig := fun _ =>
      { hasEx := true, exMerge := false, hasPid := false, target := 0, fixed := true, keep := fun _ => true }
    let pl : Ev → Msg := fun e => ⟨0, .update, e.sender + 1⟩
    let s := srun pl ⟨init fun _ => 1, pipes⟩
      [.bus (.lSpawn 0), .bus (.lRegister 0), .bus (.sSnapshot 0), .bus (.sSnapshot 1), .bus (.sAcquire 0),
       .bus (.sAcquire 1)]
    (s.bus.ss 0).pc = .rlocked ∧ (s.bus.ss 1).pc = .rlocked ∧
      (((srun pl s [.deliver 0, .deliver 1]).pipe 0).exQ = [⟨0, .update, 2⟩]) := by decide

end ScVerif.C10
