/-!
C10 — the Pull fan-in of a trait Group (pkg/trait/lightpb/group.go `(*Group).PullBrightness`, pkg/trait/onoffpb/group.go
`(*Group).PullOnOff`, on top of pkg/group `Execute`): helper definitions and lemmas for `PropsGroup`.

Goroutines of one group subscription:
* the handler: `for { select { case err := <-returnErr: return err; case msg := <-memberValues: … server.Send … } }`;
  when `Send` fails it cancels the members' context and (at HEAD) receives `returnErr` before it returns; a deferred
  cancel runs on every return;
* the fan-in goroutine: `_, err := group.Execute(ctx, strategy, actions); returnErr <- err` — `Execute` returns when
  every member action has returned; `returnErr` has capacity 1 at HEAD;
* one member action per member: `for { response, err := stream.Recv(); if err != nil { break }; select { case
  memberValues <- …: case <-ctx.Done(): return } }`.

The members are interchangeable, so the state counts them: `nRecv` inside `Recv`, `nHand` offering a value to the
handler; the rest have returned.  `buffered` (capacity of `returnErr`) and `waits` (the receive on the failed-Send path)
are parameters: the theorems hold whenever at least one of them is as in the code.
-/
namespace ScVerif.C10

inductive ESt | waiting | sending | done
deriving DecidableEq, Repr

inductive HSt | loop | waitErr | done
deriving DecidableEq, Repr

structure GConfig where
  buffered : Bool            -- `returnErr := make(chan error, 1)`
  waits : Bool               -- failed Send: `cancelFunc(); <-returnErr; return err`
  cancelled : Bool := false  -- the context the member actions run on (the handler's derived context)
  nRecv : Nat                -- members inside stream.Recv
  nHand : Nat := 0           -- members in `select { case memberValues <- v: case <-ctx.Done(): }`
  exec : ESt := .waiting     -- the fan-in goroutine: inside group.Execute / at `returnErr <- err` / returned
  buf : Bool := false        -- returnErr's buffer holds the result
  handler : HSt := .loop
deriving Repr

inductive GMove
  | value                          -- a member's Recv returns a change (its context is live)
  | memberErr (cancelsOthers : Bool) -- a member's Recv (or its Pull call) returns an error — its own stream failed, or
                                   -- the context is done; under ExecuteAll an error cancels the other members, under
                                   -- the other strategies it may not
  | handOver (sendOk : Bool)       -- rendezvous on memberValues; the handler then Sends (or skips an unchanged value)
  | handGiveUp                     -- a member offering a value sees ctx.Done
  | execDone                       -- every member action has returned: group.Execute returns
  | execSend                       -- `returnErr <- err` into the buffer
  | recvErr                        -- the handler receives returnErr (from the buffer, or by rendezvous) and returns
  | streamCancel                   -- the stream's context is cancelled (the client went away)
deriving DecidableEq, Repr

def genabled (c : GConfig) : GMove → Bool
  | .value => !c.cancelled && decide (0 < c.nRecv)
  | .memberErr _ => decide (0 < c.nRecv)
  | .handOver _ => decide (0 < c.nHand) && decide (c.handler = .loop)
  | .handGiveUp => decide (0 < c.nHand) && c.cancelled
  | .execDone => decide (c.exec = .waiting) && decide (c.nRecv = 0) && decide (c.nHand = 0)
  | .execSend => decide (c.exec = .sending) && c.buffered && !c.buf
  | .recvErr => decide (c.handler ≠ .done) && (c.buf || decide (c.exec = .sending))
  | .streamCancel => !c.cancelled

def gstep (c : GConfig) (m : GMove) : GConfig :=
  if genabled c m = false then c else
  match m with
  | .value => { c with nRecv := c.nRecv - 1, nHand := c.nHand + 1 }
  | .memberErr b => { c with nRecv := c.nRecv - 1, cancelled := c.cancelled || b }
  | .handOver ok =>
    let c' := { c with nHand := c.nHand - 1, nRecv := c.nRecv + 1 }
    if ok then c'
    else if c.waits then { c' with cancelled := true, handler := .waitErr }
    else { c' with cancelled := true, handler := .done }   -- `return err`, the deferred cancel runs
  | .handGiveUp => { c with nHand := c.nHand - 1 }
  | .execDone => { c with exec := .sending }
  | .execSend => { c with exec := .done, buf := true }
  | .recvErr =>
    if c.buf then { c with buf := false, handler := .done, cancelled := true }
    else { c with exec := .done, handler := .done, cancelled := true }
  | .streamCancel => { c with cancelled := true }

def grun (c : GConfig) (sched : List GMove) : GConfig := sched.foldl gstep c

def ginit (buffered waits : Bool) (n : Nat) : GConfig := { buffered := buffered, waits := waits, nRecv := n }

def GConfig.allDone (c : GConfig) : Prop :=
  c.nRecv = 0 ∧ c.nHand = 0 ∧ c.exec = .done ∧ c.handler = .done

def ESt.w : ESt → Nat | .waiting => 2 | .sending => 1 | .done => 0
def HSt.w : HSt → Nat | .loop => 2 | .waitErr => 1 | .done => 0

/-- steps still to be taken by the subscription's goroutines once the members' context is cancelled -/
def gmeasure (c : GConfig) : Nat := c.nRecv + 2 * c.nHand + c.exec.w + c.handler.w

structure GInv (c : GConfig) : Prop where
  safe : c.buffered = true ∨ c.waits = true
  bufExec : c.buf = true → c.exec = .done
  doneCancelled : c.handler ≠ .loop → c.cancelled = true
  doneExec : c.handler = .done → c.exec = .done ∨ c.buffered = true
  execBuf : c.exec = .done → c.handler = .done ∨ c.buf = true
  execMembers : c.exec ≠ .waiting → c.nRecv = 0 ∧ c.nHand = 0

theorem ginv_init (buffered waits : Bool) (n : Nat) (h : buffered = true ∨ waits = true) :
    GInv (ginit buffered waits n) := by
  refine ⟨h, ?_, ?_, ?_, ?_, ?_⟩ <;> simp [ginit]

theorem gstep_params (c : GConfig) (m : GMove) :
    (gstep c m).buffered = c.buffered ∧ (gstep c m).waits = c.waits := by
  unfold gstep
  split
  · exact ⟨rfl, rfl⟩
  · cases m <;> simp <;> (repeat' split) <;> simp

theorem ginv_step (c : GConfig) (m : GMove) (h : GInv c) : GInv (gstep c m) := by
  obtain ⟨hs, h1, h2, h3, h4, h5⟩ := h
  unfold gstep
  by_cases he : genabled c m = false
  · rw [if_pos he]; exact ⟨hs, h1, h2, h3, h4, h5⟩
  · rw [if_neg he]
    have he' : genabled c m = true := by simpa using he
    cases m with
    | value =>
      simp only [genabled, Bool.and_eq_true, decide_eq_true_eq] at he'
      have hw : c.exec = .waiting := by
        cases hx : c.exec with
        | waiting => rfl
        | sending => have := (h5 (by simp [hx])).1; omega
        | done => have := (h5 (by simp [hx])).1; omega
      refine ⟨hs, h1, h2, h3, h4, ?_⟩
      intro hne; exact absurd hw hne
    | memberErr b =>
      simp only [genabled, decide_eq_true_eq] at he'
      have hw : c.exec = .waiting := by
        cases hx : c.exec with
        | waiting => rfl
        | sending => have := (h5 (by simp [hx])).1; omega
        | done => have := (h5 (by simp [hx])).1; omega
      refine ⟨hs, h1, ?_, h3, h4, ?_⟩
      · intro hh; simp [h2 hh]
      · intro hne; exact absurd hw hne
    | handOver ok =>
      simp only [genabled, Bool.and_eq_true, decide_eq_true_eq] at he'
      obtain ⟨hn, hl⟩ := he'
      have hw : c.exec = .waiting := by
        cases hx : c.exec with
        | waiting => rfl
        | sending => have := (h5 (by simp [hx])).2; omega
        | done => have := (h5 (by simp [hx])).2; omega
      cases ok with
      | true =>
        refine ⟨hs, h1, h2, h3, h4, ?_⟩
        intro hne; exact absurd hw hne
      | false =>
        cases hwt : c.waits with
        | true =>
          simp only [if_true, Bool.false_eq_true, if_false]
          refine ⟨Or.inr rfl, h1, ?_, ?_, ?_, ?_⟩
          · intro _; rfl
          · intro hh; simp at hh
          · intro hh; simp [hw] at hh
          · intro hne; exact absurd hw hne
        | false =>
          simp only [Bool.false_eq_true, if_false]
          have hb : c.buffered = true := by
            rcases hs with hb | hb
            · exact hb
            · rw [hwt] at hb; exact absurd hb (by simp)
          refine ⟨Or.inl hb, h1, ?_, ?_, ?_, ?_⟩
          · intro _; rfl
          · intro _; exact Or.inr hb
          · intro hh; simp [hw] at hh
          · intro hne; exact absurd hw hne
    | handGiveUp =>
      simp only [genabled, Bool.and_eq_true, decide_eq_true_eq] at he'
      have hw : c.exec = .waiting := by
        cases hx : c.exec with
        | waiting => rfl
        | sending => have := (h5 (by simp [hx])).2; omega
        | done => have := (h5 (by simp [hx])).2; omega
      refine ⟨hs, h1, h2, h3, h4, ?_⟩
      intro hne; exact absurd hw hne
    | execDone =>
      simp only [genabled, Bool.and_eq_true, decide_eq_true_eq] at he'
      obtain ⟨⟨hw, hr⟩, hh⟩ := he'
      refine ⟨hs, ?_, h2, ?_, ?_, ?_⟩
      · intro hb; have := h1 hb; rw [hw] at this; cases this
      · intro hd
        rcases h3 hd with h | h
        · rw [hw] at h; cases h
        · exact Or.inr h
      · intro hx; simp at hx
      · intro _; exact ⟨hr, hh⟩
    | execSend =>
      simp only [genabled, Bool.and_eq_true, decide_eq_true_eq, Bool.not_eq_true'] at he'
      obtain ⟨⟨hx, hb⟩, hnb⟩ := he'
      refine ⟨hs, ?_, h2, ?_, ?_, ?_⟩
      · intro _; rfl
      · intro _; exact Or.inl rfl
      · intro _; exact Or.inr rfl
      · intro _; exact h5 (by simp [hx])
    | recvErr =>
      simp only [genabled, Bool.and_eq_true, decide_eq_true_eq, Bool.or_eq_true] at he'
      obtain ⟨hnd, hsrc⟩ := he'
      cases hb : c.buf with
      | true =>
        simp only [if_true]
        have hx := h1 hb
        refine ⟨hs, ?_, ?_, ?_, ?_, ?_⟩
        · intro hh; simp at hh
        · intro _; rfl
        · intro _; exact Or.inl hx
        · intro _; exact Or.inl rfl
        · intro _; exact h5 (by simp [hx])
      | false =>
        simp only [Bool.false_eq_true, if_false]
        have hx : c.exec = .sending := by
          rcases hsrc with h | h
          · rw [hb] at h; cases h
          · exact h
        refine ⟨hs, ?_, ?_, ?_, ?_, ?_⟩
        · intro hh; simp at hh
        · intro _; rfl
        · intro _; exact Or.inl rfl
        · intro _; exact Or.inl rfl
        · intro _; exact h5 (by simp [hx])
    | streamCancel =>
      refine ⟨hs, h1, ?_, h3, h4, h5⟩
      intro _; rfl

theorem ginv_run (sched : List GMove) : ∀ c, GInv c → GInv (grun c sched) := by
  induction sched with
  | nil => intro c h; exact h
  | cons m ms ih => intro c h; exact ih _ (ginv_step c m h)

/-- once the members' context is cancelled: unless everything has returned, some goroutine of the subscription can
take a step -/
theorem gprogress (c : GConfig) (h : GInv c) (hc : c.cancelled = true) :
    c.allDone ∨ ∃ m, genabled c m = true := by
  by_cases hr : 0 < c.nRecv
  · exact Or.inr ⟨.memberErr false, by simp [genabled, hr]⟩
  by_cases hh : 0 < c.nHand
  · exact Or.inr ⟨.handGiveUp, by simp [genabled, hh, hc]⟩
  have hr0 : c.nRecv = 0 := by omega
  have hh0 : c.nHand = 0 := by omega
  cases hx : c.exec with
  | waiting => exact Or.inr ⟨.execDone, by simp [genabled, hx, hr0, hh0]⟩
  | sending =>
    by_cases hd : c.handler = .done
    · have hb : c.buffered = true := by
        rcases h.doneExec hd with h' | h'
        · rw [hx] at h'; cases h'
        · exact h'
      have hnb : c.buf = false := by
        cases hbb : c.buf with
        | false => rfl
        | true => have := h.bufExec hbb; rw [hx] at this; cases this
      exact Or.inr ⟨.execSend, by simp [genabled, hx, hb, hnb]⟩
    · exact Or.inr ⟨.recvErr, by simp [genabled, hx, hd]⟩
  | done =>
    by_cases hd : c.handler = .done
    · exact Or.inl ⟨hr0, hh0, hx, hd⟩
    · have hb : c.buf = true := by
        rcases h.execBuf hx with h' | h'
        · exact absurd h' hd
        · exact h'
      exact Or.inr ⟨.recvErr, by simp [genabled, hd, hb]⟩

/-- … and every step that can be taken then brings the end nearer -/
theorem gdecreases (c : GConfig) (m : GMove) (hc : c.cancelled = true) (he : genabled c m = true) :
    gmeasure (gstep c m) < gmeasure c := by
  unfold gstep
  rw [if_neg (by simp [he])]
  cases m with
  | value => simp [genabled, hc] at he
  | memberErr b =>
    simp only [genabled, decide_eq_true_eq] at he
    simp only [gmeasure]; omega
  | handOver ok =>
    simp only [genabled, Bool.and_eq_true, decide_eq_true_eq] at he
    obtain ⟨hn, hl⟩ := he
    cases ok with
    | true => simp only [gmeasure, if_true]; omega
    | false =>
      cases hw : c.waits <;> simp only [gmeasure, Bool.false_eq_true, if_false, if_true, hl, HSt.w] <;> omega
  | handGiveUp =>
    simp only [genabled, Bool.and_eq_true, decide_eq_true_eq] at he
    simp only [gmeasure]; omega
  | execDone =>
    simp only [genabled, Bool.and_eq_true, decide_eq_true_eq] at he
    simp only [gmeasure, he.1.1, ESt.w]; omega
  | execSend =>
    simp only [genabled, Bool.and_eq_true, decide_eq_true_eq] at he
    simp only [gmeasure, he.1.1, ESt.w]; omega
  | recvErr =>
    simp only [genabled, Bool.and_eq_true, decide_eq_true_eq, Bool.or_eq_true] at he
    obtain ⟨hnd, _⟩ := he
    cases hb : c.buf <;> cases hh : c.handler <;> cases hx : c.exec <;>
      first
        | exact absurd hh hnd
        | (simp only [gmeasure, hh, hx, HSt.w, ESt.w, if_true, if_false, Bool.false_eq_true]; omega)
  | streamCancel => simp [genabled, hc] at he

end ScVerif.C10
