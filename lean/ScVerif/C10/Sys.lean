import ScVerif.C10.BusMeasure
import ScVerif.C10.Pipe
/-!
C10 — the composed model: the bus, with the forwarding pipeline of `pkg/resource` as the consumer of
each listener.  The environment assumptions each model made about the other become synchronised steps:

* `deliver t`  : the rendezvous `l.ch <- event` of sender `t` with the FIRST pipeline stage of its current
                 listener `l` = bus steps `recvReq l` ▸ `sDeliver t` together with pipeline step `push`
                 (enabled only if both sides are: the sender is inside `select`, the stage is receiving);
* `cancel l`   : the subscription's context = the bus listener's context = the pipeline's context;
* `close l`    : the watcher's `close(l.ch)` = the pipeline's `closeIn`;
* `pipe l m`   : an internal step of `l`'s pipeline (transfer, consume, exit); when the fixed PullID cancels
                 its child context on return, the same context is the inner Pull's listen context, so the
                 bus listener is cancelled in the same step;
* `bus m`      : every other bus step (snapshots, lock steps, select outcomes without rendezvous, collect …).
-/
namespace ScVerif.C10

structure Sys where
  bus : Config
  pipe : Nat → PConfig

inductive SMove
  | bus (m : Move) | deliver (t : Nat) | cancel (l : Nat) | close (l : Nat) | pipe (l : Nat) (m : PMove)

/-- bus moves that do not involve the consumer of a listener -/
def busFree : Move → Bool
  | .sDeliver _ | .recvReq _ | .cancel _ | .wClose _ => false
  | _ => true

/-- pipeline moves that are not synchronised with the bus -/
def internalP : PMove → Bool
  | .push _ | .cancel | .closeIn => false
  | _ => true

def sstep (payload : Ev → Msg) (s : Sys) : SMove → Option Sys
  | .bus m => if busFree m then (step s.bus m).map fun b => { s with bus := b } else none
  | .deliver t =>
    match (s.bus.ss t).rest with
    | [] => none
    | l :: _ =>
      (step s.bus (.recvReq l)).bind fun b1 =>
      (step b1 (.sDeliver t)).bind fun b2 =>
      (pstep (s.pipe l) (.push (payload ⟨t, (s.bus.ss t).cur⟩))).map fun p' =>
        { bus := b2, pipe := upd s.pipe l p' }
  | .cancel l =>
    some { bus := next s.bus (.cancel l), pipe := upd s.pipe l (pnext (s.pipe l) .cancel) }
  | .close l =>
    (step s.bus (.wClose l)).map fun b => { bus := b, pipe := upd s.pipe l (pnext (s.pipe l) .closeIn) }
  | .pipe l m =>
    if internalP m then
      (pstep (s.pipe l) m).map fun p' =>
        { bus := if p'.cancelled = true ∧ (s.bus.ls l).cancelled = false then next s.bus (.cancel l) else s.bus,
          pipe := upd s.pipe l p' }
    else none

def snext (payload : Ev → Msg) (s : Sys) (m : SMove) : Sys := (sstep payload s m).getD s
def srun (payload : Ev → Msg) (s : Sys) (sched : List SMove) : Sys := sched.foldl (snext payload) s

/-- a fresh pipeline: any shape, nothing held but the seed values, nothing cancelled or closed -/
def PConfig.Fresh (p : PConfig) : Prop :=
  p.cancelled = false ∧ p.inClosed = false ∧ p.exQ = [] ∧ p.exDone = false ∧ p.fwDone = false ∧
  p.pidQ = [] ∧ p.pidDone = false ∧ p.out = []

/-- reachable composed states: any `todo`, any pipeline shapes/filters/seeds, any payload, any schedule -/
def SReachable (payload : Ev → Msg) (s : Sys) : Prop :=
  ∃ todo pipes sched, (∀ l, (pipes l).Fresh) ∧ s = srun payload ⟨init todo, pipes⟩ sched

/-- the bus-side fact the pipeline relies on: the watcher only gets past `<-ctx.Done()` after the cancel -/
def WatcherInv (c : Config) : Prop :=
  ∀ l, (c.ls l).wpc ≠ .none → (c.ls l).wpc ≠ .await → (c.ls l).cancelled = true

theorem watcherInv_init (todo : Nat → Nat) : WatcherInv (init todo) := by
  intro l h; simp [init] at h

theorem watcherInv_step {c c' : Config} {m : Move} (hL : LockInv c) (h : WatcherInv c)
    (hs : step c m = some c') : WatcherInv c' := by
  have hf := hL.fresh
  unfold WatcherInv at *
  cases m <;> simp only [step] at hs <;> (repeat' (split at hs)) <;>
    first
      | (cases hs; done)
      | (simp only [Option.some.injEq] at hs; subst hs; bus_auto)

theorem watcherInv_next {c : Config} (m : Move) (hL : LockInv c) (h : WatcherInv c) : WatcherInv (next c m) := by
  unfold next
  cases hs : step c m with
  | none => simpa using h
  | some c' => simpa using watcherInv_step hL h hs

theorem watcherInv_run {c : Config} (sched : List Move) (hI : Inv c) (h : WatcherInv c) :
    WatcherInv (run c sched) := by
  induction sched generalizing c with
  | nil => exact h
  | cons m ms ih => exact ih (inv_next m hI) (watcherInv_next m hI.lock h)

/-- the link between the two halves of a composed state -/
structure Link (s : Sys) : Prop where
  cancelled : ∀ l, (s.pipe l).cancelled = (s.bus.ls l).cancelled
  closed : ∀ l, (s.pipe l).inClosed = (s.bus.ls l).closed
  ready : ∀ l, (s.bus.ls l).rcvReady = false
  noSaw : ∀ l, (s.bus.ls l).sawClose = false

theorem next_of_step {c c' : Config} {m : Move} (h : step c m = some c') : next c m = c' := by
  simp [next, h]

/-- P1: the bus half of a composed step is a (short) schedule of the bus model -/
theorem sstep_bus_run {pl : Ev → Msg} {s s' : Sys} {m : SMove} (h : sstep pl s m = some s') :
    ∃ sched, s'.bus = run s.bus sched := by
  cases m with
  | bus m =>
    simp only [sstep] at h
    split at h
    · cases hs : step s.bus m with
      | none => simp [hs] at h
      | some b => simp [hs] at h; subst h; exact ⟨[m], by simp [run, next, hs]⟩
    · cases h
  | deliver t =>
    simp only [sstep] at h
    split at h
    · cases h
    · rename_i l tl heq
      cases h1 : step s.bus (.recvReq l) with
      | none => simp [h1] at h
      | some b1 =>
        cases h2 : step b1 (.sDeliver t) with
        | none => simp [h1, h2] at h
        | some b2 =>
          cases h3 : pstep (s.pipe l) (.push (pl ⟨t, (s.bus.ss t).cur⟩)) with
          | none => simp [h1, h3] at h
          | some p' =>
            simp [h1, h2, h3] at h; subst h
            exact ⟨[.recvReq l, .sDeliver t], by simp [run, next, h1, h2]⟩
  | cancel l => simp only [sstep, Option.some.injEq] at h; subst h; exact ⟨[.cancel l], rfl⟩
  | close l =>
    simp only [sstep] at h
    cases hs : step s.bus (.wClose l) with
    | none => simp [hs] at h
    | some b => simp [hs] at h; subst h; exact ⟨[.wClose l], by simp [run, next, hs]⟩
  | pipe l m =>
    simp only [sstep] at h
    split at h
    · cases hs : pstep (s.pipe l) m with
      | none => simp [hs] at h
      | some p' =>
        simp [hs] at h; subst h
        by_cases hc : p'.cancelled = true ∧ (s.bus.ls l).cancelled = false
        · exact ⟨[.cancel l], by simp [hc, run]⟩
        · exact ⟨[], by simp [hc, run]⟩
    · cases h

/-- P2: the pipeline half of a composed step is, for each listener, no step or one pipeline step -/
theorem sstep_pipe {pl : Ev → Msg} {s s' : Sys} {m : SMove} (h : sstep pl s m = some s') (l : Nat) :
    s'.pipe l = s.pipe l ∨ ∃ pm, pstep (s.pipe l) pm = some (s'.pipe l) := by
  cases m with
  | bus m =>
    simp only [sstep] at h
    split at h
    · cases hs : step s.bus m with
      | none => simp [hs] at h
      | some b => simp [hs] at h; subst h; exact Or.inl rfl
    · cases h
  | deliver t =>
    simp only [sstep] at h
    split at h
    · cases h
    · rename_i l' tl heq
      cases h1 : step s.bus (.recvReq l') with
      | none => simp [h1] at h
      | some b1 =>
        cases h2 : step b1 (.sDeliver t) with
        | none => simp [h1, h2] at h
        | some b2 =>
          cases h3 : pstep (s.pipe l') (.push (pl ⟨t, (s.bus.ss t).cur⟩)) with
          | none => simp [h1, h3] at h
          | some p' =>
            simp [h1, h2, h3] at h; subst h
            by_cases hl : l = l'
            · subst hl; exact Or.inr ⟨_, by simpa using h3⟩
            · exact Or.inl (by simp [upd_apply, hl])
  | cancel l' =>
    simp only [sstep, Option.some.injEq] at h; subst h
    by_cases hl : l = l'
    · subst hl; exact Or.inr ⟨.cancel, by simp [pnext, pstep]⟩
    · exact Or.inl (by simp [upd_apply, hl])
  | close l' =>
    simp only [sstep] at h
    cases hs : step s.bus (.wClose l') with
    | none => simp [hs] at h
    | some b =>
      simp [hs] at h; subst h
      by_cases hl : l = l'
      · subst hl
        cases hp : pstep (s.pipe l) .closeIn with
        | none => exact Or.inl (by simp [pnext, hp])
        | some p' => exact Or.inr ⟨.closeIn, by simp [pnext, hp]⟩
      · exact Or.inl (by simp [upd_apply, hl])
  | pipe l' m =>
    simp only [sstep] at h
    split at h
    · cases hs : pstep (s.pipe l') m with
      | none => simp [hs] at h
      | some p' =>
        simp [hs] at h; subst h
        by_cases hl : l = l'
        · subst hl; exact Or.inr ⟨m, by simpa using hs⟩
        · exact Or.inl (by simp [upd_apply, hl])
    · cases h

/-- internal pipeline steps never revoke the cancellation and never touch the input-closed flag -/
theorem pstep_internal_flags {p p' : PConfig} {m : PMove} (hm : internalP m = true) (h : pstep p m = some p') :
    p'.inClosed = p.inClosed ∧ (p.cancelled = true → p'.cancelled = true) := by
  cases m <;> simp [internalP] at hm <;> simp only [pstep] at h <;> (repeat' (split at h)) <;>
    first
      | (cases h; done)
      | (simp only [Option.some.injEq] at h; subst h
         simp only [fwRecv, pidRecv]
         (repeat' split) <;> simp_all)

theorem link_step {pl : Ev → Msg} {s s' : Sys} {m : SMove} (hI : LockInv s.bus) (hW : WatcherInv s.bus)
    (hL : Link s) (h : sstep pl s m = some s') : Link s' := by
  obtain ⟨hc, hcl, hr, hsw⟩ := hL
  cases m with
  | bus m =>
    simp only [sstep] at h
    split at h
    · rename_i hfree
      cases hs : step s.bus m with
      | none => simp [hs] at h
      | some b =>
        simp [hs] at h; subst h
        cases m <;> simp [busFree] at hfree <;> simp only [step] at hs <;> (repeat' (split at hs)) <;>
          first
            | (cases hs; done)
            | (simp only [Option.some.injEq] at hs; subst hs; constructor <;> bus_auto)
    · cases h
  | deliver t =>
    simp only [sstep] at h
    split at h
    · cases h
    · rename_i l tl heq
      cases h1 : step s.bus (.recvReq l) with
      | none => simp [h1] at h
      | some b1 =>
        cases h2 : step b1 (.sDeliver t) with
        | none => simp [h1, h2] at h
        | some b2 =>
          cases h3 : pstep (s.pipe l) (.push (pl ⟨t, (s.bus.ss t).cur⟩)) with
          | none => simp [h1, h3] at h
          | some p' =>
            simp [h1, h2, h3] at h; subst h
            have hp : p'.cancelled = (s.pipe l).cancelled ∧ p'.inClosed = (s.pipe l).inClosed := by
              simp only [pstep] at h3
              (repeat' (split at h3)) <;>
                first
                  | (cases h3; done)
                  | (simp only [Option.some.injEq] at h3; subst h3; simp only [exRecv, fwRecv]
                     (repeat' split) <;> simp)
            simp only [step] at h1
            (repeat' (split at h1)) <;>
              first
                | (cases h1; done)
                | (simp only [Option.some.injEq] at h1; subst h1
                   simp only [step, Config.setL, upd_apply] at h2
                   (repeat' (split at h2)) <;>
                     first
                       | (cases h2; done)
                       | (simp only [Option.some.injEq] at h2; subst h2; constructor <;> bus_auto))
  | cancel l =>
    simp only [sstep, Option.some.injEq] at h; subst h
    constructor <;> (intro l'; simp only [next, step, pnext, pstep, Option.getD_some, Config.setL, upd_apply]) <;>
      (repeat' split) <;> simp_all
  | close l =>
    simp only [sstep] at h
    cases hs : step s.bus (.wClose l) with
    | none => simp [hs] at h
    | some b =>
      simp [hs] at h; subst h
      have hwc := hW l
      have hn := hI.nil l
      have hcc := hI.closed l
      simp only [step] at hs
      (repeat' (split at hs)) <;>
        first
          | (cases hs; done)
          | (simp only [Option.some.injEq] at hs; subst hs
             constructor <;> (intro l'; simp only [pnext, pstep, Config.setL, upd_apply]) <;>
               (repeat' split) <;> simp_all [WPc.nilled, WPc.isClosed])
  | pipe l m =>
    simp only [sstep] at h
    split at h
    · rename_i hint
      cases hs : pstep (s.pipe l) m with
      | none => simp [hs] at h
      | some p' =>
        simp [hs] at h; subst h
        obtain ⟨hfin, hfc⟩ := pstep_internal_flags hint hs
        have hbc : ∀ b : Config, ((next b (.cancel l)).ls l).cancelled = true ∧
            ((next b (.cancel l)).ls l).closed = (b.ls l).closed ∧
            ((next b (.cancel l)).ls l).rcvReady = (b.ls l).rcvReady ∧
            ((next b (.cancel l)).ls l).sawClose = (b.ls l).sawClose ∧
            ∀ l', l' ≠ l → (next b (.cancel l)).ls l' = b.ls l' := by
          intro b
          refine ⟨by simp [next, step, Config.setL], by simp [next, step, Config.setL],
            by simp [next, step, Config.setL], by simp [next, step, Config.setL], ?_⟩
          intro l' hl; simp [next, step, Config.setL, upd_apply, hl]
        by_cases hcond : p'.cancelled = true ∧ (s.bus.ls l).cancelled = false
        · simp only [hcond, and_self, if_true]
          obtain ⟨b1, b2, b3, b5, b4⟩ := hbc s.bus
          constructor <;> intro l' <;> by_cases hl : l' = l
          · subst hl; simp [b1, hcond.1]
          · simp [upd_apply, hl, b4 l' hl, hc l']
          · subst hl; simp [b2, hfin, hcl l']
          · simp [upd_apply, hl, b4 l' hl, hcl l']
          · subst hl; simp [b3, hr l']
          · simp [b4 l' hl, hr l']
          · subst hl; simp [b5, hsw l']
          · simp [b4 l' hl, hsw l']
        · simp only [hcond, if_false]
          constructor <;> intro l' <;> by_cases hl : l' = l
          · subst hl
            simp only [upd_same]
            cases hb : (s.bus.ls l').cancelled with
            | true => exact hfc (by rw [hc l', hb])
            | false =>
              cases hp : p'.cancelled with
              | false => rfl
              | true => exact absurd ⟨hp, hb⟩ hcond
          · simp [upd_apply, hl, hc l']
          · subst hl; simp [hfin, hcl l']
          · simp [upd_apply, hl, hcl l']
          · exact hr l'
          · exact hr l'
          · exact hsw l'
          · exact hsw l'
    · cases h

end ScVerif.C10
