import ScVerif.C10.LateInv
import ScVerif.C10.PipeInv
import ScVerif.C10.MergeAux
/-!
C10 — a single-item subscription WITHOUT backpressure (`mergeCollectionExcess` in front of the forwarder): the
REMOVE of the watched item is never merged away.  Helper lemmas for `PropsLate`.

The merge queue holds at most one change of the watched item (`mergeQ` keeps one entry per id), among any number of
changes of other items.  What it holds for the item, merged, is exactly the difference between what the
forwarder side has been told and the item's state: nothing or UPDATE/REPLACE/ADD when the item exists, REMOVE when it
does not — except that an ADD followed by a REMOVE annihilate, which is harmless precisely because an ADD can only be
queued when the REMOVE before it has already gone downstream.
-/
namespace ScVerif.C10

/-- the REMOVE is in the forwarder's hand, next in line for the PullID stage -/
def PConfig.RemoveInHand (p : PConfig) : Prop := p.fwDone = false ∧ ∃ tag, p.fwQ = [⟨p.target, .remove, tag⟩]

/-- ended, cancelled, or about to end -/
def PConfig.Ending (p : PConfig) : Prop := p.pidDone = true ∨ p.cancelled = true ∨ p.RemoveInHand

structure LLossy (c : LConfig) : Prop where
  hasEx : c.p.hasEx = true
  exMerge : c.p.exMerge = true
  hasPid : c.p.hasPid = true
  /-- the forwarder's include filter / the collection's equivalence may drop anything but a REMOVE of the item -/
  keep : ∀ tag, c.p.keep ⟨c.p.target, .remove, tag⟩ = true
  sub : c.subscribed = true
  causal : c.p.Causal
  /-- at most one queued change of the item -/
  uniq : cnt c.p.target c.p.exQ ≤ 1
  /-- … whose kind is REMOVE exactly when the item is gone -/
  wf : ∀ m, ent c.p.target c.p.exQ = some m → (m.kind = .remove ↔ c.present = false)
  /-- the forwarder side has been told the item is gone (nothing queued and it is gone, or an ADD is queued) only
  by a REMOVE that went downstream -/
  w : ((ent c.p.target c.p.exQ = none ∧ c.present = false) ∨ ∃ m, ent c.p.target c.p.exQ = some m ∧ m.kind = .add) →
        c.p.Ending

theorem ending_step {p p1 : PConfig} {m : PMove} (hex : p.hasEx = true) (hpid : p.hasPid = true)
    (h : p.Ending) (hs : pstep p m = some p1) : p1.Ending := by
  rcases h with h | h | ⟨hfd, tag, hq⟩
  · left
    cases m <;> simp only [pstep] at hs <;> (repeat' (split at hs)) <;>
      first
        | (cases hs; done)
        | (simp only [Option.some.injEq] at hs; subst hs; simp only [fwRecv, exRecv, pidRecv]
           try ((repeat' split) <;> simp_all))
  · right; left
    cases m <;> simp only [pstep] at hs <;> (repeat' (split at hs)) <;>
      first
        | (cases hs; done)
        | (simp only [Option.some.injEq] at hs; subst hs; simp only [fwRecv, exRecv, pidRecv]
           try ((repeat' split) <;> simp_all))
  · cases m <;> simp only [pstep, hq, hpid, hfd, hex] at hs <;> (repeat' (split at hs)) <;>
      first
        | (cases hs; done)
        | (simp_all; done)
        | (simp only [Option.some.injEq] at hs; subst hs
           simp only [PConfig.Ending, PConfig.RemoveInHand, fwRecv, exRecv, pidRecv] at *
           (repeat' split) <;> simp_all [Msg.remove])

theorem pstep_exMerge {p p1 : PConfig} {m : PMove} (hs : pstep p m = some p1) : p1.exMerge = p.exMerge := by
  cases m <;> simp only [pstep] at hs <;> (repeat' (split at hs)) <;>
    first
      | (cases hs; done)
      | (simp only [Option.some.injEq] at hs; subst hs; simp only [fwRecv, exRecv, pidRecv]
         try ((repeat' split) <;> simp))

theorem pstep_exQ_same {p p1 : PConfig} {m : PMove} (hs : pstep p m = some p1) (h1 : ∀ x, m ≠ .push x)
    (h2 : m ≠ .xferEF) (h3 : m ≠ .exExit) : p1.exQ = p.exQ := by
  cases m <;> simp only [pstep] at hs <;> (repeat' (split at hs)) <;>
    first
      | (cases hs; done)
      | (exact absurd rfl (h1 _))
      | (exact absurd rfl h2)
      | (exact absurd rfl h3)
      | (simp only [Option.some.injEq] at hs; subst hs; simp only [fwRecv, exRecv, pidRecv]
         try ((repeat' split) <;> simp))

/-- a push of a change of the watched item into the merge stage -/
theorem push_lossy {p p1 : PConfig} {m : Msg} (hex : p.hasEx = true) (hmg : p.exMerge = true)
    (hs : pstep p (.push m) = some p1) : p1 = { p with exQ := mergeQ p.exQ m } := by
  simp only [pstep, hex] at hs
  split at hs
  · cases hs
  · simp only [if_true] at hs
    split at hs
    · cases hs
    · simp only [Option.some.injEq, exRecv] at hs
      rw [if_pos hmg] at hs; exact hs.symm

theorem llossy_push_same (c : LConfig) (k : Kind) (tag : Nat) (pr : Bool) (h : LLossy c) (p' : PConfig)
    (hp : pstep c.p (.push ⟨c.p.target, k, tag⟩) = some p')
    (hk : ∀ old, ent c.p.target c.p.exQ = some old →
        ∀ k', mergeKind old.kind k = some k' → ((k' = .remove ↔ pr = false) ∧ (k' = .add → old.kind = .add)))
    (hk0 : ent c.p.target c.p.exQ = none → ((k = .remove ↔ pr = false) ∧ (k = .add → c.present = false)))
    (hann : ∀ old, ent c.p.target c.p.exQ = some old → mergeKind old.kind k = none → pr = false → old.kind = .add) :
    LLossy { c with present := pr, p := p' } := by
  have hp' := push_lossy h.hasEx h.exMerge hp
  have hend : c.p.Ending → p'.Ending := fun he => ending_step h.hasEx h.hasPid he hp
  have hc := (causal_step h.causal hp).1
  subst hp'
  have hM := mergeQ_same c.p.exQ ⟨c.p.target, k, tag⟩
  simp only [] at hM
  refine ⟨h.hasEx, h.exMerge, h.hasPid, h.keep, h.sub, hc, hM.2 h.uniq, ?_, ?_⟩
  · intro m hm
    show m.kind = .remove ↔ pr = false
    rw [hM.1] at hm
    cases he : ent c.p.target c.p.exQ with
    | none => rw [he] at hm; simp only [Option.some.injEq] at hm; subst hm; exact (hk0 he).1
    | some old =>
      rw [he] at hm
      cases hmk : mergeKind old.kind k with
      | none => simp [hmk] at hm
      | some k' =>
        simp only [hmk, Option.map_some, Option.some.injEq] at hm
        subst hm
        exact (hk old he k' hmk).1
  · intro hprem
    apply hend
    apply h.w
    change (ent c.p.target (mergeQ c.p.exQ _) = none ∧ pr = false ∨
      ∃ m, ent c.p.target (mergeQ c.p.exQ _) = some m ∧ m.kind = .add) at hprem
    rw [hM.1] at hprem
    cases he : ent c.p.target c.p.exQ with
    | none =>
      rw [he] at hprem
      rcases hprem with ⟨hn, _⟩ | ⟨m, hm, hadd⟩
      · cases hn
      · simp only [Option.some.injEq] at hm; subst hm
        exact Or.inl ⟨rfl, (hk0 he).2 hadd⟩
    | some old =>
      rw [he] at hprem
      right
      refine ⟨old, rfl, ?_⟩
      cases hmk : mergeKind old.kind k with
      | none =>
        rcases hprem with ⟨_, hpf⟩ | ⟨m, hm, _⟩
        · exact hann old he hmk hpf
        · simp [hmk] at hm
      | some k' =>
        rcases hprem with ⟨hn, _⟩ | ⟨m, hm, hadd⟩
        · simp [hmk] at hn
        · simp only [hmk, Option.map_some, Option.some.injEq] at hm
          subst hm
          exact (hk old he k' hmk).2 hadd

theorem llossy_upd (c : LConfig) (tag : Nat) (h : LLossy c) : LLossy (lnext c (.upd tag)) := by
  unfold lnext
  simp only [lstep]; rw [if_pos h.sub]
  cases hp : pstep c.p (.push ⟨c.p.target, if c.present then .update else .add, tag⟩) with
  | none => exact h
  | some p' =>
    simp only [Option.map_some, Option.getD_some]
    refine llossy_push_same c _ tag true h p' hp ?_ ?_ ?_
    · intro old ho k' hk'
      have hw := h.wf old ho
      cases hpr : c.present <;> cases hok : old.kind <;> simp_all [mergeKind] <;> (try (subst hk'; simp))
    · intro _
      cases hpr : c.present <;> simp
    · intro old ho hk' hf; cases hf

theorem llossy_del (c : LConfig) (h : LLossy c) : LLossy (lnext c .del) := by
  unfold lnext
  simp only [lstep]
  by_cases hpr : c.present = false
  · rw [if_pos hpr]; exact h
  · rw [if_neg hpr, if_pos h.sub]
    have hpt : c.present = true := by cases hc : c.present <;> simp_all
    cases hp : pstep c.p (.push ⟨c.p.target, .remove, 0⟩) with
    | none => exact h
    | some p' =>
      simp only [Option.map_some, Option.getD_some]
      have := llossy_push_same c .remove 0 false h p' hp ?_ ?_ ?_
      · exact ⟨this.hasEx, this.exMerge, this.hasPid, this.keep, this.sub, this.causal, this.uniq, this.wf, this.w⟩
      · intro old ho k' hk'
        have hw := h.wf old ho
        cases hok : old.kind <;> simp_all [mergeKind] <;> (try (subst hk'; simp))
      · intro _; simp
      · intro old ho hk' _
        have hw := h.wf old ho
        cases hok : old.kind <;> simp_all [mergeKind]

theorem llossy_other (c : LConfig) (x : Msg) (h : LLossy c) : LLossy (lnext c (.other x)) := by
  unfold lnext
  simp only [lstep]
  by_cases hx : x.id = c.p.target
  · rw [if_pos hx]; exact h
  · rw [if_neg hx, if_pos h.sub]
    cases hp : pstep c.p (.push x) with
    | none => exact h
    | some p' =>
      have hp' := push_lossy h.hasEx h.exMerge hp
      have hend : c.p.Ending → p'.Ending := fun he => ending_step h.hasEx h.hasPid he hp
      have hc := (causal_step h.causal hp).1
      subst hp'
      simp only [Option.map_some, Option.getD_some]
      obtain ⟨hE, hC⟩ := mergeQ_other c.p.target c.p.exQ x hx
      refine ⟨h.hasEx, h.exMerge, h.hasPid, h.keep, h.sub, hc, ?_, ?_, ?_⟩
      · show cnt c.p.target (mergeQ c.p.exQ x) ≤ 1
        rw [hC]; exact h.uniq
      · show ∀ m, ent c.p.target (mergeQ c.p.exQ x) = some m → _
        rw [hE]; exact h.wf
      · show (ent c.p.target (mergeQ c.p.exQ x) = none ∧ _ ∨ ∃ m, ent c.p.target (mergeQ c.p.exQ x) = some m ∧ _) → _
        rw [hE]; exact fun hprem => hend (h.w hprem)

theorem lstep_pipe_nonpush (c : LConfig) (m : PMove) (hnp : ∀ x, m ≠ .push x) :
    lstep c (.pipe m) = if c.subscribed then (pstep c.p m).map fun p' => { c with p := p' } else none := by
  cases m <;> first | rfl | exact absurd rfl (hnp _)

theorem llossy_pipe (c : LConfig) (m' : PMove) (h : LLossy c) : LLossy (lnext c (.pipe m')) := by
  unfold lnext
  by_cases hpush : ∃ x, m' = .push x
  · obtain ⟨x, rfl⟩ := hpush; exact h
  · have hnp : ∀ x, m' ≠ .push x := fun x hx => hpush ⟨x, hx⟩
    rw [lstep_pipe_nonpush c m' hnp, if_pos h.sub]
    cases hp : pstep c.p m' with
    | none => exact h
    | some p' =>
      have hend : c.p.Ending → p'.Ending := fun he => ending_step h.hasEx h.hasPid he hp
      have hc := (causal_step h.causal hp).1
      obtain ⟨s1, s2, s3, s4⟩ := pstep_static hp
      have s5 := pstep_exMerge hp
      simp only [Option.map_some, Option.getD_some]
      by_cases hx : m' = .xferEF
      · -- the merge stage hands its first change to the forwarder
        subst hx
        cases hq : c.p.exQ with
        | nil => simp [pstep, hq] at hp
        | cons x r =>
          have hu := h.uniq
          rw [hq] at hu
          obtain ⟨hpopT, hpopO⟩ := ent_pop c.p.target x r hu
          simp only [pstep, hq] at hp
          split at hp
          · rename_i hg
            simp only [Option.some.injEq, fwRecv] at hp
            by_cases hkx : c.p.keep x = true
            · rw [if_pos hkx] at hp
              subst hp
              by_cases hid : x.id = c.p.target
              · obtain ⟨he, hr, hc0⟩ := hpopT hid
                refine ⟨h.hasEx, h.exMerge, h.hasPid, h.keep, h.sub, hc, ?_, ?_, ?_⟩
                · show cnt c.p.target r ≤ 1
                  omega
                · intro m hm
                  change ent c.p.target r = some m at hm
                  rw [hr] at hm; cases hm
                · intro hprem
                  change (ent c.p.target r = none ∧ c.present = false ∨ ∃ m, ent c.p.target r = some m ∧ _) at hprem
                  rcases hprem with ⟨_, hgone⟩ | ⟨m, hm, _⟩
                  · have hk : x.kind = .remove := (h.wf x (by rw [hq]; exact he)).mpr hgone
                    refine Or.inr (Or.inr ⟨hg.2.2.1, x.tag, ?_⟩)
                    show [x] = _
                    cases x; simp_all
                  · rw [hr] at hm; cases hm
              · obtain ⟨he, hcr⟩ := hpopO hid
                refine ⟨h.hasEx, h.exMerge, h.hasPid, h.keep, h.sub, hc, hcr, ?_, ?_⟩
                · intro m hm
                  change ent c.p.target r = some m at hm
                  rw [he, ← hq] at hm; exact h.wf m hm
                · intro hprem
                  change (ent c.p.target r = none ∧ c.present = false ∨ ∃ m, ent c.p.target r = some m ∧ _) at hprem
                  rw [he, ← hq] at hprem
                  have hE := h.w hprem
                  -- the forwarder's hand was empty: the REMOVE cannot have been in it
                  rcases hE with hE | hE | ⟨_, tg, hfq⟩
                  · exact Or.inl hE
                  · exact Or.inr (Or.inl hE)
                  · rw [hg.2.2.2] at hfq; cases hfq
            · -- the forwarder's filter / the equivalence drops the change
              rw [if_neg hkx] at hp
              subst hp
              by_cases hid : x.id = c.p.target
              · obtain ⟨he, hr, hc0⟩ := hpopT hid
                refine ⟨h.hasEx, h.exMerge, h.hasPid, h.keep, h.sub, hc, ?_, ?_, ?_⟩
                · show cnt c.p.target r ≤ 1
                  omega
                · intro m hm
                  change ent c.p.target r = some m at hm
                  rw [hr] at hm; cases hm
                · intro hprem
                  change (ent c.p.target r = none ∧ c.present = false ∨ ∃ m, ent c.p.target r = some m ∧ _) at hprem
                  rcases hprem with ⟨_, hgone⟩ | ⟨m, hm, _⟩
                  · -- a dropped change of the item is not a REMOVE: the item is not gone
                    have hk : x.kind = .remove := (h.wf x (by rw [hq]; exact he)).mpr hgone
                    exfalso
                    apply hkx
                    have := h.keep x.tag
                    cases x; simp_all
                  · rw [hr] at hm; cases hm
              · obtain ⟨he, hcr⟩ := hpopO hid
                refine ⟨h.hasEx, h.exMerge, h.hasPid, h.keep, h.sub, hc, hcr, ?_, ?_⟩
                · intro m hm
                  change ent c.p.target r = some m at hm
                  rw [he, ← hq] at hm; exact h.wf m hm
                · intro hprem
                  change (ent c.p.target r = none ∧ c.present = false ∨ ∃ m, ent c.p.target r = some m ∧ _) at hprem
                  rw [he, ← hq] at hprem
                  have hE := h.w hprem
                  rcases hE with hE | hE | ⟨_, tg, hfq⟩
                  · exact Or.inl hE
                  · exact Or.inr (Or.inl hE)
                  · rw [hg.2.2.2] at hfq; cases hfq
          · cases hp
      · by_cases he : m' = .exExit
        · subst he
          simp only [pstep] at hp
          split at hp
          · rename_i hg
            simp only [Option.some.injEq] at hp
            subst hp
            refine ⟨h.hasEx, h.exMerge, h.hasPid, h.keep, h.sub, hc, by simp [cnt], ?_, ?_⟩
            · intro m hm; simp [ent] at hm
            · intro _
              exact Or.inr (Or.inl (h.causal.1 hg.2.2))
          · cases hp
        · have hq' : p'.exQ = c.p.exQ := pstep_exQ_same hp (fun x hx' => hnp x hx') hx he
          refine ⟨s1 ▸ h.hasEx, s5 ▸ h.exMerge, s2 ▸ h.hasPid, fun x => by rw [s4, s3]; exact h.keep x, h.sub, hc, ?_, ?_, ?_⟩
          · show cnt p'.target p'.exQ ≤ 1
            rw [hq', s3]; exact h.uniq
          · show ∀ m, ent p'.target p'.exQ = some m → _
            rw [hq', s3]; exact h.wf
          · show (ent p'.target p'.exQ = none ∧ c.present = false ∨ ∃ m, ent p'.target p'.exQ = some m ∧ _) → p'.Ending
            rw [hq', s3]; exact fun hprem => hend (h.w hprem)

theorem llossy_next (c : LConfig) (m : LMove) (h : LLossy c) : LLossy (lnext c m) := by
  cases m with
  | ret =>
    unfold lnext; simp only [lstep]; split
    · exact ⟨h.hasEx, h.exMerge, h.hasPid, h.keep, h.sub, h.causal, h.uniq, h.wf, h.w⟩
    · exact h
  | sub => unfold lnext; simp only [lstep]; rw [if_neg (by simp [h.sub])]; exact h
  | upd tag => exact llossy_upd c tag h
  | del => exact llossy_del c h
  | other x => exact llossy_other c x h
  | pipe m => exact llossy_pipe c m h

theorem llossy_run (c : LConfig) (sched : List LMove) : LLossy c → LLossy (lrun c sched) := by
  induction sched generalizing c with
  | nil => exact id
  | cons m ms ih => intro h; exact ih (lnext c m) (llossy_next c m h)

/-- the state right after a subscription WITHOUT backpressure to an existing item has been made -/
def lsubscribed (sync uo : Bool) (target : Nat) (fixed : Bool) : LConfig :=
  { sync := sync, uo := uo, subscribed := true,
    p := { hasEx := true, exMerge := true, hasPid := true, target := target, fixed := fixed, keep := fun _ => true,
           fwQ := if uo then [] else [⟨target, .add, 0⟩] } }

theorem llossy_init (sync uo : Bool) (target : Nat) (fixed : Bool) : LLossy (lsubscribed sync uo target fixed) := by
  refine ⟨rfl, rfl, rfl, fun _ => rfl, rfl, ?_, by simp [cnt, lsubscribed], ?_, ?_⟩
  · simp [PConfig.Causal, lsubscribed]
  · intro m hm; simp [ent, lsubscribed] at hm
  · intro h
    rcases h with ⟨_, h⟩ | ⟨m, hm, _⟩
    · simp [lsubscribed] at h
    · simp [ent, lsubscribed] at hm

/-- the same with an arbitrary include filter / equivalence in the forwarder -/
def lsubscribedK (sync uo : Bool) (target : Nat) (fixed : Bool) (keep : Msg → Bool) : LConfig :=
  { sync := sync, uo := uo, subscribed := true,
    p := { hasEx := true, exMerge := true, hasPid := true, target := target, fixed := fixed, keep := keep,
           fwQ := if uo then [] else [⟨target, .add, 0⟩] } }

theorem llossy_initK (sync uo : Bool) (target : Nat) (fixed : Bool) (keep : Msg → Bool)
    (hk : ∀ tag, keep ⟨target, .remove, tag⟩ = true) : LLossy (lsubscribedK sync uo target fixed keep) := by
  refine ⟨rfl, rfl, rfl, hk, rfl, ?_, by simp [cnt, lsubscribedK], ?_, ?_⟩
  · simp [PConfig.Causal, lsubscribedK]
  · intro m hm; simp [ent, lsubscribedK] at hm
  · intro h
    rcases h with ⟨_, h⟩ | ⟨m, hm, _⟩
    · simp [lsubscribedK] at h
    · simp [ent, lsubscribedK] at hm

end ScVerif.C10
