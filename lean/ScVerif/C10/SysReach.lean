import ScVerif.C10.Sys
import ScVerif.C10.PipeInv
/-! Invariants of the composed model along every schedule (helper lemmas). -/
namespace ScVerif.C10

structure SInv (s : Sys) : Prop where
  reach : Reachable s.bus
  watcher : WatcherInv s.bus
  link : Link s
  ex : ∀ l, (s.pipe l).ExOrder
  causal : ∀ l, (s.pipe l).Causal

theorem sinv_init (todo : Nat → Nat) (pipes : Nat → PConfig) (hf : ∀ l, (pipes l).Fresh) :
    SInv ⟨init todo, pipes⟩ := by
  refine ⟨⟨todo, [], rfl⟩, watcherInv_init todo, ?_, fun l h => by rw [(hf l).2.2.2.1] at h; exact absurd h (by simp), ?_⟩
  constructor <;> intro l
  · simp [init, (hf l).1]
  · simp [init, (hf l).2.1]
  · simp [init]
  · simp [init]
  · intro l
    obtain ⟨_, f2, _, f4, f5, _, f7, _⟩ := hf l
    refine ⟨?_, ?_, ?_, ?_⟩ <;> intro h
    · rw [f2] at h; cases h
    · rw [f4] at h; cases h
    · rw [f5] at h; cases h
    · intro h'; rw [f7] at h'; cases h'

theorem sinv_step {pl : Ev → Msg} {s s' : Sys} {m : SMove} (h : SInv s) (hs : sstep pl s m = some s') : SInv s' := by
  obtain ⟨sched, hb⟩ := sstep_bus_run hs
  refine ⟨?_, ?_, link_step h.reach.inv.lock h.watcher h.link hs, ?_, ?_⟩
  · rw [hb]; exact h.reach.run sched
  · rw [hb]; exact watcherInv_run sched h.reach.inv h.watcher
  · intro l
    rcases sstep_pipe hs l with he | ⟨pm, hp⟩
    · rw [he]; exact h.ex l
    · exact exOrder_step (h.ex l) hp
  · intro l
    rcases sstep_pipe hs l with he | ⟨pm, hp⟩
    · rw [he]; exact h.causal l
    · exact (causal_step (h.causal l) hp).1

theorem sinv_run {pl : Ev → Msg} {s : Sys} (sched : List SMove) (h : SInv s) : SInv (srun pl s sched) := by
  induction sched generalizing s with
  | nil => exact h
  | cons m ms ih =>
    show SInv (srun pl (snext pl s m) ms)
    apply ih
    unfold snext
    cases hs : sstep pl s m with
    | none => simpa using h
    | some s' => simpa using sinv_step h hs

theorem SReachable.sinv {pl : Ev → Msg} {s : Sys} (h : SReachable pl s) : SInv s := by
  obtain ⟨todo, pipes, sched, hf, rfl⟩ := h
  exact sinv_run sched (sinv_init todo pipes hf)

end ScVerif.C10
