import ScVerif.C10.MergeAux
/-!
C10 — the net effect of `mergeChanges` on a receiver's view of one item (helper definitions and lemmas for
`PropsMerge`).

A receiver of `Collection.Pull` changes knows of each item whether it exists (`Bool`).  The collection publishes, about
an item in state `s`, only the change types `okKind s`: ADD when it does not exist, UPDATE / REPLACE / REMOVE when it
does; `applyKind` is what the change does to the receiver's view.  The lossy stage folds the changes of an item that
arrive while the receiver is away into at most one held change (`mergeKind`, `mergeQ`).
-/
namespace ScVerif.C10

def applyKind (_ : Bool) : Kind → Bool
  | .remove => false
  | _ => true

def okKind (s : Bool) : Kind → Bool
  | .add => !s
  | _ => s

def validSeq : Bool → List Kind → Bool
  | _, [] => true
  | s, k :: ks => okKind s k && validSeq (applyKind s k) ks

def applySeq (s : Bool) (ks : List Kind) : Bool := ks.foldl applyKind s

/-- what the stage holds for the item after the changes `ks` arrived on top of `q` (nothing taken out in between) -/
def mergeSeq : Option Kind → List Kind → Option Kind
  | q, [] => q
  | none, k :: ks => mergeSeq (some k) ks
  | some a, k :: ks => mergeSeq (mergeKind a k) ks

/-- the held change, applied to what the receiver was last told (`s0`), gives the item's state `s` — and is a change
the receiver can apply; nothing held: the receiver is up to date -/
def NetOK (s0 s : Bool) : Option Kind → Prop
  | none => s = s0
  | some a => okKind s0 a = true ∧ applyKind s0 a = s

theorem mergeKind_net (s : Bool) (a b : Kind) (ha : okKind s a = true) (hb : okKind (applyKind s a) b = true) :
    NetOK s (applyKind (applyKind s a) b) (mergeKind a b) := by
  cases s <;> cases a <;> cases b <;> simp_all [NetOK, okKind, applyKind, mergeKind]

theorem mergeSeq_net (s0 : Bool) (ks : List Kind) : ∀ (s : Bool) (q : Option Kind),
    NetOK s0 s q → validSeq s ks = true → NetOK s0 (applySeq s ks) (mergeSeq q ks) := by
  induction ks with
  | nil => intro s q hq _; cases q <;> exact hq
  | cons k ks ih =>
    intro s q hq hv
    simp only [validSeq, Bool.and_eq_true] at hv
    cases q with
    | none =>
      have hs : s = s0 := hq
      subst hs
      exact ih (applyKind s k) (some k) ⟨hv.1, rfl⟩ hv.2
    | some a =>
      obtain ⟨ha, hs⟩ := hq
      subst hs
      exact ih _ (mergeKind a k) (mergeKind_net s0 a k ha hv.1) hv.2

/-- the change types of item `t` among `ms`, in order -/
def kindsOf (t : Nat) (ms : List Msg) : List Kind := (ms.filter fun m => m.id = t).map (·.kind)

/-- the entry the merge queue holds for item `t` after `ms` arrived (changes of any items, in any interleaving) is the
fold of `mergeKind` over the item's own changes -/
theorem ent_foldl_mergeQ (t : Nat) (ms : List Msg) : ∀ q : List Msg,
    (ent t (ms.foldl mergeQ q)).map (·.kind) = mergeSeq ((ent t q).map (·.kind)) (kindsOf t ms) := by
  induction ms with
  | nil => intro q; rfl
  | cons m ms ih =>
    intro q
    simp only [List.foldl_cons]
    rw [ih (mergeQ q m)]
    by_cases hm : m.id = t
    · subst hm
      have h1 := (mergeQ_same q m).1
      have hk : kindsOf m.id (m :: ms) = m.kind :: kindsOf m.id ms := by simp [kindsOf]
      rw [hk, h1]
      cases he : ent m.id q with
      | none => rfl
      | some old =>
        simp only [Option.map_some, mergeSeq]
        cases mergeKind old.kind m.kind <;> rfl
    · have hk : kindsOf t (m :: ms) = kindsOf t ms := by simp [kindsOf, hm]
      rw [hk, (mergeQ_other t q m hm).1]

end ScVerif.C10
