import ScVerif.C10.Include
/-!
# C10 — property theorems, part 8: subscriptions made `WithInclude`

`Collection.Pull`, `Collection.PullID` and every trait `Pull…` adapter that forwards read options can be given a filter
(`resource.WithInclude(f)`); the forwarder then passes every change through `(*CollectionChange).include`
(model: `includeChg`).  "A single-item subscription also ends when the item is removed" — and a `Collection.Pull`
subscriber is told of the removal — needs the filter stage never to swallow the removal of an item the subscriber had
been shown.  (In the late-subscription model the forwarder's filter is the parameter `keep`, and this is its
hypothesis "never drops a REMOVE of the target".)
-/
namespace ScVerif.C10

/-- The removal of an item whose value the filter includes is forwarded, as a REMOVE carrying the old value — for every
filter and whatever type the change had (REMOVE, or a REMOVE the lossy stage made of REPLACE + REMOVE …). -/
theorem C10_include_forwards_remove_of_shown_item {V : Type} (f : V → Bool) (c : Chg V)
    (hshown : incl f c.old = true) (hgone : c.new = none) :
    ∃ c', includeChg f c = some c' ∧ c'.kind = .remove ∧ c'.old = c.old ∧ c'.new = none := by
  have hn : incl f c.new = false := by rw [hgone]; rfl
  refine ⟨⟨.remove, c.old, none⟩, ?_, rfl, rfl, rfl⟩
  unfold includeChg
  rw [hshown, hn]
  simp

/-- Every filter, every item, every run of changes of the item (updates, deletes, re-adds … each starting from the
value the previous one left; `v` = the item when the subscription was made): the change types the subscriber receives
are a sequence it can apply one after the other to "I am shown the item" — ADD only when it is not shown, UPDATE /
REPLACE / REMOVE only when it is — and leave it at exactly "the item exists and the filter includes its value". -/
theorem C10_include_subscriber_view_tracks_filter {V : Type} (f : V → Bool) (v : Option V) (cs : List (Chg V))
    (hc : Chain v cs) :
    validSeq (incl f v) (forwarded f cs) = true ∧
    applySeq (incl f v) (forwarded f cs) = incl f (lastVal v cs) :=
  forwarded_chain f cs v hc

/-- The same holds behind the lossy stage: `mergeChanges` makes of two consecutive changes of an item one change of
the kind the theorem above is about — same first value, same last value, a type that agrees with them — or nothing,
and then the item was absent before and is absent after. -/
theorem C10_include_sees_merged_changes_as_changes {V : Type} (v : Option V) (a b : Chg V) (hc : Chain v [a, b]) :
    match mergeChg a b with
    | none => v = none ∧ lastVal v [a, b] = none
    | some c => Chain v [c] ∧ lastVal v [c] = lastVal v [a, b] := by
  obtain ⟨ha, hav, hb, hba, _⟩ := hc
  have h := mergeChg_ends a b ha hb hba
  cases hm : mergeChg a b with
  | none => rw [hm] at h; exact ⟨hav ▸ h.1, h.2⟩
  | some c =>
    rw [hm] at h
    exact ⟨⟨h.1, h.2.1.trans hav, trivial⟩, h.2.2⟩

/-- … in particular: the subscriber was shown the item and the item is gone in the end — then it has been sent a
REMOVE, whatever the filter, whatever happened to the item in between. -/
theorem C10_include_owes_remove {V : Type} (f : V → Bool) (v : Option V) (cs : List (Chg V)) (hc : Chain v cs)
    (hshown : incl f v = true) (hgone : lastVal v cs = none) : Kind.remove ∈ forwarded f cs := by
  have h := (forwarded_chain f cs v hc).2
  rw [hgone, hshown] at h
  rcases applySeq_false_mem _ _ h with h1 | h1
  · cases h1
  · exact h1

/-- The theorems are about the early-out as it is.  Widened to "the inclusion did not change, OR there is no new
value" (a guard that saves the copy of a change that has nothing to reclassify) the stage swallows the removal of a
shown item: a well-formed REMOVE of an included value is not forwarded. -/
theorem C10_include_early_out_on_absent_new_value_loses_remove :
    ∃ (f : Unit → Bool) (c : Chg Unit), c.WF ∧ incl f c.old = true ∧ c.new = none ∧ includeEarly f c = none := by
  refine ⟨fun _ => true, ⟨.remove, some (), none⟩, ?_, rfl, rfl, ?_⟩
  · simp [Chg.WF]
  · simp [includeEarly, incl]

/-- non-vacuity: a filter by value, an item that is updated out of the filter, back into it, and deleted: the
subscriber is told REMOVE, ADD, REMOVE -/
example : forwarded (fun n : Nat => n % 3 != 2)
    [⟨.update, some 0, some 1⟩, ⟨.update, some 1, some 2⟩, ⟨.update, some 2, some 3⟩, ⟨.remove, some 3, none⟩]
    = [.update, .remove, .add, .remove] := by decide

example : Chain (some 0) ([⟨.update, some 0, some 1⟩, ⟨.remove, some 1, none⟩] : List (Chg Nat)) := by
  simp [Chain, Chg.WF]

end ScVerif.C10
