import ScVerif.Base.Line
import ScVerif.C10.Sys
/-!
Driver side of the K4 tie for the forwarding goroutines: the COMPOSED model (`Sys.lean`, one listener =
one real `Value.Pull` / `Collection.Pull` / `PullID` subscription, one sender per write) run as an
acceptor.  Everything free-runs between two macro moves of the harness (`write`, `recv`, `cancel`); the
observation is: how many goroutines of the subscription are alive, which writers are still blocked, what
the consumer has received, whether it saw the close.  I/O glue, nothing proved about it.
-/
namespace ScVerif.C10

open ScVerif.Line

structure HSys where
  s : Sys
  pay : Nat → Msg        -- payload of sender t's single event
  icpt : Nat → Nat := id -- the collection's id interceptor
  nS : Nat
  kinds : Bool := false  -- the consumer sees change types (a `Collection.Pull`): the observation lists them
  want : Bool := false   -- the consumer is blocked in a receive
  sawClose : Bool := false

def HSys.payload (h : HSys) : Ev → Msg := fun e => h.pay e.sender

def showTags (ms : List Msg) : String := ",".intercalate (ms.map fun m => toString m.tag)

def kindLetter : Kind → String
  | .add => "a" | .update => "u" | .remove => "r" | .replace => "p"

def parseKind? : String → Option Kind
  | "a" => some .add | "u" => some .update | "r" => some .remove | "p" => some .replace | _ => none

def showKindTags (ms : List Msg) : String := ",".intercalate (ms.map fun m => kindLetter m.kind ++ toString m.tag)

/-- live goroutines of the subscription -/
def liveCount (h : HSys) : Nat :=
  let L := h.s.bus.ls 0
  let p := h.s.pipe 0
  (if L.wpc = .none ∨ L.wpc = .done then 0 else 1) + (if p.hasEx ∧ p.exDone = false then 1 else 0) +
  (if p.fwDone = false then 1 else 0) + (if p.hasPid ∧ p.pidDone = false then 1 else 0)

def sobs (h : HSys) : String :=
  let ws := String.join ((List.range h.nS).map fun t =>
    let S := h.s.bus.ss t
    if S.pc = .idle then (if S.results.isEmpty then "-" else "d") else "b")
  let pend := if h.want then "?" else ""
  let cl := if h.sawClose then "x" else ""
  s!"G={liveCount h};W={ws};C=[{if h.kinds then showKindTags (h.s.pipe 0).out else showTags (h.s.pipe 0).out}]{pend}{cl}"

def sfull (h : HSys) : String :=
  let ss := (List.range h.nS).map fun t =>
    let S := h.s.bus.ss t
    let pc := match S.pc with
      | .idle => "i" | .loop => "l" | .rlocked => "r" | .selected .delivered => "sd"
      | .selected .listenCancelled => "sl" | .selected .sendCancelled => "ss" | .gc => "g"
    s!"{pc}/{S.rest.length}/{S.results.length}/{S.needGc}"
  let L := h.s.bus.ls 0
  let p := h.s.pipe 0
  let w := match L.wpc with
    | .none => "n" | .await => "a" | .enter => "e" | .wait => "w" | .locked => "L" | .closing => "C"
    | .unlock => "U" | .done => "d"
  sobs h ++ "#" ++ " ".intercalate ss ++
    s!"#{w}/{L.cancelled}/{L.closed}/{L.isNil}/{L.readers.length}/{h.s.bus.bus.length}" ++
    s!"#{p.cancelled}/{p.inClosed}/{showTags p.exQ}/{p.exDone}/{showTags p.fwQ}/{p.fwDone}/{showTags p.pidQ}/{p.pidDone}"

def sysMoves (h : HSys) : List SMove :=
  let sm := (List.range h.nS).flatMap fun t =>
    match (h.s.bus.ss t).pc with
    | .loop => if (h.s.bus.ss t).rest = [] then [SMove.bus (.sFinish t)] else [SMove.bus (.sAcquire t)]
    | .rlocked => [SMove.deliver t, .bus (.sListenCancelled t), .bus (.sSendCancelled t)]
    | .selected _ => [SMove.bus (.sRelease t)]
    | .gc => [SMove.bus (.sCollect t)]
    | .idle => []
  let wm := match (h.s.bus.ls 0).wpc with
    | .await => [SMove.bus (.wAwake 0)]
    | .enter => [SMove.bus (.wLockReq 0)]
    | .wait => [SMove.bus (.wLockAcq 0)]
    | .locked => [SMove.close 0]
    | .closing => [SMove.bus (.wNil 0)]
    | .unlock => [SMove.bus (.wUnlock 0)]
    | _ => []
  let pm := [PMove.xferEF, .xferFP, .exExit, .fwExitIn, .fwExitCtx, .pidExitIn, .pidExitCtx].map (SMove.pipe 0)
  sm ++ wm ++ pm ++ (if h.want then [SMove.pipe 0 .consume] else [])

/-- a pending receive on a closed channel returns `!ok` -/
def normalise (h : HSys) : HSys :=
  if h.want ∧ (h.s.pipe 0).outClosed ∧
      (if (h.s.pipe 0).hasPid then (h.s.pipe 0).pidQ = [] else (h.s.pipe 0).fwQ = []) then
    { h with want := false, sawClose := true }
  else h

def ssuccs (h : HSys) : List HSys :=
  (sysMoves h).filterMap fun m =>
    (sstep h.payload h.s m).map fun s' =>
      match m with
      | .pipe _ .consume => normalise { h with s := s', want := false }
      | _ => normalise { h with s := s' }

def ssettle : Nat → List HSys → List String → List HSys → List HSys
  | 0, _, _, done => done
  | _, [], _, done => done
  | fuel + 1, h :: work, seen, done =>
    let key := sfull h
    if seen.contains key then ssettle fuel work seen done
    else
      match ssuccs h with
      | [] => ssettle fuel work (key :: seen) (h :: done)
      | ss => ssettle fuel (ss ++ work) (key :: seen) done

def parseMsgs (s : String) : Option (List Msg) :=
  if s = "-" then some [] else (s.splitOn ",").mapM fun x => (parseNat? x).map fun id => (⟨id, .add, 0⟩ : Msg)

/-- the closed family of named id interceptors shared with the harness (which numbers the spellings of item
`k` as `4k … 4k+3`, the canonical one first) -/
def parseIcpt? : String → Option (Nat → Nat)
  | "none" => some id
  | "fold4" => some fun n => n - n % 4
  | _ => none

/-- `pinit hasEx exMerge hasPid icpt rawTarget seedIds nS pre kinds`: `rawTarget` is the id as the subscriber spells
it, `seedIds` are stored ids (seed values are ADD changes); `pre` = the context is already cancelled when the
subscription is made; `kinds` = the consumer reports change types -/
def sInit : List String → Option HSys
  | [hasEx, exMerge, hasPid, icpt, target, seeds, nS, pre, kinds] => do
    let hasEx ← parseBool? hasEx
    let exMerge ← parseBool? exMerge
    let hasPid ← parseBool? hasPid
    let icpt ← parseIcpt? icpt
    let target ← parseNat? target
    let seeds ← parseMsgs seeds
    let nS ← parseNat? nS
    let pre ← parseBool? pre
    let kinds ← parseBool? kinds
    let p : PConfig := { hasEx := hasEx, exMerge := exMerge, hasPid := hasPid, target := pullIDTarget icpt target,
                         fixed := true, keep := fun _ => true, fwQ := seeds }
    let s0 : Sys := ⟨init fun _ => 1, fun _ => p⟩
    let s1 := srun (fun _ => ⟨0, .update, 0⟩) s0
      ((if pre then [SMove.cancel 0] else []) ++ [.bus (.lSpawn 0), .bus (.lRegister 0)])
    some { s := s1, pay := fun _ => ⟨0, .update, 0⟩, icpt := icpt, nS := nS, kinds := kinds }
  | _ => none

def sMacro (h : HSys) : List String → Option HSys
  | ["write", t, id, rm, tag] => do
    let t ← parseNat? t
    let id ← parseNat? id
    let rm ← parseKind? rm
    let tag ← parseNat? tag
    let h1 := { h with pay := upd h.pay t (changeOf h.icpt id rm tag) }
    (sstep h1.payload h1.s (.bus (.sSnapshot t))).map fun s' => { h1 with s := s' }
  | ["recv"] =>
    if h.want ∨ h.sawClose then none else some (normalise { h with want := true })
  | ["cancel"] => (sstep h.payload h.s (.cancel 0)).map fun s' => { h with s := s' }
  | _ => none

def sDedupObs (hs : List HSys) : List String :=
  hs.foldl (fun acc h => let o := sobs h; if acc.contains o then acc else acc ++ [o]) []

/-- `pop <observed> <macro…>` on a frontier -/
def sHandle (fr : List HSys) (observed : String) (mac : List String) : List HSys × String :=
  let next := ssettle 40000 (fr.filterMap fun h => sMacro h mac) [] []
  if next.isEmpty then (fr, "!bad-op")
  else
    let keep := next.filter fun h => sobs h == observed
    if keep.isEmpty then (next, "no " ++ "|".intercalate (sDedupObs next))
    else (keep, "ok " ++ observed)

end ScVerif.C10
