import ScVerif.C10.BusInv
/-! Delivery invariants of the bus model (helper lemmas for the C10 property theorems). -/
namespace ScVerif.C10

/-- shape of the per-call bookkeeping of `Bus.Send` -/
structure StructInv (c : Config) : Prop where
  snapSplit : ∀ t, (c.ss t).pc = .idle ∨ (c.ss t).visited ++ (c.ss t).rest = (c.ss t).snap
  snapNodup : ∀ t, (c.ss t).snap.Nodup
  busNodup : c.bus.Nodup
  busReg : ∀ l, l ∈ c.bus → (c.ls l).lpc = .registered

theorem structInv_init (todo : Nat → Nat) : StructInv (init todo) := by
  constructor <;> simp [init]

theorem structInv_step {c c' : Config} {m : Move} (h : StructInv c) (hs : step c m = some c') : StructInv c' := by
  obtain ⟨h1, h2, h3, h4⟩ := h
  cases m
  all_goals
    simp only [step] at hs <;> (repeat' (split at hs)) <;>
    first
      | (simp at hs; done)
      | (simp only [Option.some.injEq] at hs; subst hs; constructor <;> bus_auto)

end ScVerif.C10
