import ScVerif.C10.BusInv
/-! Delivery invariants of the bus model (helper lemmas for the C10 property theorems). -/
namespace ScVerif.C10

/-- shape of the per-call bookkeeping of `Bus.Send` -/
structure StructInv (c : Config) : Prop where
  snapSplit : ∀ t, (c.ss t).pc = .idle ∨ (c.ss t).visited ++ (c.ss t).rest = (c.ss t).snap
  snapNodup : ∀ t, (c.ss t).snap.Nodup
  busNodup : c.bus.Nodup
  busReg : ∀ l, l ∈ c.bus → (c.ls l).lpc = .registered

theorem structInv_init (todo : Nat → Nat) : StructInv (init todo) := by
  constructor <;> simp [init]

theorem structInv_step {c c' : Config} {m : Move} (h : StructInv c) (hs : step c m = some c') : StructInv c' := by
  obtain ⟨h1, h2, h3, h4⟩ := h
  cases m
  all_goals
    simp only [step] at hs <;> (repeat' (split at hs)) <;>
    first
      | (simp at hs; done)
      | (simp only [Option.some.injEq] at hs; subst hs; constructor <;> bus_auto)

/-- the order relation between two events received on one channel: per sender, increasing -/
def OrdRel (a b : Ev) : Prop := a.sender = b.sender → a.seq < b.seq

structure DelivInv (c : Config) : Prop where
  bound : ∀ l e, e ∈ (c.ls l).recvd → e.seq ≤ (c.ss e.sender).cur
  fresh : ∀ l e, e ∈ (c.ls l).recvd → e.seq = (c.ss e.sender).cur →
      l ∈ (c.ss e.sender).visited ∨
        ((c.ss e.sender).rest.head? = some l ∧ (c.ss e.sender).pc = .selected .delivered)
  order : ∀ l, (c.ls l).recvd.Pairwise OrdRel
  visitedOk : ∀ t l, l ∈ (c.ss t).visited →
      (⟨t, (c.ss t).cur⟩ ∈ (c.ls l).recvd ∨ (c.ls l).cancelled = true)
  selOk : ∀ t l, (c.ss t).rest.head? = some l →
      ((c.ss t).pc = .selected .delivered → ⟨t, (c.ss t).cur⟩ ∈ (c.ls l).recvd) ∧
      ((c.ss t).pc = .selected .listenCancelled → (c.ls l).cancelled = true)

theorem delivInv_init (todo : Nat → Nat) : DelivInv (init todo) := by
  constructor <;> simp [init]

theorem delivInv_step {c c' : Config} {m : Move} (hL : LockInv c) (hS : StructInv c) (h : DelivInv c)
    (hs : step c m = some c') : DelivInv c' := by
  have hnc := @LockInv.not_closing c hL
  obtain ⟨s1, s2, s3, s4⟩ := hS
  obtain ⟨h1, h2, h3, h4, h5⟩ := h
  cases m
  case sDeliver t =>
    simp only [step] at hs
    split at hs
    · simp at hs
    · rename_i l tl heq
      split at hs
      · rename_i hg
        have hold : Holding (c.ss t) l := ⟨Or.inl hg.1, by simp [heq]⟩
        have hno := (hnc hold).2
        split at hs
        · rename_i hcl; exact absurd ⟨hcl, hg.2.1⟩ hno
        · have ha : l ∉ (c.ss t).visited := by
            have h11 := s1 t
            have h12 := s2 t
            rcases h11 with h11 | h11
            · rw [hg.1] at h11; cases h11
            · rw [← h11, heq] at h12
              grind
          have hb : ∀ e, e ∈ (c.ls l).recvd → e.sender = t → e.seq < (c.ss t).cur := by
            intro e he het
            have hle := h1 l e he
            have hfr := h2 l e he
            rw [het] at hle hfr
            rcases Nat.lt_or_ge e.seq (c.ss t).cur with hlt | hge
            · exact hlt
            · have heq2 : e.seq = (c.ss t).cur := by omega
              rcases hfr heq2 with hv | ⟨_, hpc⟩
              · exact absurd hv ha
              · rw [hg.1] at hpc; cases hpc
          simp only [Option.some.injEq] at hs; subst hs
          constructor
          · bus_auto
          · bus_auto
          · intro l'
            simp only [Config.setL, Config.setS, upd_apply]
            split
            · rename_i hl; subst hl
              simp only [List.pairwise_append, List.pairwise_cons, List.Pairwise.nil, List.mem_singleton]
              refine ⟨h3 _, ⟨by simp, trivial⟩, ?_⟩
              intro a ha' b hb'; subst hb'
              intro hsame; exact hb a ha' hsame
            · exact h3 l'
          · bus_auto
          · bus_auto
      · simp at hs
  case sRelease t =>
    simp only [step] at hs
    split at hs
    · simp at hs
    · rename_i l tl heq
      split at hs
      · rename_i o hpc
        have h5' := h5 t l (by simp [heq])
        cases o <;> simp only [reduceCtorEq, ↓reduceIte, Option.some.injEq] at hs <;> subst hs <;>
          constructor <;> bus_auto
      · simp at hs
  all_goals
    simp only [step] at hs <;> (repeat' (split at hs)) <;>
    first
      | (simp at hs; done)
      | (simp only [Option.some.injEq] at hs; subst hs; constructor <;> bus_auto)

end ScVerif.C10
