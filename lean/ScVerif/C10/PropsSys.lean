import ScVerif.C10.SysReach
import ScVerif.C10.SysRefine
import ScVerif.C10.PropsBus
import ScVerif.C10.PropsPipe
/-!
# C10 — property theorems, part 3: bus and forwarding pipeline composed (end to end)

The bus model treated a listener's consumer as environment (`recvReq`), the pipeline model treated
the bus as environment (`push`, `closeIn`).  In the composed model (`Sys.lean`) these are synchronised
steps, and the theorems below say that each side's assumptions about the other are met, so that the
shutdown theorems of parts 1 and 2 hold END TO END for a `Value.Pull` / `Collection.Pull` / `PullID`
subscription: for every number of senders/listeners, every pipeline shape, filter and seed list, every
payload function and EVERY schedule of the composed system.
-/
namespace ScVerif.C10

/-- Assume–guarantee, bus side: the bus half of every reachable composed state is a reachable state of
the bus model (each composed step is a bus schedule of length ≤ 2), so every theorem of part 1 —
no panic, no send on closed, exactly once, order, `C10_cancel_releases`, `C10_cancel_terminates_bus` —
holds in the composed system with the real consumers attached. -/
theorem C10_e2e_bus (pl : Ev → Msg) (s : Sys) (h : SReachable pl s) :
    Reachable s.bus ∧ s.bus.panicked = false :=
  ⟨h.sinv.reach, h.sinv.reach.inv.lock.noPanic⟩

/-- Assume–guarantee, pipeline side: in every reachable composed state the pipeline's context is the
listener's context and its input is closed exactly when the bus channel is; every composed step is, on
each pipeline, no step or one step of the pipeline model; hence `closeIn` only ever happens after the
cancel and `push` only while the channel is open — the two things part 2 assumed of its environment. -/
theorem C10_e2e_pipeline (pl : Ev → Msg) (s s' : Sys) (m : SMove) (h : SReachable pl s)
    (hs : sstep pl s m = some s') (l : Nat) :
    (s.pipe l).cancelled = (s.bus.ls l).cancelled ∧ (s.pipe l).inClosed = (s.bus.ls l).closed ∧
    (s'.pipe l = s.pipe l ∨ ∃ pm, pstep (s.pipe l) pm = some (s'.pipe l)) :=
  ⟨h.sinv.link.cancelled l, h.sinv.link.closed l, sstep_pipe hs l⟩

/-- is `m` a step of one of the goroutines started for subscription `l` (watcher, pipeline stages), or of
a sender that still holds `l`'s read lock? -/
def groupMove (s : Sys) (l : Nat) : SMove → Bool
  | .bus m => watcherMove l m || (s.bus.ls l).readers.any fun t => readerMove t m
  | .close l' => l' = l
  | .pipe l' _ => l' = l
  | _ => false

/-- END TO END progress (no deadlock, any schedule): after the subscription's context is cancelled, as
long as its watcher has not returned or one of its forwarding goroutines is still alive, some step of
the subscription's own goroutines (or of a sender still inside `listener.send` on it) is enabled. -/
theorem C10_e2e_cancel_releases (pl : Ev → Msg) (s : Sys) (h : SReachable pl s) (l : Nat)
    (hcan : (s.bus.ls l).cancelled = true) (hsub : (s.bus.ls l).wpc ≠ .none)
    (hnd : ¬ ((s.bus.ls l).wpc = .done ∧ (s.pipe l).allDone = true)) :
    ∃ m, groupMove s l m = true ∧ (sstep pl s m).isSome := by
  have hI := h.sinv
  by_cases hd : (s.bus.ls l).wpc = .done
  · -- the watcher has closed the channel: the pipeline drains by itself
    have hcl := (C10_done_closed s.bus hI.reach l hd).1
    have hin : (s.pipe l).inClosed = true := by rw [hI.link.closed l, hcl]
    have hpc : (s.pipe l).cancelled = true := by rw [hI.link.cancelled l, hcan]
    have hall : (s.pipe l).allDone = false := by
      cases ha : (s.pipe l).allDone with
      | false => rfl
      | true => exact absurd ⟨hd, ha⟩ hnd
    obtain ⟨pm, hmem, hen⟩ := (C10_cancel_releases_pipeline (s.pipe l) hpc).2 hin hall
    refine ⟨.pipe l pm, by simp [groupMove], ?_⟩
    have hint : internalP pm = true := by
      simp only [List.mem_cons, List.not_mem_nil, or_false] at hmem
      rcases hmem with rfl | rfl | rfl | rfl | rfl <;> rfl
    simp only [sstep, hint, if_true]
    cases hp : pstep (s.pipe l) pm with
    | none => simp [hp] at hen
    | some p' => simp
  · rcases C10_cancel_releases s.bus hI.reach l hcan hsub hd with ⟨m, hwm, hen⟩ | ⟨_, _, t, ht, hen⟩
    · by_cases hcl : m = .wClose l
      · subst hcl
        refine ⟨.close l, by simp [groupMove], ?_⟩
        simp only [sstep]
        cases hs : step s.bus (.wClose l) with
        | none => simp [hs] at hen
        | some b => simp
      · refine ⟨.bus m, by simp [groupMove, hwm], ?_⟩
        have hfree : busFree m = true := by
          cases m <;> simp [watcherMove] at hwm <;> first | rfl | (subst hwm; exact absurd rfl hcl)
        simp only [sstep, hfree, if_true]
        cases hs : step s.bus m with
        | none => simp [hs] at hen
        | some b => simp
    · rcases hen with hen | hen
      · refine ⟨.bus (.sListenCancelled t), ?_, ?_⟩
        · simp only [groupMove, Bool.or_eq_true, List.any_eq_true]
          exact Or.inr ⟨t, ht, by simp [readerMove]⟩
        · simp only [sstep, busFree, if_true]
          cases hs : step s.bus (.sListenCancelled t) with
          | none => simp [hs] at hen
          | some b => simp
      · refine ⟨.bus (.sRelease t), ?_, ?_⟩
        · simp only [groupMove, Bool.or_eq_true, List.any_eq_true]
          exact Or.inr ⟨t, ht, by simp [readerMove]⟩
        · simp only [sstep, busFree, if_true]
          cases hs : step s.bus (.sRelease t) with
          | none => simp [hs] at hen
          | some b => simp

/-- END TO END measure, second phase: once the bus channel of `l` is closed, no composed step of anybody
increases `pmu (pipe l)` (in particular no writer can push into it any more), and every step of `l`'s own
pipeline strictly decreases it.  (First phase: `C10_cancel_terminates_bus` on the bus half, which
`C10_e2e_bus` transfers.)  Together with `C10_e2e_cancel_releases`: every goroutine started for the
subscription terminates under every fair schedule, and then the user's channel is closed
(`C10_pipeline_done`). -/
theorem C10_e2e_drain (pl : Ev → Msg) (s s' : Sys) (m : SMove) (h : SReachable pl s) (l : Nat)
    (hcl : (s.bus.ls l).closed = true) (hs : sstep pl s m = some s') :
    (s'.bus.ls l).closed = true ∧ pmu (s'.pipe l) ≤ pmu (s.pipe l) ∧
    (∀ pm, m = .pipe l pm → pmu (s'.pipe l) < pmu (s.pipe l)) := by
  have hI := h.sinv
  have hin : (s.pipe l).inClosed = true := by rw [hI.link.closed l, hcl]
  have hI' := sinv_step hI hs
  have hstay : (s'.pipe l).inClosed = true := by
    rcases sstep_pipe hs l with he | ⟨pm, hp⟩
    · rw [he]; exact hin
    · exact (C10_pipeline_measure _ _ pm hin hp).1
  refine ⟨by rw [← hI'.link.closed l]; exact hstay, ?_, ?_⟩
  · rcases sstep_pipe hs l with he | ⟨pm, hp⟩
    · rw [he]; exact Nat.le_refl _
    · have hm := C10_pipeline_measure _ _ pm hin hp
      by_cases hpm : pm = .cancel
      · exact Nat.le_of_eq (hm.2.1 hpm)
      · exact Nat.le_of_lt (hm.2.2 hpm)
  · intro pm hm; subst hm
    simp only [sstep] at hs
    split at hs
    · rename_i hint
      cases hp : pstep (s.pipe l) pm with
      | none => simp [hp] at hs
      | some p' =>
        simp [hp] at hs; subst hs
        have hne : pm ≠ .cancel := by intro hc; subst hc; simp [internalP] at hint
        simpa using (C10_pipeline_measure _ _ pm hin hp).2.2 hne
    · cases hs

/-- END TO END: a single-item subscription ends when its item is removed, and nothing is left behind.
When the PullID stage of listener `l`'s pipeline takes the REMOVE of its id, the user's channel is closed
AND the bus listener of the inner Pull is cancelled in the same step — so `C10_e2e_cancel_releases` and
the two measures apply from there on, and no writer can be left blocked on this subscription
(`C10_e2e_writer_released`). -/
theorem C10_e2e_pullid_ends_on_remove (pl : Ev → Msg) (s s' : Sys) (h : SReachable pl s) (l : Nat)
    (msg : Msg) (r : List Msg) (hp : (s.pipe l).hasPid = true) (hf : (s.pipe l).fixed = true)
    (hq : (s.pipe l).fwQ = msg :: r) (hid : msg.id = (s.pipe l).target) (hrm : msg.remove = true)
    (hs : sstep pl s (.pipe l .xferFP) = some s') :
    (s'.pipe l).outClosed = true ∧ (s'.bus.ls l).cancelled = true := by
  have hI' := sinv_step h.sinv hs
  simp only [sstep, internalP, if_true] at hs
  cases hx : pstep (s.pipe l) .xferFP with
  | none => simp [hx] at hs
  | some p' =>
    have hres := C10_pullid_ends_on_remove (s.pipe l) p' msg r hp hf hq hid hrm hx
    simp [hx] at hs; subst hs
    refine ⟨by simpa using hres.1, ?_⟩
    have := hI'.link.cancelled l
    simp only [upd_same] at this
    rw [← this]; exact hres.2.1

/-- END TO END: writers are never blocked beyond the current rendezvous by a cancelled subscription,
whatever state its pipeline is in (nobody receiving, forwarder stuck offering, stages already gone): a
sender inside `select` on a cancelled listener can take the `listenCancelled` branch. -/
theorem C10_e2e_writer_released (pl : Ev → Msg) (s : Sys) (t l : Nat) (tl : List Nat)
    (hpc : (s.bus.ss t).pc = .rlocked) (hrest : (s.bus.ss t).rest = l :: tl)
    (hcan : (s.bus.ls l).cancelled = true) :
    (sstep pl s (.bus (.sListenCancelled t))).isSome := by
  simp [sstep, busFree, step, hrest, hpc, hcan]

/-- REFINEMENT: the composed system refines both of its halves, with matching data.  For every initial
configuration, every payload function and EVERY composed schedule there are a bus schedule and, for each
listener `l`, a pipeline schedule — all of whose moves are ENABLED (`exec`/`pexec` are strict: no move is
skipped) — that lead from the initial bus / pipeline configuration to the bus half / `l`'s pipeline half of the
composed state, and the messages the pipeline schedule pushes into the subscription's first stage are exactly
the payloads of the events the bus model records as received by listener `l`, in the same order.  So nothing the
bus theorems say about `recvd` (exactly once, per-sender order, only what was sent) is lost on the way into the
pipeline, and the pipeline theorems apply to exactly the inputs the bus produces. -/
theorem C10_e2e_refines (pl : Ev → Msg) (todo : Nat → Nat) (pipes : Nat → PConfig) (sched : List SMove) (l : Nat) :
    ∃ bs ps, exec (init todo) bs = some (srun pl ⟨init todo, pipes⟩ sched).bus ∧
      pexec (pipes l) ps = some ((srun pl ⟨init todo, pipes⟩ sched).pipe l) ∧
      pushesOf ps = ((srun pl ⟨init todo, pipes⟩ sched).bus.ls l).recvd.map pl := by
  obtain ⟨h1, h2, h3, h4⟩ := srun_refines pl ⟨init todo, pipes⟩ sched l
  refine ⟨_, _, h1, h2, ?_⟩
  rw [h4, h3]; simp [init]

/-- END TO END delivery for a backpressure `Pull` (no excess stage, no PullID stage, pass-all filter) on
listener `l`, every schedule: what the user has received is a prefix of `seed values ++ payloads of the events
the bus delivered to l` — nothing duplicated, nothing reordered, nothing invented — and as long as the
forwarding goroutine is alive nothing is lost either: received ++ in the forwarder's hand = seeds ++ delivered.
With `C10_exactly_once` / `C10_per_sender_order` on the bus half (`C10_e2e_bus`): a subscriber live for a whole
Send gets that event exactly once, in per-sender order, at the USER's end of the pipeline. -/
theorem C10_e2e_backpressure_lossless (pl : Ev → Msg) (todo : Nat → Nat) (pipes : Nat → PConfig)
    (sched : List SMove) (l : Nat) (hf : (pipes l).Fresh) (hex : (pipes l).hasEx = false)
    (hpid : (pipes l).hasPid = false) (hk : ∀ x, (pipes l).keep x = true) :
    let s := srun pl ⟨init todo, pipes⟩ sched
    (s.pipe l).out <+: (pipes l).fwQ ++ (s.bus.ls l).recvd.map pl ∧
    ((s.pipe l).fwDone = false → (s.pipe l).out ++ (s.pipe l).fwQ = (pipes l).fwQ ++ (s.bus.ls l).recvd.map pl) := by
  intro s
  obtain ⟨bs, ps, _, h2, h3⟩ := C10_e2e_refines pl todo pipes sched l
  obtain ⟨i1, i2⟩ := pexec_lossless hex hpid hk h2
  have ho : (pipes l).out = [] := hf.2.2.2.2.2.2.2
  have hd : (pipes l).fwDone = false := hf.2.2.2.2.1
  rw [h3, ho, List.nil_append] at i1 i2
  exact ⟨i2 hd, i1⟩

/-- Subscribing with a context that is ALREADY cancelled (a client that hung up before the handler called
`Pull`): from any reachable state, for a listener slot `l` not used so far, cancel ▸ `Bus.Listen` starts the
watcher ▸ any schedule whatsoever (registration, Sends that snapshot the dead listener, the pipeline's own
steps, other subscriptions …): the context stays cancelled, the watcher exists, and until the watcher is done
and every forwarding goroutine has returned some step of the subscription's own goroutines is enabled — the
subscription cannot hang, whatever happens around it; with `C10_e2e_drain` and `C10_cancel_terminates_bus` it
terminates and the user's channel is closed (`C10_pipeline_done`). -/
theorem C10_e2e_precancelled (pl : Ev → Msg) (s : Sys) (h : SReachable pl s) (l : Nat)
    (hfresh : (s.bus.ls l).lpc = .init) (sched : List SMove) :
    let s' := srun pl s (.cancel l :: .bus (.lSpawn l) :: sched)
    (s'.bus.ls l).cancelled = true ∧ (s'.bus.ls l).wpc ≠ .none ∧
    (¬ ((s'.bus.ls l).wpc = .done ∧ (s'.pipe l).allDone = true) →
      ∃ m, groupMove s' l m = true ∧ (sstep pl s' m).isSome) := by
  intro s'
  have hr : SReachable pl s' := h.srun _
  let s1 := srun pl s [.cancel l, .bus (.lSpawn l)]
  have hs' : s' = srun pl s1 sched := by
    show srun pl s ([.cancel l, .bus (.lSpawn l)] ++ sched) = _
    rw [srun_append]
  have h1 : (s1.bus.ls l).cancelled = true ∧ (s1.bus.ls l).wpc ≠ .none := by
    simp [s1, srun, snext, sstep, busFree, next, step, Config.setL, hfresh]
  have hb : s'.bus = run s1.bus (traceB pl s1 sched) := by rw [hs']; exact srun_bus_run pl s1 sched
  have hc : (s'.bus.ls l).cancelled = true := by rw [hb]; exact C10_cancelled_stable_run _ _ l h1.1
  have hw : (s'.bus.ls l).wpc ≠ .none := by rw [hb]; exact wpc_ne_none_run _ _ l h1.2
  exact ⟨hc, hw, fun hnd => C10_e2e_cancel_releases pl s' hr l hc hw hnd⟩

/-- END TO END, however the ids are spelled: for EVERY id interceptor of the collection, when the REMOVE event
that `Delete(rawDel)` published (it carries the intercepted id) reaches the PullID stage of a
`PullID(ctx, rawSub)` subscription and the two spellings name the same item, the user's channel is closed and
the bus listener of the inner Pull is cancelled in the same step. -/
theorem C10_e2e_pullid_ends_any_spelling (pl : Ev → Msg) (s s' : Sys) (h : SReachable pl s) (l : Nat)
    (icpt : Nat → Nat) (rawSub rawDel tag : Nat) (r : List Msg) (hsame : icpt rawSub = icpt rawDel)
    (hp : (s.pipe l).hasPid = true) (hf : (s.pipe l).fixed = true)
    (ht : (s.pipe l).target = pullIDTarget icpt rawSub) (hq : (s.pipe l).fwQ = changeOf icpt rawDel .remove tag :: r)
    (hs : sstep pl s (.pipe l .xferFP) = some s') :
    (s'.pipe l).outClosed = true ∧ (s'.bus.ls l).cancelled = true :=
  C10_e2e_pullid_ends_on_remove pl s s' h l _ r hp hf hq (by simp [changeOf, ht, pullIDTarget, hsame]) rfl hs

/-- non-vacuity: a backpressure `Pull` on listener 0 (forwarder only), one sender; the event is
delivered through the composed rendezvous, consumed by the user, then cancel ▸ watcher ▸ close ▸ the
forwarder exits: everything done, user channel closed. -/
example :
    let pipes : Nat → PConfig := fun _ =>
      { hasEx := false, exMerge := false, hasPid := false, target := 0, fixed := true, keep := fun _ => true }
    let s := srun (fun e => ⟨0, .update, e.seq⟩) ⟨init fun _ => 1, pipes⟩
      [.bus (.lSpawn 0), .bus (.lRegister 0), .bus (.sSnapshot 0), .bus (.sAcquire 0), .deliver 0,
       .bus (.sRelease 0), .pipe 0 .consume, .cancel 0, .bus (.wAwake 0), .bus (.wLockReq 0),
       .bus (.wLockAcq 0), .close 0, .bus (.wNil 0), .bus (.wUnlock 0), .pipe 0 .fwExitIn]
    (s.bus.ls 0).wpc = .done ∧ (s.pipe 0).allDone = true ∧ (s.pipe 0).outClosed = true ∧
      (s.pipe 0).out = [⟨0, .update, 1⟩] ∧ (s.bus.ls 0).recvd = [⟨0, 1⟩] := by decide

/-- non-vacuity: subscribe with a cancelled context (updates-only backpressure Pull: no seed), a writer sends
meanwhile and meets the dead listener; everything of the subscription terminates without any consumer. -/
example :
    let pipes : Nat → PConfig := fun _ =>
      { hasEx := false, exMerge := false, hasPid := false, target := 0, fixed := true, keep := fun _ => true }
    let s := srun (fun e => ⟨0, .update, e.seq⟩) ⟨init fun _ => 1, pipes⟩
      [.cancel 0, .bus (.lSpawn 0), .bus (.lRegister 0), .bus (.sSnapshot 0), .bus (.sAcquire 0),
       .bus (.sListenCancelled 0), .bus (.sRelease 0), .bus (.wAwake 0), .bus (.wLockReq 0), .bus (.wLockAcq 0),
       .close 0, .bus (.wNil 0), .bus (.wUnlock 0), .pipe 0 .fwExitIn, .bus (.sFinish 0), .bus (.sCollect 0)]
    (s.bus.ls 0).wpc = .done ∧ (s.pipe 0).allDone = true ∧ (s.pipe 0).outClosed = true ∧ (s.pipe 0).out = [] ∧
      s.bus.bus = [] ∧ (s.bus.ss 0).results = [true] := by decide

end ScVerif.C10
