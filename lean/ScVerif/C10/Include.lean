import ScVerif.C10.NetEffect
/-!
C10 — `CollectionChange.include` (pkg/resource/change.go), the forwarder-side filter of a subscription made with
`resource.WithInclude(f)` (helper definitions and lemmas for `PropsInclude`).

A change carries the item's old and new value (`none` = absent) besides its type.  The forwarder of `Collection.Pull`
asks the filter about both ends: an absent value is never included; a change between two included states is passed on
as it is, one between two excluded states is not forwarded, one that moves the item into the filter becomes an ADD, one
that moves it out of the filter — an update to an excluded value, or the removal of an included item — becomes a
REMOVE.  The lossy stage in front of it (`mergeChanges`) joins two consecutive changes of an item into one that keeps
the first one's old value and the second one's new value (`mergeChg`).
-/
namespace ScVerif.C10

structure Chg (V : Type) where
  kind : Kind
  old : Option V
  new : Option V

/-- an absent value is never included, whatever the filter says -/
def incl {V : Type} (f : V → Bool) : Option V → Bool
  | none => false
  | some v => f v

/-- `(*CollectionChange).include` with a non-nil filter: `none` = not forwarded -/
def includeChg {V : Type} (f : V → Bool) (c : Chg V) : Option (Chg V) :=
  if incl f c.old = incl f c.new then
    (if incl f c.new then some c else none)
  else if incl f c.new then some ⟨.add, none, c.new⟩
  else some ⟨.remove, c.old, none⟩

/-- the variant with the early-out widened to "or there is no new value" (what an allocation-saving guard would do):
used only to show that the theorems below are about the code as it is -/
def includeEarly {V : Type} (f : V → Bool) (c : Chg V) : Option (Chg V) :=
  if incl f c.old = incl f c.new ∨ c.new = none then
    (if incl f c.new then some c else none)
  else if incl f c.new then some ⟨.add, none, c.new⟩
  else some ⟨.remove, c.old, none⟩

/-- the changes a collection publishes (and `mergeChanges` produces): the type agrees with the two ends -/
def Chg.WF {V : Type} (c : Chg V) : Prop :=
  match c.kind with
  | .add => c.old = none ∧ c.new ≠ none
  | .remove => c.old ≠ none ∧ c.new = none
  | _ => c.old ≠ none ∧ c.new ≠ none

/-- a run of changes of one item, each starting where the previous one ended (`v` = the item before the first) -/
def Chain {V : Type} : Option V → List (Chg V) → Prop
  | _, [] => True
  | v, c :: cs => c.WF ∧ c.old = v ∧ Chain c.new cs

def lastVal {V : Type} : Option V → List (Chg V) → Option V
  | v, [] => v
  | _, c :: cs => lastVal c.new cs

/-- the change types the subscriber receives -/
def forwarded {V : Type} (f : V → Bool) (cs : List (Chg V)) : List Kind :=
  cs.filterMap fun c => (includeChg f c).map (·.kind)

/-- `mergeChanges` on two consecutive changes of one item -/
def mergeChg {V : Type} (a b : Chg V) : Option (Chg V) :=
  (mergeKind a.kind b.kind).map fun k => ⟨k, a.old, b.new⟩

theorem incl_none {V : Type} (f : V → Bool) : incl f (none : Option V) = false := rfl

theorem incl_true_ne_none {V : Type} (f : V → Bool) (v : Option V) (h : incl f v = true) : v ≠ none := by
  cases v with
  | none => simp [incl] at h
  | some _ => simp

/-- one change: what is forwarded is a change the subscriber can apply to its view (the item is shown = its value was
included) and leaves the view at "the new value is included" -/
theorem includeChg_step {V : Type} (f : V → Bool) (c : Chg V) (hw : c.WF) :
    match includeChg f c with
    | none => incl f c.new = incl f c.old
    | some c' => okKind (incl f c.old) c'.kind = true ∧ applyKind (incl f c.old) c'.kind = incl f c.new := by
  unfold includeChg
  by_cases h : incl f c.old = incl f c.new
  · rw [if_pos h]
    by_cases hn : incl f c.new = true
    · rw [if_pos hn]
      have ho : incl f c.old = true := h ▸ hn
      have h1 := incl_true_ne_none f _ ho
      have h2 := incl_true_ne_none f _ hn
      show okKind (incl f c.old) c.kind = true ∧ applyKind (incl f c.old) c.kind = incl f c.new
      rw [ho, hn]
      unfold Chg.WF at hw
      cases hk : c.kind <;> rw [hk] at hw <;> simp_all [okKind, applyKind]
    · rw [if_neg hn]
      exact h.symm
  · rw [if_neg h]
    by_cases hn : incl f c.new = true
    · rw [if_pos hn]
      have ho : incl f c.old = false := by
        cases hh : incl f c.old with
        | false => rfl
        | true => exact absurd (hh.trans hn.symm) h
      show okKind (incl f c.old) Kind.add = true ∧ applyKind (incl f c.old) Kind.add = incl f c.new
      rw [ho, hn]; simp [okKind, applyKind]
    · rw [if_neg hn]
      have hn' : incl f c.new = false := by simpa using hn
      have ho : incl f c.old = true := by
        cases hh : incl f c.old with
        | true => rfl
        | false => exact absurd (hh.trans hn'.symm) h
      show okKind (incl f c.old) Kind.remove = true ∧ applyKind (incl f c.old) Kind.remove = incl f c.new
      rw [ho, hn']; simp [okKind, applyKind]

theorem forwarded_cons {V : Type} (f : V → Bool) (c : Chg V) (cs : List (Chg V)) :
    forwarded f (c :: cs) = match includeChg f c with
      | none => forwarded f cs
      | some c' => c'.kind :: forwarded f cs := by
  unfold forwarded
  cases h : includeChg f c <;> simp [h]

/-- a whole run: the forwarded change types are a sequence the subscriber can apply, and its view ends at "the item's
last value is included" -/
theorem forwarded_chain {V : Type} (f : V → Bool) (cs : List (Chg V)) : ∀ v : Option V, Chain v cs →
    validSeq (incl f v) (forwarded f cs) = true ∧
    applySeq (incl f v) (forwarded f cs) = incl f (lastVal v cs) := by
  induction cs with
  | nil => intro v _; exact ⟨rfl, rfl⟩
  | cons c cs ih =>
    intro v hc
    obtain ⟨hw, ho, hrest⟩ := hc
    have hstep := includeChg_step f c hw
    have hih := ih c.new hrest
    rw [forwarded_cons]
    subst ho
    cases hi : includeChg f c with
    | none =>
      rw [hi] at hstep
      simp only [lastVal]
      rw [← hstep]
      exact hih
    | some c' =>
      rw [hi] at hstep
      obtain ⟨hk, ha⟩ := hstep
      simp only [lastVal, validSeq, applySeq, List.foldl_cons, Bool.and_eq_true]
      rw [ha]
      exact ⟨⟨hk, hih.1⟩, hih.2⟩

/-- `mergeChanges` keeps the ends of the two changes and produces a change whose type agrees with them; when nothing
is left the item is where it was: absent -/
theorem mergeChg_ends {V : Type} (a b : Chg V) (ha : a.WF) (hb : b.WF) (hab : b.old = a.new) :
    match mergeChg a b with
    | none => a.old = none ∧ b.new = none
    | some c => c.WF ∧ c.old = a.old ∧ c.new = b.new := by
  unfold mergeChg
  unfold Chg.WF at ha hb
  cases hka : a.kind <;> cases hkb : b.kind <;> rw [hka] at ha <;> rw [hkb] at hb <;>
    simp_all [mergeKind, Chg.WF]

theorem applySeq_false_mem (ks : List Kind) : ∀ s : Bool, applySeq s ks = false → s = false ∨ Kind.remove ∈ ks := by
  induction ks with
  | nil => intro s h; exact Or.inl h
  | cons k ks ih =>
    intro s h
    have h' : applySeq (applyKind s k) ks = false := h
    rcases ih _ h' with h1 | h1
    · cases k <;> simp_all [applyKind]
    · exact Or.inr (List.mem_cons_of_mem _ h1)

end ScVerif.C10
