import ScVerif.Generated.C07Facts
/-!
# C07 — tables regenerated from the source tree on every run (K3)

`ScVerif/Generated/C07Facts.lean` is written by `harness/cmd/c07 -facts` from `/repo`'s current
sources before this file is built; the theorems are re-checked by the kernel each run.
-/
namespace ScVerif.C07
open ScVerif.Generated.C07

/-- **C07_models_all_driven.** Every stateful trait model constructor present in the source tree
(a `New…` function of a `pkg/trait` package returning a struct that holds a `*resource.Value` or
`*resource.Collection`) is a row of the table the snapshot monitor drives: a new model cannot be
added without the monitor covering it. -/
theorem C07_models_all_driven : ∀ c, c ∈ discoveredModels → c ∈ drivenModels := by decide

/-- **C07_rim_pure.** Every interceptor registered in `pkg/trait` (closures, named functions, method
values, closures returned by methods — and the package functions they call) is syntactically
`old`-pure: no assignment, `++`, `append`, `copy`, `proto.Merge`, `proto.Reset`, sort or unknown call
rooted at its `old` parameter. This is the hypothesis `Op.Pure` of the core theorems, checked for the
interceptors that exist. -/
theorem C07_rim_pure : ∀ r, r ∈ interceptors → r.pure = true := by decide

/-- **C07_pull_loops_pure.** No loop over a resource `Pull`/`PullID` channel in `pkg/trait` writes
through the change it received (with a nil read mask that value IS the stored message). -/
theorem C07_pull_loops_pure : ∀ r, r ∈ pullLoops → r.pure = true := by decide

/-- the tables are not empty (the statements above are not vacuous) -/
example : discoveredModels.length ≥ 20 ∧ interceptors.length ≥ 10 ∧ pullLoops.length ≥ 20 := by decide

end ScVerif.C07
