import ScVerif.Generated.C07Facts
/-! # C07 — K3 table: interceptors (regenerated from the source tree on every run) -/
namespace ScVerif.C07
open ScVerif.Generated.C07

/-- **C07_rim_pure.** No interceptor registered in `pkg/trait` (closures, named functions, method
values, closures returned by methods, and the functions of the same package they call) contains a
DEFINITE write through its `old` parameter: no assignment or `++` through it, no `append`/`copy`/sort/
`proto.Merge`/`proto.Reset`/`Reset()` on it or on a slice/message reached from it. This is the
hypothesis `Op.Pure` of the core theorems, checked for the interceptors that exist. Places the
tracker cannot decide (listed per row under `unknown`) do not fail this theorem: they are covered by
the snapshot monitor only. -/
theorem C07_rim_pure : ∀ r, r ∈ interceptors → r.pure = true := by decide

example : interceptors.length ≥ 10 := by decide

end ScVerif.C07
