import ScVerif.C07.Rim7Lemmas
/-!
# C07 — round 8 rim: a nested update mask filters the sub-message a write's source refers to (lightpb UpdateBrightness)

`FieldUpdater.Merge` filters its source in place, and under a path below a message field (`preset.name`) it filters
the SUB-MESSAGE the source refers to. lightpb `Model.UpdateBrightness` puts the selected preset into the caller's
message before the write: what that reference points at is written by the filter. In the model (Rim7.lean:
brightness cells referring to preset cells; `filterSrc`, `proto.Merge` with its message-field rule, `pruneEmpty`
descending into `dst`'s own sub-message) the theorem quantifies over every preset table, every update mask —
none, empty, top-level, `preset`, any subset of `preset.name` / `preset.title`, with or without `level_percent` —
every heap, stored value and caller message.
-/
namespace ScVerif.C07.Rim7

set_option linter.unusedSimpArgs false

/-- **C07_light_update_frame.** `Model.UpdateBrightness(light, WithUpdateMask(u))` as it is (the selected preset is
planted as a clone), for every preset table, update mask, heap, stored value and caller message `b`: (1) of the
brightness messages that existed only the caller's own is written; (2) of the preset messages that existed at most
the one the CALLER's message referred to — never a configured preset, never the stored value's; (3) when a preset of
the table is selected not even that: no preset message that existed is written at all, under any mask; (4) the new
value is a brightness allocated by the call and its preset (if any) a message allocated by the call. -/
theorem C07_light_update_frame (table : Table) (u : Option Mask) (h : H) (stored b : Nat) (hb : b < h.bn) :
    (∀ c, c < h.bn → c ≠ b → (update table u h stored b).1.bs c = h.bs c) ∧
    (∀ p, p < h.pn → (h.bs b).preset ≠ some p → (update table u h stored b).1.ps p = h.ps p) ∧
    ((setLevel h table b).2 = true → ∀ p, p < h.pn → (update table u h stored b).1.ps p = h.ps p) ∧
    h.bn ≤ (update table u h stored b).2 ∧
    (∀ p, ((update table u h stored b).1.bs (update table u h stored b).2).preset = some p → h.pn ≤ p) := by
  have sl := setLevel_spec h table b
  have hb1 : b < (setLevel h table b).1.bn := by rw [sl.2.1]; exact hb
  have vs := valueSet_spec (moreLevel (setLevel h table b).2 u) (setLevel h table b).1 stored b hb1
  have hu : update table u h stored b =
      valueSet (moreLevel (setLevel h table b).2 u) (setLevel h table b).1 stored b := rfl
  -- the whole call: writes `b`, and a preset message that existed only when nothing was selected
  have hw : Wr h (update table u h stored b).1 (· = b)
      (fun p => (h.bs b).preset = some p ∧ (setLevel h table b).2 = false) := by
    rw [hu]
    refine (sl.1.mono (fun _ x => x) (fun _ x => x.elim)).trans' vs.1 (fun _ _ x => x) ?_
    intro t ht hx
    cases hsel : (setLevel h table b).2 with
    | false => rw [sl.2.2.1 hsel] at hx; exact ⟨hx, rfl⟩
    | true =>
      rw [(sl.2.2.2 hsel).1] at hx
      exact absurd (Option.some.inj hx).symm (Nat.ne_of_lt ht)
  refine ⟨fun c hc hne => hw.2.2.1 c hc hne, fun p hp hne => hw.2.2.2 p hp (fun x => hne x.1),
    fun hsel p hp => hw.2.2.2 p hp (fun x => by rw [hsel] at x; simp at x), ?_, ?_⟩
  · rw [hu, vs.2.1, sl.2.1]; exact Nat.le_refl _
  · intro p hp
    rw [hu, vs.2.1] at hp
    have := vs.2.2.2 p hp
    exact Nat.le_trans sl.1.2.1 this

/-- **C07_light_preset_by_pointer_filtered** (the shape of seeded change C07-19 and of the code before ddd33a0: the
configured preset itself goes into the caller's message). Selecting preset "n1" under the update mask `preset.name`
clears the TITLE of the configured preset — a message every `ListPresets` / `DescribeBrightness` reader holds — and
leaves the caller's message referring to the configured preset, so the caller's later edits reach it too; the code
as it is leaves the configured preset alone, refers the caller's message to a new preset message, and produces the
same value. -/
theorem C07_light_preset_by_pointer_filtered :
    let u : Option Mask := some ⟨false, .sub true false⟩
    let l := updateLegacy [(0, 40)] u exH 0 1
    let r := update [(0, 40)] u exH 0 1
    exH.ps 0 = ⟨"n1", "T1"⟩ ∧ l.1.ps 0 = ⟨"n1", ""⟩ ∧ (l.1.bs 1).preset = some 0 ∧
      r.1.ps 0 = ⟨"n1", "T1"⟩ ∧ (r.1.bs 1).preset = some 2 ∧
      deep l.1 l.2 = (40, some ⟨"n1", ""⟩) ∧ deep r.1 r.2 = (40, some ⟨"n1", ""⟩) := by
  decide

/-- non-vacuity of (2): with a preset name the table does not know, the nested mask does write the preset message the
caller's brightness refers to (the caller's own) — and only that one -/
example :
    let r := update [(0, 40)] (some ⟨false, .sub false true⟩) { exH with ps := fun x => if x = 0 then ⟨"n1", "T1"⟩ else ⟨"zz", "q"⟩ } 0 1
    r.1.ps 1 = ⟨"", "q"⟩ ∧ r.1.ps 0 = ⟨"n1", "T1"⟩ ∧ deep r.1 r.2 = (10, some ⟨"", "q"⟩) := by
  decide

end ScVerif.C07.Rim7
