import ScVerif.C07.Rim3Lemmas
/-!
# C07 — more rim models: modepb relative adjustment, lightpb / openclosepb presets, openclosepb GetPositions

For the code as it is NOW (lightpb after ddd33a0, openclosepb after 5499bf0 and 6769c0c): for all inputs,
every write lands in a cell the call allocates or in the caller's own message; what the model holds
(the live old message's map, the configured preset messages, the stored positions) is never written,
and — presets — never becomes reachable from the caller's message.  Each `…_writes` theorem shows
the same model expresses the corresponding defect (seeded shape or pre-fix code).
`updateModeValues` is tied to the real `modepb.ModelServer` (harness tie `rim-mode`, K1).
-/
namespace ScVerif.C07.Rim3

/-- **C07_mode_update_frame.** `ModelServer.UpdateModeValues` — absolute values, relative adjustments
(any table of available values, any current values: supported, unsupported, absent), with or without
the `values` update mask — writes no map that existed before the call except the caller's own request
map; in particular the live old message's map is unchanged, and the result is a new map. -/
theorem C07_mode_update_frame (avail : String → List String) (h : MapH) (stored : Nat) (src : Option Nat)
    (rel : List (String × Int)) (masked : Bool) :
    (∀ x, x < h.next → some x ≠ src → (updateModeValues avail h stored src rel masked).heap.maps x = h.maps x) ∧
      h.next ≤ (updateModeValues avail h stored src rel masked).result := by
  refine ⟨fun x hx hne => ?_, Nat.le_refl _⟩
  have hxd : x ≠ (h.alloc (h.maps stored)).2 := Nat.ne_of_lt hx
  simp only [updateModeValues]
  rw [mergePhase_other _ _ _ _ x hxd,
    interceptPhase_other avail _ stored src rel x (Nat.lt_succ_of_lt hx) hne]
  exact alloc_other h _ x hx

/-- the seeded shape (the lookup helper "corrects" an unsupported current value in the map it is given)
writes the live old message's map -/
theorem C07_mode_seeded_writes_old :
    ∃ (avail : String → List String) (h : MapH) (oldM newM : Nat) (mode : String) (adj : Int), oldM ≠ newM ∧
      (adjustOneSeeded avail h oldM newM mode adj).maps oldM ≠ h.maps oldM :=
  ⟨fun _ => ["auto", "slow"], { maps := fun x => if x = 0 then [("spin", "turbo")] else [], next := 2 }, 0, 1, "spin", 1,
    by decide, by simp [adjustOneSeeded, lookup, MapH.put, put, List.idxOf?, List.findIdx?, List.findIdx?.go]⟩

/-- **C07_preset_plant_frame.** After the model has applied a preset to the caller's message `b`
(lightpb `UpdateBrightness` selecting a preset, openclosepb `UpdatePositions` with a preset), the
caller rewriting `b` and every message `b` points to changes no other cell that existed before the
call: not the configured preset messages, not a stored message. -/
theorem C07_preset_plant_frame {M : Type} (h : PH M) (b : Nat) (preset : List Nat) (setBody f : M → M) :
    ∀ x, x < h.next → x ≠ b → (callerEdit (plant h b preset setBody) b f).cells x = h.cells x := by
  intro x hx hxb
  have c := cloneList_fresh preset h
  have hsubs : ((plant h b preset setBody).cells b).subs = (cloneList h preset).2 := by simp [plant]
  have hnot : ¬ (x = b ∨ x ∈ ((plant h b preset setBody).cells b).subs) := by
    rw [hsubs]
    intro hor
    rcases hor with e | e
    · exact hxb e
    · exact Nat.lt_irrefl _ (Nat.lt_of_lt_of_le hx (c.2.1 x e))
  simp only [callerEdit]
  rw [if_neg hnot]
  simp only [plant, hxb, if_false]
  exact c.1 x hx

/-- the pre-fix code (before ddd33a0 / 5499bf0): the caller's message pointed at the configured preset
message itself, so the caller's edit rewrote the model's preset table -/
theorem C07_preset_plant_legacy_writes :
    ∃ (h : PH Nat) (b p : Nat) (f : Nat → Nat), p < h.next ∧ p ≠ b ∧
      (callerEdit (plantLegacy h b [p] id) b f).cells p ≠ h.cells p :=
  ⟨{ cells := fun _ => ⟨7, []⟩, next := 2 }, 0, 1, fun _ => 9, by decide, by decide, by
    simp [callerEdit, plantLegacy]⟩

/-- **C07_openclose_get_frame.** `GetPositions` writes no item cell that existed before — for every
stored list, preset, read mask; and with a read mask the response shares no cell with the store: every
state (and the preset description) of the response is a cell allocated by the call. -/
theorem C07_openclose_get_frame {M : Type} (h : IH M) (stored : List Nat) (preset : Option Nat) (mask : Option (CMask M)) :
    (∀ x, x < h.next → (getPositions h stored preset mask).heap.item x = h.item x) ∧
    (mask ≠ none → (∀ r, r ∈ (getPositions h stored preset mask).states → h.next ≤ r) ∧
      (∀ p, (getPositions h stored preset mask).preset = some p → h.next ≤ p)) := by
  cases mask with
  | none => exact ⟨fun _ _ => rfl, fun hn => absurd rfl hn⟩
  | some m =>
    have a := statesPhase_fresh m h stored
    simp only [getPositions]
    split
    · refine ⟨fun x hx => ?_, fun _ => ⟨a.2.1, fun p hp => ?_⟩⟩
      · have : x ≠ (statesPhase m h stored).1.next := Nat.ne_of_lt (Nat.lt_of_lt_of_le hx a.2.2)
        show (if x = _ then _ else _) = _
        rw [if_neg this]
        exact a.1 x hx
      · simp only [Option.some.injEq] at hp
        rw [← hp]; exact a.2.2
    · exact ⟨a.1, fun _ => ⟨a.2.1, fun p hp => by simp at hp⟩⟩

/-- the seeded shape (the read mask applied in place to the composed message) clears fields of the
stored items -/
theorem C07_openclose_get_inplace_writes :
    ∃ (h : IH Nat) (stored : List Nat) (m : CMask Nat) (r : Nat), r ∈ stored ∧ r < h.next ∧
      (getPositionsInPlace h stored none m).heap.item r ≠ h.item r :=
  ⟨{ item := fun _ => 5, next := 1 }, [0], { states := some (fun _ => 0), preset := none }, 0, by decide, by decide, by
    simp [getPositionsInPlace]⟩

/-! ### Non-vacuity -/

/-- an unsupported current value ("turbo") and a relative step: the result selects the first value, the old map is as
it was, the request's map was allocated and written -/
example :
    let r := updateModeValues (fun _ => ["auto", "slow"]) { maps := fun x => if x = 0 then [("spin", "turbo")] else [], next := 1 }
      0 none [("spin", 1)] false
    r.heap.maps r.result = [("spin", "auto")] ∧ r.heap.maps 0 = [("spin", "turbo")] ∧ r.src = some 2 := by
  simp [updateModeValues, interceptPhase, mergePhase, MapH.alloc, adjust, adjustOne, lookup, MapH.put, put, mergeInto, List.idxOf?, List.findIdx?, List.findIdx?.go]

/-- a masked GetPositions returns fresh cells holding the projections -/
example :
    let r := getPositions { item := fun _ => 5, next := 2 } [0, 1] none (some { states := some (fun n => n + 1), preset := none })
    r.states = [2, 3] ∧ r.heap.item 2 = 6 ∧ r.heap.item 0 = 5 := by decide

end ScVerif.C07.Rim3
