import ScVerif.C07.EventsLemmas
/-!
# C07 — a change event never changes afterwards (event objects shared through the bus)

`Bus.Send` hands ONE `*CollectionChange` to every subscriber; an unmasked backpressure subscriber's
consumer receives that very pointer.  The theorems are about the model of Events.lean (writers'
sends and the pipeline steps of any number of subscribers of a Collection or a Value — backpressure or
lossy, masked or not, with or without an include filter (whatever it decides: pass, drop, replace by an
ADD / a REMOVE; for a lossy subscriber it runs behind the merger), seeds of subscriptions that ask for the current
value(s) first — interleaved in ANY order), for every read-mask projection `proj`:

* no step ever writes to an allocated event cell: whatever a consumer received, and whatever the bus
  handed out, keeps its contents for ever, whoever else holds the same pointer and however far a
  stalled lossy subscriber's merger falls behind (`mergeCollectionExcess` merges into private copies);
* what a lossy Collection subscriber's consumer receives is a cell its own pipeline allocated: it is
  never a bus cell and never a cell another subscriber's consumer holds.  (A lossy VALUE subscriber is
  different: `minibus.DropExcess` keeps the latest pointer, so its consumer holds the bus's object like
  everybody else — covered by the immutability theorems, not by the privacy theorem.)

`C07_events_shared_merge_writes` shows the model can express the seeded shape (a merger that keeps
the bus's pointer and writes the merge result through it): there the shared cell changes.
Tie: harness `core-events` (K1, sharing structure + contents after every write) and the
`snapshot-core-events` monitor (event objects re-compared field by field after every later op).
-/
namespace ScVerif.C07.Events

/-- **C07_events_immutable.** Whatever has been allocated — every event the bus has sent, every
event any consumer has received — has the same contents after any further sequence of sends and
pipeline steps of any subscribers. -/
theorem C07_events_immutable (proj : Nat → Nat) (s : ES) (steps : List Step) :
    ∀ r, r < s.next → (run proj s steps).heap r = s.heap r :=
  (run_frame proj steps s).2.1

/-- **C07_events_received_immutable.** In any run from the empty system: an event reference some
consumer has received, or that still waits in some pipeline's inbox, after `before`, denotes the same
event after `before ++ after`. -/
theorem C07_events_received_immutable (proj : Nat → Nat) (before after : List Step) :
    let s1 := run proj ES.init before
    ∀ sb, sb ∈ s1.subs → ∀ r, (r ∈ sb.out ∨ r ∈ sb.inbox) →
      (run proj ES.init (before ++ after)).heap r = s1.heap r := by
  intro s1 sb hsb r hr
  have hi : Inv s1 := run_inv proj before _ Inv.init
  have hlt : r < s1.next := by
    rcases hr with h | h
    · exact (hi.out sb hsb r h).1
    · exact (hi.inbox sb hsb r h).1
  rw [run_append]
  exact C07_events_immutable proj s1 after r hlt

/-- **C07_events_lossy_private.** In any run from the empty system, an event a lossy Collection subscriber's
consumer has received was allocated by that subscriber's own pipeline: it is not a cell of the bus,
and any subscriber whose consumer holds the same reference is that subscriber (indices are unique). -/
theorem C07_events_lossy_private (proj : Nat → Nat) (steps : List Step) :
    let s := run proj ES.init steps
    (s.subs.map (·.idx)).Nodup ∧
    ∀ sb, sb ∈ s.subs → sb.lossy = true → sb.value = false → ∀ r, r ∈ sb.out →
      s.owner r = some sb.idx ∧ (∀ sb', sb' ∈ s.subs → r ∈ sb'.out → sb'.idx = sb.idx) ∧
      (∀ sb', sb' ∈ s.subs → r ∉ sb'.inbox) := by
  intro s
  have hi : Inv s := run_inv proj steps _ Inv.init
  refine ⟨by rw [hi.idx]; exact List.nodup_range, ?_⟩
  intro sb hsb hl hv r hr
  have ho : s.owner r = some sb.idx := by
    rcases (hi.out sb hsb r hr).2 with h | h
    · exact h
    · rw [hl, hv] at h
      rcases h.2.2 with h' | h' <;> exact absurd h' (by decide)
  refine ⟨ho, ?_, ?_⟩
  · intro sb' hsb' hr'
    rcases (hi.out sb' hsb' r hr').2 with h | h
    · rw [ho] at h; exact (Option.some.inj h).symm
    · rw [ho] at h; exact absurd h.1 (by simp)
  · intro sb' hsb' hr'
    have := (hi.inbox sb' hsb' r hr').2
    rw [ho] at this
    exact absurd this (by simp)

/-- **C07_events_shared_merge_writes.** The seeded shape — the merger keeps the pointer it got from
the bus and writes `mergeChanges(old, new)` back through it — changes a cell other subscribers hold:
`k: foo→bar` becomes `k: foo→baz` under their feet. -/
theorem C07_events_shared_merge_writes :
    ∃ (h : Nat → Ev) (kept incoming : Nat), mergeInPlace h kept incoming kept ≠ h kept :=
  ⟨fun r => if r = 0 then ⟨.update, 1, some 10, some 11, false⟩ else ⟨.update, 1, some 11, some 12, false⟩, 0, 1, by decide⟩

/-! ### Non-vacuity -/

/-- two unmasked backpressure subscribers receive THE SAME cell (the sharing the theorems are about),
a masked one and a lossy one receive cells of their own -/
example :
    let s := run id ES.init [.sub false false, .sub false false, .sub false true, .sub true false,
      .send ⟨.add, 1, none, some 5, false⟩, .forward 0, .forward 1, .forward 2, .mergeIn 3, .emit 3]
    s.subs.map (·.out) = [[0], [0], [1], [2]] ∧ s.heap 0 = s.heap 2 := by decide

/-- a stalled lossy subscriber merges two updates of one id in its private copy; the bus cells the
other subscriber holds are untouched -/
example :
    let s := run id ES.init [.sub false false, .sub true false,
      .send ⟨.update, 1, some 10, some 11, false⟩, .forward 0, .mergeIn 1,
      .send ⟨.update, 1, some 11, some 12, false⟩, .forward 0, .mergeIn 1, .emit 1]
    s.subs.map (·.out) = [[0, 1], [2]] ∧ s.heap 0 = ⟨.update, 1, some 10, some 11, false⟩ ∧
      s.heap 2 = ⟨.update, 1, some 10, some 12, false⟩ := by decide

/-- an include filter replaces the shared UPDATE by a NEW ADD for its own subscriber; the other subscriber's object
(the bus cell 0) still says UPDATE -/
example :
    let s := run id ES.init [.sub false false, .sub false false,
      .send ⟨.update, 1, some 11, some 12, false⟩, .forward 0, .forwardIncl 1 .toAdd]
    s.subs.map (·.out) = [[0], [1]] ∧ s.heap 0 = ⟨.update, 1, some 11, some 12, false⟩ ∧
      s.heap 1 = ⟨.add, 1, none, some 12, false⟩ := by decide

/-- include runs BEHIND the merger of a lossy subscriber: two updates of one id are merged in the private copy (11 → 13), the
filter turns the merged event into a NEW REMOVE for its consumer; the backpressure subscriber's bus cells are untouched -/
example :
    let s := run id ES.init [.sub false false, .sub true false,
      .send ⟨.update, 1, some 11, some 12, false⟩, .forward 0, .mergeIn 1,
      .send ⟨.update, 1, some 12, some 13, false⟩, .forward 0, .mergeIn 1, .emitIncl 1 .toRemove]
    s.subs.map (·.out) = [[0, 1], [3]] ∧ s.heap 2 = ⟨.update, 1, some 11, some 13, false⟩ ∧
      s.heap 3 = ⟨.remove, 1, some 11, none, false⟩ ∧ s.heap 1 = ⟨.update, 1, some 12, some 13, false⟩ := by decide

/-- seeds: a subscriber that asks for the current items first is handed events its own Pull goroutine builds (cells 1 and 3
here; the masked subscriber's consumer gets the filtered cell 3), never a cell of the bus (cell 0) -/
example :
    let s := run id ES.init [.sub false false, .send ⟨.add, 1, none, some 5, false⟩, .forward 0,
      .sub false false, .seed 1 ⟨.add, 1, none, some 5, true⟩, .sub true true, .seed 2 ⟨.add, 1, none, some 5, true⟩]
    s.subs.map (·.out) = [[0], [1], [3]] ∧ s.owner 0 = none ∧ s.owner 1 = some 1 ∧ s.owner 3 = some 2 := by decide

/-- a Value: `DropExcess` drops the older pending pointer; the lossy consumer then receives the bus's own cell (cell 1),
the very cell the backpressure consumer received, and nothing was written -/
example :
    let s := run id ES.init [.vsub false false, .vsub true false,
      .vsend ⟨.update, 0, none, some 11, false⟩, .forward 0, .vsend ⟨.update, 0, none, some 12, false⟩, .forward 0,
      .dropIn 1, .forward 1]
    s.subs.map (·.out) = [[0, 1], [1]] ∧ s.owner 1 = none ∧ s.heap 0 = ⟨.update, 0, none, some 11, false⟩ := by decide

end ScVerif.C07.Events
