import ScVerif.C07.Rim4
/-!
# C07 — round 6 rim: electricpb CreateMode (records announced while the write is in flight), the hailpb collector,
# include predicates on live stored messages (bookingpb × pkg/time)

For the code as it is now, for all inputs: the call writes no message that existed before it (the caller's message
included) and no message after it has been announced; reads of the hail model leave store, ticket and every message
as they were, and the collector — run by `CreateHail` only — removes records without writing a message and only
records equal to one that arrived before `now - keepAlive`; `List` with a read-only include predicate leaves every
stored message as it was, and bookingpb's predicate is read-only. Each `…_changes…` / `…_writes…` theorem shows that
the same model expresses the corresponding seeded change (C07-13, C07-15, C07-14).
-/
namespace ScVerif.C07.Rim4

set_option linter.unusedSimpArgs false

/-- **C07_create_mode_frame.** `createOrAddMode` for every heap, store, caller message, generated id and outcome of
the normal-mode check: (1) no message that existed before the call is written — not the caller's, not a stored or
published one; (2) from the moment the ADD event is handed to subscribers (the writer still inside `bus.Send`) until
the call returns, no message is written at all; (3) the announced record is a message allocated by the call and
carries, already when announced, the key it is stored under. -/
theorem C07_create_mode_frame {B : Type} (h : MH B) (store : Store) (src : Nat) (gen : String) (normalTaken : Bool) :
    (∀ x, x < h.next → (createMode h store src gen normalTaken).heap.cells x = h.cells x) ∧
    (∀ x, (createMode h store src gen normalTaken).heap.cells x = (createMode h store src gen normalTaken).atSend.cells x) ∧
    (∀ r, (createMode h store src gen normalTaken).record = some r →
      h.next ≤ r ∧ r < (createMode h store src gen normalTaken).atSend.next ∧
      (createMode h store src gen normalTaken).store =
        store ++ [(((createMode h store src gen normalTaken).atSend.cells r).id, r)]) := by
  have hlt : ∀ x, x < h.next → x ≠ h.next ∧ x ≠ h.next + 1 :=
    fun x hx => ⟨Nat.ne_of_lt hx, Nat.ne_of_lt (Nat.lt_succ_of_lt hx)⟩
  by_cases hn : (h.cells src).normal = true ∧ normalTaken = true
  · refine ⟨fun x hx => ?_, fun x => by simp [createMode, MH.alloc, hn], fun r hr => ?_⟩
    · simp [createMode, MH.alloc, hn, (hlt x hx).1]
    · simp [createMode, MH.alloc, hn] at hr
  · by_cases hid : (h.cells src).id = ""
    · by_cases hk : hasKey store gen = true
      · refine ⟨fun x hx => ?_, fun x => by simp [createMode, MH.alloc, MH.setId, hn, hid, hk], fun r hr => ?_⟩
        · simp [createMode, MH.alloc, MH.setId, hn, hid, hk, (hlt x hx).1]
        · simp [createMode, MH.alloc, MH.setId, hn, hid, hk] at hr
      · refine ⟨fun x hx => ?_, fun x => by simp [createMode, MH.alloc, MH.setId, hn, hid, hk], fun r hr => ?_⟩
        · simp [createMode, MH.alloc, MH.setId, hn, hid, hk, (hlt x hx).1, (hlt x hx).2]
        · simp [createMode, MH.alloc, MH.setId, hn, hid, hk] at hr
          subst hr
          simp [createMode, MH.alloc, MH.setId, hn, hid, hk]
    · by_cases hk : hasKey store (h.cells src).id = true
      · refine ⟨fun x hx => ?_, fun x => by simp [createMode, MH.alloc, MH.setId, hn, hid, hk], fun r hr => ?_⟩
        · simp [createMode, MH.alloc, MH.setId, hn, hid, hk, (hlt x hx).1]
        · simp [createMode, MH.alloc, MH.setId, hn, hid, hk] at hr
      · refine ⟨fun x hx => ?_, fun x => by simp [createMode, MH.alloc, MH.setId, hn, hid, hk], fun r hr => ?_⟩
        · simp [createMode, MH.alloc, MH.setId, hn, hid, hk, (hlt x hx).1, (hlt x hx).2]
        · simp [createMode, MH.alloc, MH.setId, hn, hid, hk] at hr
          subst hr
          simp [createMode, MH.alloc, MH.setId, hn, hid, hk]

/-- the seeded shape C07-13 (the id is written onto the record `Add` returned): the message a subscriber was handed
with the ADD event changes before the call returns -/
theorem C07_create_mode_late_id_changes_announced_record :
    ∃ (h : MH Nat) (store : Store) (src : Nat) (gen : String) (r : Nat), src < h.next ∧
      (createModeLate h store src gen false).record = some r ∧ r < (createModeLate h store src gen false).atSend.next ∧
      ((createModeLate h store src gen false).heap.cells r).id ≠ ((createModeLate h store src gen false).atSend.cells r).id :=
  ⟨{ cells := fun _ => ⟨"", false, 7⟩, next := 1 }, [], 0, "ZJLz3iJs", 1, by decide, by
    simp [createModeLate, hasKey, MH.alloc], by simp [createModeLate, hasKey, MH.alloc], by
    simp [createModeLate, hasKey, MH.alloc, MH.setId]⟩

/-- **C07_hail_reads_frame.** `GetHail`, `ListHails` and opening `PullHails`/`PullHail` leave the hail model exactly
as it was — records, ticket of the collector, every message — for every state, `keepAlive` and clock. -/
theorem C07_hail_reads_frame {B : Type} (eqv : B → B → Bool) (keepAlive now : Int) (st : HS B) (op : HOp B)
    (hr : op.isRead = true) : (hstep eqv keepAlive now st op).1 = st := by
  cases op <;> first | rfl | simp [HOp.isRead] at hr

/-- **C07_hail_collector_frame.** No call of the hail model — `CreateHail` with the collector run it defers
included — writes a message that existed before; the collector itself allocates nothing and only removes records. -/
theorem C07_hail_collector_frame {B : Type} (eqv : B → B → Bool) (keepAlive now : Int) (st : HS B) :
    (∀ op x, x < st.next → (hstep eqv keepAlive now st op).1.cells x = st.cells x) ∧
    (gc eqv keepAlive now st).cells = st.cells ∧ (gc eqv keepAlive now st).next = st.next ∧
    (gc eqv keepAlive now st).store.Sublist st.store := by
  have gcells : ∀ s : HS B, (gc eqv keepAlive now s).cells = s.cells := by
    intro s; simp only [gc]; split
    · rfl
    · split <;> rfl
  refine ⟨fun op x hx => ?_, gcells st, ?_, ?_⟩
  · cases op with
    | create hl gen =>
      simp only [hstep]
      split
      · rw [gcells]
      · rw [gcells]; simp [Nat.ne_of_lt hx]
    | get id => rfl
    | list => rfl
    | pull => rfl
    | delete id => rfl
    | tick => rfl
  · simp only [gc]; split
    · rfl
    · split <;> rfl
  · simp only [gc]; split
    · exact List.Sublist.refl _
    · split
      · exact List.Sublist.refl _
      · exact gcLoop_sublist eqv st.cells _ st.store st.store

/-- **C07_hail_collector_removes_only_expired.** A record the collector removes is stored under the id of, and has
the id and arrive time of, a stored hail that arrived before `now - keepAlive`; and it removes nothing unless
`keepAlive ≥ 0` and it holds the ticket. -/
theorem C07_hail_collector_removes_only_expired {B : Type} (eqv : B → B → Bool) (keepAlive now : Int) (st : HS B)
    (kr : String × Nat) (hin : kr ∈ st.store) (hout : kr ∉ (gc eqv keepAlive now st).store) :
    0 ≤ keepAlive ∧ st.ticket = true ∧
    ∃ q, q ∈ st.store ∧ arrivedBefore (st.cells q.2) (now - keepAlive) = true ∧ kr.1 = (st.cells q.2).id ∧
      (st.cells kr.2).id = (st.cells q.2).id ∧ (st.cells kr.2).arrive = (st.cells q.2).arrive := by
  simp only [gc] at hout
  split at hout
  · exact absurd hin hout
  · rename_i hk
    split at hout
    · exact absurd hin hout
    · rename_i ht
      refine ⟨Int.not_lt.mp hk, by simpa using ht, ?_⟩
      exact gcLoop_removed eqv st.cells _ st.store st.store kr hin hout

/-- the seeded shape C07-15 (`ListHails` runs the collector first): on a model as `NewModel` builds it from an initial
record that arrived long ago (ticket primed), the read removes the record -/
theorem C07_hail_list_collecting_changes_store :
    ∃ (st : HS Nat) (keepAlive now : Int), 0 ≤ keepAlive ∧ st.ticket = true ∧
      (listCollecting (fun a b => a == b) keepAlive now st).1.store ≠ st.store :=
  ⟨{ cells := fun _ => ⟨"h1", some 100, 0⟩, next := 1, store := [("h1", 0)], ticket := true }, 30, 1000, by decide, rfl, by
    simp [listCollecting, gc, gcLoop, arrivedBefore, deleteExpected]⟩

/-- **C07_include_frame.** `Collection.List(WithInclude(pred))` hands `pred` every stored message itself: for EVERY
predicate that writes nothing, the list leaves every message as it was; and bookingpb's predicate
(`timepb.PeriodsIntersect` over `cutPeriod`, any request period, any stored periods — backwards ones included) is such
a predicate, so `ListBookings` with `booking_intersects` leaves every stored booking as it was. -/
theorem C07_include_frame :
    (∀ (pred : PHp → Item → PHp × Bool), (∀ h it, (pred h it).1 = h) →
      ∀ h items, (listInclude pred h items).1 = h) ∧
    (∀ (req : Nat) (h : PHp) (items : List Item), (listInclude (bookingPred cutPeriod req) h items).1 = h) :=
  ⟨listInclude_heap, fun req h items =>
    listInclude_heap (bookingPred cutPeriod req) (fun h it => periodsIntersect_heap h it (some req)) h items⟩

/-- the seeded shape C07-14 (`cutPeriod` puts a backwards period in order on its argument): a `List` with the include
predicate rewrites a stored booking's period -/
theorem C07_include_swap_writes_stored :
    ∃ (h : PHp) (items : List Item) (req r : Nat), some r ∈ items ∧ r < h.next ∧ r ≠ req ∧
      (listInclude (bookingPred cutPeriodSwap req) h items).1.per r ≠ h.per r :=
  ⟨{ per := fun x => if x = 0 then ⟨some 500, some 100⟩ else ⟨some 200, some 300⟩, next := 2 }, [some 0], 1, 0,
    by simp, by decide, by decide, by
    simp [listInclude, bookingPred, periodsIntersect, cutPeriodSwap]⟩

/-! ### Non-vacuity -/

/-- CreateMode with an empty id: the clone (cell 1) gets the generated id, the record (cell 2) is announced with it,
the caller's message (cell 0) keeps its empty id -/
example :
    let r := createMode (B := Nat) { cells := fun _ => ⟨"", false, 7⟩, next := 1 } [] 0 "ZJLz3iJs" false
    r.record = some 2 ∧ (r.atSend.cells 2).id = "ZJLz3iJs" ∧ (r.heap.cells 0).id = "" ∧ r.store = [("ZJLz3iJs", 2)] := by
  simp [createMode, hasKey, MH.alloc, MH.setId]

/-- CreateHail of a hail that arrived long ago: the deferred collector removes it at once (a write may do that) and
keeps the one that has not arrived; a ListHails afterwards changes nothing -/
example :
    let st : HS Nat := { cells := fun _ => ⟨"h0", none, 0⟩, next := 1, store := [("h0", 0)], ticket := true }
    let st1 := (hstep (fun a b => a == b) 30 1000 st (.create ⟨"", some 100, 5⟩ "g1")).1
    st1.store = [("h0", 0)] ∧ st1.ticket = false ∧ (hstep (fun a b => a == b) 30 1000 st1 .list).1.store = st1.store := by
  simp [hstep, gc, gcLoop, arrivedBefore, deleteExpected]

/-- a backwards stored period and the real `cutPeriod`: the include predicate answers and the period is as it was -/
example :
    let h : PHp := { per := fun x => if x = 0 then ⟨some 500, some 100⟩ else ⟨some 200, some 300⟩, next := 2 }
    (listInclude (bookingPred cutPeriod 1) h [some 0]).1.per 0 = ⟨some 500, some 100⟩ := by
  simp [listInclude, bookingPred, periodsIntersect, cutPeriod]

end ScVerif.C07.Rim4
