import ScVerif.C07.EventValsLemmas
/-!
# C07 — the VALUES of change events never change afterwards (read-mask filters clone, they never mask in place)

The old value of an event is not a private message: it is the message that was stored — the pointer earlier unmasked
`Get`/`List` calls returned, the write that stored it returned and announced as `NewValue`, `Delete` returns, and every
other subscriber receives in the same (shared) event.  The model of EventVals.lean puts the values of the event
objects of Events.lean into a message heap (any message type `M`, any read-mask projection `pm`): writers store new
cells, `CollectionChange.filter` / `ValueChange.filter` of a masked subscriber clone (`FilterClone`: new value first,
then old value) and `include` / `mergeChanges` carry references on.  For ANY interleaving of writers, sends and pipeline
steps of any number of subscribers (backpressure / lossy, masked or not, Collection or Value, include deciding anything):

* no step writes to an allocated message cell, nor to an allocated event cell (`C07_event_values_immutable`);
* so the values of whatever event any consumer has received — and of whatever still waits in a pipeline — have the
  contents they had when the event was received, for ever (`C07_event_values_received_immutable`);
* what a masked subscriber's consumer receives carries clones: cells that did not exist before the step, holding `pm`
  of the originals, which are left as they were (`C07_filter_clones`).

`C07_remove_masked_in_place_writes` shows the model can express the seeded shape (C07-10: the `OldValue` of a REMOVE
masked where it is, "the collection has let go of that message"): the cell other holders of the removed message look at
changes.  Tie: harness `core-events` (K1: contents of every event seen so far AND which value objects they share, after
every write) and the `snapshot-core*` / `snapshot-models` monitors.
-/
namespace ScVerif.C07.Events

/-- **C07_event_values_immutable.** Every message cell and every event cell that exists keeps its contents through any
further sequence of stores, sends and pipeline steps (filters of masked subscribers included). -/
theorem C07_event_values_immutable {M : Type} (pm : M → M) (v : VS M) (steps : List (VStep M)) :
    (∀ r, r < v.mnext → (vrun pm v steps).msgs r = v.msgs r) ∧
    (∀ c, c < v.es.next → (vrun pm v steps).es.heap c = v.es.heap c) :=
  ⟨(vrun_frame pm steps v).2.1, (vrun_frame pm steps v).2.2.2⟩

/-- **C07_event_values_received_immutable.** In any run from the empty system: an event some consumer has received
(or that waits in some pipeline's inbox) after `before` is the same event, and its old and new value — when they are
messages that exist, which is what writers send — have the same contents, after `before ++ after`. -/
theorem C07_event_values_received_immutable {M : Type} [Inhabited M] (pm : M → M) (before after : List (VStep M)) :
    let v1 := vrun pm (VS.init : VS M) before
    let v2 := vrun pm (VS.init : VS M) (before ++ after)
    ∀ sb, sb ∈ v1.es.subs → ∀ c, (c ∈ sb.out ∨ c ∈ sb.inbox) →
      v2.es.heap c = v1.es.heap c ∧
      (∀ r, (v1.es.heap c).old = some r → r < v1.mnext → v2.msgs r = v1.msgs r) ∧
      (∀ r, (v1.es.heap c).new = some r → r < v1.mnext → v2.msgs r = v1.msgs r) := by
  intro v1 v2 sb hsb c hc
  have hi : Inv v1.es := vrun_inv pm before _ Inv.init
  have hlt : c < v1.es.next := by
    rcases hc with h | h
    · exact (hi.out sb hsb c h).1
    · exact (hi.inbox sb hsb c h).1
  have e : v2 = vrun pm v1 after := vrun_append pm before after _
  have f := C07_event_values_immutable pm v1 after
  rw [e]
  exact ⟨f.2 c hlt, fun r _ hr => f.1 r hr, fun r _ hr => f.1 r hr⟩

/-- **C07_filter_clones.** A pipeline step that hands an event `e` to the read-mask filter of a masked subscriber
(`forward`, `forwardIncl`, `emit`) delivers a NEW event whose values are NEW message cells holding `pm` of `e`'s values
(a nil value stays nil), and leaves every message that existed — `e`'s own values among them — as it was. -/
theorem C07_filter_clones {M : Type} (pm : M → M) (v : VS M) (st : Step) (e : Ev) (h : filtered v.es st = some e) :
    let v' := vstep pm v (.ev st)
    let out := v'.es.heap (v'.es.next - 1)
    v.es.next ≤ v'.es.next - 1 ∧
    (∀ r, r < v.mnext → v'.msgs r = v.msgs r) ∧
    (∀ r, e.new = some r → r < v.mnext → ∃ k, out.new = some k ∧ v.mnext ≤ k ∧ k < v'.mnext ∧ v'.msgs k = pm (v.msgs r)) ∧
    (∀ r, e.old = some r → r < v.mnext → e.old ≠ e.new →
      ∃ k, out.old = some k ∧ v.mnext ≤ k ∧ k < v'.mnext ∧ v'.msgs k = pm (v.msgs r)) ∧
    (e.new = none → out.new = none) ∧ (e.old = none → out.old = none) := by
  intro v' out
  have fo := filtered_out pm v st e h
  have fr := vstep_frame pm v (.ev st)
  have hv : v'.msgs = (cloneVal pm (cloneVal pm v.msgs v.mnext e.new).1 (cloneVal pm v.msgs v.mnext e.new).2 e.old).1 ∧
      v'.mnext = (cloneVal pm (cloneVal pm v.msgs v.mnext e.new).1 (cloneVal pm v.msgs v.mnext e.new).2 e.old).2 := by
    show (vstep pm v (.ev st)).msgs = _ ∧ (vstep pm v (.ev st)).mnext = _
    simp only [vstep, h]
    exact ⟨trivial, trivial⟩
  have hout : out = projEv (projFor v.mnext e) e := fo.2
  have hlt : v.es.next < v'.es.next := fo.1
  refine ⟨by omega, fr.2.1, ?_, ?_, ?_, ?_⟩
  · intro r hn hr
    refine ⟨v.mnext, ?_, Nat.le_refl _, ?_, ?_⟩
    · rw [hout]; simp [projEv, projFor, hn]
    · rw [hv.2, hn]
      have := (cloneVal_frame pm (cloneVal pm v.msgs v.mnext (some r)).1 (cloneVal pm v.msgs v.mnext (some r)).2 e.old).1
      rw [(cloneVal_at pm v.msgs v.mnext r).2] at this
      rw [(cloneVal_at pm v.msgs v.mnext r).2]
      omega
    · rw [hv.1, hn]
      have c2 := cloneVal_frame pm (cloneVal pm v.msgs v.mnext (some r)).1 (cloneVal pm v.msgs v.mnext (some r)).2 e.old
      rw [c2.2 v.mnext (by rw [(cloneVal_at pm v.msgs v.mnext r).2]; omega)]
      exact (cloneVal_at pm v.msgs v.mnext r).1
  · intro r ho hr hne
    cases hnw : e.new with
    | none =>
      refine ⟨v.mnext, ?_, Nat.le_refl _, ?_, ?_⟩
      · rw [hout]; simp [projEv, projFor, ho, hnw]
      · rw [hv.2, hnw, ho]; simp [cloneVal]
      · rw [hv.1, hnw, ho]; simp [cloneVal]
    | some x =>
      have hx : x ≠ r := by
        intro hxr
        apply hne
        rw [ho, hnw, hxr]
      refine ⟨v.mnext + 1, ?_, Nat.le_succ _, ?_, ?_⟩
      · rw [hout]; simp [projEv, projFor, ho, hnw, hx]
      · rw [hv.2, hnw, ho]; simp [cloneVal]
      · rw [hv.1, hnw, ho]
        simp only [cloneVal]
        rw [if_pos trivial, if_neg (by omega : ¬ r = v.mnext)]
  · intro hn; rw [hout]; simp [projEv, hn]
  · intro ho; rw [hout]; simp [projEv, ho]

/-- **C07_remove_masked_in_place_writes.** The seeded shape — a REMOVE's `OldValue` is masked where it is instead of
being cloned — writes to a message cell that existed: the removed message that an earlier `Get`, the `Delete` call and
every unmasked subscriber hold loses the fields outside the masked subscriber's read mask. -/
theorem C07_remove_masked_in_place_writes :
    ∃ (pm : Nat × Nat → Nat × Nat) (msgs : Nat → Nat × Nat) (e : Ev) (r : Nat),
      e.old = some r ∧ filterRemoveInPlace pm msgs e r ≠ msgs r :=
  ⟨fun m => (m.1, 0), fun _ => (4, 7), ⟨.remove, 1, some 0, none, false⟩, 0, rfl, by decide⟩

/-! ### Non-vacuity -/

/-- an unmasked and a masked subscriber see a Delete: the unmasked consumer's event (bus cell 1) carries the stored
message itself (cell 0, also the ADD's new value); the masked consumer's event (cell 3) carries a clone (cell 1 of the
message heap) with the projection applied; the stored message still reads (4, 7) -/
example :
    let v := vrun (fun m : Nat × Nat => (m.1, 0)) VS.init [.ev (.sub false false), .ev (.sub false true),
      .store (4, 7), .ev (.send ⟨.add, 1, none, some 0, false⟩), .ev (.forward 0), .ev (.forward 1),
      .ev (.send ⟨.remove, 1, some 0, none, false⟩), .ev (.forward 0), .ev (.forward 1)]
    v.es.subs.map (·.out) = [[0, 2], [1, 3]] ∧ (v.es.heap 2).old = some 0 ∧ (v.es.heap 3).old = some 2 ∧
      v.msgs 0 = (4, 7) ∧ v.msgs 2 = (4, 0) ∧ v.mnext = 3 := by decide

/-- `filtered` fires: the premise of `C07_filter_clones` is satisfiable (masked forward of an UPDATE: two clones) -/
example :
    let v := vrun (fun m : Nat × Nat => (m.1, 0)) VS.init [.ev (.sub false true), .store (4, 7), .store (5, 7),
      .ev (.send ⟨.update, 1, some 0, some 1, false⟩)]
    filtered v.es (.forward 0) = some ⟨.update, 1, some 0, some 1, false⟩ ∧
      (let v' := vstep (fun m : Nat × Nat => (m.1, 0)) v (.ev (.forward 0))
       v'.es.heap 1 = ⟨.update, 1, some 3, some 2, false⟩ ∧ v'.msgs 2 = (5, 0) ∧ v'.msgs 3 = (4, 0)) := by decide

end ScVerif.C07.Events
