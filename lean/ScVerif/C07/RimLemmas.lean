import ScVerif.C07.Rim
/-! Frame lemmas for the rim models: a call whose working slice lives in a cell allocated by the call
writes to no cell that existed before the call. -/
namespace ScVerif.C07.Rim
open ScVerif.C07

/-- `r` works on cells at or above `n0`, and everything below `n0` is as in `h` -/
structure Fresh (n0 : Ref) (h : AH) (r : AH × Slice) : Prop where
  same : ∀ x, x < n0 → r.1.arr x = h.arr x
  lo : n0 ≤ r.2.a
  hi : r.2.a < r.1.next
  mono : h.next ≤ r.1.next

theorem set_fresh {n0 : Ref} {h : AH} {s : Slice} (hlo : n0 ≤ s.a) (hhi : s.a < h.next) (xs : List String) (s' : Slice)
    (ha : s'.a = s.a) : Fresh n0 h (h.set s.a xs, s') where
  same x hx := by
    have : x ≠ s.a := Nat.ne_of_lt (Nat.lt_of_lt_of_le hx hlo)
    simp [AH.set, this]
  lo := by rw [ha]; exact hlo
  hi := by rw [ha]; exact hhi
  mono := Nat.le_refl _

theorem allocWith_fresh {n0 : Ref} {h : AH} (hn : n0 ≤ h.next) (xs : List String) (cap : Nat) :
    Fresh n0 h (allocWith h xs cap) where
  same x hx := by
    have : x ≠ h.next := Nat.ne_of_lt (Nat.lt_of_lt_of_le hx hn)
    simp [allocWith, this]
  lo := hn
  hi := Nat.lt_succ_self _
  mono := Nat.le_succ _

theorem appendS_fresh {n0 : Ref} {h : AH} {s : Slice} (hlo : n0 ≤ s.a) (hhi : s.a < h.next) (xs : List String) :
    Fresh n0 h (appendS h s xs) := by
  unfold appendS
  split
  · exact set_fresh hlo hhi _ _ rfl
  · exact allocWith_fresh (Nat.le_trans hlo (Nat.le_of_lt hhi)) _ _

theorem Fresh.trans {n0 : Ref} {h : AH} {r : AH × Slice} {r' : AH × Slice}
    (a : Fresh n0 h r) (b : Fresh n0 r.1 r') : Fresh n0 h r' where
  same x hx := (b.same x hx).trans (a.same x hx)
  lo := b.lo
  hi := b.hi
  mono := Nat.le_trans a.mono b.mono

theorem Fresh.refl {n0 : Ref} {h : AH} {s : Slice} (hlo : n0 ≤ s.a) (hhi : s.a < h.next) : Fresh n0 h (h, s) :=
  ⟨fun _ _ => rfl, hlo, hhi, Nat.le_refl _⟩

theorem unionStep_fresh {n0 : Ref} {h : AH} {s : Slice} (hlo : n0 ≤ s.a) (hhi : s.a < h.next) (t : String) :
    Fresh n0 h (unionStep h s t) := by
  unfold unionStep
  simp only
  split
  · exact appendS_fresh hlo hhi _
  · split
    · exact Fresh.refl hlo hhi
    · have a := appendS_fresh (s := { s with len := search (rd h s) t + 1 }) hlo hhi ((rd h s).drop (search (rd h s) t))
      exact a.trans (set_fresh a.lo a.hi _ _ rfl)

theorem unionLoop_fresh {n0 : Ref} (ts : List String) :
    ∀ {h : AH} {s : Slice}, n0 ≤ s.a → s.a < h.next → Fresh n0 h (unionLoop h s ts) := by
  induction ts with
  | nil => intro h s hlo hhi; exact Fresh.refl hlo hhi
  | cons t ts ih =>
    intro h s hlo hhi
    have a := unionStep_fresh hlo hhi t
    exact a.trans (ih a.lo a.hi)

theorem removeStep_fresh {n0 : Ref} {h : AH} {s : Slice} (hlo : n0 ≤ s.a) (hhi : s.a < h.next) (t : String) :
    Fresh n0 h (removeStep h s t) := by
  unfold removeStep
  simp only
  split
  · exact Fresh.refl hlo hhi
  · exact set_fresh hlo hhi _ _ rfl

theorem removeLoop_fresh {n0 : Ref} (ts : List String) :
    ∀ {h : AH} {s : Slice}, n0 ≤ s.a → s.a < h.next → Fresh n0 h (removeLoop h s ts) := by
  induction ts with
  | nil => intro h s hlo hhi; exact Fresh.refl hlo hhi
  | cons t ts ih =>
    intro h s hlo hhi
    have a := removeStep_fresh hlo hhi t
    exact a.trans (ih a.lo a.hi)

/-! metadata -/

/-- `rs` are cells at or above `n0`; message cells below `n0` and all arrays are as in `h` -/
structure MFresh (n0 : Ref) (h : MH) (r : MH × List Ref) : Prop where
  same : ∀ x, x < n0 → r.1.msg x = h.msg x
  refs : ∀ x, x ∈ r.2 → n0 ≤ x ∧ x < r.1.next
  mono : h.next ≤ r.1.next

theorem mergeInto_fresh {n0 : Ref} {h : MH} {tmds : List Ref} (hn : n0 ≤ h.next)
    (hr : ∀ x, x ∈ tmds → n0 ≤ x ∧ x < h.next) (tmd : TMd) : MFresh n0 h (mergeInto h tmds tmd) := by
  unfold mergeInto
  cases hf : tmds.find? (fun r => (h.msg r).name = tmd.name) with
  | some r =>
    have hm := List.mem_of_find?_eq_some hf
    refine ⟨fun x hx => ?_, hr, Nat.le_refl _⟩
    have : x ≠ r := Nat.ne_of_lt (Nat.lt_of_lt_of_le hx (hr r hm).1)
    simp [this]
  | none =>
    refine ⟨fun x hx => ?_, fun x hx => ?_, Nat.le_succ _⟩
    · have : x ≠ h.next := Nat.ne_of_lt (Nat.lt_of_lt_of_le hx hn)
      simp [this]
    · rcases List.mem_append.mp hx with hx | hx
      · exact ⟨(hr x hx).1, Nat.lt_succ_of_lt (hr x hx).2⟩
      · simp at hx; subst hx; exact ⟨hn, Nat.lt_succ_self _⟩

theorem mergeAll_fresh {n0 : Ref} (upd : List TMd) :
    ∀ {h : MH} {tmds : List Ref}, n0 ≤ h.next → (∀ x, x ∈ tmds → n0 ≤ x ∧ x < h.next) → MFresh n0 h (mergeAll h tmds upd) := by
  induction upd with
  | nil => intro h tmds _ hr; exact ⟨fun _ _ => rfl, hr, Nat.le_refl _⟩
  | cons t ts ih =>
    intro h tmds hn hr
    have a := mergeInto_fresh hn hr t
    have b := ih (Nat.le_trans hn a.mono) a.refs
    exact ⟨fun x hx => (b.same x hx).trans (a.same x hx), b.refs, Nat.le_trans a.mono b.mono⟩

theorem cloneAll_fresh (rs : List Ref) :
    ∀ (h : MH), MFresh h.next h (cloneAll h rs) ∧ ∀ n0, n0 ≤ h.next → MFresh n0 h (cloneAll h rs) := by
  induction rs with
  | nil =>
    intro h
    exact ⟨⟨fun _ _ => rfl, fun x hx => by simp [cloneAll] at hx, Nat.le_refl _⟩,
      fun n0 _ => ⟨fun _ _ => rfl, fun x hx => by simp [cloneAll] at hx, Nat.le_refl _⟩⟩
  | cons r rs ih =>
    intro h
    have key : ∀ n0, n0 ≤ h.next → MFresh n0 h (cloneAll h (r :: rs)) := by
      intro n0 hn
      simp only [cloneAll]
      generalize hh1 : ({ h with msg := fun x => if x = h.next then h.msg r else h.msg x, next := h.next + 1 } : MH) = h1
      have hn1 : h1.next = h.next + 1 := by rw [← hh1]
      have b := (ih h1).2 n0 (by rw [hn1]; exact Nat.le_succ_of_le hn)
      refine ⟨fun x hx => ?_, fun x hx => ?_, ?_⟩
      · rw [b.same x hx, ← hh1]
        have : x ≠ h.next := Nat.ne_of_lt (Nat.lt_of_lt_of_le hx hn)
        simp [this]
      · simp only [List.mem_cons] at hx
        rcases hx with hx | hx
        · subst hx
          exact ⟨hn, Nat.lt_of_lt_of_le (by rw [hn1]; exact Nat.lt_succ_self _) b.mono⟩
        · exact b.refs x hx
      · exact Nat.le_trans (by rw [hn1]; exact Nat.le_succ _) b.mono
    exact ⟨key h.next (Nat.le_refl _), key⟩

end ScVerif.C07.Rim
