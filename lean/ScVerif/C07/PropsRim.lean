import ScVerif.C07.RimLemmas
/-!
# C07 — the three rim models (Go slice semantics)

For the code as it is NOW (after the `fix:` commits 61cd22e, cc201f5, cb83336): every write of
`traitUnion`, `traitRemove`, the metadata merge interceptor and the enter/leave seed edit lands in a
cell allocated by the call itself — for all inputs, all capacities, all argument lists.  The
`…_legacy_writes` theorems show that the model is fine enough to express the defects: the pre-fix
code, in the same model, changes the caller's (stored) array / message.  `traitUnion`/`traitRemove`
are tied to the real functions by an exhaustive small-scope differential (harness tie `rim-slices`).
-/
namespace ScVerif.C07.Rim
open ScVerif.C07

/-- **C07_parent_union_frame.** `traitUnion` never writes to an array that existed before the call —
whatever the stored slice's length, capacity and contents, and whatever names are added. -/
theorem C07_parent_union_frame (h : AH) (has : Slice) (more : List String) :
    ∀ x, x < h.next → (traitUnion h has more).1.arr x = h.arr x := by
  intro x hx
  have a := allocWith_fresh (n0 := h.next) (Nat.le_refl _) (rd h has) (has.len + more.length)
  have b := unionLoop_fresh (n0 := h.next) more a.lo a.hi
  exact (a.trans b).same x hx

/-- **C07_parent_remove_frame.** Likewise for `traitRemove`. -/
theorem C07_parent_remove_frame (h : AH) (has : Slice) (remove : List String) :
    ∀ x, x < h.next → (traitRemove h has remove).1.arr x = h.arr x := by
  intro x hx
  have a := allocWith_fresh (n0 := h.next) (Nat.le_refl _) (rd h has) has.len
  have b := removeLoop_fresh (n0 := h.next) remove a.lo a.hi
  exact (a.trans b).same x hx

/-- the pre-fix `traitUnion` (no clone) inserted in place when capacity allowed: the stored array changes -/
theorem C07_parent_union_legacy_writes :
    ∃ (h : AH) (has : Slice) (more : List String), has.a < h.next ∧
      (traitUnionLegacy h has more).1.arr has.a ≠ h.arr has.a :=
  ⟨{ arr := fun _ => ["a", "c", ""], next := 1 }, ⟨0, 2, 3⟩, ["b"], by decide, by decide⟩

/-- the pre-fix `traitRemove` copied within the stored array -/
theorem C07_parent_remove_legacy_writes :
    ∃ (h : AH) (has : Slice) (remove : List String), has.a < h.next ∧
      (traitRemoveLegacy h has remove).1.arr has.a ≠ h.arr has.a :=
  ⟨{ arr := fun _ => ["a", "c"], next := 1 }, ⟨0, 2, 2⟩, ["a"], by decide, by decide⟩

/-- **C07_metadata_merge_frame.** The metadata merge (clone of the old Traits, then merge of the
update's traits by name, appending unknown ones) writes to no message cell that existed before —
for every old list of stored trait messages and every update. -/
theorem C07_metadata_merge_frame (h : MH) (oldTraits : List Ref) (upd : List TMd) :
    ∀ x, x < h.next → (mergeTraits h oldTraits upd).1.msg x = h.msg x := by
  intro x hx
  have a := (cloneAll_fresh oldTraits h).1
  have b := mergeAll_fresh (n0 := h.next) upd a.mono a.refs
  exact (b.same x hx).trans (a.same x hx)

/-- the pre-fix interceptor merged into the stored trait message itself -/
theorem C07_metadata_merge_legacy_writes :
    ∃ (h : MH) (oldTraits : List Ref) (upd : List TMd), (∀ r, r ∈ oldTraits → r < h.next) ∧
      ∃ r, r ∈ oldTraits ∧ (mergeTraitsLegacy h oldTraits upd).1.msg r ≠ h.msg r :=
  ⟨{ msg := fun _ => ⟨"t", [("k", "v")]⟩, arr := fun _ => [], next := 1 }, [0], [⟨"t", [("k", "w")]⟩],
    by decide, 0, by decide, by decide⟩

/-- **C07_enterleave_seed_frame.** The seed edit of `PullEnterLeaveEvents` writes only the cell it
allocates: the seed it was handed (the stored event when there is no read mask) is unchanged, and
what the subscriber receives is the fresh cell. -/
theorem C07_enterleave_seed_frame (h : Heap ELE) (next seed : Ref) (hs : seed < next) :
    (∀ r, r < next → (seedEdit h next seed).1 r = h r) ∧ (seedEdit h next seed).1 seed = h seed ∧
    (seedEdit h next seed).2 = next ∧
    (seedEdit h next seed).1 next = { h seed with direction := 0, occupant := none } := by
  have hf : ∀ r, r < next → (seedEdit h next seed).1 r = h r := by
    intro r hr
    simp [seedEdit, Heap.set, Nat.ne_of_lt hr]
  exact ⟨hf, hf seed hs, rfl, by simp [seedEdit, Heap.set]⟩

/-- the pre-fix code cleared occupant and direction on the seed itself -/
theorem C07_enterleave_seed_legacy_writes :
    ∃ (h : Heap ELE) (next seed : Ref), seed < next ∧ (seedEditLegacy h next seed).1 seed ≠ h seed :=
  ⟨fun _ => ⟨1, some "x", 3⟩, 1, 0, by decide, by decide⟩

/-- **C07_enterleave_pull_frame.** `PullEnterLeaveEvents(ctx, opts...)` up to its first message, for every read mask
(none included) and whatever else the option list holds: the seed `Value.Pull` produces (the stored event itself
without a mask, a filtered clone with one) followed by the adapter's edit writes no cell that existed — the stored
event in particular — and sends a new cell: the (filtered) event without occupant and direction. -/
theorem C07_enterleave_pull_frame (mask : Option EMask) (h : Heap ELE) (next stored : Ref) (hs : stored < next) :
    (∀ r, r < next → (pullFirst mask h next stored).1 r = h r) ∧ (pullFirst mask h next stored).1 stored = h stored ∧
    next ≤ (pullFirst mask h next stored).2 ∧
    (pullFirst mask h next stored).1 (pullFirst mask h next stored).2 =
      { (match mask with | none => h stored | some m => projELE m (h stored)) with direction := 0, occupant := none } := by
  have hf : ∀ r, r < next → (pullFirst mask h next stored).1 r = h r := by
    intro r hr
    have h1 : r ≠ next := Nat.ne_of_lt hr
    have h2 : r ≠ next + 1 := Nat.ne_of_lt (Nat.lt_succ_of_lt hr)
    cases mask <;> simp [pullFirst, pullSeedRef, seedEdit, Heap.set, h1, h2]
  refine ⟨hf, hf stored hs, ?_, ?_⟩
  · cases mask
    · exact Nat.le_refl _
    · exact Nat.le_succ _
  · cases mask <;> simp [pullFirst, pullSeedRef, seedEdit, Heap.set]

/-- **C07_enterleave_pull_conditional_clone_writes.** The seeded shape (C07-11): with a non-empty option list that holds no
read mask (`WithBackpressure`, `WithUpdatesOnly(false)`, `WithReadMask(nil)` — what the gRPC server passes for a request
without read_mask) the conditional clone is skipped and the edit lands on the stored event. -/
theorem C07_enterleave_pull_conditional_clone_writes :
    ∃ (h : Heap ELE) (next stored : Ref), stored < next ∧ (pullFirstIfNoOpts false none h next stored).1 stored ≠ h stored :=
  ⟨fun _ => ⟨1, some "x", 3⟩, 1, 0, by decide, by decide⟩

/-- with a read mask the shortcut is harmless (that is what makes it look right): the seed is a clone already -/
example : ∀ m : EMask, (pullFirstIfNoOpts false (some m) (fun _ => ⟨1, some "x", 3⟩) 1 0).1 0 = ⟨1, some "x", 3⟩ := by
  intro m
  obtain ⟨d, o, t⟩ := m
  cases d <;> cases o <;> cases t <;> decide

end ScVerif.C07.Rim
