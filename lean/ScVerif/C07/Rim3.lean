import ScVerif.Base.Line
/-!
C07 — more rim models in the heap model (references are natural numbers, `next` is the allocation pointer).

  * modepb `ModelServer.UpdateModeValues` with `relativeAdjustment` (pkg/trait/modepb/model_server.go): the
    `Values` map of a `ModeValues` message is a Go map, i.e. a reference; the interceptor READS the live old
    message's map and writes the map of its `new` argument (the caller's request message, allocating it when nil);
  * lightpb `Model.setLevelFromPreset` and openclosepb `Model.UpdatePositions` with a preset
    (pkg/trait/lightpb/model.go, pkg/trait/openclosepb/model.go): the model puts (copies of) its configured preset
    messages into the caller's message;
  * openclosepb `Model.GetPositions`: an unmasked `List` hands out the stored items, a new container is composed of
    them (and of the configured preset description), `FilterClone` applies the read mask.
-/
namespace ScVerif.C07.Rim3

/-! ### Go maps as heap cells (modepb) -/

abbrev KV := List (String × String)

def lookup (m : KV) (k : String) : Option String := (m.find? (fun kv => kv.1 = k)).map (·.2)

/-- `m[k] = v` -/
def put (m : KV) (k v : String) : KV :=
  if m.any (fun kv => kv.1 = k) then m.map (fun kv => if kv.1 = k then (k, v) else kv) else m ++ [(k, v)]

structure MapH where
  maps : Nat → KV
  next : Nat

def MapH.put (h : MapH) (r : Nat) (k v : String) : MapH :=
  { h with maps := fun x => if x = r then Rim3.put (h.maps r) k v else h.maps x }

def MapH.alloc (h : MapH) (m : KV) : MapH × Nat :=
  ({ maps := fun x => if x = h.next then m else h.maps x, next := h.next + 1 }, h.next)

/-- `newI := (int64(i) + int64(adjustment)) % int64(len(values)); if newI < 0 { newI += len }` (Go `%` truncates) -/
def newIdx (i : Nat) (adj : Int) (n : Nat) : Nat :=
  let t := Int.tmod (Int.ofNat i + adj) (Int.ofNat n)
  (if t < 0 then t + Int.ofNat n else t).toNat

/-- one iteration of `relativeAdjustment`'s loop: reads `oldM`, writes `newM` -/
def adjustOne (avail : String → List String) (h : MapH) (oldM newM : Nat) (mode : String) (adj : Int) : MapH :=
  match avail mode with
  | [] => h
  | v0 :: vs =>
    match lookup (h.maps oldM) mode with
    | none => h.put newM mode v0
    | some cur =>
      match (v0 :: vs).idxOf? cur with
      | some i => h.put newM mode ((v0 :: vs).getD (newIdx i adj (v0 :: vs).length) v0)
      | none => h.put newM mode v0 -- "apparently the current value isn't one of the supported values, let's correct that"

def adjust (avail : String → List String) (h : MapH) (oldM newM : Nat) : List (String × Int) → MapH
  | [] => h
  | (mode, adj) :: rest => adjust avail (adjustOne avail h oldM newM mode adj) oldM newM rest

/-- the seeded shape: the helper that looks the current value up "corrects" it in the map it was given — the old map -/
def adjustOneSeeded (avail : String → List String) (h : MapH) (oldM newM : Nat) (mode : String) (adj : Int) : MapH :=
  match avail mode with
  | [] => h
  | v0 :: vs =>
    match lookup (h.maps oldM) mode with
    | none => h.put newM mode v0
    | some cur =>
      match (v0 :: vs).idxOf? cur with
      | some i => h.put newM mode ((v0 :: vs).getD (newIdx i adj (v0 :: vs).length) v0)
      | none => (h.put oldM mode v0).put newM mode v0

/-- `proto.Merge` on a map field: every entry of `src` is set in `dst` -/
def mergeInto (h : MapH) (dst : Nat) : KV → MapH
  | [] => h
  | (k, v) :: rest => mergeInto (h.put dst k v) dst rest

structure ModeRes where
  heap : MapH
  /-- the map of the new stored message (= the result, = the event value) -/
  result : Nat
  /-- the map of the request's message after the call (the interceptor wrote into it) -/
  src : Option Nat

/-- phase 2 of the write: `interceptBefore(old, src)` — installed only for a non-empty relative map;
`if newVal.Values == nil { newVal.Values = make(…) }` -/
def interceptPhase (avail : String → List String) (h : MapH) (stored : Nat) (src : Option Nat)
    (rel : List (String × Int)) : MapH × Option Nat :=
  if rel.isEmpty then (h, src) else
    match src with
    | some s => (adjust avail h stored s rel, some s)
    | none => (adjust avail (h.alloc []).1 stored (h.alloc []).2 rel, some (h.alloc []).2)

/-- phase 3: `FieldUpdater.Merge(dst, src)` on the `values` field. nil mask: `proto.Reset(dst)` then Merge;
mask `{values}`: Merge, and an empty src field clears dst's -/
def mergePhase (h : MapH) (dst : Nat) (srcKV : KV) (masked : Bool) : MapH :=
  if masked then (if srcKV.isEmpty then { h with maps := fun x => if x = dst then [] else h.maps x } else mergeInto h dst srcKV)
  else mergeInto { h with maps := fun x => if x = dst then [] else h.maps x } dst srcKV

/-- `ModelServer.UpdateModeValues`: `stored` is the map of the live old message, `src` the map of
`request.ModeValues` (`none`: nil message or nil map), `masked` = update mask `{values}` (else nil: replace).
Phases as in `Value.Set`: dst := clone(old) ▸ interceptBefore(old, src) ▸ FieldUpdater.Merge(dst, src). -/
def updateModeValues (avail : String → List String) (h : MapH) (stored : Nat) (src : Option Nat)
    (rel : List (String × Int)) (masked : Bool) : ModeRes :=
  -- dst := proto.Clone(old)
  let a := h.alloc (h.maps stored)
  let p := interceptPhase avail a.1 stored src rel
  let srcKV : KV := match p.2 with | some s => p.1.maps s | none => []
  { heap := mergePhase p.1 a.2 srcKV masked, result := a.2, src := p.2 }

/-! ### cells with pointers to sub-messages (lightpb / openclosepb presets) -/

structure PCell (M : Type) where
  body : M
  subs : List Nat

structure PH (M : Type) where
  cells : Nat → PCell M
  next : Nat

/-- `proto.Clone` of each listed message: one new cell per element -/
def cloneList {M : Type} (h : PH M) : List Nat → PH M × List Nat
  | [] => (h, [])
  | r :: rs =>
    let h1 : PH M := { cells := fun x => if x = h.next then h.cells r else h.cells x, next := h.next + 1 }
    let rest := cloneList h1 rs
    (rest.1, h.next :: rest.2)

/-- the model applies a preset to the caller's message `b` as the code does NOW: the caller's message gets
COPIES of the configured preset messages (lightpb: `b.LevelPercent = …; b.Preset = clone(p.LightPreset)`;
openclosepb: `positions.States = clones of presetPositions`) -/
def plant {M : Type} (h : PH M) (b : Nat) (preset : List Nat) (setBody : M → M) : PH M :=
  let c := cloneList h preset
  { c.1 with cells := fun x => if x = b then { body := setBody (c.1.cells b).body, subs := c.2 } else c.1.cells x }

/-- the pre-fix code put the configured messages themselves there -/
def plantLegacy {M : Type} (h : PH M) (b : Nat) (preset : List Nat) (setBody : M → M) : PH M :=
  { h with cells := fun x => if x = b then { body := setBody (h.cells b).body, subs := preset } else h.cells x }

/-- afterwards the caller rewrites its message and every message it points to (allowed by the property) -/
def callerEdit {M : Type} (h : PH M) (b : Nat) (f : M → M) : PH M :=
  { h with cells := fun x => if x = b ∨ x ∈ (h.cells b).subs then { h.cells x with body := f (h.cells x).body } else h.cells x }

/-! ### openclosepb GetPositions -/

structure IH (M : Type) where
  item : Nat → M
  next : Nat

/-- a read mask on `OpenClosePositions`: per field, not selected (`none`) or the projection of the sub-mask -/
structure CMask (M : Type) where
  states : Option (M → M)
  preset : Option (M → M)

/-- filtered clones of the listed items -/
def cloneMap {M : Type} (f : M → M) (h : IH M) : List Nat → IH M × List Nat
  | [] => (h, [])
  | r :: rs =>
    let h1 : IH M := { item := fun x => if x = h.next then f (h.item r) else h.item x, next := h.next + 1 }
    let rest := cloneMap f h1 rs
    (rest.1, h.next :: rest.2)

structure Positions (M : Type) where
  heap : IH M
  states : List Nat
  preset : Option Nat

/-- the `states` part of the filtered clone: dropped when the mask does not select it, else filtered clones -/
def statesPhase {M : Type} (m : CMask M) (h : IH M) (stored : List Nat) : IH M × List Nat :=
  match m.states with
  | none => (h, [])
  | some f => cloneMap f h stored

/-- `GetPositions`: the composed container holds the stored items themselves; `FilterClone` returns it as is for a
nil read mask (published stored references, by design) and a deep filtered clone otherwise -/
def getPositions {M : Type} (h : IH M) (stored : List Nat) (preset : Option Nat) (mask : Option (CMask M)) : Positions M :=
  match mask with
  | none => { heap := h, states := stored, preset := preset }
  | some m =>
    let st := statesPhase m h stored
    match m.preset, preset with
    | some f, some p =>
      { heap := { item := fun x => if x = st.1.next then f (st.1.item p) else st.1.item x, next := st.1.next + 1 },
        states := st.2, preset := some st.1.next }
    | _, _ => { heap := st.1, states := st.2, preset := none }

/-- the seeded shape: `ResponseFilter.Filter(dst)` in place on the composed message -/
def getPositionsInPlace {M : Type} (h : IH M) (stored : List Nat) (preset : Option Nat) (m : CMask M) : Positions M :=
  let h1 : IH M := match m.states with
    | none => h
    | some f => { h with item := fun x => if x ∈ stored then f (h.item x) else h.item x }
  match m.preset, preset with
  | some f, some p => { heap := { h1 with item := fun x => if x = p then f (h1.item x) else h1.item x }, states := (if m.states.isSome then stored else []), preset := some p }
  | _, _ => { heap := h1, states := (if m.states.isSome then stored else []), preset := none }

/-! ### driver op (K1 tie of `updateModeValues` with the real ModelServer) -/

def parseKV (s : String) : KV :=
  if s = "-" then [] else (s.splitOn ",").filterMap fun kv =>
    match kv.splitOn "=" with
    | [k, v] => some (k, v)
    | _ => none

def insertKV (kv : String × String) : KV → KV
  | [] => [kv]
  | x :: xs => if kv.1 < x.1 then kv :: x :: xs else x :: insertKV kv xs

def showKV (m : KV) : String :=
  let s := m.foldl (fun acc kv => insertKV kv acc) []
  if s.isEmpty then "-" else ",".intercalate (s.map fun kv => kv.1 ++ "=" ++ kv.2)

/-- `mode:v1,v2;mode:…` or `-` -/
def parseAvail (s : String) : String → List String :=
  let tbl : List (String × List String) := if s = "-" then [] else (s.splitOn ";").filterMap fun e =>
    match e.splitOn ":" with
    | [m, vs] => some (m, vs.splitOn ",")
    | _ => none
  fun mode => ((tbl.find? (fun e => e.1 = mode)).map (·.2)).getD []

def parseRel (s : String) : Option (List (String × Int)) :=
  if s = "-" then some [] else (s.splitOn ",").mapM fun kv =>
    match kv.splitOn "=" with
    | [k, v] => v.toInt?.map fun n => (k, n)
    | _ => none

/-- `rim mode <avail> <stored map> <request map | ~ (nil)> <relative> <masked 0|1> [seeded]`
→ `result map|stored map afterwards|request map afterwards` -/
def handleMode (toks : List String) : String :=
  match toks with
  | avail :: stored :: src :: rel :: masked :: _rest =>
    match parseRel rel, ScVerif.Line.parseBool? masked with
    | some rel, some masked =>
      -- cell 0: the stored message's map; cell 1: the request's map (when there is one)
      let h0 : MapH := { maps := fun x => if x = 0 then parseKV stored else if x = 1 ∧ src ≠ "~" then parseKV src else [], next := 2 }
      let r := updateModeValues (parseAvail avail) h0 0 (if src = "~" then none else some 1) rel masked
      showKV (r.heap.maps r.result) ++ "|" ++ showKV (r.heap.maps 0) ++ "|" ++
        (if src = "~" then "~" else match r.src with | some s => showKV (r.heap.maps s) | none => "~")
    | _, _ => "!bad-op"
  | _ => "!bad-op"

/-- `rim plant <k>` (`plant-legacy`: the pre-fix code): the caller's message is cell 0, the configured preset messages are
cells 1…k; the preset is applied, then the caller rewrites its message and everything it points to.
→ `shared=<cells the caller's message points to that existed before>|changed=<preset cells that differ afterwards>` -/
def handlePlant (toks : List String) (legacy : Bool) : String :=
  match toks with
  | [k] =>
    match k.toNat? with
    | some k =>
      let h0 : PH Nat := { cells := fun x => ⟨x, []⟩, next := k + 1 }
      let preset := (List.range k).map (· + 1)
      let h1 := if legacy then plantLegacy h0 0 preset id else plant h0 0 preset id
      let shared := ((h1.cells 0).subs.filter (· < k + 1)).length
      let h2 := callerEdit h1 0 (· + 100)
      let changed := (preset.filter fun r => (h2.cells r).body != (h0.cells r).body).length
      s!"shared={shared}|changed={changed}"
    | none => "!bad-op"
  | _ => "!bad-op"

/-- `rim positions <k> <preset 0|1> <mask: nil|states|states.f|preset|preset.f|both>`: cells 0…k-1 are the stored positions,
cell k the configured preset description (current when `preset = 1`).
→ `shared=<states of the response that are stored cells>,<the response's preset IS the configured cell: 1|0, - if none>|changed=<old cells that differ>` -/
def handlePositions (toks : List String) : String :=
  match toks with
  | [k, pr, mask] =>
    match k.toNat?, ScVerif.Line.parseBool? pr with
    | some k, some pr =>
      let h0 : IH Nat := { item := fun x => x + 10, next := k + 1 }
      let m : Option (Option (CMask Nat)) :=
        if mask = "nil" then some none
        else if mask = "states" then some (some { states := some id, preset := none })
        else if mask = "states.f" then some (some { states := some (· + 100), preset := none })
        else if mask = "preset" then some (some { states := none, preset := some id })
        else if mask = "preset.f" then some (some { states := none, preset := some (· + 100) })
        else if mask = "both" then some (some { states := some (· + 100), preset := some (· + 100) })
        else none
      match m with
      | none => "!bad-op"
      | some m =>
        let r := getPositions h0 (List.range k) (if pr then some k else none) m
        let shared := (r.states.filter (· < k + 1)).length
        let ps := match r.preset with | none => "-" | some p => if p < k + 1 then "1" else "0"
        let changed := ((List.range (k + 1)).filter fun x => r.heap.item x != h0.item x).length
        s!"shared={shared},{ps}|changed={changed}"
    | _, _ => "!bad-op"
  | _ => "!bad-op"

end ScVerif.C07.Rim3
