import ScVerif.C07.EventsLemmas
import ScVerif.C07.EventVals
/-! Lemmas for the event-value layer: `filtered` names exactly the steps that use the projection; every step only
allocates message cells. -/
namespace ScVerif.C07.Events

/-- a step that hands nothing to a read-mask filter does not look at the projection -/
theorem step_indep_of_proj (s : ES) (st : Step) (h : filtered s st = none) (p q : Nat → Nat) :
    step p s st = step q s st := by
  cases st with
  | sub l m => rfl
  | vsub l m => rfl
  | send e => rfl
  | vsend e => rfl
  | dropIn i => rfl
  | mergeIn i => rfl
  | forward i =>
    simp only [filtered] at h
    simp only [step]
    split
    · rfl
    · rename_i sb hf
      rw [hf] at h
      simp only at h
      split
      · rfl
      · rename_i hl
        rw [if_neg hl] at h
        split
        · rfl
        · rename_i r rest hib
          rw [hib] at h
          simp only at h
          split
          · rename_i hm; rw [if_pos hm] at h; exact absurd h (by simp)
          · rfl
  | forwardIncl i d =>
    simp only [filtered] at h
    simp only [step]
    split
    · rfl
    · rename_i sb hf
      rw [hf] at h
      simp only at h
      split
      · rfl
      · rename_i hl
        rw [if_neg hl] at h
        split
        · rfl
        · rename_i r rest hib
          rw [hib] at h
          simp only at h
          split
          · rfl
          · rename_i hd
            rw [if_neg hd] at h
            split
            · rename_i hm; rw [if_pos hm] at h; exact absurd h (by simp)
            · rfl
  | emit i =>
    simp only [filtered] at h
    simp only [step]
    split
    · rfl
    · rename_i sb hf
      rw [hf] at h
      simp only at h
      split
      · rfl
      · rename_i hl
        rw [if_neg hl] at h
        split
        · rfl
        · rename_i c rest hp
          rw [hp] at h
          simp only at h
          split
          · rename_i hm; rw [if_pos hm] at h; exact absurd h (by simp)
          · rfl
  | emitIncl i d =>
    simp only [filtered] at h
    simp only [step]
    split
    · rfl
    · rename_i sb hf
      rw [hf] at h
      simp only at h
      split
      · rfl
      · rename_i hl
        rw [if_neg hl] at h
        split
        · rfl
        · rename_i c rest hp
          rw [hp] at h
          simp only at h
          split
          · rfl
          · rename_i hd
            rw [if_neg hd] at h
            split
            · rename_i hm; rw [if_pos hm] at h; exact absurd h (by simp)
            · rfl
  | seed i e =>
    simp only [filtered] at h
    simp only [step]
    split
    · rfl
    · rename_i sb hf
      rw [hf] at h
      simp only at h
      split
      · rename_i hm; rw [if_pos hm] at h; exact absurd h (by simp)
      · rfl

theorem cloneVal_frame {M : Type} (pm : M → M) (msgs : Nat → M) (n : Nat) (o : Option Nat) :
    n ≤ (cloneVal pm msgs n o).2 ∧ ∀ r, r < n → (cloneVal pm msgs n o).1 r = msgs r := by
  cases o with
  | none => exact ⟨Nat.le_refl _, fun _ _ => rfl⟩
  | some x =>
    refine ⟨Nat.le_succ _, fun r hr => ?_⟩
    simp only [cloneVal]
    rw [if_neg (Nat.ne_of_lt hr)]

/-- `FilterClone` of a message puts `pm` of it into the new cell -/
theorem cloneVal_at {M : Type} (pm : M → M) (msgs : Nat → M) (n x : Nat) :
    (cloneVal pm msgs n (some x)).1 n = pm (msgs x) ∧ (cloneVal pm msgs n (some x)).2 = n + 1 := by
  simp [cloneVal]

/-- what every step does: it allocates event cells and message cells, it writes to none that exists -/
theorem vstep_frame {M : Type} (pm : M → M) (v : VS M) (st : VStep M) :
    v.mnext ≤ (vstep pm v st).mnext ∧ (∀ r, r < v.mnext → (vstep pm v st).msgs r = v.msgs r) ∧
    v.es.next ≤ (vstep pm v st).es.next ∧ (∀ r, r < v.es.next → (vstep pm v st).es.heap r = v.es.heap r) := by
  cases st with
  | store m =>
    refine ⟨Nat.le_succ _, fun r hr => ?_, Nat.le_refl _, fun _ _ => rfl⟩
    simp only [vstep]
    rw [if_neg (Nat.ne_of_lt hr)]
  | ev st =>
    simp only [vstep]
    split
    · have f := step_frame id v.es st
      exact ⟨Nat.le_refl _, fun _ _ => rfl, f.1, f.2.1⟩
    · rename_i e he
      have f := step_frame (projFor v.mnext e) v.es st
      have c1 := cloneVal_frame pm v.msgs v.mnext e.new
      have c2 := cloneVal_frame pm (cloneVal pm v.msgs v.mnext e.new).1 (cloneVal pm v.msgs v.mnext e.new).2 e.old
      refine ⟨Nat.le_trans c1.1 c2.1, fun r hr => ?_, f.1, f.2.1⟩
      simp only
      rw [c2.2 r (by omega), c1.2 r hr]

theorem vrun_frame {M : Type} (pm : M → M) (steps : List (VStep M)) :
    ∀ v : VS M, v.mnext ≤ (vrun pm v steps).mnext ∧ (∀ r, r < v.mnext → (vrun pm v steps).msgs r = v.msgs r) ∧
      v.es.next ≤ (vrun pm v steps).es.next ∧ (∀ r, r < v.es.next → (vrun pm v steps).es.heap r = v.es.heap r) := by
  induction steps with
  | nil => intro v; exact ⟨Nat.le_refl _, fun _ _ => rfl, Nat.le_refl _, fun _ _ => rfl⟩
  | cons st rest ih =>
    intro v
    have a := vstep_frame pm v st
    have b := ih (vstep pm v st)
    refine ⟨Nat.le_trans a.1 b.1, fun r hr => ?_, Nat.le_trans a.2.2.1 b.2.2.1, fun r hr => ?_⟩
    · rw [show vrun pm v (st :: rest) = vrun pm (vstep pm v st) rest from rfl, b.2.1 r (by omega), a.2.1 r hr]
    · rw [show vrun pm v (st :: rest) = vrun pm (vstep pm v st) rest from rfl, b.2.2.2 r (by omega), a.2.2.2 r hr]

theorem vrun_append {M : Type} (pm : M → M) (a b : List (VStep M)) :
    ∀ v : VS M, vrun pm v (a ++ b) = vrun pm (vrun pm v a) b := by
  induction a with
  | nil => intro v; rfl
  | cons st rest ih => intro v; exact ih (vstep pm v st)

/-- the event-object invariant of Events.lean holds along every run of the layered model -/
theorem vstep_inv {M : Type} (pm : M → M) (v : VS M) (st : VStep M) (hi : Inv v.es) : Inv (vstep pm v st).es := by
  cases st with
  | store m => exact hi
  | ev st =>
    simp only [vstep]
    split
    · exact step_inv id v.es st hi
    · exact step_inv _ v.es st hi

theorem vrun_inv {M : Type} (pm : M → M) (steps : List (VStep M)) : ∀ v : VS M, Inv v.es → Inv (vrun pm v steps).es := by
  induction steps with
  | nil => intro v hi; exact hi
  | cons st rest ih => intro v hi; exact ih _ (vstep_inv pm v st hi)

/-- the event a masked pipeline step hands to its consumer: the LAST cell the step allocates is the filtered event,
whose values are the clones -/
theorem filtered_out {M : Type} (pm : M → M) (v : VS M) (st : Step) (e : Ev) (h : filtered v.es st = some e) :
    let v' := vstep pm v (.ev st)
    v.es.next < v'.es.next ∧ v'.es.heap (v'.es.next - 1) = projEv (projFor v.mnext e) e := by
  intro v'
  have hv : v' = { es := step (projFor v.mnext e) v.es st,
                   msgs := (cloneVal pm (cloneVal pm v.msgs v.mnext e.new).1 (cloneVal pm v.msgs v.mnext e.new).2 e.old).1,
                   mnext := (cloneVal pm (cloneVal pm v.msgs v.mnext e.new).1 (cloneVal pm v.msgs v.mnext e.new).2 e.old).2 } := by
    show vstep pm v (.ev st) = _
    simp only [vstep, h]
  rw [hv]
  simp only
  cases st with
  | sub l m => simp [filtered] at h
  | vsub l m => simp [filtered] at h
  | send e' => simp [filtered] at h
  | vsend e' => simp [filtered] at h
  | dropIn i => simp [filtered] at h
  | mergeIn i => simp [filtered] at h
  | forward i =>
    simp only [filtered] at h
    simp only [step]
    split
    · rename_i hf; rw [hf] at h; simp at h
    · rename_i sb hf
      rw [hf] at h
      simp only at h
      split
      · rename_i hl; rw [if_pos hl] at h; simp at h
      · rename_i hl
        rw [if_neg hl] at h
        split
        · rename_i hib; rw [hib] at h; simp at h
        · rename_i r rest hib
          rw [hib] at h
          simp only at h
          split
          · rename_i hm
            rw [if_pos hm] at h
            cases h
            refine ⟨Nat.lt_succ_self _, ?_⟩
            simp [pushCells]
          · rename_i hm; rw [if_neg hm] at h; simp at h
  | forwardIncl i d =>
    simp only [filtered] at h
    simp only [step]
    split
    · rename_i hf; rw [hf] at h; simp at h
    · rename_i sb hf
      rw [hf] at h
      simp only at h
      split
      · rename_i hl; rw [if_pos hl] at h; simp at h
      · rename_i hl
        rw [if_neg hl] at h
        split
        · rename_i hib; rw [hib] at h; simp at h
        · rename_i r rest hib
          rw [hib] at h
          simp only at h
          split
          · rename_i hd; rw [if_pos hd] at h; simp at h
          · rename_i hd
            rw [if_neg hd] at h
            split
            · rename_i hm
              rw [if_pos hm] at h
              cases h
              refine ⟨by show v.es.next < v.es.next + 2; omega, ?_⟩
              simp [pushCells]
            · rename_i hm; rw [if_neg hm] at h; simp at h
  | emit i =>
    simp only [filtered] at h
    simp only [step]
    split
    · rename_i hf; rw [hf] at h; simp at h
    · rename_i sb hf
      rw [hf] at h
      simp only at h
      split
      · rename_i hl; rw [if_pos hl] at h; simp at h
      · rename_i hl
        rw [if_neg hl] at h
        split
        · rename_i hp; rw [hp] at h; simp at h
        · rename_i c rest hp
          rw [hp] at h
          simp only at h
          split
          · rename_i hm
            rw [if_pos hm] at h
            cases h
            refine ⟨by show v.es.next < v.es.next + 2; omega, ?_⟩
            simp [pushCells]
          · rename_i hm; rw [if_neg hm] at h; simp at h
  | emitIncl i d =>
    simp only [filtered] at h
    simp only [step]
    split
    · rename_i hf; rw [hf] at h; simp at h
    · rename_i sb hf
      rw [hf] at h
      simp only at h
      split
      · rename_i hl; rw [if_pos hl] at h; simp at h
      · rename_i hl
        rw [if_neg hl] at h
        split
        · rename_i hp; rw [hp] at h; simp at h
        · rename_i c rest hp
          rw [hp] at h
          simp only at h
          split
          · rename_i hd; rw [if_pos hd] at h; simp at h
          · rename_i hd
            rw [if_neg hd] at h
            split
            · rename_i hm
              rw [if_pos hm] at h
              cases h
              refine ⟨by show v.es.next < v.es.next + 3; omega, ?_⟩
              simp [pushCells]
            · rename_i hm; rw [if_neg hm] at h; simp at h
  | seed i e0 =>
    simp only [filtered] at h
    simp only [step]
    split
    · rename_i hf; rw [hf] at h; simp at h
    · rename_i sb hf
      rw [hf] at h
      simp only at h
      split
      · rename_i hm
        rw [if_pos hm] at h
        cases h
        refine ⟨by show v.es.next < v.es.next + 2; omega, ?_⟩
        simp [pushCells]
      · rename_i hm; rw [if_neg hm] at h; simp at h

end ScVerif.C07.Events
