import ScVerif.Base.Line
/-!
C07 — change events as heap objects (pkg/resource/collection.go `Pull`, pkg/resource/backpressure.go
`mergeCollectionExcess` / `mergeChanges`, pkg/resource/change.go `filter`, internal/minibus `Bus.Send`).

A write builds ONE `*CollectionChange` and `Bus.Send` hands that very pointer to every listener, so
an event object is shared between all subscribers of a resource.  Each subscriber has its own
pipeline between the bus and its consumer:

  backpressure   Pull goroutine: `include` (nil: same pointer) ▸ `filter` (nil read mask: SAME
                 pointer, else a new `CollectionChange` with filtered clones of the values)
  lossy          `mergeCollectionExcess`: copies the event BY VALUE into its private map
                 (`*(newAny.(*CollectionChange))`), merges later events of the same id into that
                 private copy (`mergeChanges`), emits `&change` — a NEW object — then the Pull
                 goroutine's `filter` as above

  seeds          a subscription that asks for the current value(s) first: the Pull goroutine builds the seed changes
                 itself (new objects), `filter`, hands them to the consumer before it starts on the bus's events

Event cells live in a heap `Nat → Ev`; the values an event carries are opaque message references
(the message heap is Core.lean's business).  Every pipeline step declares what it allocates; none
writes to a cell it received.  `owner` is a ghost: who allocated a cell (`none` = the bus).
-/
namespace ScVerif.C07.Events

-- event references are natural numbers (written `Nat` throughout: `omega` does not look through an abbreviation)

/-- `types.ChangeType` -/
inductive Kind | add | update | remove | replace
  deriving DecidableEq, Repr, Inhabited

/-- `resource.CollectionChange` (change time left out; `old`/`new` are message references) -/
structure Ev where
  kind : Kind
  id : Nat
  old : Option Nat
  new : Option Nat
  lastSeed : Bool
  deriving DecidableEq, Repr, Inhabited

/-- `mergeChanges(a, b)` (backpressure.go), `none` = "don't send" (ADD then REMOVE) -/
def mergeChanges (a b : Ev) : Option Ev :=
  let b := { b with lastSeed := a.lastSeed || b.lastSeed }
  match a.kind with
  | .add =>
    match b.kind with
    | .add => some b
    | .update | .replace => some { b with kind := .add, old := none }
    | .remove => none
  | .update => some { b with old := a.old, kind := if b.kind = .add then .replace else b.kind }
  | .replace => some { b with old := a.old, kind := if b.kind = .add ∨ b.kind = .update then .replace else b.kind }
  | .remove => some { b with old := a.old, kind := if b.kind = .remove then .remove else .replace }

/-- `CollectionChange.filter` with a non-nil read mask: a new event whose values are filtered clones -/
def projEv (proj : Nat → Nat) (e : Ev) : Ev := { e with old := e.old.map proj, new := e.new.map proj }

/-- one subscriber's pipeline -/
structure Sub where
  idx : Nat
  /-- `WithBackpressure(false)`: `mergeCollectionExcess` sits between the bus and the Pull goroutine -/
  lossy : Bool
  /-- a non-nil read mask -/
  mask : Bool
  /-- a subscriber of a `resource.Value` (value.go `Pull`): its events come from the Value's bus (`vsend`) and its lossy
  stage is `minibus.DropExcess`, which keeps the latest POINTER — no copy, no merge — so even a lossy consumer
  receives the bus's object -/
  value : Bool
  /-- events the bus has handed to this listener and its pipeline has not taken yet (oldest first) -/
  inbox : List Nat
  /-- lossy: the merger's private copies in queue order, one per id (`messages` + `queue`) -/
  pending : List Ev
  /-- events the consumer has received (oldest first) -/
  out : List Nat
  deriving DecidableEq, Repr

structure ES where
  heap : Nat → Ev
  next : Nat
  subs : List Sub
  /-- ghost: which pipeline allocated the cell (`none`: the bus, i.e. the writer's `Send`) -/
  owner : Nat → Option Nat

/-- what `CollectionChange.include` decides when the item's inclusion changes or it is excluded throughout
(inclusion unchanged and included = the plain `forward`) -/
inductive Decision | skip | toAdd | toRemove
  deriving DecidableEq, Repr

/-- `include`'s replacement event: a NEW `CollectionChange` (change.go: "treat this like an Add / a remove") -/
def convEv (d : Decision) (e : Ev) : Ev :=
  match d with
  | .toAdd => { kind := .add, id := e.id, old := none, new := e.new, lastSeed := false }
  | _ => { kind := .remove, id := e.id, old := e.old, new := none, lastSeed := false }

inductive Step
  /-- `Collection.Pull`: a new subscriber -/
  | sub (lossy mask : Bool)
  /-- `Value.Pull`: a new subscriber of the Value -/
  | vsub (lossy mask : Bool)
  /-- a write's `bus.Send(ctx, &CollectionChange{…})`: one new cell, its reference to every listener of the Collection -/
  | send (e : Ev)
  /-- `Value.Set`'s `bus.Send(ctx, &ValueChange{…})`: one new cell, its reference to every listener of the Value -/
  | vsend (e : Ev)
  /-- the Pull goroutine takes the next event, filters, hands it to the consumer (backpressure subscribers, and Value
  subscribers of either kind: `DropExcess` passes pointers on) -/
  | forward (i : Nat)
  /-- lossy Value subscriber: `DropExcess` discards the pending event when a newer one arrives -/
  | dropIn (i : Nat)
  /-- backpressure subscriber with an include filter (`WithInclude`), when the filter does not simply pass the event:
  it is dropped, or REPLACED by a new ADD / REMOVE event, which then goes through the read-mask filter -/
  | forwardIncl (i : Nat) (d : Decision)
  /-- lossy subscriber: the merger receives the next event (copy in, merge into the private entry of that id) -/
  | mergeIn (i : Nat)
  /-- lossy subscriber: the merger emits the front of its queue (`&change`: a new cell), the Pull goroutine filters -/
  | emit (i : Nat)
  /-- lossy subscriber with an include filter, when the filter does not simply pass the merger's event: `include` runs in the
  Pull goroutine, i.e. BEHIND the merger — the emitted cell is dropped, or replaced by a new ADD / REMOVE which then goes
  through the read-mask filter -/
  | emitIncl (i : Nat) (d : Decision)
  /-- the seed of a subscription (`Pull` without `WithUpdatesOnly`): the Pull goroutine of subscriber `i` builds a change
  for a current value itself (`&CollectionChange{…, SeedValue: true}` / `&ValueChange{…}`: a new cell, never a bus cell),
  filters it and hands it to the consumer — seeds do not pass through the merger of a lossy subscriber -/
  | seed (i : Nat) (e : Ev)
  deriving Repr

/-- write `cells` at `n, n+1, …` -/
def pushCells (h : Nat → Ev) (n : Nat) : List Ev → (Nat → Ev)
  | [] => h
  | c :: cs => pushCells (fun x => if x = n then c else h x) (n + 1) cs

/-- ghost: cells `n … n+k-1` belong to `o` -/
def setOwner (ow : Nat → Option Nat) (n k : Nat) (o : Option Nat) : Nat → Option Nat :=
  fun x => if n ≤ x ∧ x < n + k then o else ow x

/-- apply `f` to the subscriber `sb` -/
def replaceSub (subs : List Sub) (sb : Sub) (f : Sub → Sub) : List Sub :=
  subs.map fun x => if x = sb then f x else x

/-- the merger's map + queue after receiving (a copy of) `nw` -/
def mergePending (pending : List Ev) (nw : Ev) : List Ev :=
  match pending.find? (fun p => p.id = nw.id) with
  | none => pending ++ [nw]
  | some old =>
    match mergeChanges old nw with
    | none => pending.filter (fun p => p.id ≠ nw.id)
    | some m => pending.filter (fun p => p.id ≠ nw.id) ++ [m]

def step (proj : Nat → Nat) (s : ES) : Step → ES
  | .sub l m =>
    { s with subs := s.subs ++ [{ idx := s.subs.length, lossy := l, mask := m, value := false, inbox := [], pending := [], out := [] }] }
  | .vsub l m =>
    { s with subs := s.subs ++ [{ idx := s.subs.length, lossy := l, mask := m, value := true, inbox := [], pending := [], out := [] }] }
  | .send e =>
    { s with heap := pushCells s.heap s.next [e], owner := setOwner s.owner s.next 1 none, next := s.next + 1,
             subs := s.subs.map fun sb => if sb.value then sb else { sb with inbox := sb.inbox ++ [s.next] } }
  | .vsend e =>
    { s with heap := pushCells s.heap s.next [e], owner := setOwner s.owner s.next 1 none, next := s.next + 1,
             subs := s.subs.map fun sb => if sb.value then { sb with inbox := sb.inbox ++ [s.next] } else sb }
  | .dropIn i =>
    match s.subs.find? (fun sb => sb.idx = i) with
    | none => s
    | some sb =>
      if !(sb.lossy && sb.value) then s else
      match sb.inbox with
      | _ :: r2 :: rest => { s with subs := replaceSub s.subs sb fun x => { x with inbox := r2 :: rest } }
      | _ => s
  | .forward i =>
    match s.subs.find? (fun sb => sb.idx = i) with
    | none => s
    | some sb =>
      if sb.lossy && !sb.value then s else
      match sb.inbox with
      | [] => s
      | r :: rest =>
        if sb.mask then
          { s with heap := pushCells s.heap s.next [projEv proj (s.heap r)],
                   owner := setOwner s.owner s.next 1 (some sb.idx), next := s.next + 1,
                   subs := replaceSub s.subs sb fun x => { x with inbox := rest, out := x.out ++ [s.next] } }
        else
          { s with subs := replaceSub s.subs sb fun x => { x with inbox := rest, out := x.out ++ [r] } }
  | .forwardIncl i d =>
    match s.subs.find? (fun sb => sb.idx = i) with
    | none => s
    | some sb =>
      if sb.lossy && !sb.value then s else
      match sb.inbox with
      | [] => s
      | r :: rest =>
        if d = .skip then { s with subs := replaceSub s.subs sb fun x => { x with inbox := rest } }
        else if sb.mask then
          { s with heap := pushCells s.heap s.next [convEv d (s.heap r), projEv proj (convEv d (s.heap r))],
                   owner := setOwner s.owner s.next 2 (some sb.idx), next := s.next + 2,
                   subs := replaceSub s.subs sb fun x => { x with inbox := rest, out := x.out ++ [s.next + 1] } }
        else
          { s with heap := pushCells s.heap s.next [convEv d (s.heap r)],
                   owner := setOwner s.owner s.next 1 (some sb.idx), next := s.next + 1,
                   subs := replaceSub s.subs sb fun x => { x with inbox := rest, out := x.out ++ [s.next] } }
  | .mergeIn i =>
    match s.subs.find? (fun sb => sb.idx = i) with
    | none => s
    | some sb =>
      if !(sb.lossy && !sb.value) then s else
      match sb.inbox with
      | [] => s
      | r :: rest =>
        { s with subs := replaceSub s.subs sb fun x => { x with inbox := rest, pending := mergePending x.pending (s.heap r) } }
  | .emit i =>
    match s.subs.find? (fun sb => sb.idx = i) with
    | none => s
    | some sb =>
      if !(sb.lossy && !sb.value) then s else
      match sb.pending with
      | [] => s
      | c :: rest =>
        if sb.mask then
          { s with heap := pushCells s.heap s.next [c, projEv proj c],
                   owner := setOwner s.owner s.next 2 (some sb.idx), next := s.next + 2,
                   subs := replaceSub s.subs sb fun x => { x with pending := rest, out := x.out ++ [s.next + 1] } }
        else
          { s with heap := pushCells s.heap s.next [c],
                   owner := setOwner s.owner s.next 1 (some sb.idx), next := s.next + 1,
                   subs := replaceSub s.subs sb fun x => { x with pending := rest, out := x.out ++ [s.next] } }
  | .emitIncl i d =>
    match s.subs.find? (fun sb => sb.idx = i) with
    | none => s
    | some sb =>
      if !(sb.lossy && !sb.value) then s else
      match sb.pending with
      | [] => s
      | c :: rest =>
        if d = .skip then
          { s with heap := pushCells s.heap s.next [c],
                   owner := setOwner s.owner s.next 1 (some sb.idx), next := s.next + 1,
                   subs := replaceSub s.subs sb fun x => { x with pending := rest } }
        else if sb.mask then
          { s with heap := pushCells s.heap s.next [c, convEv d c, projEv proj (convEv d c)],
                   owner := setOwner s.owner s.next 3 (some sb.idx), next := s.next + 3,
                   subs := replaceSub s.subs sb fun x => { x with pending := rest, out := x.out ++ [s.next + 2] } }
        else
          { s with heap := pushCells s.heap s.next [c, convEv d c],
                   owner := setOwner s.owner s.next 2 (some sb.idx), next := s.next + 2,
                   subs := replaceSub s.subs sb fun x => { x with pending := rest, out := x.out ++ [s.next + 1] } }

  | .seed i e =>
    match s.subs.find? (fun sb => sb.idx = i) with
    | none => s
    | some sb =>
      if sb.mask then
        { s with heap := pushCells s.heap s.next [e, projEv proj e],
                 owner := setOwner s.owner s.next 2 (some sb.idx), next := s.next + 2,
                 subs := replaceSub s.subs sb fun x => { x with out := x.out ++ [s.next + 1] } }
      else
        { s with heap := pushCells s.heap s.next [e],
                 owner := setOwner s.owner s.next 1 (some sb.idx), next := s.next + 1,
                 subs := replaceSub s.subs sb fun x => { x with out := x.out ++ [s.next] } }

/-- any interleaving of writers and pipeline steps is a list of steps -/
def run (proj : Nat → Nat) (s : ES) : List Step → ES
  | [] => s
  | st :: rest => run proj (step proj s st) rest

def ES.init : ES := { heap := fun _ => default, next := 0, subs := [], owner := fun _ => none }

/-- the seeded shape (a merger that keeps the bus's pointer and writes the merge result through it) -/
def mergeInPlace (h : Nat → Ev) (kept incoming : Nat) : Nat → Ev :=
  match mergeChanges (h kept) (h incoming) with
  | some m => fun x => if x = kept then m else h x
  | none => h

end ScVerif.C07.Events
