import ScVerif.Base.Line
/-!
C07 — change events as heap objects (pkg/resource/collection.go `Pull`, pkg/resource/backpressure.go
`mergeCollectionExcess` / `mergeChanges`, pkg/resource/change.go `filter`, internal/minibus `Bus.Send`).

A write builds ONE `*CollectionChange` and `Bus.Send` hands that very pointer to every listener, so
an event object is shared between all subscribers of a resource.  Each subscriber has its own
pipeline between the bus and its consumer:

  backpressure   Pull goroutine: `include` (nil: same pointer) ▸ `filter` (nil read mask: SAME
                 pointer, else a new `CollectionChange` with filtered clones of the values)
  lossy          `mergeCollectionExcess`: copies the event BY VALUE into its private map
                 (`*(newAny.(*CollectionChange))`), merges later events of the same id into that
                 private copy (`mergeChanges`), emits `&change` — a NEW object — then the Pull
                 goroutine's `filter` as above

Event cells live in a heap `Nat → Ev`; the values an event carries are opaque message references
(the message heap is Core.lean's business).  Every pipeline step declares what it allocates; none
writes to a cell it received.  `owner` is a ghost: who allocated a cell (`none` = the bus).
-/
namespace ScVerif.C07.Events

-- event references are natural numbers (written `Nat` throughout: `omega` does not look through an abbreviation)

/-- `types.ChangeType` -/
inductive Kind | add | update | remove | replace
  deriving DecidableEq, Repr, Inhabited

/-- `resource.CollectionChange` (change time left out; `old`/`new` are message references) -/
structure Ev where
  kind : Kind
  id : Nat
  old : Option Nat
  new : Option Nat
  lastSeed : Bool
  deriving DecidableEq, Repr, Inhabited

/-- `mergeChanges(a, b)` (backpressure.go), `none` = "don't send" (ADD then REMOVE) -/
def mergeChanges (a b : Ev) : Option Ev :=
  let b := { b with lastSeed := a.lastSeed || b.lastSeed }
  match a.kind with
  | .add =>
    match b.kind with
    | .add => some b
    | .update | .replace => some { b with kind := .add, old := none }
    | .remove => none
  | .update => some { b with old := a.old, kind := if b.kind = .add then .replace else b.kind }
  | .replace => some { b with old := a.old, kind := if b.kind = .add ∨ b.kind = .update then .replace else b.kind }
  | .remove => some { b with old := a.old, kind := if b.kind = .remove then .remove else .replace }

/-- `CollectionChange.filter` with a non-nil read mask: a new event whose values are filtered clones -/
def projEv (proj : Nat → Nat) (e : Ev) : Ev := { e with old := e.old.map proj, new := e.new.map proj }

/-- one subscriber's pipeline -/
structure Sub where
  idx : Nat
  /-- `WithBackpressure(false)`: `mergeCollectionExcess` sits between the bus and the Pull goroutine -/
  lossy : Bool
  /-- a non-nil read mask -/
  mask : Bool
  /-- a subscriber of a `resource.Value` (value.go `Pull`): its events come from the Value's bus (`vsend`) and its lossy
  stage is `minibus.DropExcess`, which keeps the latest POINTER — no copy, no merge — so even a lossy consumer
  receives the bus's object -/
  value : Bool
  /-- events the bus has handed to this listener and its pipeline has not taken yet (oldest first) -/
  inbox : List Nat
  /-- lossy: the merger's private copies in queue order, one per id (`messages` + `queue`) -/
  pending : List Ev
  /-- events the consumer has received (oldest first) -/
  out : List Nat
  deriving DecidableEq, Repr

structure ES where
  heap : Nat → Ev
  next : Nat
  subs : List Sub
  /-- ghost: which pipeline allocated the cell (`none`: the bus, i.e. the writer's `Send`) -/
  owner : Nat → Option Nat

/-- what `CollectionChange.include` decides when the item's inclusion changes or it is excluded throughout
(inclusion unchanged and included = the plain `forward`) -/
inductive Decision | skip | toAdd | toRemove
  deriving DecidableEq, Repr

/-- `include`'s replacement event: a NEW `CollectionChange` (change.go: "treat this like an Add / a remove") -/
def convEv (d : Decision) (e : Ev) : Ev :=
  match d with
  | .toAdd => { kind := .add, id := e.id, old := none, new := e.new, lastSeed := false }
  | _ => { kind := .remove, id := e.id, old := e.old, new := none, lastSeed := false }

inductive Step
  /-- `Collection.Pull`: a new subscriber -/
  | sub (lossy mask : Bool)
  /-- `Value.Pull`: a new subscriber of the Value -/
  | vsub (lossy mask : Bool)
  /-- a write's `bus.Send(ctx, &CollectionChange{…})`: one new cell, its reference to every listener of the Collection -/
  | send (e : Ev)
  /-- `Value.Set`'s `bus.Send(ctx, &ValueChange{…})`: one new cell, its reference to every listener of the Value -/
  | vsend (e : Ev)
  /-- the Pull goroutine takes the next event, filters, hands it to the consumer (backpressure subscribers, and Value
  subscribers of either kind: `DropExcess` passes pointers on) -/
  | forward (i : Nat)
  /-- lossy Value subscriber: `DropExcess` discards the pending event when a newer one arrives -/
  | dropIn (i : Nat)
  /-- backpressure subscriber with an include filter (`WithInclude`), when the filter does not simply pass the event:
  it is dropped, or REPLACED by a new ADD / REMOVE event, which then goes through the read-mask filter -/
  | forwardIncl (i : Nat) (d : Decision)
  /-- lossy subscriber: the merger receives the next event (copy in, merge into the private entry of that id) -/
  | mergeIn (i : Nat)
  /-- lossy subscriber: the merger emits the front of its queue (`&change`: a new cell), the Pull goroutine filters -/
  | emit (i : Nat)
  deriving Repr

/-- write `cells` at `n, n+1, …` -/
def pushCells (h : Nat → Ev) (n : Nat) : List Ev → (Nat → Ev)
  | [] => h
  | c :: cs => pushCells (fun x => if x = n then c else h x) (n + 1) cs

/-- ghost: cells `n … n+k-1` belong to `o` -/
def setOwner (ow : Nat → Option Nat) (n k : Nat) (o : Option Nat) : Nat → Option Nat :=
  fun x => if n ≤ x ∧ x < n + k then o else ow x

/-- apply `f` to the subscriber `sb` -/
def replaceSub (subs : List Sub) (sb : Sub) (f : Sub → Sub) : List Sub :=
  subs.map fun x => if x = sb then f x else x

/-- the merger's map + queue after receiving (a copy of) `nw` -/
def mergePending (pending : List Ev) (nw : Ev) : List Ev :=
  match pending.find? (fun p => p.id = nw.id) with
  | none => pending ++ [nw]
  | some old =>
    match mergeChanges old nw with
    | none => pending.filter (fun p => p.id ≠ nw.id)
    | some m => pending.filter (fun p => p.id ≠ nw.id) ++ [m]

def step (proj : Nat → Nat) (s : ES) : Step → ES
  | .sub l m =>
    { s with subs := s.subs ++ [{ idx := s.subs.length, lossy := l, mask := m, value := false, inbox := [], pending := [], out := [] }] }
  | .vsub l m =>
    { s with subs := s.subs ++ [{ idx := s.subs.length, lossy := l, mask := m, value := true, inbox := [], pending := [], out := [] }] }
  | .send e =>
    { s with heap := pushCells s.heap s.next [e], owner := setOwner s.owner s.next 1 none, next := s.next + 1,
             subs := s.subs.map fun sb => if sb.value then sb else { sb with inbox := sb.inbox ++ [s.next] } }
  | .vsend e =>
    { s with heap := pushCells s.heap s.next [e], owner := setOwner s.owner s.next 1 none, next := s.next + 1,
             subs := s.subs.map fun sb => if sb.value then { sb with inbox := sb.inbox ++ [s.next] } else sb }
  | .dropIn i =>
    match s.subs.find? (fun sb => sb.idx = i) with
    | none => s
    | some sb =>
      if !(sb.lossy && sb.value) then s else
      match sb.inbox with
      | _ :: r2 :: rest => { s with subs := replaceSub s.subs sb fun x => { x with inbox := r2 :: rest } }
      | _ => s
  | .forward i =>
    match s.subs.find? (fun sb => sb.idx = i) with
    | none => s
    | some sb =>
      if sb.lossy && !sb.value then s else
      match sb.inbox with
      | [] => s
      | r :: rest =>
        if sb.mask then
          { s with heap := pushCells s.heap s.next [projEv proj (s.heap r)],
                   owner := setOwner s.owner s.next 1 (some sb.idx), next := s.next + 1,
                   subs := replaceSub s.subs sb fun x => { x with inbox := rest, out := x.out ++ [s.next] } }
        else
          { s with subs := replaceSub s.subs sb fun x => { x with inbox := rest, out := x.out ++ [r] } }
  | .forwardIncl i d =>
    match s.subs.find? (fun sb => sb.idx = i) with
    | none => s
    | some sb =>
      if sb.lossy && !sb.value then s else
      match sb.inbox with
      | [] => s
      | r :: rest =>
        if d = .skip then { s with subs := replaceSub s.subs sb fun x => { x with inbox := rest } }
        else if sb.mask then
          { s with heap := pushCells s.heap s.next [convEv d (s.heap r), projEv proj (convEv d (s.heap r))],
                   owner := setOwner s.owner s.next 2 (some sb.idx), next := s.next + 2,
                   subs := replaceSub s.subs sb fun x => { x with inbox := rest, out := x.out ++ [s.next + 1] } }
        else
          { s with heap := pushCells s.heap s.next [convEv d (s.heap r)],
                   owner := setOwner s.owner s.next 1 (some sb.idx), next := s.next + 1,
                   subs := replaceSub s.subs sb fun x => { x with inbox := rest, out := x.out ++ [s.next] } }
  | .mergeIn i =>
    match s.subs.find? (fun sb => sb.idx = i) with
    | none => s
    | some sb =>
      if !(sb.lossy && !sb.value) then s else
      match sb.inbox with
      | [] => s
      | r :: rest =>
        { s with subs := replaceSub s.subs sb fun x => { x with inbox := rest, pending := mergePending x.pending (s.heap r) } }
  | .emit i =>
    match s.subs.find? (fun sb => sb.idx = i) with
    | none => s
    | some sb =>
      if !(sb.lossy && !sb.value) then s else
      match sb.pending with
      | [] => s
      | c :: rest =>
        if sb.mask then
          { s with heap := pushCells s.heap s.next [c, projEv proj c],
                   owner := setOwner s.owner s.next 2 (some sb.idx), next := s.next + 2,
                   subs := replaceSub s.subs sb fun x => { x with pending := rest, out := x.out ++ [s.next + 1] } }
        else
          { s with heap := pushCells s.heap s.next [c],
                   owner := setOwner s.owner s.next 1 (some sb.idx), next := s.next + 1,
                   subs := replaceSub s.subs sb fun x => { x with pending := rest, out := x.out ++ [s.next] } }

/-- any interleaving of writers and pipeline steps is a list of steps -/
def run (proj : Nat → Nat) (s : ES) : List Step → ES
  | [] => s
  | st :: rest => run proj (step proj s st) rest

def ES.init : ES := { heap := fun _ => default, next := 0, subs := [], owner := fun _ => none }

/-- the seeded shape (a merger that keeps the bus's pointer and writes the merge result through it) -/
def mergeInPlace (h : Nat → Ev) (kept incoming : Nat) : Nat → Ev :=
  match mergeChanges (h kept) (h incoming) with
  | some m => fun x => if x = kept then m else h x
  | none => h

/-! ### driver: `ev …` ops (K1 tie of the sharing structure with the real Collection) -/

open ScVerif.Line

structure DrvEv where
  s : ES := ES.init
  /-- event references in the order a consumer first saw them: the canonical numbering of the answers -/
  seen : List Nat := []
  /-- indices of the subscribers opened with the driver's include filter ("the value's token is even") -/
  incl : List Nat := []

def parseKind? (s : String) : Option Kind :=
  if s = "ADD" then some .add else if s = "UPDATE" then some .update
  else if s = "REMOVE" then some .remove else if s = "REPLACE" then some .replace else none

def showKind : Kind → String
  | .add => "ADD" | .update => "UPDATE" | .remove => "REMOVE" | .replace => "REPLACE"

def parseTok? (s : String) : Option (Option Nat) := if s = "-" then some none else s.toNat?.map some

def showTok : Option Nat → String
  | none => "-"
  | some n => toString n

def showEv (e : Ev) : String := s!"{showKind e.kind},{e.id},{showTok e.old},{showTok e.new}"

/-- the driver's read-mask projection on message tokens (the harness maps a masked message to 1000 + token) -/
def drvProj (t : Nat) : Nat := 1000 + t

/-- the driver's include filter, as `CollectionChange.include` evaluates it on an event: `none` = pass it on as it is -/
def drvDecision (e : Ev) : Option Decision :=
  let inc : Option Nat → Bool := fun v => match v with | some t => t % 2 == 0 | none => false
  if inc e.old = inc e.new then (if inc e.new then none else some .skip)
  else if inc e.new then some .toAdd else some .toRemove

/-- after a send: every backpressure subscriber forwards (through its include filter if it has one); a lossy Collection
subscriber (stalled consumer) merges in; a lossy Value subscriber (stalled consumer) lets `DropExcess` drop the older
pending pointer -/
def settle (incl : List Nat) (s : ES) : ES :=
  s.subs.foldl (fun acc sb => step drvProj acc
    (if !sb.lossy then
      (if incl.contains sb.idx then
        match (acc.subs.find? (fun x => x.idx = sb.idx)).bind (fun x => x.inbox.head?) with
        | some r => (match drvDecision (acc.heap r) with | some d => .forwardIncl sb.idx d | none => .forward sb.idx)
        | none => .forward sb.idx
      else .forward sb.idx)
    else if sb.value then .dropIn sb.idx else .mergeIn sb.idx)) s

def canon (seen : List Nat) (r : Nat) : List Nat × Nat :=
  match seen.idxOf? r with
  | some i => (seen, i)
  | none => (seen ++ [r], seen.length)

/-- what each backpressure subscriber's consumer received since `before` (the subscribers' `out` lengths before the send):
`#canonical-ref:event` of the last one, `-` if nothing new -/
def lastOuts (before : List Nat) (d : DrvEv) : DrvEv × List String :=
  d.s.subs.foldl (fun (acc : DrvEv × List String) sb =>
    if sb.lossy then acc else
    if sb.out.length = before.getD sb.idx 0 then (acc.1, acc.2 ++ ["-"]) else
    match sb.out.getLast? with
    | none => (acc.1, acc.2 ++ ["-"])
    | some r =>
      let (seen', k) := canon acc.1.seen r
      ({ acc.1 with seen := seen' }, acc.2 ++ [s!"#{k}:{showEv (acc.1.s.heap r)}"])) (d, [])

def handleEv (d : DrvEv) (toks : List String) : DrvEv × String :=
  match toks with
  | ["reset"] => ({}, "ok")
  | ["sub", l, m] =>
    match parseBool? l, parseBool? m with
    | some l, some m => ({ d with s := step drvProj d.s (.sub l m) }, "ok")
    | _, _ => (d, "!bad-op")
  | ["subi", m] =>
    match parseBool? m with
    | some m => ({ d with s := step drvProj d.s (.sub false m), incl := d.incl ++ [d.s.subs.length] }, "ok")
    | none => (d, "!bad-op")
  | ["vsub", l, m] =>
    match parseBool? l, parseBool? m with
    | some l, some m => ({ d with s := step drvProj d.s (.vsub l m) }, "ok")
    | _, _ => (d, "!bad-op")
  | ["vsend", n] =>
    match n.toNat? with
    | some n =>
      let s1 := settle [] (step drvProj d.s (.vsend { kind := .update, id := 0, old := none, new := some n, lastSeed := false }))
      let (d2, outs) := lastOuts (d.s.subs.map (·.out.length)) { d with s := s1 }
      (d2, "|".intercalate ("ok" :: outs))
    | none => (d, "!bad-op")
  | ["send", k, id, o, n] =>
    match parseKind? k, id.toNat?, parseTok? o, parseTok? n with
    | some k, some id, some o, some n =>
      let s1 := settle d.incl (step drvProj d.s (.send { kind := k, id := id, old := o, new := n, lastSeed := false }))
      let (d2, outs) := lastOuts (d.s.subs.map (·.out.length)) { d with s := s1 }
      (d2, "|".intercalate ("ok" :: outs))
    | _, _, _, _ => (d, "!bad-op")
  | ["audit"] => (d, "seen=" ++ ";".intercalate (d.seen.map fun r => showEv (d.s.heap r)))
  | _ => (d, "!bad-op")

end ScVerif.C07.Events
