import ScVerif.Base.Line
/-!
C07 — rim model of round 8: a trait device built directly on `resource.Value` whose message has a SUB-MESSAGE
(countpb `MemoryDevice`: `traits.Count{added, removed, reset_time *timestamppb.Timestamp}`).

The core heap model (ScVerif/C07/Core.lean) is over an abstract message algebra: a message is one cell. Whether two
messages share a sub-message is invisible there — `proto.Clone` / `proto.Merge` are trusted to copy deeply. This
file makes the nested level explicit for one device: count cells hold a REFERENCE to a timestamp cell, and the
steps of `Value.Set` (`proto.Clone(old)`, the before-interceptor, `FieldUpdater.Merge` with writable fields and
update mask: in-place filter of the source, reset / prune of the destination, `proto.Merge`, `pruneEmpty`) are
functions on that two-sorted heap, with `proto.Merge`'s rule for message fields spelled out (destination field
nil: a new sub-message is allocated and the source's copied into it; present: merged INTO the existing one).

`reset` is `MemoryDevice.ResetCount` as it is (the reset time travels inside the source message of a write with
`WithAllFieldsWritable` and is deep-copied by the merge), `resetIcpt` the shape of seeded change C07-21 (the
after-interceptor assigns the caller's timestamp by pointer). References are natural numbers, `cn` / `tn` the
allocation pointers of the two sorts.
-/
namespace ScVerif.C07.Rim6

/-- a `traits.Count`: two counters and a reference to its `reset_time` message (`none` = nil) -/
structure Cnt where
  added : Int
  removed : Int
  rt : Option Nat
  deriving DecidableEq

structure H where
  cs : Nat → Cnt
  cn : Nat
  ts : Nat → Int
  tn : Nat

def H.allocC (h : H) (c : Cnt) : H × Nat :=
  ({ h with cs := fun x => if x = h.cn then c else h.cs x, cn := h.cn + 1 }, h.cn)

def H.allocT (h : H) (v : Int) : H × Nat :=
  ({ h with ts := fun x => if x = h.tn then v else h.ts x, tn := h.tn + 1 }, h.tn)

def H.setC (h : H) (r : Nat) (c : Cnt) : H := { h with cs := fun x => if x = r then c else h.cs x }

def H.setT (h : H) (r : Nat) (v : Int) : H := { h with ts := fun x => if x = r then v else h.ts x }

/-- what a holder of the count `c` sees: both counters and the CONTENTS of its reset time -/
def deep (h : H) (c : Nat) : Int × Int × Option Int :=
  ((h.cs c).added, (h.cs c).removed, (h.cs c).rt.map h.ts)

/-- a field mask over the three top-level fields -/
structure Mask where
  added : Bool
  removed : Bool
  rt : Bool
  deriving DecidableEq

def Mask.isEmpty (m : Mask) : Bool := !m.added && !m.removed && !m.rt

/-- every path of `a` is a path of `b` (`Validate`: the update mask may only mention writable fields) -/
def Mask.sub (a b : Mask) : Bool := (!a.added || b.added) && (!a.removed || b.removed) && (!a.rt || b.rt)

/-- `NestedMask.Filter(m)`: fields outside the mask are cleared (a cleared message field drops the reference, the
sub-message itself is not written) -/
def filterC (m : Mask) (c : Cnt) : Cnt :=
  { added := if m.added then c.added else 0, removed := if m.removed then c.removed else 0,
    rt := if m.rt then c.rt else none }

/-- `NestedMask.Prune(m)`: fields inside the mask are cleared -/
def pruneC (m : Mask) (c : Cnt) : Cnt :=
  { added := if m.added then 0 else c.added, removed := if m.removed then 0 else c.removed,
    rt := if m.rt then none else c.rt }

/-- `pruneEmpty(dst, src, updateMask)`: a field the mask mentions and `src` does not have is cleared in `dst` -/
def pruneEmptyC (m : Mask) (s d : Cnt) : Cnt :=
  { added := if m.added && s.added = 0 then 0 else d.added,
    removed := if m.removed && s.removed = 0 then 0 else d.removed,
    rt := if m.rt && s.rt.isNone then none else d.rt }

/-- `proto.Clone(c)`: a new count and, when `c` has a reset time, a new timestamp with its contents -/
def clone (h : H) (c : Nat) : H × Nat :=
  match (h.cs c).rt with
  | none => h.allocC (h.cs c)
  | some t =>
    let h1 := (h.allocT (h.ts t)).1
    h1.allocC { (h.cs c) with rt := some h.tn }

/-- `proto.Merge(dst, src)`: populated scalars of `src` overwrite; a message field of `src` is copied into a NEW
sub-message when `dst` has none and merged INTO `dst`'s existing sub-message otherwise (a timestamp is one number
here: whole seconds) -/
def protoMerge (h : H) (dst src : Nat) : H :=
  let s := h.cs src
  let d := h.cs dst
  let d1 : Cnt := { d with added := if s.added = 0 then d.added else s.added,
                           removed := if s.removed = 0 then d.removed else s.removed }
  match s.rt with
  | none => h.setC dst d1
  | some t =>
    match d.rt with
    | none => ((h.allocT (h.ts t)).1).setC dst { d1 with rt := some h.tn }
    | some dt => (h.setT dt (if h.ts t = 0 then h.ts dt else h.ts t)).setC dst d1

/-- an empty (non-nil) writable mask: `Merge` returns at once -/
def wEmpty (w : Option Mask) : Bool :=
  match w with
  | some wm => wm.isEmpty
  | none => false

/-- `writableMask.Filter(src)`: the SOURCE is filtered in place -/
def wfilter (w : Option Mask) (h : H) (src : Nat) : H :=
  match w with
  | none => h
  | some wm => h.setC src (filterC wm (h.cs src))

/-- without update mask `dst` is made to look like `src`: `proto.Reset(dst)` when everything is writable, else
`writableMask.Prune(dst)` -/
def resetDst (w : Option Mask) (c : Cnt) : Cnt :=
  match w with
  | none => ⟨0, 0, none⟩
  | some wm => pruneC wm c

/-- with a (non-empty) update mask: `updateMask.Filter(src)`, `proto.Merge(dst, src)`, `pruneEmpty(dst, src, mask)` -/
def mergeMasked (um : Mask) (h : H) (dst src : Nat) : H :=
  let h3 := protoMerge (h.setC src (filterC um (h.cs src))) dst src
  h3.setC dst (pruneEmptyC um (h3.cs src) (h3.cs dst))

/-- `FieldUpdater.Merge(dst, src)` with writable fields `w` (`none` = all fields, `WithAllFieldsWritable` or a resource
without writable fields) and update mask `u` (`none` = no mask); the reset mask is not modelled (no caller here
passes one) -/
def merge (w u : Option Mask) (h : H) (dst src : Nat) : H :=
  if wEmpty w then h
  else
    match u with
    | none => protoMerge ((wfilter w h src).setC dst (resetDst w ((wfilter w h src).cs dst))) dst src
    | some um => if um.isEmpty then wfilter w h src else mergeMasked um (wfilter w h src) dst src

/-- the before-interceptor of `UpdateCount` with `delta`: the caller's message gains the old counters -/
def addOld (h : H) (old src : Nat) : H :=
  h.setC src { (h.cs src) with added := (h.cs src).added + (h.cs old).added,
                               removed := (h.cs src).removed + (h.cs old).removed }

/-- `Value.Set(src, WithUpdateMask(u), InterceptBefore(delta))` as far as messages go (validation done by the caller
of this function): `dst = proto.Clone(old)`, the interceptor writes `src`, `Merge` writes both; `dst` becomes the
value, is announced and returned -/
def valueSet (w u : Option Mask) (delta : Bool) (h : H) (old src : Nat) : H × Nat :=
  let hd := clone h old
  let h2 := if delta then addOld hd.1 old src else hd.1
  (merge w u h2 hd.2 src, hd.2)

/-- `MemoryDevice.ResetCount` as it is: `rt := request.ResetTime` or a new timestamp, then
`Set(&traits.Count{ResetTime: rt}, WithAllFieldsWritable())` -/
def reset (h : H) (stored : Nat) (req : Option Nat) (now : Int) : H × Nat :=
  let ht : H × Nat := match req with
    | some t => (h, t)
    | none => h.allocT now
  let hs := ht.1.allocC ⟨0, 0, some ht.2⟩
  valueSet none none false hs.1 stored hs.2

/-- the shape of seeded change C07-21: an empty count written under the update mask {added, removed} of a device with
writable fields `w`, the reset time assigned by the after-interceptor BY POINTER -/
def resetIcpt (w : Option Mask) (h : H) (stored : Nat) (req : Option Nat) (now : Int) : H × Nat :=
  let ht : H × Nat := match req with
    | some t => (h, t)
    | none => h.allocT now
  let hs := ht.1.allocC ⟨0, 0, none⟩
  let r := valueSet w (some ⟨true, true, false⟩) false hs.1 stored hs.2
  (r.1.setC r.2 { (r.1.cs r.2) with rt := some ht.2 }, r.2)

/-! ### the device with its callers -/

structure S where
  h : H
  /-- the count the value holds -/
  stored : Nat
  /-- every count somebody was handed: write results, read results, the stored one -/
  pub : List Nat
  /-- the counts / timestamps a caller built and still owns (its requests) -/
  ownC : List Nat
  ownT : List Nat

inductive Op where
  /-- `GetCount(read_mask)` -/
  | get (m : Option Mask)
  /-- `ResetCount(reset_time)`: any timestamp the caller can name, or none -/
  | reset (req : Option Nat) (now : Int)
  /-- `UpdateCount(count, update_mask, delta)` with a count the caller owns -/
  | update (src : Nat) (u : Option Mask) (delta : Bool)
  /-- the caller builds a timestamp / a count (whose reset time is any timestamp it can name) -/
  | newT (v : Int)
  | newC (a r : Int) (rt : Option Nat)
  /-- the caller overwrites a timestamp / a count it owns -/
  | pokeT (t : Nat) (v : Int)
  | pokeC (c : Nat) (x : Cnt)

/-- `FieldUpdater.Validate`: an update mask may only mention writable fields -/
def valid (w u : Option Mask) : Bool :=
  match u, w with
  | some um, some wm => um.sub wm
  | _, _ => true

/-- one call; the second component is the returned count (`none`: no message returned / the call was refused).
A caller that names a count or timestamp it does not own in `update` / `poke…` breaks its side of the contract: the
call is skipped. -/
def step (w : Option Mask) (s : S) : Op → S × Option Nat
  | .get none => (s, some s.stored)
  | .get (some m) =>
    let hc := clone s.h s.stored
    ({ s with h := hc.1.setC hc.2 (filterC m (hc.1.cs hc.2)), pub := hc.2 :: s.pub }, some hc.2)
  | .reset req now =>
    let r := reset s.h s.stored req now
    ({ s with h := r.1, stored := r.2, pub := r.2 :: s.pub }, some r.2)
  | .update src u delta =>
    if src ∈ s.ownC then
      if valid w u then
        let r := valueSet w u delta s.h s.stored src
        ({ s with h := r.1, stored := r.2, pub := r.2 :: s.pub }, some r.2)
      else (s, none)
    else (s, none)
  | .newT v => ({ s with h := (s.h.allocT v).1, ownT := s.h.tn :: s.ownT }, none)
  | .newC a r rt => ({ s with h := (s.h.allocC ⟨a, r, rt⟩).1, ownC := s.h.cn :: s.ownC }, none)
  | .pokeT t v => if t ∈ s.ownT then ({ s with h := s.h.setT t v }, none) else (s, none)
  | .pokeC c x => if c ∈ s.ownC then ({ s with h := s.h.setC c x }, none) else (s, none)

def run (w : Option Mask) (s : S) : List Op → S
  | [] => s
  | op :: ops => run w (step w s op).1 ops

/-- the same with `ResetCount` in the shape of seeded change C07-21 -/
def stepIcpt (w : Option Mask) (s : S) : Op → S × Option Nat
  | .reset req now =>
    let r := resetIcpt w s.h s.stored req now
    ({ s with h := r.1, stored := r.2, pub := r.2 :: s.pub }, some r.2)
  | op => step w s op

/-! ### driver -/

def parseMask? (s : String) : Option (Option Mask) :=
  if s = "-" then some none
  else match s.toList with
    | [a, b, c] =>
      if [a, b, c].all (fun ch => ch = '0' || ch = '1') then some (some ⟨a = '1', b = '1', c = '1'⟩) else none
    | _ => none

/-- readings of the wall clock (`timestamppb.Now()`) are `nowBase + k`; rendered `N` -/
def nowBase : Int := 1000000

def showT (v : Int) : String := if v ≥ nowBase then "N" else toString v

def showDeep (d : Int × Int × Option Int) : String :=
  s!"{d.1}/{d.2.1}/{match d.2.2 with | some v => showT v | none => "-"}"

/-- one script token → op. `g` / `g<mask>` get; `r-` / `r<i>` reset without time / with the caller's timestamp cell `i`;
`u<i>:<mask|->:<d|s>` update with the caller's count cell `i`; `t<i>=<v>` the caller overwrites its timestamp `i`;
`c<i>=<a>/<r>` the caller overwrites the counters of its count `i` -/
def parseOp? (h : H) (k : Nat) (tok : String) : Option Op :=
  match tok.toList with
  | ['g'] => some (.get none)
  | 'g' :: m => (parseMask? (String.ofList m)).bind fun m => m.map fun m => .get (some m)
  | ['r', '-'] => some (.reset none (nowBase + k))
  | 'r' :: i => (String.ofList i).toNat?.map fun i => .reset (some i) (nowBase + k)
  | 'u' :: rest =>
    match (String.ofList rest).splitOn ":" with
    | [i, m, d] =>
      match i.toNat?, parseMask? m with
      | some i, some m => some (.update i m (d = "d"))
      | _, _ => none
    | _ => none
  | 't' :: rest =>
    match (String.ofList rest).splitOn "=" with
    | [i, v] => match i.toNat?, v.toInt? with
      | some i, some v => some (.pokeT i v)
      | _, _ => none
    | _ => none
  | 'c' :: rest =>
    match (String.ofList rest).splitOn "=" with
    | [i, v] =>
      match i.toNat?, v.splitOn "/" with
      | some i, [a, r] => match a.toInt?, r.toInt? with
        | some a, some r => some (.pokeC i { (h.cs i) with added := a, removed := r })
        | _, _ => none
      | _, _ => none
    | _ => none
  | _ => none

/-- `a/r/t` with `t` = `-` or seconds -/
def parseCnt? (s : String) : Option (Int × Int × Option Int) :=
  match s.splitOn "/" with
  | [a, r, t] => match a.toInt?, r.toInt? with
    | some a, some r => if t = "-" then some (a, r, none) else t.toInt?.map fun t => (a, r, some t)
    | _, _ => none
  | _ => none

/-- the caller's counts as cells, their reset times numbered from `nt` on -/
def mkCells : List (Int × Int × Option Int) → Nat → List Cnt
  | [], _ => []
  | (a, r, some _) :: rest, nt => ⟨a, r, some nt⟩ :: mkCells rest (nt + 1)
  | (a, r, none) :: rest, nt => ⟨a, r, none⟩ :: mkCells rest nt

def runScript (w : Option Mask) (icpt : Bool) : S → Nat → List String → List String → Option (S × List String)
  | s, _, [], out => some (s, out.reverse)
  | s, k, tok :: rest, out =>
    match parseOp? s.h k tok with
    | none => none
    | some op =>
      let tn0 := s.h.tn
      let r := if icpt then stepIcpt w s op else step w s op
      let o := match r.2 with
        | some c =>
          -- the value handed back, whether it IS the stored message, whether its reset time is a timestamp that
          -- existed before the call
          s!"{showDeep (deep r.1.h c)}{if c = r.1.stored then "s" else ""}{match (r.1.h.cs c).rt with | some t => if t < tn0 then "a" else "" | none => ""}"
        | none => "-"
      runScript w icpt r.1 (k + 1) rest (o :: out)

/-- `rim count <w> <initial a/r/t> <caller timestamps v,v|-> <caller counts a/r/t;…|-> <script tok,tok>`:
timestamp cell 0 is the initial reset time (when there is one), the caller's timestamps follow, then the reset
times of the caller's counts; count cell 0 is the initial value, cells 1.. the caller's counts. Answer: per call the
returned count (flags `s` = it is the stored message, `a` = its reset time existed before the call), then
`|pub=` every published count as it reads at the end, `|own=` the caller's counts at the end. -/
def handleCountWith (icpt : Bool) (toks : List String) : String :=
  match toks with
  | [w, ini, tss, css, script] =>
    match parseMask? w, parseCnt? ini, (if tss = "-" then some [] else (tss.splitOn ",").mapM String.toInt?),
        (if css = "-" then some [] else (css.splitOn ";").mapM parseCnt?) with
    | some w, some ini, some tvs, some cvs =>
      let t0 : List Int := match ini.2.2 with | some v => [v] | none => []
      let base := t0.length + tvs.length
      -- reset times of the caller's counts, in order
      let extra : List Int := cvs.filterMap (·.2.2)
      let tsAll := t0 ++ tvs ++ extra
      let c0 : Cnt := ⟨ini.1, ini.2.1, ini.2.2.map fun _ => 0⟩
      let cells := c0 :: mkCells cvs base
      let h : H := { cs := fun x => cells.getD x ⟨0, 0, none⟩, cn := cells.length, ts := fun x => tsAll.getD x 0, tn := tsAll.length }
      let s : S := { h := h, stored := 0, pub := [0], ownC := (List.range cvs.length).map (· + 1),
                     ownT := (List.range tvs.length).map (· + t0.length) }
      -- script tokens name the caller's cells by their index among the caller's cells
      let toks := (script.splitOn ",").map fun tok =>
        match tok.toList with
        | 'r' :: i => match (String.ofList i).toNat? with
          | some i => s!"r{i + t0.length}"
          | none => tok
        | 't' :: rest => match (String.ofList rest).splitOn "=" with
          | [i, v] => match i.toNat? with
            | some i => s!"t{i + t0.length}={v}"
            | none => tok
          | _ => tok
        | 'u' :: rest => match (String.ofList rest).splitOn ":" with
          | [i, m, d] => match i.toNat? with
            | some i => s!"u{i + 1}:{m}:{d}"
            | none => tok
          | _ => tok
        | 'c' :: rest => match (String.ofList rest).splitOn "=" with
          | [i, v] => match i.toNat? with
            | some i => s!"c{i + 1}={v}"
            | none => tok
          | _ => tok
        | _ => tok
      match runScript w icpt s 0 toks [] with
      | none => "!bad-op"
      | some (s', outs) =>
        ",".intercalate outs ++ "|pub=" ++ ";".intercalate (s'.pub.reverse.map fun p => showDeep (deep s'.h p)) ++
          "|own=" ++ ";".intercalate (s.ownC.map fun c => showDeep (deep s'.h c))
    | _, _, _, _ => "!bad-op"
  | _ => "!bad-op"

def handleCount (toks : List String) : String := handleCountWith false toks

end ScVerif.C07.Rim6
