import ScVerif.Generated.C07Facts
/-! # C07 — K3 table: loops over resource Pull channels (regenerated from the source tree on every run) -/
namespace ScVerif.C07
open ScVerif.Generated.C07

/-- **C07_pull_loops_pure.** No `range` loop over a resource `Pull`/`PullID` channel in `pkg/trait`
contains a DEFINITE write through the change it received (with a nil read mask that value IS the
stored message). Receives the tracker does not recognise (select/receive instead of range) and calls
it cannot see into are undecided, not failures: the snapshot monitor covers them. -/
theorem C07_pull_loops_pure : ∀ r, r ∈ pullLoops → r.pure = true := by decide

example : pullLoops.length ≥ 20 := by decide

end ScVerif.C07
