import ScVerif.Base.Line
/-!
C07 — rim model of round 7: a model method that hands a STORED message to a write as its source.

`FieldUpdater.Merge(dst, src)` (pkg/masks/update.go) filters `src` IN PLACE (`writableMask.Filter(src)`,
`updateMask.Filter(src)`): a write edits the message it is handed. For a caller's own request that is the caller's
business (ScVerif/C07/Core.lean has it in the write set of the call); a model method that looks a message up in one
resource and hands it to the write of another resource hands over a message readers and subscribers hold.

electricpb `Model.changeActiveMode` (pkg/trait/electricpb/model.go; `ChangeActiveMode`, `ChangeToNormalMode`,
`ModelServer.UpdateActiveMode`, `ModelServer.ClearActiveMode`): `findMode(id)` returns the stored record of the modes
collection, `activeMode.Set(…, InterceptAfter(start time))` is the write. Since fix 5105353 the write is handed
`proto.Clone(mode)`; before, the stored record itself (`changeActiveStored`).

`merge` stands for `FieldUpdater.Merge` under WHATEVER the active mode resource is configured with (writable fields
or none) as a function from the contents of (dst, src) to their new contents; `after` for the after-interceptor as
a function from (old contents, new contents) to the new contents (it writes `new` only). References are natural
numbers, `next` is the allocation pointer (as in Rim.lean / Rim3.lean / Rim4.lean).
-/
namespace ScVerif.C07.Rim5

structure H (M : Type) where
  cells : Nat → M
  next : Nat

def H.alloc {M : Type} (h : H M) (m : M) : H M × Nat :=
  ({ cells := fun x => if x = h.next then m else h.cells x, next := h.next + 1 }, h.next)

def H.set {M : Type} (h : H M) (r : Nat) (m : M) : H M :=
  { h with cells := fun x => if x = r then m else h.cells x }

/-- the modes collection: key ↦ reference of the stored record -/
abbrev Store := List (String × Nat)

def find (s : Store) (k : String) : Option Nat := (s.find? (fun kr => kr.1 = k)).map (·.2)

/-- `Value.Set(src, InterceptAfter(after))` without update / reset mask as far as messages go (GetAndUpdate +
changeFn): `dst = proto.Clone(old)`; `writer.Merge(dst, src)` writes BOTH; the after-interceptor writes `dst`;
`dst` becomes the value, is announced and returned. Returns the heap and the reference of the new value. -/
def valueSet {M : Type} (merge : M → M → M × M) (after : M → M → M) (h : H M) (old src : Nat) : H M × Nat :=
  let (h1, dst) := h.alloc (h.cells old)
  let ds := merge (h1.cells dst) (h1.cells src)
  let h2 := (h1.set dst ds.1).set src ds.2
  (h2.set dst (after (h2.cells old) (h2.cells dst)), dst)

structure Res (M : Type) where
  heap : H M
  /-- the reference held by the active mode value afterwards -/
  active : Nat
  /-- the returned message (`none`: ErrModeNotFound) -/
  result : Option Nat

/-- `changeActiveMode(id)` as it is now (fix 5105353): the write is handed a clone of the stored mode -/
def changeActive {M : Type} (merge : M → M → M × M) (after : M → M → M) (h : H M) (modes : Store) (active : Nat)
    (id : String) : Res M :=
  match find modes id with
  | none => { heap := h, active := active, result := none }
  | some r =>
    let (h1, c) := h.alloc (h.cells r)
    let (h2, d) := valueSet merge after h1 active c
    { heap := h2, active := d, result := some d }

/-- before fix 5105353: the stored mode itself is the source of the write -/
def changeActiveStored {M : Type} (merge : M → M → M × M) (after : M → M → M) (h : H M) (modes : Store) (active : Nat)
    (id : String) : Res M :=
  match find modes id with
  | none => { heap := h, active := active, result := none }
  | some r =>
    let (h2, d) := valueSet merge after h active r
    { heap := h2, active := d, result := some d }

/-- `Model.SetActiveMode(mode)` (the exported Go entry point, round 8): the id must be known, then the CALLER's message
is the source of `activeMode.Set` (no interceptor, "the mode.StartTime will not be set for you"). `idOf` reads the id
of a message. The result is the new active mode (the Go function returns only the error). -/
def setActive {M : Type} (idOf : M → String) (merge : M → M → M × M) (h : H M) (modes : Store) (active src : Nat) : Res M :=
  match find modes (idOf (h.cells src)) with
  | none => { heap := h, active := active, result := none }
  | some _ =>
    let (h2, d) := valueSet merge (fun _ n => n) h active src
    { heap := h2, active := d, result := some d }

/-- the shape of seeded change C07-20 ("activate the mode as it is known"): the caller's start time is written onto
the LOOKED-UP mode, a clone of which is then the source of the write -/
def setActiveKnown {M : Type} (idOf : M → String) (withStart : M → M → M) (merge : M → M → M × M) (h : H M)
    (modes : Store) (active src : Nat) : Res M :=
  match find modes (idOf (h.cells src)) with
  | none => { heap := h, active := active, result := none }
  | some r =>
    let h1 := h.set r (withStart (h.cells r) (h.cells src))
    let (h2, c) := h1.alloc (h1.cells r)
    let (h3, d) := valueSet merge (fun _ n => n) h2 active c
    { heap := h3, active := d, result := some d }

/-! ### the concrete instance the driver runs: an `ElectricMode` as (id, title, description, start time set) and
`FieldUpdater.Merge` with optional writable fields over {id, title, description} -/

structure EMode where
  id : String
  title : String
  descr : String
  /-- `start_time` (a step counter of the injected clock; 0 = not set) -/
  start : Nat
  deriving DecidableEq

structure WMask where
  id : Bool
  title : Bool
  descr : Bool
  start : Bool

/-- `writableMask.Filter(src)`: fields outside the mask are cleared -/
def filterE (w : WMask) (m : EMode) : EMode :=
  { id := if w.id then m.id else "", title := if w.title then m.title else "",
    descr := if w.descr then m.descr else "", start := if w.start then m.start else 0 }

/-- `FieldUpdater.Merge(dst, src)` without update mask: no writable fields → `dst` looks like `src`, `src` untouched;
an EMPTY writable mask → nothing is written (early return); otherwise `src` is filtered in place, the writable
fields of `dst` are pruned and the filtered `src` merged in -/
def mergeE (w : Option WMask) (dst src : EMode) : EMode × EMode :=
  match w with
  | none => (src, src)
  | some w =>
    if !w.id && !w.title && !w.descr && !w.start then (dst, src)
    else
      ({ id := if w.id then src.id else dst.id, title := if w.title then src.title else dst.title,
         descr := if w.descr then src.descr else dst.descr, start := if w.start then src.start else dst.start },
       filterE w src)

/-- the after-interceptor of `changeActiveMode`: a new start time when the id changes -/
def afterE (now : Nat) (old new : EMode) : EMode :=
  if old.id ≠ new.id then { new with start := now } else new

/-! ### driver -/

/-- `id:title:descr` -/
def parseMode? (s : String) : Option EMode :=
  match s.splitOn ":" with
  | [a, b, c] => some ⟨a, b, c, 0⟩
  | _ => none

/-- `-` = no writable fields configured, else four 0/1 for id, title, description, start_time (`0000` = the empty mask) -/
def parseW? (s : String) : Option (Option WMask) :=
  if s = "-" then some none
  else match s.toList with
    | [a, b, c, d] =>
      if [a, b, c, d].all (fun ch => ch = '0' || ch = '1') then some (some ⟨a = '1', b = '1', c = '1', d = '1'⟩) else none
    | _ => none

def showMode (m : EMode) : String := s!"{m.id}:{m.title}:{m.descr}:{if m.start = 0 then "-" else toString m.start}"

/-- the calls of a script, the clock reading `k + 1` during call `k` -/
def runCalls (w : Option WMask) (modes : Store) : H EMode → Nat → Nat → List String → List String → H EMode × List String
  | h, _, _, [], out => (h, out.reverse)
  | h, active, k, id :: rest, out =>
    let r := changeActive (mergeE w) (afterE (k + 1)) h modes active id
    let o := match r.result with
      | some d => showMode (r.heap.cells d)
      | none => "nf"
    runCalls w modes r.heap r.active (k + 1) rest (o :: out)

/-- `rim active <w> <active mode> <mode;mode|-> <id,id>`: cell 0 is the initial active mode, cells 1.. the stored modes
(key = their id) → the result of every `ChangeActiveMode(id)` (`nf` = not found), then `|modes=` the stored modes
afterwards -/
def handleActive (toks : List String) : String :=
  match toks with
  | [w, act, ms, ids] =>
    match parseW? w, parseMode? act, (if ms = "-" then some [] else (ms.splitOn ";").mapM parseMode?) with
    | some w, some act, some ms =>
      let h : H EMode := { cells := fun x => if x = 0 then act else ms.getD (x - 1) ⟨"", "", "", 0⟩, next := ms.length + 1 }
      let store : Store := (List.range ms.length).map fun i => ((ms.getD i ⟨"", "", "", 0⟩).id, i + 1)
      let (h', outs) := runCalls w store h 0 0 (ids.splitOn ",") []
      ",".intercalate outs ++ "|modes=" ++ ";".intercalate (store.map fun kr => showMode (h'.cells kr.2))
    | _, _, _ => "!bad-op"
  | _ => "!bad-op"

/-- `id:title:descr:start` (`-` = no start time) -/
def parseModeS? (s : String) : Option EMode :=
  match s.splitOn ":" with
  | [a, b, c, d] => if d = "-" then some ⟨a, b, c, 0⟩ else d.toNat?.map fun n => ⟨a, b, c, n⟩
  | _ => none

/-- the `SetActiveMode` calls of a script; cell `src` of call `k` is the caller's message -/
def runSets (w : Option WMask) (modes : Store) : H EMode → Nat → List Nat → List String → H EMode × List String
  | h, _, [], out => (h, out.reverse)
  | h, active, src :: rest, out =>
    let r := setActive (·.id) (mergeE w) h modes active src
    let o := match r.result with
      | some d => showMode (r.heap.cells d)
      | none => "nf"
    runSets w modes r.heap r.active rest (o :: out)

/-- `rim setactive <w> <active mode> <mode;mode|-> <mode:start,mode:start>`: cell 0 is the initial active mode, cells
1..n the stored modes, the following cells the caller's messages, one per call → per `SetActiveMode` call the active
mode afterwards (`nf` = not found), `|modes=` the stored modes afterwards, `|own=` the caller's messages afterwards -/
def handleSetActive (toks : List String) : String :=
  match toks with
  | [w, act, ms, calls] =>
    match parseW? w, parseMode? act, (if ms = "-" then some [] else (ms.splitOn ";").mapM parseMode?),
        (calls.splitOn ",").mapM parseModeS? with
    | some w, some act, some ms, some cs =>
      let all := act :: (ms ++ cs)
      let h : H EMode := { cells := fun x => all.getD x ⟨"", "", "", 0⟩, next := all.length }
      let store : Store := (List.range ms.length).map fun i => ((ms.getD i ⟨"", "", "", 0⟩).id, i + 1)
      let srcs := (List.range cs.length).map (· + ms.length + 1)
      let (h', outs) := runSets w store h 0 srcs []
      ",".intercalate outs ++ "|modes=" ++ ";".intercalate (store.map fun kr => showMode (h'.cells kr.2)) ++
        "|own=" ++ ";".intercalate (srcs.map fun c => showMode (h'.cells c))
    | _, _, _, _ => "!bad-op"
  | _ => "!bad-op"

end ScVerif.C07.Rim5
