import ScVerif.C07.EventValsLemmas
/-!
C07 — WHO holds which message: the sharing structure of event values (ghost ownership of message cells).

Every message cell gets a ghost owner: `none` for a cell a writer stored (the stored message itself, which `Get`, write
results, `Delete` and unmasked events hand out), `some i` for a clone made by the read-mask filter of subscriber `i`.
Invariant (`GInv`), for any interleaving of stores, sends of stored messages and pipeline steps:

* the values of every bus event and of every private merger copy are stored messages;
* the values of whatever an UNMASKED subscriber's consumer has received are stored messages (so isolation rests on
  nobody writing them — `C07_event_values_immutable`);
* the values of whatever a MASKED subscriber's consumer has received are clones made by that subscriber's own filter.
-/
namespace ScVerif.C07.Events

/-- the messages an event refers to -/
def Ev.vals (e : Ev) : List Nat := e.old.toList ++ e.new.toList

/-- the subscriber a pipeline step belongs to -/
def stepSub : Step → Nat
  | .forward i => i
  | .forwardIncl i _ => i
  | .emit i => i
  | .emitIncl i _ => i
  | .seed i _ => i
  | .dropIn i => i
  | .mergeIn i => i
  | _ => 0

/-- the layered model + the ghost owner of every message cell -/
structure GS (M : Type) where
  v : VS M
  mown : Nat → Option Nat

def gstep {M : Type} (pm : M → M) (g : GS M) (st : VStep M) : GS M :=
  { v := vstep pm g.v st,
    mown := match st with
      | .store _ => fun x => if x = g.v.mnext then none else g.mown x
      | .ev s => fun x => if g.v.mnext ≤ x ∧ x < (vstep pm g.v st).mnext then some (stepSub s) else g.mown x }

def grun {M : Type} (pm : M → M) (g : GS M) : List (VStep M) → GS M
  | [] => g
  | st :: rest => grun pm (gstep pm g st) rest

def GS.init {M : Type} [Inhabited M] : GS M := { v := VS.init, mown := fun _ => none }

/-- every value of `e` is an existing message cell owned by `o` -/
def ValsOwned {M : Type} (g : GS M) (o : Option Nat) (e : Ev) : Prop :=
  ∀ r, r ∈ e.vals → r < g.v.mnext ∧ g.mown r = o

/-- writers send stored messages: the values of a `send` / `vsend` are cells a writer stored; so are the values of a seed
(the current value(s) of the resource) -/
def SendOK {M : Type} (g : GS M) : VStep M → Prop
  | .ev (.send e) => ValsOwned g none e
  | .ev (.vsend e) => ValsOwned g none e
  | .ev (.seed _ e) => ValsOwned g none e
  | _ => True

/-- a run in which every send carries stored messages -/
def OKfrom {M : Type} (pm : M → M) : GS M → List (VStep M) → Prop
  | _, [] => True
  | g, st :: rest => SendOK g st ∧ OKfrom pm (gstep pm g st) rest

instance {M : Type} (g : GS M) (o : Option Nat) (e : Ev) : Decidable (ValsOwned g o e) := by
  unfold ValsOwned; exact inferInstance

instance {M : Type} (g : GS M) (st : VStep M) : Decidable (SendOK g st) := by
  cases st with
  | store m => exact isTrue trivial
  | ev s => cases s <;> simp only [SendOK] <;> exact inferInstance

instance decOKfrom {M : Type} (pm : M → M) : (g : GS M) → (steps : List (VStep M)) → Decidable (OKfrom pm g steps)
  | _, [] => isTrue trivial
  | g, st :: rest => by
    simp only [OKfrom]
    have := decOKfrom pm (gstep pm g st) rest
    exact inferInstance

structure GInv {M : Type} (g : GS M) : Prop where
  inv : Inv g.v.es
  bus : ∀ c, c < g.v.es.next → g.v.es.owner c = none → ValsOwned g none (g.v.es.heap c)
  pend : ∀ sb, sb ∈ g.v.es.subs → ∀ p, p ∈ sb.pending → ValsOwned g none p
  out : ∀ sb, sb ∈ g.v.es.subs → ∀ c, c ∈ sb.out →
    ValsOwned g (if sb.mask then some sb.idx else none) (g.v.es.heap c)

theorem ValsOwned.mono {M : Type} {g g' : GS M} {o : Option Nat} {e : Ev} (h : ValsOwned g o e)
    (hn : g.v.mnext ≤ g'.v.mnext) (hm : ∀ r, r < g.v.mnext → g'.mown r = g.mown r) : ValsOwned g' o e := by
  intro r hr
  have := h r hr
  exact ⟨by omega, by rw [hm r this.1]; exact this.2⟩

theorem vals_convEv (d : Decision) (e : Ev) : ∀ r, r ∈ (convEv d e).vals → r ∈ e.vals := by
  intro r hr
  cases d <;> simp [convEv, Ev.vals] at hr ⊢ <;> simp [hr]

theorem ValsOwned.conv {M : Type} {g : GS M} {o : Option Nat} {e : Ev} (h : ValsOwned g o e) (d : Decision) :
    ValsOwned g o (convEv d e) := fun r hr => h r (vals_convEv d e r hr)

/-- `mergeChanges` only carries references on -/
theorem vals_mergeChanges (a b m : Ev) (h : mergeChanges a b = some m) : ∀ r, r ∈ m.vals → r ∈ a.vals ∨ r ∈ b.vals := by
  intro r hr
  simp only [mergeChanges] at h
  cases ha : a.kind <;> simp only [ha] at h
  · cases hb : b.kind <;> simp only [hb] at h
    · cases h; right; simpa [Ev.vals] using hr
    · cases h; right; simp [Ev.vals] at hr ⊢; simp [hr]
    · exact absurd h (by simp)
    · cases h; right; simp [Ev.vals] at hr ⊢; simp [hr]
  all_goals
    cases h
    simp [Ev.vals] at hr ⊢
    rcases hr with hr | hr
    · left; left; exact hr
    · right; right; exact hr

theorem mem_mergePending {pending : List Ev} {nw p : Ev} (h : p ∈ mergePending pending nw) :
    p ∈ pending ∨ p = nw ∨ ∃ o, o ∈ pending ∧ mergeChanges o nw = some p := by
  simp only [mergePending] at h
  split at h
  · simp only [List.mem_append, List.mem_singleton] at h
    rcases h with h | h
    · exact Or.inl h
    · exact Or.inr (Or.inl h)
  · rename_i o ho
    split at h
    · exact Or.inl (List.mem_filter.mp h).1
    · rename_i m hm
      simp only [List.mem_append, List.mem_singleton] at h
      rcases h with h | h
      · exact Or.inl (List.mem_filter.mp h).1
      · subst h
        exact Or.inr (Or.inr ⟨o, List.mem_of_find?_eq_some ho, hm⟩)

theorem ValsOwned.mergePending {M : Type} {g : GS M} {pending : List Ev} {nw : Ev}
    (hp : ∀ p, p ∈ pending → ValsOwned g none p) (hn : ValsOwned g none nw) :
    ∀ p, p ∈ mergePending pending nw → ValsOwned g none p := by
  intro p h
  rcases mem_mergePending h with h | h | ⟨o, ho, hm⟩
  · exact hp p h
  · subst h; exact hn
  · intro r hr
    rcases vals_mergeChanges o nw p hm r hr with h | h
    · exact hp o ho r h
    · exact hn r h

/-- the values of a filtered event are the clones the filter has just made -/
theorem vals_projEv {M : Type} (pm : M → M) (msgs : Nat → M) (n : Nat) (e : Ev) :
    ∀ r, r ∈ (projEv (projFor n e) e).vals →
      n ≤ r ∧ r < (cloneVal pm (cloneVal pm msgs n e.new).1 (cloneVal pm msgs n e.new).2 e.old).2 := by
  intro r hr
  cases hn : e.new <;> cases ho : e.old <;> simp [projEv, projFor, Ev.vals, hn, ho, cloneVal] at hr ⊢
  · omega
  · omega
  · rcases hr with hr | hr <;> first | omega | (split at hr <;> omega)

end ScVerif.C07.Events
