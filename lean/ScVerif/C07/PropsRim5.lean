import ScVerif.C07.Rim5
/-!
# C07 — round 7 rim: a model method that hands a looked-up message to a write (electricpb changeActiveMode)

`FieldUpdater.Merge` writes its SOURCE (in-place filter). For the code as it is now (fix 5105353), for every
configuration of the active mode resource (`merge` is any function), every after-interceptor, heap, modes
collection and id: changing the active mode writes no message that existed before the call — not a stored mode, not
the old active mode, nothing a reader or subscriber holds — and returns a message allocated by the call. The
`…_stored_source_…` theorem shows that the same model expresses the pre-fix shape; `…_same_result` that the repair
changes nothing about the value the write produces.
-/
namespace ScVerif.C07.Rim5

set_option linter.unusedSimpArgs false

/-- **C07_change_active_mode_frame.** `changeActiveMode(id)` for every merge function (any writable-fields
configuration, including ones that filter their source in place), every after-interceptor, heap, modes collection,
current active mode and id: (1) no message that existed before the call is written; (2) an unknown id changes
nothing at all; (3) the returned message is the new active mode, allocated by the call. -/
theorem C07_change_active_mode_frame {M : Type} (merge : M → M → M × M) (after : M → M → M) (h : H M) (modes : Store)
    (active : Nat) (id : String) :
    (∀ x, x < h.next → (changeActive merge after h modes active id).heap.cells x = h.cells x) ∧
    (find modes id = none → (changeActive merge after h modes active id).heap = h ∧
      (changeActive merge after h modes active id).active = active ∧
      (changeActive merge after h modes active id).result = none) ∧
    (∀ d, (changeActive merge after h modes active id).result = some d →
      h.next ≤ d ∧ d < (changeActive merge after h modes active id).heap.next ∧
      (changeActive merge after h modes active id).active = d) := by
  cases hf : find modes id with
  | none => simp [changeActive, hf]
  | some r =>
    refine ⟨fun x hx => ?_, fun h0 => by simp at h0, fun d hd => ?_⟩
    · have h1 : x ≠ h.next := Nat.ne_of_lt hx
      have h2 : x ≠ h.next + 1 := Nat.ne_of_lt (Nat.lt_succ_of_lt hx)
      simp [changeActive, hf, valueSet, H.alloc, H.set, h1, h2]
    · simp [changeActive, hf, valueSet, H.alloc, H.set] at hd
      subst hd
      simp [changeActive, hf, valueSet, H.alloc, H.set]

/-- the repair changes nothing about the value the write produces: with the stored mode as the source (before
5105353) and with its clone (now) the new active mode has the same contents, for every merge function -/
theorem C07_change_active_mode_same_result {M : Type} (merge : M → M → M × M) (after : M → M → M) (h : H M)
    (modes : Store) (active : Nat) (id : String) (r : Nat) (hact : active < h.next) (hr : r < h.next)
    (hne : r ≠ active) (hf : find modes id = some r) :
    (changeActive merge after h modes active id).heap.cells (changeActive merge after h modes active id).active =
    (changeActiveStored merge after h modes active id).heap.cells (changeActiveStored merge after h modes active id).active := by
  have h1 : active ≠ h.next := Nat.ne_of_lt hact
  have h2 : active ≠ h.next + 1 := Nat.ne_of_lt (Nat.lt_succ_of_lt hact)
  have h3 : r ≠ h.next := Nat.ne_of_lt hr
  simp [changeActive, changeActiveStored, hf, valueSet, H.alloc, H.set, h1, h2, h3, Ne.symm h3, hne, Ne.symm hne]

/-- before fix 5105353 (the stored mode itself is the source): with writable fields {id, title} on the active mode
resource, changing to mode "a" strips the stored mode "a" of its description — a message that existed before the
call, held by the modes collection and by every reader and subscriber of it, is written -/
theorem C07_change_active_mode_stored_source_writes_stored_mode :
    ∃ (h : H EMode) (modes : Store) (active : Nat) (r : Nat), active < h.next ∧ r < h.next ∧ find modes "a" = some r ∧
      (changeActiveStored (mergeE (some ⟨true, true, false, false⟩)) (afterE 5) h modes active "a").heap.cells r ≠ h.cells r ∧
      (changeActive (mergeE (some ⟨true, true, false, false⟩)) (afterE 5) h modes active "a").heap.cells r = h.cells r :=
  ⟨{ cells := fun x => if x = 1 then ⟨"a", "A", "desc", 0⟩ else ⟨"", "", "", 0⟩, next := 2 }, [("a", 1)], 0, 1,
    by decide, by decide, by simp [find], by
      simp [changeActiveStored, find, valueSet, H.alloc, H.set, mergeE, filterE, afterE], by
      simp [changeActive, find, valueSet, H.alloc, H.set, mergeE, filterE, afterE]⟩

/-- why instances with default settings never showed it: before fix 5105353 the frame held exactly as far as the
configured Merge leaves its source alone (no writable fields, or the empty mask) — for every such merge function,
after-interceptor, heap, modes collection and id, the stored-source shape writes no message that existed before -/
theorem C07_change_active_mode_stored_source_partial {M : Type} (merge : M → M → M × M) (after : M → M → M) (h : H M)
    (modes : Store) (active : Nat) (id : String) (hsrc : ∀ d s, (merge d s).2 = s) :
    ∀ x, x < h.next → (changeActiveStored merge after h modes active id).heap.cells x = h.cells x := by
  intro x hx
  have h1 : x ≠ h.next := Nat.ne_of_lt hx
  cases hf : find modes id with
  | none => simp [changeActiveStored, hf]
  | some r =>
    by_cases hxr : x = r
    · subst hxr
      simp [changeActiveStored, hf, valueSet, H.alloc, H.set, h1, hsrc]
    · simp [changeActiveStored, hf, valueSet, H.alloc, H.set, h1, hxr]

/-- the hypothesis of the partial theorem holds for the resource as the package configures it (no writable fields)
and for the empty mask, and fails for a proper mask -/
example : (∀ d s, (mergeE none d s).2 = s) ∧ (∀ d s, (mergeE (some ⟨false, false, false, false⟩) d s).2 = s) ∧
    ¬ (∀ d s, (mergeE (some ⟨true, true, false, false⟩) d s).2 = s) :=
  ⟨fun _ _ => rfl, fun _ _ => rfl, fun hall => by
    have := hall ⟨"", "", "", 0⟩ ⟨"a", "A", "desc", 0⟩
    simp [mergeE, filterE] at this⟩

/-- non-vacuity: a reachable state (one stored mode, the package's empty initial active mode as a message of its own)
that satisfies the hypotheses of `C07_change_active_mode_same_result` and on which the call succeeds -/
example : ∃ (h : H EMode) (modes : Store) (active : Nat), active < h.next ∧ find modes "a" = some 1 ∧ 1 < h.next ∧ 1 ≠ active ∧
    (changeActive (mergeE none) (afterE 5) h modes active "a").result = some 3 :=
  ⟨{ cells := fun x => if x = 1 then ⟨"a", "A", "desc", 0⟩ else ⟨"", "", "", 0⟩, next := 2 }, [("a", 1)], 0,
    by decide, by simp [find], by decide, by decide, by simp [changeActive, find, valueSet, H.alloc, H.set]⟩

/-- **C07_set_active_mode_frame** (round 8). `Model.SetActiveMode(mode)`, the exported entry point that hands the
caller's own message to the write: for every merge function (any writable-fields configuration), every way of reading
an id, heap, modes collection, active mode and caller message: (1) of the messages that existed only the caller's own
is written (the in-place filter of the write) — no stored mode, not the old active mode; (2) an unknown id changes
nothing at all; (3) the new active mode is a message allocated by the call. -/
theorem C07_set_active_mode_frame {M : Type} (idOf : M → String) (merge : M → M → M × M) (h : H M) (modes : Store)
    (active src : Nat) :
    (∀ x, x < h.next → x ≠ src → (setActive idOf merge h modes active src).heap.cells x = h.cells x) ∧
    (find modes (idOf (h.cells src)) = none → (setActive idOf merge h modes active src).heap = h ∧
      (setActive idOf merge h modes active src).active = active ∧
      (setActive idOf merge h modes active src).result = none) ∧
    (∀ d, (setActive idOf merge h modes active src).result = some d →
      h.next ≤ d ∧ d < (setActive idOf merge h modes active src).heap.next ∧
      (setActive idOf merge h modes active src).active = d) := by
  cases hf : find modes (idOf (h.cells src)) with
  | none => simp [setActive, hf]
  | some r =>
    refine ⟨fun x hx hne => ?_, fun h0 => by simp at h0, fun d hd => ?_⟩
    · have h1 : x ≠ h.next := Nat.ne_of_lt hx
      simp [setActive, hf, valueSet, H.alloc, H.set, h1, hne]
    · simp [setActive, hf, valueSet, H.alloc, H.set] at hd
      subst hd
      simp [setActive, hf, valueSet, H.alloc, H.set]

/-- the shape of seeded change C07-20 (the caller's start time written onto the looked-up mode before a clone of it
is activated): without any writable fields configured, `SetActiveMode({id: "a", start: 9})` gives the STORED mode
"a" — a message the modes collection, every reader and every subscriber holds — a start time; the code as it is
leaves it alone and produces the same active mode here -/
theorem C07_set_active_mode_known_writes_stored_mode :
    ∃ (h : H EMode) (modes : Store) (active src r : Nat), active < h.next ∧ src < h.next ∧ r < h.next ∧ r ≠ src ∧
      find modes "a" = some r ∧
      (setActiveKnown (·.id) (fun k s => { k with start := s.start }) (mergeE none) h modes active src).heap.cells r ≠ h.cells r ∧
      (setActive (·.id) (mergeE none) h modes active src).heap.cells r = h.cells r :=
  ⟨{ cells := fun x => if x = 1 then ⟨"a", "A", "desc", 0⟩ else if x = 2 then ⟨"a", "", "", 9⟩ else ⟨"", "", "", 0⟩, next := 3 },
    [("a", 1)], 0, 2, 1, by decide, by decide, by decide, by decide, by simp [find], by
      simp [setActiveKnown, find, valueSet, H.alloc, H.set, mergeE], by
      simp [setActive, find, valueSet, H.alloc, H.set, mergeE]⟩

end ScVerif.C07.Rim5
