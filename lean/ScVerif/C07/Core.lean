/-
C07 — heap-with-references model of `resource.Value` / `resource.Collection`
(pkg/resource/{atomic,opt,value,collection}.go, pkg/masks/{update,get}.go).

Messages live in a heap of cells addressed by references (Go pointers).  The store holds
references; every message that crosses the API is a reference.  The model follows the code's
phases and records exactly where each phase writes:

  Set/Update   validate ▸ read old ▸ dst := alloc clone(old) ▸ expected checks ▸ interceptBefore(old, src)
               ▸ FieldUpdater.Merge(dst, src)  (writes dst AND filters the caller's src in place)
               ▸ interceptAfter(old, dst) ▸ save dst ▸ publish dst (result, events)
  Get/List/seed/event value   `FilterClone`: nil read mask → THE STORED REFERENCE ITSELF, else a fresh clone

What a message *contains* and how masks merge is abstract (`Funs`): the isolation theorems hold for
every `merge/validate/project`; the driver instantiates them with flat 4-field messages (Flat.lean).
Interceptors are arbitrary heap transformers; `OldPure` is the documented contract (opt.go:
"Do not write to the old value").
-/
namespace ScVerif.C07

abbrev Ref := Nat

abbrev Heap (M : Type) := Ref → M

def Heap.set {M : Type} (h : Heap M) (r : Ref) (m : M) : Heap M := fun x => if x = r then m else h x

/-- An interceptor `(old, new)`: may read the whole heap, returns the heap after its writes. -/
abbrev Cb (M : Type) := Heap M → Option Ref → Ref → Heap M

/-- The interceptor contract: it writes to nothing but its `new` argument. -/
def OldPure {M : Type} (cb : Cb M) : Prop := ∀ h o n r, r ≠ n → cb h o n r = h r

/-- gRPC status codes that the modelled paths can return. -/
inductive Err | invalidArgument | failedPrecondition | notFound | alreadyExists | internal
  deriving DecidableEq, Repr

def Err.name : Err → String
  | .invalidArgument => "InvalidArgument"
  | .failedPrecondition => "FailedPrecondition"
  | .notFound => "NotFound"
  | .alreadyExists => "AlreadyExists"
  | .internal => "Internal"

/-- The message-level functions the resource code delegates to (protobuf + masks); abstract here. -/
structure Funs (M Mask : Type) where
  zero : M
  /-- `FieldUpdater.Validate` given (writable fields, update mask, message) -/
  validate : Option Mask → Option Mask → M → Option Err
  /-- `FieldUpdater.Merge(dst, src)` given (writable fields, update mask, reset mask): new contents of
  `(dst, src)` — src is filtered in place -/
  merge : Option Mask → Option Mask → Option Mask → M → M → M × M
  /-- `ResponseFilter.FilterClone` with a non-nil mask, applied to a clone -/
  project : Mask → M → M
  /-- `proto.Equal` -/
  eq : M → M → Bool

structure WOpts (M Mask : Type) where
  umask : Option Mask := none
  /-- `WithResetMask` -/
  rmask : Option Mask := none
  before : Option (Cb M) := none
  after : Option (Cb M) := none
  /-- `WithExpectedValue` -/
  expected : Option M := none
  /-- `WithExpectedCheck` on the old contents (`none` = no current message) -/
  check : Option (Option M → Option Err) := none
  createIfAbsent : Bool := false
  expectAbsent : Bool := false
  allowMissing : Bool := false

def WOpts.Pure {M Mask : Type} (o : WOpts M Mask) : Prop :=
  (∀ cb, o.before = some cb → OldPure cb) ∧ (∀ cb, o.after = some cb → OldPure cb)

structure Sub (Mask : Type) where
  mask : Option Mask
  live : Bool
  /-- `PullID`: only this item's changes, the new value only; ends when the item is removed -/
  only : Option Nat := none

structure St (M Mask : Type) where
  heap : Heap M
  /-- allocation pointer: every reference `≥ next` is unallocated -/
  next : Ref
  writable : Option Mask
  /-- `WithIDInterceptor` (identity when not configured) -/
  idmap : Nat → Nat := id
  /-- `Value.value` -/
  val : Option Ref
  /-- `Collection.byId`, kept sorted by id -/
  coll : List (Nat × Ref)
  vsubs : List (Sub Mask)
  csubs : List (Sub Mask)
  /-- ghost: every reference that has crossed the API boundary outwards, in crossing order -/
  pub : List Ref
  /-- ghost: messages built by the caller (arguments of writes), in creation order -/
  owned : List Ref

/-- One token of an answer: the driver prints message items by their heap contents. -/
inductive Item | msg (r : Ref) | absent | tag (s : String)
  deriving DecidableEq, Repr

structure Ans where
  err : Option Err := none
  bad : Bool := false
  items : List Item := []

variable {M Mask : Type}

def Ans.ok (items : List Item) : Ans := { items := items }
def Ans.fail (e : Err) : Ans := { err := some e }
def Ans.malformed : Ans := { bad := true }

/-- A stored message leaves the API through a read filter (`FilterClone`): nil mask → the reference
itself, otherwise a freshly allocated filtered clone.  `none` stays `none`. -/
def deliver (F : Funs M Mask) (mask : Option Mask) (s : St M Mask) (r : Option Ref) : St M Mask × Item :=
  match r, mask with
  | none, _ => (s, .absent)
  | some r, none => ({ s with pub := s.pub ++ [r] }, .msg r)
  | some r, some m =>
    ({ s with heap := s.heap.set s.next (F.project m (s.heap r)), next := s.next + 1, pub := s.pub ++ [s.next] },
      .msg s.next)

/-- deliver a list of stored references in order (List results, Pull seeds) -/
def deliverList (F : Funs M Mask) (mask : Option Mask) : St M Mask → List Ref → St M Mask × List Item
  | s, [] => (s, [])
  | s, r :: rs =>
    let (s1, i) := deliver F mask s (some r)
    let (s2, is) := deliverList F mask s1 rs
    (s2, i :: is)

/-- `bus.Send` of one change `(old, new)` to every live subscriber, each through its own read filter. -/
def emit (F : Funs M Mask) (tag : String) (old new : Option Ref) : St M Mask → List (Sub Mask) → St M Mask × List Item
  | s, [] => (s, [])
  | s, sub :: rest =>
    if sub.live then
      let (s1, o) := deliver F sub.mask s old
      let (s2, n) := deliver F sub.mask s1 new
      let (s3, is) := emit F tag old new s2 rest
      (s3, .tag tag :: o :: n :: is)
    else emit F tag old new s rest

/-- the same change as seen by the `PullID` subscribers of item `id`: the new value only -/
def emitOnly (F : Funs M Mask) (id : Nat) (new : Ref) : St M Mask → List (Sub Mask) → St M Mask × List Item
  | s, [] => (s, [])
  | s, sub :: rest =>
    if sub.live && sub.only == some id then
      let (s1, n) := deliver F sub.mask s (some new)
      let (s2, is) := emitOnly F id new s1 rest
      (s2, .tag "P" :: n :: is)
    else emitOnly F id new s rest

def isWide (sub : Sub Mask) : Bool := sub.only.isNone

def runCb (cb : Option (Cb M)) (h : Heap M) (o : Option Ref) (n : Ref) : Heap M :=
  match cb with
  | some f => f h o n
  | none => h

/-- `changeFn` after the clone: expected checks, interceptBefore, Merge, interceptAfter.
`old` is what the interceptors and checks see; `dst` already holds clone(old). -/
def change (F : Funs M Mask) (s : St M Mask) (old : Option Ref) (dst src : Ref) (o : WOpts M Mask) :
    Heap M × Option Err :=
  let oldc := old.map s.heap
  let expErr : Option Err :=
    match o.expected with
    | some e => (match oldc with
        | some c => if F.eq c e then none else some .failedPrecondition
        | none => some .failedPrecondition)
    | none => none
  match expErr with
  | some e => (s.heap, some e)
  | none =>
    match (match o.check with | some f => f oldc | none => none) with
    | some e => (s.heap, some e)
    | none =>
      let h1 := runCb o.before s.heap old src
      let ds := F.merge s.writable o.umask o.rmask (h1 dst) (h1 src)
      let h2 := (h1.set dst ds.1).set src ds.2
      let h3 := runCb o.after h2 old dst
      (h3, none)

/-- allocate a private cell (neither published nor caller-owned) -/
def St.alloc (s : St M Mask) (m : M) : St M Mask :=
  { s with heap := s.heap.set s.next m, next := s.next + 1 }

def lookup (c : List (Nat × Ref)) (id : Nat) : Option Ref := (c.find? (·.1 = id)).map (·.2)

def insertSorted (id : Nat) (r : Ref) : List (Nat × Ref) → List (Nat × Ref)
  | [] => [(id, r)]
  | (k, v) :: rest =>
    if id < k then (id, r) :: (k, v) :: rest
    else if id = k then (id, r) :: rest
    else (k, v) :: insertSorted id r rest

def erase (id : Nat) (c : List (Nat × Ref)) : List (Nat × Ref) := c.filter (·.1 ≠ id)

/-- The end of `Value.Set` / `Collection.Update`: `res` is the outcome of `changeFn`; on success the
new message `dst` is saved (`target = none`: the Value; `some id`: the collection item), returned and
sent to the subscribers. `s0` already contains the private allocations of the call. -/
def commit (F : Funs M Mask) (s0 : St M Mask) (target : Option Nat) (tag : String) (oldEv : Option Ref)
    (dst : Ref) (res : Heap M × Option Err) : St M Mask × Ans :=
  match res.2 with
  | some e => (s0, .fail e)
  | none =>
    let s1 : St M Mask := match target with
      | none => { s0 with heap := res.1, val := some dst, pub := s0.pub ++ [dst] }
      | some id => { s0 with heap := res.1, coll := insertSorted id dst s0.coll, pub := s0.pub ++ [dst] }
    let r := emit F tag oldEv (some dst) s1 (match target with | none => s1.vsubs | some _ => s1.csubs.filter isWide)
    let r2 := emitOnly F (target.getD 0) dst r.1 (match target with | none => [] | some _ => s1.csubs)
    (r2.1, .ok (.msg dst :: (r.2 ++ r2.2)))

/-- `Value.Set(owned[i], opts)` -/
def vset (F : Funs M Mask) (s : St M Mask) (i : Nat) (o : WOpts M Mask) : St M Mask × Ans :=
  match s.owned[i]? with
  | none => (s, .malformed)
  | some src =>
    match F.validate s.writable o.umask (s.heap src) with
    | some e => (s, .fail e)
    | none =>
      -- GetAndUpdate: newValue = proto.Clone(oldValue)   (nil → allocated by changeFn: same cell here)
      let s0 := s.alloc (match s.val with | some r => s.heap r | none => F.zero)
      commit F s0 none "V" none s.next (change F s0 s.val s.next src o)

/-- `Collection.Update(id, owned[i], opts)` (Add = expectAbsent + createIfAbsent) -/
def cupd (F : Funs M Mask) (s : St M Mask) (id : Nat) (i : Nat) (o : WOpts M Mask) : St M Mask × Ans :=
  match s.owned[i]? with
  | none => (s, .malformed)
  | some src =>
    match F.validate s.writable o.umask (s.heap src) with
    | some e => (s, .fail e)
    | none =>
      match lookup s.coll id with
      | some old =>
        if o.expectAbsent then (s, .fail .alreadyExists) else
        let s0 := s.alloc (s.heap old)
        commit F s0 (some id) "U" (some old) s.next (change F s0 (some old) s.next src o)
      | none =>
        if !o.createIfAbsent then (s, .fail .notFound) else
        -- created := msg.New(); it is what interceptors see as `old`; it is never stored or published
        let s0 := (s.alloc F.zero).alloc F.zero
        commit F s0 (some id) "A" none (s.next + 1) (change F s0 (some s.next) (s.next + 1) src o)

/-- Delete's precondition checks on the stored contents: `expectedCheck` then `expectedValue` -/
def delCheck (F : Funs M Mask) (o : WOpts M Mask) (c : M) : Option Err :=
  match (match o.check with | some f => f (some c) | none => none) with
  | some e => some e
  | none =>
    match o.expected with
    | some e => if F.eq c e then none else some Err.failedPrecondition
    | none => none

/-- `Collection.Delete(id, opts)`: returns the stored reference (also when a precondition fails);
the REMOVE event carries it as old value. -/
def cdel (F : Funs M Mask) (s : St M Mask) (id : Nat) (o : WOpts M Mask) : St M Mask × Ans :=
  match lookup s.coll id with
  | none => if o.allowMissing then (s, .ok [.absent]) else (s, .fail .notFound)
  | some old =>
    match delCheck F o (s.heap old) with
    | some e => ({ s with pub := s.pub ++ [old] }, { err := some e, items := [.msg old] })
    | none =>
      let s1 : St M Mask := { s with coll := erase id s.coll, pub := s.pub ++ [old] }
      let r := emit F "R" (some old) none s1 (s1.csubs.filter isWide)
      -- the item's PullID streams end (PullID returns on REMOVE without sending)
      ({ r.1 with csubs := r.1.csubs.map fun sub => if sub.only == some id then { sub with live := false } else sub },
        .ok (.msg old :: r.2))

def closeSub (subs : List (Sub Mask)) (i : Nat) : List (Sub Mask) :=
  subs.mapIdx fun j sub => if j = i then { sub with live := false } else sub

inductive Op (M Mask : Type)
  /-- the caller builds a message -/
  | alloc (m : M)
  /-- the caller overwrites a message it built (possibly one it passed to a write earlier) -/
  | mutate (i : Nat) (m : M)
  | vset (i : Nat) (o : WOpts M Mask)
  | vget (mask : Option Mask)
  | vpull (mask : Option Mask) (updatesOnly : Bool)
  | vclose (i : Nat)
  | cupd (id : Nat) (i : Nat) (o : WOpts M Mask)
  | cdel (id : Nat) (o : WOpts M Mask)
  | cget (id : Nat) (mask : Option Mask)
  | clist (mask : Option Mask)
  | cpull (mask : Option Mask) (updatesOnly : Bool)
  | cpullid (id : Nat) (mask : Option Mask) (updatesOnly : Bool)
  | cclose (i : Nat)

def step (F : Funs M Mask) (s : St M Mask) : Op M Mask → St M Mask × Ans
  | .alloc m => ({ s with heap := s.heap.set s.next m, next := s.next + 1, owned := s.owned ++ [s.next] }, .ok [])
  | .mutate i m =>
    match s.owned[i]? with
    | none => (s, .malformed)
    | some r => ({ s with heap := s.heap.set r m }, .ok [])
  | .vset i o => vset F s i o
  | .vget mask =>
    let (s1, it) := deliver F mask s s.val
    (s1, .ok [it])
  | .vpull mask uo =>
    -- onUpdate reads the current value unless updates-only; the seed goes through the read filter
    let (s1, it) := if uo then (s, Item.absent) else deliver F mask s s.val
    ({ s1 with vsubs := s1.vsubs ++ [{ mask := mask, live := true }] }, .ok [it])
  | .vclose i => ({ s with vsubs := closeSub s.vsubs i }, .ok [])
  -- the id interceptor maps the caller's id first
  | .cupd id i o => cupd F s (s.idmap id) i o
  | .cdel id o => cdel F s (s.idmap id) o
  | .cget id mask =>
    match lookup s.coll (s.idmap id) with
    | none => (s, .ok [.absent])
    | some r => let (s1, it) := deliver F mask s (some r); (s1, .ok [it])
  | .clist mask =>
    let (s1, its) := deliverList F mask s (s.coll.map (·.2))
    (s1, .ok its)
  | .cpull mask uo =>
    let (s1, its) := if uo then (s, []) else deliverList F mask s (s.coll.map (·.2))
    ({ s1 with csubs := s1.csubs ++ [{ mask := mask, live := true }] }, .ok its)
  | .cpullid id mask uo =>
    -- PullID: the seed is the item itself if it exists (unless updates-only)
    let r := if uo then (s, Item.absent) else deliver F mask s (lookup s.coll (s.idmap id))
    ({ r.1 with csubs := r.1.csubs ++ [{ mask := mask, live := true, only := some (s.idmap id) }] }, .ok [r.2])
  | .cclose i => ({ s with csubs := closeSub s.csubs i }, .ok [])

def run (F : Funs M Mask) : St M Mask → List (Op M Mask) → St M Mask
  | s, [] => s
  | s, op :: ops => run F (step F s op).1 ops

/-- The set of caller-owned references an operation may write (its declared write set). -/
def writeSet (s : St M Mask) : Op M Mask → List Ref
  | .mutate i _ | .vset i _ | .cupd _ i _ => (s.owned[i]?).toList
  | _ => []

/-- interceptors of an op respect the contract -/
def Op.Pure : Op M Mask → Prop
  | .vset _ o | .cupd _ _ o | .cdel _ o => o.Pure
  | _ => True

def Op.isRead : Op M Mask → Bool
  | .vget _ | .vpull _ _ | .cget _ _ | .clist _ | .cpull _ _ | .cpullid _ _ _ => true
  | _ => false

/-- `r` is held by the store -/
def Stored (s : St M Mask) (r : Ref) : Prop := s.val = some r ∨ ∃ id, (id, r) ∈ s.coll

/-- the initial state: nothing allocated, optional initial value already published -/
def St.init (writable : Option Mask) (h : Heap M) : St M Mask :=
  { heap := h, next := 0, writable := writable, val := none, coll := [], vsubs := [], csubs := [], pub := [], owned := [] }

end ScVerif.C07
