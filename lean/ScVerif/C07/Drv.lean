import ScVerif.Base.Line
import ScVerif.C07.Flat
import ScVerif.C07.Rim
import ScVerif.C07.EventVals
import ScVerif.C07.Rim3
import ScVerif.C07.Rim4
import ScVerif.C07.Rim5
import ScVerif.C07.Rim6
import ScVerif.C07.Rim7
/-!
Driver handler for C07 (stateful).  One op per line; the answer lists every message that crossed
the boundary in this op by its contents; `audit` prints the current contents of every published
reference (crossing order) and of every caller-owned message.

  init <writable|-> <initial msg|-> <idmap: -|mod2>
  alloc <msg> | mutate <k> <msg>
  vset <k> <umask> <resetmask> <before> <after> <expect|->           vget <rmask>   vpull <rmask> <uo>   vclose <i>
  cupd <id> <k> <umask> <resetmask> <before> <after> <expect|-> <flags>   cdel <id> <expect|-> <flags>
  cget <id> <rmask>   clist <rmask>   cpull <rmask> <uo>   cpullid <id> <rmask> <uo>   cclose <i>
  audit
  ev reset | ev sub <lossy> <mask> | ev subi <mask> / ev subli <mask> (backpressure / lossy subscriber with the include filter `token is even`)
  ev send <ADD|UPDATE|REMOVE|REPLACE> <id> <old|-> <new|->   (values named by their tokens: the new one is stored in a new message cell, the old one looked up)
  ev poll <i>   (the consumer of the lossy Collection subscriber i takes the event its Pull goroutine holds: `#<ref>:<event>` or `-`)
  ev vstore <tok> | ev vsub <lossy> <mask> <current tok|-> | ev vsend <new> | ev vpoll <i>     (initial value / subscribers / writes / lossy consumers of a resource.Value; events print as UPDATE,0,-,<new>[,L]; a subscriber given the current token is owed a seed)
  ev seed <i> <id> <tok> <last>   (Collection subscriber i is owed a seed for item id)
  ev audit      (`seen=<contents of every event seen>|vals=<which message objects they carry, numbered by identity>`)
     (event objects and their values, Events.lean + EventVals.lean: after a send everything runs until it blocks — every backpressure subscriber forwards,
      every lossy one merges in / drops the older pointer and its Pull goroutine pumps; the answer to a send lists, per backpressure subscriber,
      `#<canonical event ref>:<event>` of what its consumer received)

expect = `-` | msg | `chk:<field>:<n>:<FP|IA>` (named WithExpectedCheck); msg = `a,b,c,d`; mask = `-` (nil) | `0` (empty) | letters of `abcd`; callbacks: `-` | `add:<f>` | `set:<f>:<n>`;
flags: letters of `c` (create if absent) `x` (expect absent) `m` (allow missing) or `-`.
-/
namespace ScVerif.C07
open ScVerif.Line

def parseMsg? (s : String) : Option Msg :=
  match (s.splitOn ",").mapM parseInt? with
  | some [a, b, c, d] => some ⟨a, b, c, d⟩
  | _ => none

def showMsg (m : Msg) : String := s!"{m.a},{m.b},{m.c},{m.d}"

def fieldIdx? (c : Char) : Option Nat :=
  if c = 'a' then some 0 else if c = 'b' then some 1 else if c = 'c' then some 2 else if c = 'd' then some 3 else none

def parseMask? (s : String) : Option (Option FMask) :=
  if s = "-" then some none
  else if s = "0" then some (some [])
  else (s.toList.mapM fieldIdx?).map some

def parseOptMsg? (s : String) : Option (Option Msg) :=
  if s = "-" then some none else (parseMsg? s).map some

/-- named interceptors shared with the harness; all of them write only `new` -/
def cbAdd (f : Nat) : Cb Msg := fun h o n =>
  h.set n ((h n).setF f ((h n).get f + (match o with | some r => (h r).get f | none => 0)))

def cbSet (f : Nat) (v : Int) : Cb Msg := fun h _ n => h.set n ((h n).setF f v)

def parseCb? (s : String) : Option (Option (Cb Msg)) :=
  if s = "-" then some none else
  match s.splitOn ":" with
  | ["add", f] => do
    let i ← (f.toList.head?).bind fieldIdx?
    pure (some (cbAdd i))
  | ["set", f, v] => do
    let i ← (f.toList.head?).bind fieldIdx?
    let x ← parseInt? v
    pure (some (cbSet i x))
  | _ => none

/-- named `WithExpectedCheck` callbacks shared with the harness: `chk:<field>:<n>:<FP|IA>` rejects (FailedPrecondition /
InvalidArgument) when field `f` of the old message (all zeros when there is none) equals `n` -/
def cbCheck (f : Nat) (n : Int) (e : Err) : Option Msg → Option Err := fun o =>
  if (match o with | some m => m.get f | none => 0) = n then some e else none

/-- the precondition token: `-`, an expected message `a,b,c,d`, or a named check -/
structure Pre where
  expected : Option Msg := none
  check : Option (Option Msg → Option Err) := none

def parsePre? (s : String) : Option Pre :=
  match s.splitOn ":" with
  | ["chk", f, n, code] => do
    let i ← (f.toList.head?).bind fieldIdx?
    let x ← parseInt? n
    let e ← if code = "FP" then some Err.failedPrecondition else if code = "IA" then some Err.invalidArgument else none
    pure { check := some (cbCheck i x e) }
  | _ => (parseOptMsg? s).map fun e => { expected := e }

def mkOpts (um rm : Option FMask) (b a : Option (Cb Msg)) (e : Pre) (flags : String) : WOpts Msg FMask :=
  { umask := um, rmask := rm, before := b, after := a, expected := e.expected, check := e.check,
    createIfAbsent := flags.toList.contains 'c', expectAbsent := flags.toList.contains 'x',
    allowMissing := flags.toList.contains 'm' }

def parseOp? (toks : List String) : Option (Op Msg FMask) :=
  match toks with
  | ["alloc", m] => do pure (.alloc (← parseMsg? m))
  | ["mutate", k, m] => do pure (.mutate (← parseNat? k) (← parseMsg? m))
  | ["vset", k, um, rm, b, a, e] => do
    pure (.vset (← parseNat? k) (mkOpts (← parseMask? um) (← parseMask? rm) (← parseCb? b) (← parseCb? a) (← parsePre? e) "-"))
  | ["vget", rm] => do pure (.vget (← parseMask? rm))
  | ["vpull", rm, uo] => do pure (.vpull (← parseMask? rm) (← parseBool? uo))
  | ["vclose", i] => do pure (.vclose (← parseNat? i))
  | ["cupd", id, k, um, rm, b, a, e, fl] => do
    pure (.cupd (← parseNat? id) (← parseNat? k) (mkOpts (← parseMask? um) (← parseMask? rm) (← parseCb? b) (← parseCb? a) (← parsePre? e) fl))
  | ["cdel", id, e, fl] => do
    pure (.cdel (← parseNat? id) (mkOpts none none none none (← parsePre? e) fl))
  | ["cget", id, rm] => do pure (.cget (← parseNat? id) (← parseMask? rm))
  | ["clist", rm] => do pure (.clist (← parseMask? rm))
  | ["cpull", rm, uo] => do pure (.cpull (← parseMask? rm) (← parseBool? uo))
  | ["cpullid", id, rm, uo] => do pure (.cpullid (← parseNat? id) (← parseMask? rm) (← parseBool? uo))
  | ["cclose", i] => do pure (.cclose (← parseNat? i))
  | _ => none

def showItem (h : Heap Msg) : Item → String
  | .msg r => showMsg (h r)
  | .absent => "-"
  | .tag s => s

def showAns (h : Heap Msg) (a : Ans) : String :=
  if a.bad then "!bad-op" else
  let head := match a.err with | some e => "err:" ++ e.name | none => "ok"
  "|".intercalate (head :: a.items.map (showItem h))

def showRefs (h : Heap Msg) (rs : List Ref) : String := ";".intercalate (rs.map fun r => showMsg (h r))

/-- named id interceptors shared with the harness: `-` (none) or `mod2` (id ↦ id mod 2) -/
def parseIdMap? (s : String) : Option (Nat → Nat) :=
  if s = "-" then some id else if s = "mod2" then some (· % 2) else none

def initState (w : Option FMask) (iv : Option Msg) (im : Nat → Nat) : St Msg FMask :=
  match iv with
  | none => { St.init w (fun _ => Msg.zero) with idmap := im }
  | some m =>
    -- WithInitialValue stores the given message itself; it counts as published from the start
    { St.init w (fun _ => Msg.zero) with heap := Heap.set (fun _ => Msg.zero) 0 m, next := 1, val := some 0, pub := [0], idmap := im }

abbrev CoreState := St Msg FMask

/-- the driver's state: the core heap model and the event-object model (independent op families) -/
structure DrvState where
  core : CoreState
  ev : Events.DrvEv := {}

def DrvState.start : DrvState := { core := initState none none id }

def handleCore (s : CoreState) (toks : List String) : CoreState × String :=
  match toks with
  | ["init", w, iv, im] =>
    match parseMask? w, parseOptMsg? iv, parseIdMap? im with
    | some w, some iv, some im => (initState w iv im, "ok")
    | _, _, _ => (s, "!bad-op")
  | ["audit"] => (s, "pub=" ++ showRefs s.heap s.pub ++ " own=" ++ showRefs s.heap s.owned)
  | _ =>
    match parseOp? toks with
    | none => (s, "!bad-op")
    | some op =>
      let (s', a) := step flat s op
      (s', showAns s'.heap a)

def handle (s : DrvState) (toks : List String) : DrvState × String :=
  match toks with
  | "rim" :: "active" :: rest => (s, Rim5.handleActive rest)
  | "rim" :: "setactive" :: rest => (s, Rim5.handleSetActive rest)
  | "rim" :: "count" :: rest => (s, Rim6.handleCount rest)
  | "rim" :: "light" :: rest => (s, Rim7.handleLight rest)
  | "rim" :: "light-legacy" :: rest => (s, Rim7.handleLightWith true rest)
  | "rim" :: "create" :: rest => (s, Rim4.handleCreate rest)
  | "rim" :: "hail" :: rest => (s, Rim4.handleHail rest)
  | "rim" :: "incl" :: rest => (s, Rim4.handleIncl rest)
  | "rim" :: "mode" :: rest => (s, Rim3.handleMode rest)
  | "rim" :: "positions" :: rest => (s, Rim3.handlePositions rest)
  | "rim" :: "plant" :: rest => (s, Rim3.handlePlant rest false)
  | "rim" :: "plant-legacy" :: rest => (s, Rim3.handlePlant rest true)
  | "rim" :: rest => (s, handleRim rest)
  | "ev" :: rest => let (e, a) := Events.handleEv s.ev rest; ({ s with ev := e }, a)
  | _ => let (c, a) := handleCore s.core toks; ({ s with core := c }, a)

end ScVerif.C07
