import ScVerif.Base.Line
/-! Driver handler for C07 (stub: replaced by the property's owner). -/
namespace ScVerif.C07

def handle (_toks : List String) : String := "!bad-op"

end ScVerif.C07
