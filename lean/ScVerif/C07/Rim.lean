import ScVerif.C07.Core
namespace ScVerif.C07
def handleRim (_ : List String) : String := "!bad-op"
end ScVerif.C07
