import ScVerif.Base.Line
import ScVerif.C07.Core
/-!
C07 — the three rim models, with Go slice semantics.

A Go slice is `(array, len, cap)` (offset 0 suffices here); backing arrays live in a heap of cells
holding `cap` slots.  `append` writes IN PLACE when `len + n ≤ cap` and allocates a new array
otherwise; `copy` and in-place sort write into the array they are given.  This is enough to express
both the defects (the pre-fix code wrote into the array / messages reachable from the live `old`
message) and the fixed code (clone first: every write lands in a cell allocated by the call).

  * parentpb `traitUnion` / `traitRemove` (pkg/trait/parentpb/model.go)
  * metadatapb `metadataMergeInterceptor` / `mergeTraitMetadata` (pkg/trait/metadatapb/model.go)
  * enterleavesensorpb `PullEnterLeaveEvents` seed edit (pkg/trait/enterleavesensorpb/model.go)
-/
namespace ScVerif.C07.Rim
open ScVerif.C07

/-- array heap: each cell is the content of one backing array (its length is the capacity) -/
structure AH where
  arr : Ref → List String
  next : Ref

structure Slice where
  a : Ref
  len : Nat
  cap : Nat
  deriving DecidableEq, Repr

def AH.set (h : AH) (r : Ref) (xs : List String) : AH := { h with arr := fun x => if x = r then xs else h.arr x }

/-- the elements a slice shows -/
def rd (h : AH) (s : Slice) : List String := (h.arr s.a).take s.len

/-- overwrite positions `i, i+1, …` of a list -/
def writeAt : List String → Nat → List String → List String
  | l, _, [] => l
  | l, i, x :: xs => writeAt (l.set i x) (i + 1) xs

/-- `make([]T, 0, cap)` followed by `append(fresh, xs...)` with `xs.length ≤ cap`: a fresh array -/
def allocWith (h : AH) (xs : List String) (cap : Nat) : AH × Slice :=
  ({ arr := fun x => if x = h.next then xs ++ List.replicate (cap - xs.length) "" else h.arr x, next := h.next + 1 },
    { a := h.next, len := xs.length, cap := max cap xs.length })

/-- `append(s, xs...)` -/
def appendS (h : AH) (s : Slice) (xs : List String) : AH × Slice :=
  if s.len + xs.length ≤ s.cap then
    (h.set s.a (writeAt (h.arr s.a) s.len xs), { s with len := s.len + xs.length })
  else
    allocWith h (rd h s ++ xs) (2 * (s.len + xs.length))

/-- `sort.Search(len(has), has[i].Name >= ts)` on a sorted list -/
def search (l : List String) (t : String) : Nat := (l.takeWhile (· < t)).length

/-- one iteration of traitUnion's loop on the current slice -/
def unionStep (h : AH) (s : Slice) (t : String) : AH × Slice :=
  let cur := rd h s
  let i := search cur t
  if i = s.len then appendS h s [t]
  else if cur[i]? = some t then (h, s)
  else
    -- has = append(has[:i+1], has[i:]...); has[i] = t
    let r := appendS h { s with len := i + 1 } (cur.drop i)
    (r.1.set r.2.a ((r.1.arr r.2.a).set i t), r.2)

def unionLoop (h : AH) (s : Slice) : List String → AH × Slice
  | [] => (h, s)
  | t :: ts => let r := unionStep h s t; unionLoop r.1 r.2 ts

/-- parentpb.traitUnion as it is NOW: clone, then the loop -/
def traitUnion (h : AH) (has : Slice) (more : List String) : AH × Slice :=
  let r := allocWith h (rd h has) (has.len + more.length)
  unionLoop r.1 r.2 more

/-- the pre-fix code: the loop ran on the caller's (stored) slice -/
def traitUnionLegacy (h : AH) (has : Slice) (more : List String) : AH × Slice := unionLoop h has more

/-- one iteration of traitRemove's loop -/
def removeStep (h : AH) (s : Slice) (t : String) : AH × Slice :=
  let cur := rd h s
  let i := search cur t
  if i = s.len ∨ cur[i]? ≠ some t then (h, s)
  else
    -- copy(has[i:], has[i+1:]); has = has[:len-1]
    (h.set s.a (writeAt (h.arr s.a) i (cur.drop (i + 1))), { s with len := s.len - 1 })

def removeLoop (h : AH) (s : Slice) : List String → AH × Slice
  | [] => (h, s)
  | t :: ts => let r := removeStep h s t; removeLoop r.1 r.2 ts

def traitRemove (h : AH) (has : Slice) (remove : List String) : AH × Slice :=
  let r := allocWith h (rd h has) has.len
  removeLoop r.1 r.2 remove

def traitRemoveLegacy (h : AH) (has : Slice) (remove : List String) : AH × Slice := removeLoop h has remove

/-! ### metadata: Traits is a slice of pointers to TraitMetadata messages -/

/-- a TraitMetadata message: name and the `more` map (as an association list) -/
structure TMd where
  name : String
  more : List (String × String)
  deriving DecidableEq, Repr, Inhabited

structure MH where
  /-- message cells -/
  msg : Ref → TMd
  /-- backing arrays of pointer slices -/
  arr : Ref → List Ref
  next : Ref

/-- `proto.Merge(dst, src)` on TraitMetadata: name overwritten when set, map entries merged -/
def mergeTMd (dst src : TMd) : TMd :=
  { name := if src.name = "" then dst.name else src.name,
    more := dst.more.filter (fun kv => !(src.more.any (·.1 = kv.1))) ++ src.more }

/-- `mergeTraitMetadata(tmds, tmd)` on a list of pointers: merge INTO the element with the same name, else append -/
def mergeInto (h : MH) (tmds : List Ref) (tmd : TMd) : MH × List Ref :=
  match tmds.find? (fun r => (h.msg r).name = tmd.name) with
  | some r => ({ h with msg := fun x => if x = r then mergeTMd (h.msg r) tmd else h.msg x }, tmds)
  | none =>
    -- the new element is (a clone of) the caller's message: a fresh cell
    ({ h with msg := fun x => if x = h.next then tmd else h.msg x, next := h.next + 1 }, tmds ++ [h.next])

def mergeAll (h : MH) (tmds : List Ref) : List TMd → MH × List Ref
  | [] => (h, tmds)
  | t :: ts => let r := mergeInto h tmds t; mergeAll r.1 r.2 ts

/-- deep copy of the old Traits: one fresh cell per element -/
def cloneAll (h : MH) : List Ref → MH × List Ref
  | [] => (h, [])
  | r :: rs =>
    let h1 : MH := { h with msg := fun x => if x = h.next then h.msg r else h.msg x, next := h.next + 1 }
    let rest := cloneAll h1 rs
    (rest.1, h.next :: rest.2)

/-- `sort.Slice(newVal.Traits, by Name)`: reorders the (fresh) pointer slice, writes no message -/
def insertByName (h : MH) (r : Ref) : List Ref → List Ref
  | [] => [r]
  | x :: xs => if (h.msg r).name < (h.msg x).name then r :: x :: xs else x :: insertByName h r xs

def sortByName (h : MH) (rs : List Ref) : List Ref := rs.foldl (fun acc r => insertByName h r acc) []

/-- the traits part of `metadataMergeInterceptor` as it is NOW: clone old.Traits, merge the update's traits, sort -/
def mergeTraits (h : MH) (oldTraits : List Ref) (upd : List TMd) : MH × List Ref :=
  let c := cloneAll h oldTraits
  let r := mergeAll c.1 c.2 upd
  (r.1, sortByName r.1 r.2)

/-- the pre-fix code merged into old.Traits' elements themselves -/
def mergeTraitsLegacy (h : MH) (oldTraits : List Ref) (upd : List TMd) : MH × List Ref :=
  let r := mergeAll h oldTraits upd
  (r.1, sortByName r.1 r.2)

/-! ### enter/leave: the seed edit -/

/-- an EnterLeaveEvent reduced to what the edit touches -/
structure ELE where
  direction : Nat
  occupant : Option String
  enterTotal : Nat
  deriving DecidableEq, Repr, Inhabited

/-- `PullEnterLeaveEvents` on the seed as it is NOW: clone, then clear occupant and direction.
Returns the heap and the reference sent to the subscriber. -/
def seedEdit (h : Heap ELE) (next : Ref) (seed : Ref) : Heap ELE × Ref :=
  (h.set next { h seed with direction := 0, occupant := none }, next)

/-- the pre-fix code edited the seed it was handed (with a nil read mask: the stored message) -/
def seedEditLegacy (h : Heap ELE) (_next : Ref) (seed : Ref) : Heap ELE × Ref :=
  (h.set seed { h seed with direction := 0, occupant := none }, seed)

/-- a read mask over the three fields the model keeps -/
structure EMask where
  d : Bool
  o : Bool
  t : Bool
  deriving DecidableEq, Repr

/-- `ResponseFilter` with that mask, applied to a clone -/
def projELE (m : EMask) (e : ELE) : ELE :=
  { direction := if m.d then e.direction else 0, occupant := if m.o then e.occupant else none,
    enterTotal := if m.t then e.enterTotal else 0 }

/-- the seed `resource.Value.Pull` hands the adapter, whatever other read options were given (backpressure, updates-only
false, …): WITHOUT a read mask the stored message itself, with one a filtered clone (a new cell).
Returns the heap, the allocation pointer and the seed's reference. -/
def pullSeedRef (mask : Option EMask) (h : Heap ELE) (next stored : Ref) : Heap ELE × Ref × Ref :=
  match mask with
  | none => (h, next, stored)
  | some m => (h.set next (projELE m (h stored)), next + 1, next)

/-- `Model.PullEnterLeaveEvents(ctx, opts...)` up to the first message sent: the resource's seed, then the adapter's edit -/
def pullFirst (mask : Option EMask) (h : Heap ELE) (next stored : Ref) : Heap ELE × Ref :=
  let s := pullSeedRef mask h next stored
  seedEdit s.1 s.2.1 s.2.2

/-- the seeded shape (C07-11): the adapter clones "only without read options" — `len(opts) == 0` standing in for "no read
mask was given" -/
def pullFirstIfNoOpts (noOpts : Bool) (mask : Option EMask) (h : Heap ELE) (next stored : Ref) : Heap ELE × Ref :=
  let s := pullSeedRef mask h next stored
  if noOpts then seedEdit s.1 s.2.1 s.2.2 else seedEditLegacy s.1 s.2.1 s.2.2

/-! ### driver ops (K2 tie of traitUnion / traitRemove with the real functions) -/

def parseNames (s : String) : List String := if s = "-" then [] else s.splitOn ","

def showNames (l : List String) : String := if l.isEmpty then "-" else ",".intercalate l

/-- trait metadata list: `-` (empty) or `name:k=v,k=v;name:…`, an empty name written `~`, an empty map `.` -/
def parseTMd (s : String) : TMd :=
  match s.splitOn ":" with
  | [n, m] =>
    { name := if n = "~" then "" else n,
      more := if m = "." then [] else (m.splitOn ",").filterMap fun kv =>
        match kv.splitOn "=" with
        | [k, v] => some (k, v)
        | _ => none }
  | _ => { name := s, more := [] }

def parseTMds (s : String) : List TMd := if s = "-" then [] else (s.splitOn ";").map parseTMd

def insertKV (kv : String × String) : List (String × String) → List (String × String)
  | [] => [kv]
  | x :: xs => if kv.1 < x.1 then kv :: x :: xs else x :: insertKV kv xs

def showTMd (t : TMd) : String :=
  let kvs := t.more.foldl (fun acc kv => insertKV kv acc) []
  (if t.name = "" then "~" else t.name) ++ ":" ++
    (if kvs.isEmpty then "." else ",".intercalate (kvs.map fun kv => kv.1 ++ "=" ++ kv.2))

def showTMds (l : List TMd) : String := if l.isEmpty then "-" else ";".intercalate (l.map showTMd)

/-- `rim merge <stored traits> <update traits>` → `result traits|stored traits afterwards` -/
def handleMerge (old upd : String) (legacy : Bool) : String :=
  let olds := parseTMds old
  -- the stored trait messages occupy cells 0 … n-1
  let h0 : MH := { msg := fun r => olds.getD r default, arr := fun _ => [], next := olds.length }
  let refs := List.range olds.length
  let r := if legacy then mergeTraitsLegacy h0 refs (parseTMds upd) else mergeTraits h0 refs (parseTMds upd)
  showTMds (r.2.map r.1.msg) ++ "|" ++ showTMds (refs.map r.1.msg)

/-- `rim seed <direction> <occupant|-> <enter total>` → `sent|stored afterwards` -/
def handleSeed (d o t : String) (legacy : Bool) : String :=
  match d.toNat?, t.toNat? with
  | some d, some t =>
    let ev : ELE := { direction := d, occupant := if o = "-" then none else some o, enterTotal := t }
    let h0 : Heap ELE := fun _ => ev
    let r := if legacy then seedEditLegacy h0 1 0 else seedEdit h0 1 0
    let sh := fun (e : ELE) => s!"{e.direction},{e.occupant.getD "-"},{e.enterTotal}"
    sh (r.1 r.2) ++ "|" ++ sh (r.1 0)
  | _, _ => "!bad-op"

/-- `rim seedp <direction> <occupant|-> <enter total> <mask>` → `sent|stored afterwards`; mask = `-` (none), `0` (empty) or
letters of `dot` (direction, occupant, enter_total) -/
def handleSeedP (d o t mask : String) : String :=
  match d.toNat?, t.toNat? with
  | some d, some t =>
    let ev : ELE := { direction := d, occupant := if o = "-" then none else some o, enterTotal := t }
    let h0 : Heap ELE := fun _ => ev
    let m : Option EMask := if mask = "-" then none else
      some { d := mask.contains 'd', o := mask.contains 'o', t := mask.contains 't' }
    let r := pullFirst m h0 1 0
    let sh := fun (e : ELE) => s!"{e.direction},{e.occupant.getD "-"},{e.enterTotal}"
    sh (r.1 r.2) ++ "|" ++ sh (r.1 0)
  | _, _ => "!bad-op"

/-- `rim union|remove <has names> <extra capacity> <names>`: answers `result|array-of-has-after`
where the second part is the caller's backing array seen through its full capacity (nil slots `_`). -/
def handleRim (toks : List String) : String :=
  match toks with
  | ["merge", old, upd] => handleMerge old upd false
  | ["merge-legacy", old, upd] => handleMerge old upd true
  | ["seed", d, o, t] => handleSeed d o t false
  | ["seed-legacy", d, o, t] => handleSeed d o t true
  | ["seedp", d, o, t, mask] => handleSeedP d o t mask
  | [op, has, extra, names] =>
    match extra.toNat? with
    | none => "!bad-op"
    | some e =>
      let hs := parseNames has
      let h0 : AH := { arr := fun _ => [], next := 0 }
      let (h1, s) := allocWith h0 hs (hs.length + e)
      let run := if op = "union" then some (traitUnion h1 s (parseNames names))
        else if op = "remove" then some (traitRemove h1 s (parseNames names))
        else if op = "union-legacy" then some (traitUnionLegacy h1 s (parseNames names))
        else if op = "remove-legacy" then some (traitRemoveLegacy h1 s (parseNames names))
        else none
      match run with
      | none => "!bad-op"
      | some (h2, r) =>
        showNames (rd h2 r) ++ "|" ++ ",".intercalate ((h2.arr s.a).map fun x => if x = "" then "_" else x)
  | _ => "!bad-op"

end ScVerif.C07.Rim

namespace ScVerif.C07
def handleRim := Rim.handleRim
end ScVerif.C07
