import ScVerif.C07.CoreStep
import ScVerif.C07.Flat
/-!
# C07 — messages are isolated (core resources)

Property theorems for `resource.Value` / `resource.Collection` (the heap model of Core.lean, tied to
the code by the harness after every operation).  All of them hold for EVERY message algebra `F`
(`merge`, `validate`, `project`, `eq` arbitrary), every operation sequence, every read mask / update
mask / option combination and every interceptor that keeps the documented contract `OldPure`
(writes nothing but its `new` argument).  `Inv` is the reachability invariant; it holds initially
(`Inv.init`) and `C07_inv_run` shows every run keeps it.
-/
namespace ScVerif.C07

variable {M Mask : Type}

/-- every run from a state satisfying the invariant satisfies it -/
theorem C07_inv_run (F : Funs M Mask) (ops : List (Op M Mask)) :
    ∀ s : St M Mask, Inv s → (∀ op, op ∈ ops → op.Pure) → Inv (run F s ops) := by
  induction ops with
  | nil => intro s hi _; exact hi
  | cons op ops ih =>
    intro s hi hp
    exact ih _ (step_published F s op hi (hp op (List.mem_cons_self))).1 (fun o ho => hp o (List.mem_cons_of_mem _ ho))

/-- **C07_published_immutable.** A reference published at step `i` (a write result, a read result,
a Pull seed, an event's new or old value, or a stored message) has the same heap contents after any
number of further operations — writes, reads, subscriptions, caller edits of its own messages. -/
theorem C07_published_immutable (F : Funs M Mask) (s0 : St M Mask) (hi : Inv s0)
    (before after : List (Op M Mask)) (hp : ∀ op, op ∈ before ++ after → op.Pure) :
    ∀ r, r ∈ (run F s0 before).pub →
      (run F s0 (before ++ after)).heap r = (run F s0 before).heap r := by
  intro r hr
  rw [run_append]
  have hi1 := C07_inv_run F before s0 hi (fun o ho => hp o (List.mem_append.mpr (Or.inl ho)))
  exact (run_published F after _ hi1 (fun o ho => hp o (List.mem_append.mpr (Or.inr ho))) r hr).1

/-- **C07_results_published.** The ghost list is not vacuous: every message an operation answers
with (result, list element, seed, event old/new value) is in the published list afterwards, and the
store only ever holds published references. -/
theorem C07_results_published (F : Funs M Mask) (s : St M Mask) (op : Op M Mask) (hi : Inv s) (hp : op.Pure) :
    (∀ x, Item.msg x ∈ (step F s op).2.items → x ∈ (step F s op).1.pub) ∧
    (∀ r, Stored (step F s op).1 r → r ∈ (step F s op).1.pub) :=
  ⟨fun x h => step_items F s op x h, (step_published F s op hi hp).1.stored_pub⟩

/-- **C07_reads_frame.** Get / List / Pull (with its seed) leave the store exactly as it was and
write to no allocated cell at all (they only allocate filtered clones). -/
theorem C07_reads_frame (F : Funs M Mask) (s : St M Mask) (op : Op M Mask) (hr : op.isRead = true) :
    (step F s op).1.val = s.val ∧ (step F s op).1.coll = s.coll ∧
    ∀ r, r < s.next → (step F s op).1.heap r = s.heap r := by
  have hpure : op.Pure := by cases op <;> simp [Op.isRead] at hr <;> exact True.intro
  have hna : ∀ m, op ≠ .alloc m := by intro m h; subst h; simp [Op.isRead] at hr
  obtain ⟨P, e, _⟩ := step_good F s op hpure hna
  have hw : writeSet s op = [] := by cases op <;> simp [Op.isRead] at hr <;> rfl
  have hst := read_store F s op hr
  exact ⟨hst.1, hst.2, fun r hlt => e.frame r hlt (by rw [hw]; simp)⟩

/-- **C07_caller_may_mutate.** After any history, the caller overwriting a message it built — in
particular one it handed to an earlier Set/Update/Add — changes no published message, hence (the
store holds only published references) no stored message, and not the store's shape. -/
theorem C07_caller_may_mutate (F : Funs M Mask) (s0 : St M Mask) (hi : Inv s0) (ops : List (Op M Mask))
    (hp : ∀ op, op ∈ ops → op.Pure) (i : Nat) (m : M) :
    let s := run F s0 ops
    let s' := (step F s (.mutate i m)).1
    s'.val = s.val ∧ s'.coll = s.coll ∧ (∀ r, r ∈ s.pub → s'.heap r = s.heap r) ∧
      (∀ r, Stored s r → s'.heap r = s.heap r) := by
  intro s s'
  have his : Inv s := C07_inv_run F ops s0 hi hp
  have h := (step_published F s (.mutate i m) his True.intro).2
  refine ⟨?_, ?_, fun r hr => (h r hr).1, fun r hr => (h r (his.stored_pub r hr)).1⟩
  · simp only [s', step]; split <;> rfl
  · simp only [s', step]; split <;> rfl

/-- **C07_write_set.** What a write may touch below the allocation pointer is exactly the caller's
own message it was given (the code filters it in place): every other allocated cell is unchanged. -/
theorem C07_write_set (F : Funs M Mask) (s : St M Mask) (op : Op M Mask) (hp : op.Pure) (hna : ∀ m, op ≠ .alloc m) :
    ∀ r, r < s.next → r ∉ writeSet s op → (step F s op).1.heap r = s.heap r := by
  obtain ⟨P, e, _⟩ := step_good F s op hp hna
  exact e.frame

/-! ### Non-vacuity: the hypotheses are inhabited and the conclusions talk about real outputs -/

/-- the initial state of every run satisfies the invariant -/
example (w : Option FMask) (h : Heap Msg) : Inv (St.init w h) := Inv.init w h

/-- an interceptor that writes into `old` (what the three rim models did) does NOT keep the contract -/
example : ¬ OldPure (fun (h : Heap Msg) (o : Option Ref) (_ : Ref) =>
    match o with | some r => h.set r Msg.zero | none => h) := by
  intro hp
  have := hp (fun _ => ⟨1, 1, 1, 1⟩) (some 0) 1 0 (by decide)
  simp [Heap.set, Msg.zero] at this

/-- a concrete run publishes something and stores it: Set then unmasked Get return the same reference -/
example :
    let s := run flat (St.init none (fun _ => Msg.zero))
      [.alloc ⟨1, 2, 3, 1⟩, .vset 0 {}, .vget none]
    s.pub = [1, 1] ∧ s.val = some 1 ∧ s.heap 1 = ⟨1, 2, 3, 1⟩ := by decide

end ScVerif.C07
