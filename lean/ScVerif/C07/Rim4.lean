import ScVerif.Base.Line
/-!
C07 — rim models of round 6: code OUTSIDE the anchor files that sits between callers and the store.

  * electricpb `Model.createOrAddMode` (pkg/trait/electricpb/model.go): clones the caller's mode, lets the
    `WithIDCallback` callback write the generated id into the CLONE, hands the clone to `modes.Add`; the record the
    collection creates is announced (`bus.Send`) while the writer is still inside `Add`. The model has the moment
    of the announcement as a heap of its own (`atSend`) so that "what a subscriber was handed while the write was in
    flight" can be compared with the heap at the end of the call;
  * hailpb `Model.gc` / `ListHails` / `CreateHail` (pkg/trait/hailpb/model.go): the rate limited collector
    (`gcTicket`), run by `CreateHail` only;
  * bookingpb `ModelServer.ListBookings` (`resource.WithInclude` around `timepb.PeriodsIntersect`, pkg/time/cut.go
    `cutPeriod`): an include predicate is handed the LIVE stored message; predicates are modelled as heap
    transformers so that "the predicate writes its argument" is expressible.

References are natural numbers, `next` is the allocation pointer (as in Rim.lean / Rim3.lean).
-/
namespace ScVerif.C07.Rim4

/-! ### electricpb createOrAddMode -/

/-- an `ElectricMode` as far as the code looks at it: the id, the `normal` flag, everything else -/
structure Mode (B : Type) where
  id : String
  normal : Bool
  body : B

structure MH (B : Type) where
  cells : Nat → Mode B
  next : Nat

def MH.alloc {B : Type} (h : MH B) (m : Mode B) : MH B × Nat :=
  ({ cells := fun x => if x = h.next then m else h.cells x, next := h.next + 1 }, h.next)

def MH.setId {B : Type} (h : MH B) (r : Nat) (id : String) : MH B :=
  { h with cells := fun x => if x = r then { h.cells r with id := id } else h.cells x }

/-- the modes collection: key ↦ reference of the stored record -/
abbrev Store := List (String × Nat)

def hasKey (s : Store) (k : String) : Bool := s.any (fun kr => kr.1 = k)

structure CreateRes (B : Type) where
  /-- the heap at the moment the ADD event is handed to the subscribers (the writer is inside `bus.Send`) -/
  atSend : MH B
  /-- the heap when the call returns -/
  heap : MH B
  store : Store
  /-- the returned mode = the stored record = `NewValue` of the ADD event (`none`: the call failed, nothing was announced) -/
  record : Option Nat

/-- `createOrAddMode(mode)` as it is now. `gen` is the id the collection's generator comes up with (not a key of
the store: `Collection.genID` retries until that holds); `normalTaken` = "there is another normal mode". -/
def createMode {B : Type} (h : MH B) (store : Store) (src : Nat) (gen : String) (normalTaken : Bool) : CreateRes B :=
  -- mode = proto.Clone(mode)
  let (h1, c) := h.alloc (h.cells src)
  if (h1.cells c).normal && normalTaken then
    { atSend := h1, heap := h1, store := store, record := none }
  else
    -- modes.Add(mode.Id, mode, WithGenIDIfAbsent(), WithIDCallback(func(id) { mode.Id = id }))
    let generated := (h1.cells c).id = ""
    let key := if generated then gen else (h1.cells c).id
    let h2 := if generated then h1.setId c key else h1 -- the callback writes the clone
    if hasKey store key then
      { atSend := h2, heap := h2, store := store, record := none } -- AlreadyExists
    else
      -- the record is built by merging the clone into an empty message; saved; announced; returned
      let (h3, r) := h2.alloc (h2.cells c)
      { atSend := h3, heap := h3, store := store ++ [(key, r)], record := some r }

/-- the seeded shape (C07-13): no clone, the callback only remembers the id, the caller's message goes to `Add` as
it is, and the id is written onto the message `Add` returned — after it has been saved and announced -/
def createModeLate {B : Type} (h : MH B) (store : Store) (src : Nat) (gen : String) (normalTaken : Bool) : CreateRes B :=
  if (h.cells src).normal && normalTaken then
    { atSend := h, heap := h, store := store, record := none }
  else
    let generated := (h.cells src).id = ""
    let key := if generated then gen else (h.cells src).id
    if hasKey store key then
      { atSend := h, heap := h, store := store, record := none }
    else
      let (h1, r) := h.alloc (h.cells src)
      let h2 := if generated then h1.setId r key else h1 -- created.Id = allocatedID
      { atSend := h1, heap := h2, store := store ++ [(key, r)], record := some r }

theorem alloc_other {B : Type} (h : MH B) (m : Mode B) (x : Nat) (hx : x < h.next) : (h.alloc m).1.cells x = h.cells x := by
  simp [MH.alloc, Nat.ne_of_lt hx]

theorem setId_other {B : Type} (h : MH B) (r : Nat) (id : String) (x : Nat) (hx : x ≠ r) : (h.setId r id).cells x = h.cells x := by
  simp [MH.setId, hx]

/-! ### hailpb: the collector -/

/-- a `Hail` as far as the collector looks at it -/
structure Hail (B : Type) where
  id : String
  /-- `arrive_time` (any totally ordered time scale; `none`: has not arrived) -/
  arrive : Option Int
  body : B

structure HS (B : Type) where
  cells : Nat → Hail B
  next : Nat
  /-- the hails collection: key ↦ reference (a key need not equal the record's own `id`: `WithInitialRecord`) -/
  store : List (String × Nat)
  /-- `gcTicket` holds an item -/
  ticket : Bool

/-- `arrivedBefore(hail, t)` -/
def arrivedBefore {B : Type} (hl : Hail B) (t : Int) : Bool :=
  match hl.arrive with
  | none => false
  | some a => decide (a < t)

/-- `hails.Delete(hail.Id, WithAllowMissing(true), WithExpectedValue(hail))`: removes the record stored under the
hail's OWN id if its value equals the hail (`eqv` = proto.Equal on the bodies); a missing record or another value
is not an error the collector looks at -/
def deleteExpected {B : Type} (eqv : B → B → Bool) (cells : Nat → Hail B) (store : List (String × Nat)) (hl : Hail B) : List (String × Nat) :=
  store.filter (fun kr => !(kr.1 = hl.id && ((cells kr.2).id = hl.id && (cells kr.2).arrive = hl.arrive && eqv (cells kr.2).body hl.body)))

/-- the loop of `gc` over the snapshot `hails.List()` -/
def gcLoop {B : Type} (eqv : B → B → Bool) (cells : Nat → Hail B) (t : Int) : List (String × Nat) → List (String × Nat) → List (String × Nat)
  | [], store => store
  | (_, r) :: rest, store =>
    if arrivedBefore (cells r) t then gcLoop eqv cells t rest (deleteExpected eqv cells store (cells r))
    else gcLoop eqv cells t rest store

/-- `(*Model).gc()`; the ticket comes back by a timer (`tick`) -/
def gc {B : Type} (eqv : B → B → Bool) (keepAlive now : Int) (st : HS B) : HS B :=
  if keepAlive < 0 then st
  else if !st.ticket then st
  else { st with ticket := false, store := gcLoop eqv st.cells (now - keepAlive) st.store st.store }

def tick {B : Type} (st : HS B) : HS B := { st with ticket := true }

inductive HOp (B : Type) where
  /-- `CreateHail(hail)` with the id the generator comes up with -/
  | create (hl : Hail B) (gen : String)
  | get (id : String)
  | list
  /-- opening `PullHails` / `PullHail` (the seed is a list / a get) -/
  | pull
  | delete (id : String)
  /-- the timer hands the ticket back -/
  | tick

def HOp.isRead {B : Type} : HOp B → Bool
  | .get _ | .list | .pull => true
  | _ => false

/-- one public call of the model as it is now; the answer is the list of references handed out -/
def hstep {B : Type} (eqv : B → B → Bool) (keepAlive now : Int) (st : HS B) : HOp B → HS B × List Nat
  | .create hl gen =>
    -- Add("", hail, WithGenIDIfAbsent, WithIDCallback(hail.Id = id)); defer gc()
    if st.store.any (fun kr => kr.1 = gen) then (gc eqv keepAlive now st, [])
    else
      let st1 : HS B := { st with cells := fun x => if x = st.next then { hl with id := gen } else st.cells x, next := st.next + 1,
                                  store := st.store ++ [(gen, st.next)] }
      (gc eqv keepAlive now st1, [st.next])
  | .get id => (st, (st.store.filter (fun kr => kr.1 = id)).map (·.2))
  | .list => (st, st.store.map (·.2))
  | .pull => (st, st.store.map (·.2))
  | .delete id => ({ st with store := st.store.filter (fun kr => kr.1 ≠ id) }, [])
  | .tick => (tick st, [])

/-- the seeded shape (C07-15): `ListHails` runs the collector first -/
def listCollecting {B : Type} (eqv : B → B → Bool) (keepAlive now : Int) (st : HS B) : HS B × List Nat :=
  let st1 := gc eqv keepAlive now st
  (st1, st1.store.map (·.2))

theorem deleteExpected_sublist {B : Type} (eqv : B → B → Bool) (cells : Nat → Hail B) (store : List (String × Nat)) (hl : Hail B) :
    (deleteExpected eqv cells store hl).Sublist store := List.filter_sublist

theorem gcLoop_sublist {B : Type} (eqv : B → B → Bool) (cells : Nat → Hail B) (t : Int) :
    ∀ (snap store : List (String × Nat)), (gcLoop eqv cells t snap store).Sublist store
  | [], store => List.Sublist.refl _
  | (_, r) :: rest, store => by
    simp only [gcLoop]
    split
    · exact (gcLoop_sublist eqv cells t rest _).trans (deleteExpected_sublist eqv cells store _)
    · exact gcLoop_sublist eqv cells t rest store

/-- a record that the loop removes equals (id, arrive time, body up to `eqv`) a record of the snapshot that had
arrived before `t` -/
theorem gcLoop_removed {B : Type} (eqv : B → B → Bool) (cells : Nat → Hail B) (t : Int) :
    ∀ (snap store : List (String × Nat)) (kr : String × Nat), kr ∈ store → kr ∉ gcLoop eqv cells t snap store →
      ∃ q, q ∈ snap ∧ arrivedBefore (cells q.2) t = true ∧ kr.1 = (cells q.2).id ∧ (cells kr.2).id = (cells q.2).id ∧
        (cells kr.2).arrive = (cells q.2).arrive
  | [], store, kr, hin, hout => absurd hin hout
  | (k, r) :: rest, store, kr, hin, hout => by
    simp only [gcLoop] at hout
    split at hout
    · rename_i hexp
      by_cases hd : kr ∈ deleteExpected eqv cells store (cells r)
      · obtain ⟨q, hq, h1, h2, h3, h4⟩ := gcLoop_removed eqv cells t rest _ kr hd hout
        exact ⟨q, List.mem_cons_of_mem _ hq, h1, h2, h3, h4⟩
      · refine ⟨(k, r), List.mem_cons_self, hexp, ?_⟩
        simp only [deleteExpected, List.mem_filter, hin, true_and, Bool.not_eq_true', Bool.not_eq_false,
          Bool.and_eq_true, decide_eq_true_eq] at hd
        exact ⟨hd.1, hd.2.1.1, hd.2.1.2⟩
    · obtain ⟨q, hq, h1, h2, h3, h4⟩ := gcLoop_removed eqv cells t rest store kr hin hout
      exact ⟨q, List.mem_cons_of_mem _ hq, h1, h2, h3, h4⟩

/-! ### include predicates are handed the live stored message (bookingpb × pkg/time) -/

/-- a `Period`: `start_time`, `end_time` -/
structure Period where
  s : Option Int
  e : Option Int
deriving DecidableEq

inductive Cut where
  | belowAll
  | below (t : Int)
  | aboveAll
deriving DecidableEq

/-- `this.CompareTo(that)` for the three kinds of cut `cutPeriod` produces -/
def Cut.cmp : Cut → Cut → Int
  | .belowAll, .belowAll => 0
  | .belowAll, _ => -1
  | .aboveAll, .aboveAll => 0
  | .aboveAll, _ => 1
  | .below _, .belowAll => 1
  | .below _, .aboveAll => -1
  | .below a, .below b => if a < b then -1 else if b < a then 1 else 0

structure PHp where
  per : Nat → Period
  next : Nat

/-- `cutPeriod(p)`: reads the period, returns the two cuts (a heap transformer that returns the heap it was given) -/
def cutPeriod (h : PHp) (p : Nat) : PHp × Cut × Cut :=
  match (h.per p).s, (h.per p).e with
  | none, none => (h, .belowAll, .aboveAll)
  | none, some e => (h, .belowAll, .below e)
  | some s, none => (h, .below s, .aboveAll)
  | some s, some e => (h, .below s, .below e)

/-- the seeded shape (C07-14): a backwards period is put in order ON THE ARGUMENT -/
def cutPeriodSwap (h : PHp) (p : Nat) : PHp × Cut × Cut :=
  match (h.per p).s, (h.per p).e with
  | none, none => (h, .belowAll, .aboveAll)
  | none, some e => (h, .belowAll, .below e)
  | some s, none => (h, .below s, .aboveAll)
  | some s, some e =>
    if e < s then ({ h with per := fun x => if x = p then ⟨some e, some s⟩ else h.per x }, .below e, .below s)
    else (h, .below s, .below e)

/-- `PeriodsIntersect(p1, p2)` over a `cutPeriod` implementation; `none` = nil pointer -/
def periodsIntersect (cut : PHp → Nat → PHp × Cut × Cut) (h : PHp) (p1 p2 : Option Nat) : PHp × Bool :=
  match p1, p2 with
  | some a, some b =>
    let (h1, l1, u1) := cut h a
    let (h2, l2, u2) := cut h1 b
    (h2, decide (l1.cmp u2 < 0) && decide (l2.cmp u1 < 0))
  | _, _ => (h, false)

/-- a stored item: the reference of its `booked` period, if it has one -/
abbrev Item := Option Nat

/-- `Collection.List(WithInclude(pred))`: the predicate is called with every stored item — the stored message, not a
copy — in order; the answer lists the items it accepted -/
def listInclude (pred : PHp → Item → PHp × Bool) : PHp → List Item → PHp × List Item
  | h, [] => (h, [])
  | h, it :: rest =>
    let (h1, keep) := pred h it
    let (h2, out) := listInclude pred h1 rest
    (h2, if keep then it :: out else out)

/-- bookingpb's predicate: `timepb.PeriodsIntersect(item.Booked, request.BookingIntersects)` -/
def bookingPred (cut : PHp → Nat → PHp × Cut × Cut) (req : Nat) : PHp → Item → PHp × Bool :=
  fun h it => periodsIntersect cut h it (some req)

theorem cutPeriod_heap (h : PHp) (p : Nat) : (cutPeriod h p).1 = h := by
  simp only [cutPeriod]; split <;> rfl

theorem periodsIntersect_heap (h : PHp) (p1 p2 : Option Nat) : (periodsIntersect cutPeriod h p1 p2).1 = h := by
  cases p1 with
  | none => rfl
  | some a =>
    cases p2 with
    | none => rfl
    | some b =>
      have ha := cutPeriod_heap h a
      have hb := cutPeriod_heap (cutPeriod h a).1 b
      simp only [periodsIntersect]
      rw [hb, ha]

theorem listInclude_heap (pred : PHp → Item → PHp × Bool) (hp : ∀ h it, (pred h it).1 = h) :
    ∀ (h : PHp) (items : List Item), (listInclude pred h items).1 = h
  | h, [] => rfl
  | h, it :: rest => by
    simp only [listInclude]
    rw [listInclude_heap pred hp (pred h it).1 rest, hp]

/-! ### Driver -/

def parseOptInt? (s : String) : Option (Option Int) :=
  if s = "-" then some none else (ScVerif.Line.parseInt? s).map some

/-- `key:id:arrive:body` -/
def parseRec? (s : String) : Option (String × Hail String) :=
  match s.splitOn ":" with
  | [k, id, a, b] => (parseOptInt? a).map fun a => (k, ⟨id, a, b⟩)
  | _ => none

def sortedKeys (store : List (String × Nat)) : String :=
  ".".intercalate ((store.map (·.1)).mergeSort (fun a b => decide (a ≤ b)))

def rest1 (s : String) : String := String.ofList (s.toList.drop 1)

/-- ops: `l` ListHails, `p` open a Pull, `g<key>` GetHail, `d<key>` DeleteHail, `c<arrive>:<body>` CreateHail (the
n-th create is given the id `g<n>`) -/
def runHailOps (keepAlive now : Int) : HS String → Nat → List String → Option (List String)
  | _, _, [] => some []
  | st, n, op :: rest =>
    let next (st' : HS String) (n' : Nat) : Option (List String) :=
      (runHailOps keepAlive now st' n' rest).map fun out => sortedKeys st'.store :: out
    if op = "l" then next (hstep (fun a b => a == b) keepAlive now st .list).1 n
    else if op = "p" then next (hstep (fun a b => a == b) keepAlive now st .pull).1 n
    else if op.startsWith "g" then next (hstep (fun a b => a == b) keepAlive now st (.get (rest1 op))).1 n
    else if op.startsWith "d" then next (hstep (fun a b => a == b) keepAlive now st (.delete (rest1 op))).1 n
    else if op.startsWith "c" then
      match (rest1 op).splitOn ":" with
      | [a, b] =>
        match parseOptInt? a with
        | some a => next (hstep (fun x y => x == y) keepAlive now st (.create ⟨"", a, b⟩ s!"g{n + 1}")).1 (n + 1)
        | none => none
      | _ => none
    else none

/-- `rim hail <keepAlive> <now> <rec;rec|-> <op,op>` → the keys of the collection after every op, `|`-separated.
The model is as `NewModel` builds it: the initial records stored as given, the ticket primed. -/
def handleHail (toks : List String) : String :=
  match toks with
  | [ka, now, recs, ops] =>
    match ScVerif.Line.parseInt? ka, ScVerif.Line.parseInt? now,
      (if recs = "-" then some [] else (recs.splitOn ";").mapM parseRec?) with
    | some ka, some now, some recs =>
      let cells : Nat → Hail String := fun x => (recs.getD x ("", ⟨"", none, ""⟩)).2
      let st : HS String := { cells := cells, next := recs.length,
                              store := (List.range recs.length).map (fun i => ((recs.getD i ("", ⟨"", none, ""⟩)).1, i)), ticket := true }
      match runHailOps ka now st 0 (ops.splitOn ",") with
      | some out => "|".intercalate out
      | none => "!bad-op"
    | _, _, _ => "!bad-op"
  | _ => "!bad-op"

/-- `rim create <key,key|-> <src id, - = empty> <normal 0|1> <normalTaken 0|1>`: cell 0 is the caller's mode, cells 1.. the
stored records; the generator comes up with `G`.
→ `out=<ok|none>|send=<id of the record when announced>|final=<its id when the call returns>|src=<the caller's id afterwards>|keys=<k.k>` -/
def handleCreate (toks : List String) : String :=
  match toks with
  | [keys, sid, nrm, tk] =>
    match ScVerif.Line.parseBool? nrm, ScVerif.Line.parseBool? tk with
    | some nrm, some tk =>
      let ks : List String := if keys = "-" then [] else keys.splitOn ","
      let sid := if sid = "-" then "" else sid
      let h : MH Nat := { cells := fun x => if x = 0 then ⟨sid, nrm, 0⟩ else ⟨ks.getD (x - 1) "", false, 0⟩, next := ks.length + 1 }
      let store : Store := (List.range ks.length).map fun i => (ks.getD i "", i + 1)
      let r := createMode h store 0 "G" tk
      let showId (s : String) : String := if s = "" then "-" else s
      let ids := match r.record with
        | some rc => s!"out=ok|send={showId (r.atSend.cells rc).id}|final={showId (r.heap.cells rc).id}"
        | none => "out=none|send=-|final=-"
      s!"{ids}|src={showId (r.heap.cells 0).id}|keys={sortedKeys r.store}"
    | _, _ => "!bad-op"
  | _ => "!bad-op"

/-- `s:e` or `n` (the item has no booked period) -/
def parsePeriod? (s : String) : Option (Option Period) :=
  if s = "n" then some none
  else match s.splitOn ":" with
    | [a, b] => match parseOptInt? a, parseOptInt? b with
      | some a, some b => some (some ⟨a, b⟩)
      | _, _ => none
    | _ => none

def showOptInt : Option Int → String
  | none => "-"
  | some i => toString i

/-- `rim incl <req s:e> <item;item>` → `acc=<1|0 per item>|per=<s:e per item, n without a period>` (the stored
periods AFTER the list) -/
def handleIncl (toks : List String) : String :=
  match toks with
  | [req, items] =>
    match parsePeriod? req, (items.splitOn ";").mapM parsePeriod? with
    | some (some rq), some its =>
      let n := its.length
      let h : PHp := { per := fun x => if x = n then rq else (its.getD x none).getD ⟨none, none⟩, next := n + 1 }
      let refs : List Item := (List.range n).map fun i => (its.getD i none).map fun _ => i
      let r := listInclude (bookingPred cutPeriod n) h refs
      let acc := String.join (refs.map fun it => if r.2.contains it then "1" else "0")
      let per := ";".intercalate ((List.range n).map fun i =>
        match its.getD i none with
        | none => "n"
        | some _ => showOptInt (r.1.per i).s ++ ":" ++ showOptInt (r.1.per i).e)
      s!"acc={acc}|per={per}"
    | _, _ => "!bad-op"
  | _ => "!bad-op"

end ScVerif.C07.Rim4
