import ScVerif.C07.Rim6Lemmas
/-!
# C07 — round 8 rim: a device whose message has a sub-message (countpb MemoryDevice), sharing BELOW the top level

The core theorems (Props.lean) treat a message as one cell and trust `proto.Clone` / `proto.Merge` to copy deeply.
Here the nested level is explicit (ScVerif/C07/Rim6.lean): a count refers to a timestamp cell, and the steps of
`Value.Set` — clone of the old value, before-interceptor, `FieldUpdater.Merge` under EVERY writable mask and update
mask with `proto.Merge`'s rule for message fields — are functions on the two-sorted heap. The theorems quantify over
every heap, every configuration of the resource, every sequence of calls (`GetCount` with and without read mask,
`ResetCount` with any timestamp or none, `UpdateCount` with any update mask, with and without `delta`) interleaved
with every action of the callers on the messages they own (building requests, overwriting them afterwards).
-/
namespace ScVerif.C07.Rim6

set_option linter.unusedSimpArgs false

/-- **C07_count_published_immutable.** For every writable-fields configuration, every state satisfying the invariant
and EVERY sequence of device calls and caller actions: every count somebody holds (earlier write results, read
results, the stored one) reads afterwards exactly as it did — counters and the CONTENTS of its reset time — and
the invariant holds again. Callers overwrite only what they own; that they may do so freely (also the timestamp a
`ResetCount` carried and the count an `UpdateCount` carried) is part of the statement: `pokeT` / `pokeC` are steps. -/
theorem C07_count_published_immutable (w : Option Mask) (ops : List Op) (s : S) (hi : Inv s) :
    Inv (run w s ops) ∧ ∀ p, p ∈ s.pub → p ∈ (run w s ops).pub ∧ deep (run w s ops).h p = deep s.h p := by
  induction ops generalizing s with
  | nil => exact ⟨hi, fun p hp => ⟨hp, rfl⟩⟩
  | cons op ops ih =>
    have st := step_inv w s op hi
    have r := ih (step w s op).1 st.1
    refine ⟨r.1, fun p hp => ?_⟩
    have a := st.2 p hp
    have b := r.2 p a.1
    exact ⟨b.1, by show deep (run w (step w s op).1 ops).h p = _; rw [b.2, a.2]⟩

/-- **C07_count_results_published.** The count a call hands back is published from that moment on, so
`C07_count_published_immutable` applies to it for the rest of every execution. -/
theorem C07_count_results_published (w : Option Mask) (s : S) (op : Op) (hi : Inv s) (c : Nat)
    (hc : (step w s op).2 = some c) : c ∈ (step w s op).1.pub := by
  cases op with
  | get m =>
    cases m with
    | none => simp [step] at hc; rw [← hc]; exact hi.stored
    | some m => simp [step] at hc ⊢; exact Or.inl hc.symm
  | reset req now => simp [step] at hc ⊢; exact Or.inl hc.symm
  | update src u delta =>
    simp only [step] at hc ⊢
    by_cases hs : src ∈ s.ownC
    · rw [if_pos hs] at hc ⊢
      by_cases hv : valid w u = true
      · rw [if_pos hv] at hc ⊢; simp at hc ⊢; exact Or.inl hc.symm
      · rw [if_neg hv] at hc; simp at hc
    · rw [if_neg hs] at hc; simp at hc
  | newT v => simp [step] at hc
  | newC a r rt => simp [step] at hc
  | pokeT t v => simp only [step] at hc; split at hc <;> simp at hc
  | pokeC c' x => simp only [step] at hc; split at hc <;> simp at hc

/-- **C07_count_reads_frame.** `GetCount` with any read mask or none: the value holds the same count afterwards, no
count and no timestamp that existed is written, and a masked read hands back a count allocated by the call whose
reset time (if the mask keeps it) is a timestamp allocated by the call. -/
theorem C07_count_reads_frame (w : Option Mask) (s : S) (m : Option Mask) :
    (step w s (.get m)).1.stored = s.stored ∧
    (∀ c, c < s.h.cn → (step w s (.get m)).1.h.cs c = s.h.cs c) ∧
    (∀ t, t < s.h.tn → (step w s (.get m)).1.h.ts t = s.h.ts t) ∧
    (m ≠ none → ∀ c, (step w s (.get m)).2 = some c →
      s.h.cn ≤ c ∧ ∀ t, ((step w s (.get m)).1.h.cs c).rt = some t → s.h.tn ≤ t) := by
  cases m with
  | none => exact ⟨rfl, fun _ _ => rfl, fun _ _ => rfl, fun h => absurd rfl h⟩
  | some m =>
    have cl := clone_spec s.h s.stored (fun _ => False) (fun _ => False)
    refine ⟨rfl, fun c hc => ?_, fun t ht => ?_, fun _ c hc => ?_⟩
    · simp only [step, H.setC, cl.2.1]
      rw [if_neg (Nat.ne_of_lt hc)]
      exact cl.1.2.2.1 c hc (fun x => x)
    · exact cl.1.2.2.2 t ht (fun x => x)
    · simp only [step, cl.2.1] at hc ⊢
      have hc' : s.h.cn = c := by simpa using hc
      subst hc'
      refine ⟨Nat.le_refl _, fun t ht => ?_⟩
      simp [H.setC] at ht
      have := (cl.2.2.2.2.1 t (filterC_rt m _ t ht)).1
      rw [this]; exact Nat.le_refl _

/-- **C07_count_write_set.** `Value.Set` as `UpdateCount` uses it, for every writable mask, every update mask, with
and without `delta`: of the cells that existed only the caller's own request count is written (the interceptor adds
the old counters to it, `Merge` filters it in place) — never the old value, never any timestamp; the new value is a
count allocated by the call and its reset time a timestamp allocated by the call. `ResetCount` builds its source
itself: it writes nothing that existed, whatever timestamp the request carries (also one a reader holds). -/
theorem C07_count_write_set (w u : Option Mask) (delta : Bool) (h : H) (old src : Nat) (hsrc : src < h.cn)
    (req : Option Nat) (now : Int) :
    ((∀ c, c < h.cn → c ≠ src → (valueSet w u delta h old src).1.cs c = h.cs c) ∧
     (∀ t, t < h.tn → (valueSet w u delta h old src).1.ts t = h.ts t) ∧
     h.cn ≤ (valueSet w u delta h old src).2 ∧
     ∀ t, ((valueSet w u delta h old src).1.cs (valueSet w u delta h old src).2).rt = some t → h.tn ≤ t) ∧
    ((∀ c, c < h.cn → (reset h old req now).1.cs c = h.cs c) ∧
     (∀ t, t < h.tn → (reset h old req now).1.ts t = h.ts t) ∧
     h.cn ≤ (reset h old req now).2 ∧
     ∀ t, ((reset h old req now).1.cs (reset h old req now).2).rt = some t → h.tn ≤ t) := by
  have vs := valueSet_spec w u delta h old src hsrc
  have rs := reset_spec h old req now
  refine ⟨⟨fun c hc hne => vs.1.2.2.1 c hc hne, fun t ht => vs.1.2.2.2 t ht (fun x => x), by rw [vs.2.1]; exact Nat.le_refl _, ?_⟩,
    ⟨fun c hc => rs.1.2.2.1 c hc (fun x => x), fun t ht => rs.1.2.2.2 t ht (fun x => x), by rw [rs.2.1]; exact Nat.le_succ _, ?_⟩⟩
  · intro t ht; rw [vs.2.1] at ht; exact (vs.2.2.2 t ht).1
  · intro t ht; rw [rs.2.1] at ht; exact (rs.2.2.2 t ht).1

/-- **C07_count_reset_value.** What `ResetCount` hands back (and stores) reads (0, 0, the time the request carried AT
THE CALL, or the clock's reading when it carried none) — held in a timestamp of its own (`C07_count_write_set`), so
by `C07_count_published_immutable` it keeps reading so whatever the caller does to its request afterwards. -/
theorem C07_count_reset_value (h : H) (stored : Nat) (req : Option Nat) (now : Int) (hst : stored < h.cn)
    (hreq : ∀ t, req = some t → t < h.tn) :
    deep (reset h stored req now).1 (reset h stored req now).2 =
      (0, 0, some (match req with | some t => h.ts t | none => now)) := by
  have h2 : stored ≠ h.cn := Nat.ne_of_lt hst
  cases req with
  | none =>
    cases hr : (h.cs stored).rt <;>
    simp [reset, valueSet, clone, merge, wEmpty, wfilter, resetDst, protoMerge, H.allocC, H.allocT, H.setC, H.setT, deep, hr, h2]
  | some t =>
    have := hreq t rfl
    have h1 : t ≠ h.tn := Nat.ne_of_lt this
    cases hr : (h.cs stored).rt <;>
    simp [reset, valueSet, clone, merge, wEmpty, wfilter, resetDst, protoMerge, H.allocC, H.allocT, H.setC, H.setT, deep, hr, h1, h2]

/-- **C07_count_caller_may_mutate.** A caller that overwrites the timestamp its `ResetCount` request carried, after the
call returned, changes neither the response nor the stored count: both still read as they did when the call
returned (for every writable-fields configuration, state, timestamp the caller owns and value written). -/
theorem C07_count_caller_may_mutate (w : Option Mask) (s : S) (hi : Inv s) (t : Nat) (now v : Int) :
    let s1 := (step w s (.reset (some t) now)).1
    let s2 := (step w s1 (.pokeT t v)).1
    s2.stored = s1.stored ∧ deep s2.h s2.stored = deep s1.h s1.stored ∧
      ∀ c, (step w s (.reset (some t) now)).2 = some c → deep s2.h c = deep s1.h c := by
  intro s1 s2
  have st1 := step_inv w s (.reset (some t) now) hi
  have st2 := step_inv w s1 (.pokeT t v) st1.1
  have hst : s2.stored = s1.stored := by
    show (step w s1 (.pokeT t v)).1.stored = s1.stored
    simp only [step]; split <;> rfl
  refine ⟨hst, ?_, fun c hc => ?_⟩
  · rw [hst]; exact (st2.2 s1.stored st1.1.stored).2
  · exact (st2.2 c (C07_count_results_published w s _ hi c hc)).2

/-- **C07_count_reset_time_by_pointer_shares** (the shape of seeded change C07-21: the reset time is assigned by the
after-interceptor, by pointer). On a state that satisfies the invariant, with the device's own writable fields
{added, removed}: the response of `ResetCount(reset_time = t)` reads (0, 0, 7) when the call returns and (0, 0, 99)
once the caller has overwritten ITS timestamp — the published count changed under its holders — while the code as it
is keeps (0, 0, 7). -/
theorem C07_count_reset_time_by_pointer_shares :
    let w : Option Mask := some ⟨true, true, false⟩
    let s1 := (stepIcpt w exS (.reset (some 1) 1000)).1
    let s2 := (stepIcpt w s1 (.pokeT 1 99)).1
    let r1 := (step w exS (.reset (some 1) 1000)).1
    let r2 := (step w r1 (.pokeT 1 99)).1
    Inv exS ∧ deep s1.h s1.stored = (0, 0, some 7) ∧ deep s2.h s1.stored = (0, 0, some 99) ∧
      deep r1.h r1.stored = (0, 0, some 7) ∧ deep r2.h r1.stored = (0, 0, some 7) := by
  refine ⟨exS_inv, ?_, ?_, ?_, ?_⟩ <;> decide

/-- non-vacuity: `UpdateCount` with `delta` under the device's writable fields does write the caller's request (the
interceptor adds the old counters, the filter drops its reset time) — the write set of `C07_count_write_set` is
not empty — and the new value keeps the old reset time's contents in a timestamp of its own -/
example :
    let w : Option Mask := some ⟨true, true, false⟩
    let s0 := (step w exS (.newC 2 0 (some 1))).1
    let s1 := (step w s0 (.update 1 none true)).1
    deep s0.h 1 = (2, 0, some 7) ∧ deep s1.h 1 = (5, 1, none) ∧ deep s1.h s1.stored = (5, 1, some 5) ∧
      (s1.h.cs s1.stored).rt ≠ (s1.h.cs 0).rt := by
  decide

end ScVerif.C07.Rim6
