import ScVerif.C07.Events
/-!
C07 — the VALUES change events carry, as message cells (pkg/resource/change.go `CollectionChange.filter` /
`ValueChange.filter`, pkg/masks/get.go `ResponseFilter.FilterClone`, change.go `include`, backpressure.go
`mergeChanges`).

Events.lean treats the values of an event as opaque references.  Here they are cells of a message heap
`Nat → M` (any message type `M`, any read-mask projection `pm : M → M`):

* a writer stores a new message: a new cell (`GetAndUpdate` builds the new value on `proto.Clone(old)`; Core.lean
  is about what the writer does with it) — the event it then sends refers to the cell of the replaced message
  (`OldValue`: the very message earlier unmasked `Get`/`List` calls returned, `Delete` returns, the `Add`/`Update`
  that stored it returned and announced as `NewValue`) and to the new cell (`NewValue`);
* `filter` with a non-nil read mask: `FilterClone(c.NewValue)`, then `FilterClone(c.OldValue)` — each non-nil value
  is CLONED into a new cell holding `pm` of the original, the new event refers to the clones; with a nil mask
  `FilterClone` returns its argument and `filter` returns the event it was given;
* `include`'s replacement events and `mergeChanges`' results carry the SAME value references on (no copy).

The event-object steps are those of Events.lean, unchanged: `vstep` runs `Events.step` with the reference
projection of THIS step (`projFor`: new value ↦ first new cell, old value ↦ next new cell).  An `UPDATE` never has
`OldValue == NewValue` (the new value is a fresh clone), so one projection function per step loses nothing; in that
degenerate shape the model's event would name the first clone twice.
-/
namespace ScVerif.C07.Events

/-- event objects + the message cells their values refer to -/
structure VS (M : Type) where
  es : ES
  msgs : Nat → M
  mnext : Nat

/-- `FilterClone(v)` under a non-nil mask: nil stays nil, a message is cloned into the new cell `mnext`, the clone is
projected; returns the heap, the allocation pointer -/
def cloneVal {M : Type} (pm : M → M) (msgs : Nat → M) (mnext : Nat) : Option Nat → (Nat → M) × Nat
  | none => (msgs, mnext)
  | some r => (fun x => if x = mnext then pm (msgs r) else msgs x, mnext + 1)

/-- where `filter`'s two `FilterClone` calls put their results (new value first, as in the code) -/
def projFor (mnext : Nat) (e : Ev) : Nat → Nat :=
  fun r => if e.new = some r then mnext else mnext + (if e.new.isSome then 1 else 0)

/-- the event a step hands to the read-mask filter of a MASKED subscriber, if it does: the bus's event (`forward`),
`include`'s replacement (`forwardIncl`, `emitIncl`), the merger's output (`emit`), a seed (`seed`).  Same conditions, same order as `Events.step`. -/
def filtered (s : ES) : Step → Option Ev
  | .forward i =>
    match s.subs.find? (fun sb => sb.idx = i) with
    | none => none
    | some sb =>
      if sb.lossy && !sb.value then none else
      match sb.inbox with
      | [] => none
      | r :: _ => if sb.mask then some (s.heap r) else none
  | .forwardIncl i d =>
    match s.subs.find? (fun sb => sb.idx = i) with
    | none => none
    | some sb =>
      if sb.lossy && !sb.value then none else
      match sb.inbox with
      | [] => none
      | r :: _ => if d = .skip then none else if sb.mask then some (convEv d (s.heap r)) else none
  | .emit i =>
    match s.subs.find? (fun sb => sb.idx = i) with
    | none => none
    | some sb =>
      if !(sb.lossy && !sb.value) then none else
      match sb.pending with
      | [] => none
      | c :: _ => if sb.mask then some c else none
  | .emitIncl i d =>
    match s.subs.find? (fun sb => sb.idx = i) with
    | none => none
    | some sb =>
      if !(sb.lossy && !sb.value) then none else
      match sb.pending with
      | [] => none
      | c :: _ => if d = .skip then none else if sb.mask then some (convEv d c) else none
  | .seed i e =>
    match s.subs.find? (fun sb => sb.idx = i) with
    | none => none
    | some sb => if sb.mask then some e else none
  | _ => none

inductive VStep (M : Type)
  /-- a writer stores a new message (the cell a following `send`'s `new` refers to) -/
  | store (m : M)
  /-- a send or a pipeline step of Events.lean -/
  | ev (st : Step)

def vstep {M : Type} (pm : M → M) (v : VS M) : VStep M → VS M
  | .store m => { v with msgs := fun x => if x = v.mnext then m else v.msgs x, mnext := v.mnext + 1 }
  | .ev st =>
    match filtered v.es st with
    | none => { v with es := step id v.es st }
    | some e =>
      let c1 := cloneVal pm v.msgs v.mnext e.new
      let c2 := cloneVal pm c1.1 c1.2 e.old
      { es := step (projFor v.mnext e) v.es st, msgs := c2.1, mnext := c2.2 }

/-- any interleaving of writers, sends and pipeline steps -/
def vrun {M : Type} (pm : M → M) (v : VS M) : List (VStep M) → VS M
  | [] => v
  | st :: rest => vrun pm (vstep pm v st) rest

def VS.init {M : Type} [Inhabited M] : VS M := { es := ES.init, msgs := fun _ => default, mnext := 0 }

/-- the seeded shape (C07-10): "a removal only carries the value that went away, mask it where it is" — `Filter`
instead of `FilterClone` on the `OldValue` of a REMOVE -/
def filterRemoveInPlace {M : Type} (pm : M → M) (msgs : Nat → M) (e : Ev) : Nat → M :=
  if e.kind = .remove then
    match e.old with
    | some r => fun x => if x = r then pm (msgs r) else msgs x
    | none => msgs
  else msgs

/-! ### driver: `ev …` ops (K1 tie of the sharing structure of event objects AND of their values with the real code)

Messages are tokens (`M := Nat`); the harness's read mask maps a message with token `t` to one that shows as `1000 + t`.
A line `ev send KIND id old new` names the values by their tokens: the driver stores the new message (a new cell) and
looks the replaced one up among the cells stored so far (tokens are unique per sequence). -/

open ScVerif.Line

structure DrvEv where
  v : VS Nat := VS.init
  /-- event references in the order a consumer first saw them: the canonical numbering of the answers -/
  seen : List Nat := []
  /-- indices of the subscribers opened with the driver's include filter ("the value's token is even") -/
  incl : List Nat := []
  /-- per subscriber index: how many of its `out` events the consumer of a lossy Collection subscriber has actually taken
  (`emit` puts an event into `out` when the Pull goroutine has it in hand; a stalled consumer takes it later) -/
  taken : List Nat := []
  /-- the seeds the Pull goroutines of lossy subscribers have still to build and hand over, in order (subscriber, event) -/
  seedQ : List (Nat × Ev) := []

def parseKind? (s : String) : Option Kind :=
  if s = "ADD" then some .add else if s = "UPDATE" then some .update
  else if s = "REMOVE" then some .remove else if s = "REPLACE" then some .replace else none

def showKind : Kind → String
  | .add => "ADD" | .update => "UPDATE" | .remove => "REMOVE" | .replace => "REPLACE"

def parseTok? (s : String) : Option (Option Nat) := if s = "-" then some none else s.toNat?.map some

def showTok : Option Nat → String
  | none => "-"
  | some n => toString n

/-- an event shows the CONTENTS of its values -/
def showEvV (v : VS Nat) (e : Ev) : String :=
  s!"{showKind e.kind},{e.id},{showTok (e.old.map v.msgs)},{showTok (e.new.map v.msgs)}" ++ (if e.lastSeed then ",L" else "")

/-- the driver's read-mask projection on message tokens -/
def drvPm (t : Nat) : Nat := 1000 + t

/-- the cell a writer stored the message with token `t` in (the latest such cell) -/
def cellOf (v : VS Nat) (t : Nat) : Option Nat :=
  ((List.range v.mnext).reverse).find? (fun r => v.msgs r == t)

/-- the driver's include filter, as `CollectionChange.include` evaluates it on an event (on the values' contents):
`none` = pass it on as it is -/
def drvDecision (v : VS Nat) (e : Ev) : Option Decision :=
  let inc : Option Nat → Bool := fun x => match x with | some r => v.msgs r % 2 == 0 | none => false
  if inc e.old = inc e.new then (if inc e.new then none else some .skip)
  else if inc e.new then some .toAdd else some .toRemove

/-- the Pull goroutine of the lossy Collection subscriber `i` takes events from its merger until it holds one the consumer
has not taken yet (it blocks handing it over) or the merger has nothing: `include` (behind the merger) may drop some -/
def pump : Nat → DrvEv → Nat → DrvEv
  | 0, d, _ => d
  | fuel + 1, d, i =>
    match d.v.es.subs.find? (fun x => x.idx = i) with
    | none => d
    | some sb =>
      if sb.out.length > d.taken.getD i 0 then d else
      -- the seeds come first: they are sent before the goroutine starts to range over the merger's channel
      match d.seedQ.find? (fun q => q.1 = i) with
      | some q => { d with v := vstep drvPm d.v (.ev (.seed i q.2)), seedQ := d.seedQ.erase q }
      | none =>
      match sb.pending with
      | [] => d
      | c :: _ =>
        let st := if d.incl.contains i then
            (match drvDecision d.v c with | some dc => Step.emitIncl i dc | none => Step.emit i)
          else Step.emit i
        pump fuel { d with v := vstep drvPm d.v (.ev st) } i

/-- the Pull goroutine of the lossy Value subscriber `i` takes the pointer `DropExcess` holds, unless it still has something
in hand (the seed, or an event the consumer has not taken yet) -/
def pumpV (d : DrvEv) (i : Nat) : DrvEv :=
  match d.v.es.subs.find? (fun x => x.idx = i) with
  | none => d
  | some sb =>
    if sb.out.length > d.taken.getD i 0 then d else
    -- the seed comes first
    match d.seedQ.find? (fun q => q.1 = i) with
    | some q => { d with v := vstep drvPm d.v (.ev (.seed i q.2)), seedQ := d.seedQ.erase q }
    | none =>
    match sb.inbox with
    | [] => d
    | _ :: _ => { d with v := vstep drvPm d.v (.ev (.forward i)) }

/-- after a send, once everything has run until it blocks (the harness's schedule: one operation at a time): every
backpressure subscriber forwards (through its include filter if it has one) and its consumer takes the event; a lossy
Collection subscriber's merger takes the event in (copy, merge) and its Pull goroutine pumps; a lossy Value subscriber
lets `DropExcess` drop the older pending pointer and its Pull goroutine pumps -/
def settle (d : DrvEv) : DrvEv :=
  d.v.es.subs.foldl (fun acc sb =>
    if !sb.lossy then
      { acc with v := vstep drvPm acc.v (.ev
        (if acc.incl.contains sb.idx then
          match (acc.v.es.subs.find? (fun x => x.idx = sb.idx)).bind (fun x => x.inbox.head?) with
          | some r => (match drvDecision acc.v (acc.v.es.heap r) with | some dc => .forwardIncl sb.idx dc | none => .forward sb.idx)
          | none => .forward sb.idx
        else .forward sb.idx)) }
    else if sb.value then pumpV { acc with v := vstep drvPm acc.v (.ev (.dropIn sb.idx)) } sb.idx
    else
      let a1 := { acc with v := vstep drvPm acc.v (.ev (.mergeIn sb.idx)) }
      pump (sb.pending.length + 2) a1 sb.idx) d

def canon (seen : List Nat) (r : Nat) : List Nat × Nat :=
  match seen.idxOf? r with
  | some i => (seen, i)
  | none => (seen ++ [r], seen.length)

/-- what each backpressure subscriber's consumer received since `before` (the subscribers' `out` lengths before the send):
`#canonical-ref:event` of the last one, `-` if nothing new -/
def lastOuts (before : List Nat) (d : DrvEv) : DrvEv × List String :=
  d.v.es.subs.foldl (fun (acc : DrvEv × List String) sb =>
    if sb.lossy then acc else
    if sb.out.length = before.getD sb.idx 0 then (acc.1, acc.2 ++ ["-"]) else
    match sb.out.getLast? with
    | none => (acc.1, acc.2 ++ ["-"])
    | some r =>
      let (seen', k) := canon acc.1.seen r
      ({ acc.1 with seen := seen' }, acc.2 ++ [s!"#{k}:{showEvV acc.1.v (acc.1.v.es.heap r)}"])) (d, [])

/-- which value OBJECTS the events seen so far carry: message references numbered in first-seen order (old before new,
events in `seen` order), `-` for nil -/
def valueSharing (d : DrvEv) : String :=
  let step1 := fun (acc : List Nat × List String) (r : Nat) =>
    let e := d.v.es.heap r
    let one := fun (a : List Nat × String) (x : Option Nat) =>
      match x with
      | none => (a.1, a.2 ++ "-")
      | some m => let (s', k) := canon a.1 m; (s', a.2 ++ toString k)
    let a1 := one (acc.1, "") e.old
    let a2 := one (a1.1, a1.2 ++ ".") e.new
    (a2.1, acc.2 ++ [a2.2])
  ";".intercalate (d.seen.foldl step1 ([], [])).2

def handleEv (d : DrvEv) (toks : List String) : DrvEv × String :=
  match toks with
  | ["reset"] => ({}, "ok")
  | ["sub", l, m] =>
    match parseBool? l, parseBool? m with
    | some l, some m => ({ d with v := vstep drvPm d.v (.ev (.sub l m)), taken := d.taken ++ [0] }, "ok")
    | _, _ => (d, "!bad-op")
  | ["subi", m] =>
    match parseBool? m with
    | some m => ({ d with v := vstep drvPm d.v (.ev (.sub false m)), incl := d.incl ++ [d.v.es.subs.length], taken := d.taken ++ [0] }, "ok")
    | none => (d, "!bad-op")
  | ["subli", m] =>
    -- a LOSSY subscriber with the include filter (the filter runs behind the merger)
    match parseBool? m with
    | some m => ({ d with v := vstep drvPm d.v (.ev (.sub true m)), incl := d.incl ++ [d.v.es.subs.length], taken := d.taken ++ [0] }, "ok")
    | none => (d, "!bad-op")
  | ["seed", i, id, t, l] =>
    -- subscriber `i` (opened without `WithUpdatesOnly`) is owed a seed for item `id`, whose stored message has token `t`
    match i.toNat?, id.toNat?, t.toNat?, parseBool? l with
    | some i, some id, some t, some l =>
      match d.v.es.subs.find? (fun x => x.idx = i), cellOf d.v t with
      | some sb, some r =>
        let e : Ev := { kind := .add, id := id, old := none, new := some r, lastSeed := l }
        if sb.value then (d, "!bad-op") else
        if sb.lossy then (pump 1 { d with seedQ := d.seedQ ++ [(i, e)] } i, "ok") else
        -- the consumer of a backpressure subscriber (drained) takes it at once
        let v1 := vstep drvPm d.v (.ev (.seed i e))
        match (v1.es.subs.find? (fun x => x.idx = i)).bind (fun x => x.out.getLast?) with
        | some c =>
          let (seen', k) := canon d.seen c
          ({ d with v := v1, seen := seen' }, s!"#{k}:{showEvV v1 (v1.es.heap c)}")
        | none => (d, "!bad-op")
      | _, _ => (d, "!bad-op")
    | _, _, _, _ => (d, "!bad-op")
  | ["poll", i] =>
    -- the consumer of the lossy Collection subscriber `i` takes the event its Pull goroutine holds, if it holds one
    match i.toNat? with
    | none => (d, "!bad-op")
    | some i =>
      match d.v.es.subs.find? (fun x => x.idx = i) with
      | none => (d, "!bad-op")
      | some sb =>
        if !(sb.lossy && !sb.value) then (d, "!bad-op") else
        let n := d.taken.getD i 0
        match sb.out[n]? with
        | none => (d, "-")
        | some r =>
          let (seen', k) := canon d.seen r
          let d1 := { d with seen := seen', taken := d.taken.set i (n + 1) }
          (pump (sb.pending.length + 2) d1 i, s!"#{k}:{showEvV d.v (d.v.es.heap r)}")
  | ["vstore", t] =>
    -- the Value's initial message (`WithInitialValue`)
    match t.toNat? with
    | some t => ({ d with v := vstep drvPm d.v (.store t) }, "ok")
    | none => (d, "!bad-op")
  | ["vsub", l, m, sd] =>
    -- `sd`: `-` (`WithUpdatesOnly`) or the token of the current value: the subscriber's Pull goroutine first builds a seed
    -- change for it (a new object), filters it and hands it over
    match parseBool? l, parseBool? m, parseTok? sd with
    | some l, some m, some sd =>
      let i := d.v.es.subs.length
      let d0 := { d with v := vstep drvPm d.v (.ev (.vsub l m)), taken := d.taken ++ [0] }
      match sd with
      | none => (d0, "ok")
      | some t =>
        match cellOf d.v t with
        | none => (d, "!bad-op")
        | some r =>
          let e : Ev := { kind := .update, id := 0, old := none, new := some r, lastSeed := true }
          if l then (pumpV { d0 with seedQ := d0.seedQ ++ [(i, e)] } i, "ok") else
          -- the consumer of a backpressure subscriber (drained) takes the seed at once
          let v1 := vstep drvPm d0.v (.ev (.seed i e))
          match (v1.es.subs.find? (fun x => x.idx = i)).bind (fun x => x.out.getLast?) with
          | some c =>
            let (seen', k) := canon d0.seen c
            ({ d0 with v := v1, seen := seen' }, s!"ok|#{k}:{showEvV v1 (v1.es.heap c)}")
          | none => (d, "!bad-op")
    | _, _, _ => (d, "!bad-op")
  | ["vpoll", i] =>
    -- the consumer of the lossy Value subscriber `i` takes what its Pull goroutine holds (the seed first)
    match i.toNat? with
    | none => (d, "!bad-op")
    | some i =>
      match d.v.es.subs.find? (fun x => x.idx = i) with
      | none => (d, "!bad-op")
      | some sb =>
        if !(sb.lossy && sb.value) then (d, "!bad-op") else
        let n := d.taken.getD i 0
        match sb.out[n]? with
        | none => (d, "-")
        | some r =>
          let (seen', k) := canon d.seen r
          let d1 := { d with seen := seen', taken := d.taken.set i (n + 1) }
          (pumpV d1 i, s!"#{k}:{showEvV d.v (d.v.es.heap r)}")
  | ["vsend", n] =>
    match n.toNat? with
    | some n =>
      let v0 := vstep drvPm d.v (.store n)
      let d1 := settle { d with v := vstep drvPm v0 (.ev (.vsend { kind := .update, id := 0, old := none, new := some d.v.mnext, lastSeed := false })) }
      let (d2, outs) := lastOuts (d.v.es.subs.map (·.out.length)) d1
      (d2, "|".intercalate ("ok" :: outs))
    | none => (d, "!bad-op")
  | ["send", k, id, o, n] =>
    match parseKind? k, id.toNat?, parseTok? o, parseTok? n with
    | some k, some id, some o, some n =>
      -- the replaced message is the cell stored earlier under that token; an unknown token is a malformed request
      match (match o with | none => some none | some t => (cellOf d.v t).map some) with
      | none => (d, "!bad-op")
      | some oref =>
        let (v0, nref) := match n with
          | none => (d.v, none)
          | some t => (vstep drvPm d.v (.store t), some d.v.mnext)
        let d1 := settle { d with v := vstep drvPm v0 (.ev (.send { kind := k, id := id, old := oref, new := nref, lastSeed := false })) }
        let (d2, outs) := lastOuts (d.v.es.subs.map (·.out.length)) d1
        (d2, "|".intercalate ("ok" :: outs))
    | _, _, _, _ => (d, "!bad-op")
  | ["audit"] =>
    (d, "seen=" ++ ";".intercalate (d.seen.map fun r => showEvV d.v (d.v.es.heap r)) ++ "|vals=" ++ valueSharing d)
  | _ => (d, "!bad-op")

end ScVerif.C07.Events
