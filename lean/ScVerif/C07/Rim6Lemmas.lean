import ScVerif.C07.Rim6
/-! C07 — lemmas about the nested heap model of countpb (Rim6.lean): which cells each step of a write may touch. -/
namespace ScVerif.C07.Rim6

/-- `h'` extends `h` and differs from it below `h`'s allocation pointers at most at count cells in `WC` and timestamp
cells in `WT` -/
def Wr (h h' : H) (WC WT : Nat → Prop) : Prop :=
  h.cn ≤ h'.cn ∧ h.tn ≤ h'.tn ∧ (∀ c, c < h.cn → ¬ WC c → h'.cs c = h.cs c) ∧
    (∀ t, t < h.tn → ¬ WT t → h'.ts t = h.ts t)

theorem Wr.refl (h : H) (WC WT : Nat → Prop) : Wr h h WC WT :=
  ⟨Nat.le_refl _, Nat.le_refl _, fun _ _ _ => rfl, fun _ _ _ => rfl⟩

theorem Wr.trans' {h h' h'' : H} {WC WT WC' WT' : Nat → Prop} (a : Wr h h' WC WT) (b : Wr h' h'' WC' WT')
    (hc : ∀ c, c < h.cn → WC' c → WC c) (ht : ∀ t, t < h.tn → WT' t → WT t) : Wr h h'' WC WT :=
  ⟨Nat.le_trans a.1 b.1, Nat.le_trans a.2.1 b.2.1,
   fun c h1 hw => by
    rw [b.2.2.1 c (Nat.lt_of_lt_of_le h1 a.1) (fun x => hw (hc c h1 x)), a.2.2.1 c h1 hw],
   fun t h1 hw => by
    rw [b.2.2.2 t (Nat.lt_of_lt_of_le h1 a.2.1) (fun x => hw (ht t h1 x)), a.2.2.2 t h1 hw]⟩

theorem Wr.trans {h h' h'' : H} {WC WT : Nat → Prop} (a : Wr h h' WC WT) (b : Wr h' h'' WC WT) : Wr h h'' WC WT :=
  a.trans' b (fun _ _ x => x) (fun _ _ x => x)

theorem Wr.mono {h h' : H} {WC WT WC' WT' : Nat → Prop} (a : Wr h h' WC WT) (hc : ∀ c, WC c → WC' c)
    (ht : ∀ t, WT t → WT' t) : Wr h h' WC' WT' :=
  ⟨a.1, a.2.1, fun c h1 h2 => a.2.2.1 c h1 (fun x => h2 (hc c x)), fun t h1 h2 => a.2.2.2 t h1 (fun x => h2 (ht t x))⟩

theorem wr_setC (h : H) (r : Nat) (c : Cnt) (WT : Nat → Prop) : Wr h (h.setC r c) (· = r) WT :=
  ⟨Nat.le_refl _, Nat.le_refl _, fun x _ hx => by simp [H.setC] at hx ⊢; simp [hx], fun _ _ _ => rfl⟩

theorem wr_setT (h : H) (r : Nat) (v : Int) (WC : Nat → Prop) : Wr h (h.setT r v) WC (· = r) :=
  ⟨Nat.le_refl _, Nat.le_refl _, fun _ _ _ => rfl, fun x _ hx => by simp [H.setT] at hx ⊢; simp [hx]⟩

theorem wr_allocC (h : H) (c : Cnt) (WC WT : Nat → Prop) : Wr h (h.allocC c).1 WC WT :=
  ⟨Nat.le_succ _, Nat.le_refl _, fun x hx _ => by simp [H.allocC, Nat.ne_of_lt hx], fun _ _ _ => rfl⟩

theorem wr_allocT (h : H) (v : Int) (WC WT : Nat → Prop) : Wr h (h.allocT v).1 WC WT :=
  ⟨Nat.le_refl _, Nat.le_succ _, fun _ _ _ => rfl, fun x hx _ => by simp [H.allocT, Nat.ne_of_lt hx]⟩

/-- `proto.Clone`: nothing that exists is written; the clone is the next count cell, reads like the original, and
its reset time (if any) is a timestamp allocated by the clone -/
theorem clone_spec (h : H) (c : Nat) (WC WT : Nat → Prop) :
    Wr h (clone h c).1 WC WT ∧ (clone h c).2 = h.cn ∧ (clone h c).1.cn = h.cn + 1 ∧
    (clone h c).1.tn ≤ h.tn + 1 ∧
    (∀ t, ((clone h c).1.cs h.cn).rt = some t → t = h.tn ∧ (clone h c).1.tn = h.tn + 1) ∧
    deep (clone h c).1 h.cn = deep h c := by
  unfold clone
  cases hr : (h.cs c).rt with
  | none =>
    refine ⟨wr_allocC _ _ _ _, rfl, rfl, Nat.le_succ _, ?_, ?_⟩
    · intro t ht; simp [H.allocC, hr] at ht
    · simp [deep, H.allocC, hr]
  | some t0 =>
    refine ⟨(wr_allocT h _ WC WT).trans (wr_allocC _ _ _ _), rfl, rfl, Nat.le_refl _, ?_, ?_⟩
    · intro t ht; simp [H.allocC, H.allocT] at ht; exact ⟨ht.symm, rfl⟩
    · simp [deep, H.allocC, H.allocT, hr]


/-- `proto.Merge(dst, src)`: below the allocation pointers only `dst` and `dst`'s OWN reset time are written; the
reset time `dst` has afterwards is the one it had or a timestamp allocated by the merge -/
theorem protoMerge_spec (h : H) (dst src : Nat) :
    Wr h (protoMerge h dst src) (· = dst) (fun t => (h.cs dst).rt = some t) ∧
    (protoMerge h dst src).cn = h.cn ∧ (protoMerge h dst src).tn ≤ h.tn + 1 ∧
    (∀ t, ((protoMerge h dst src).cs dst).rt = some t →
      (h.cs dst).rt = some t ∨ (t = h.tn ∧ (protoMerge h dst src).tn = h.tn + 1)) := by
  simp only [protoMerge]
  split
  · refine ⟨wr_setC _ _ _ _, rfl, Nat.le_succ _, ?_⟩
    intro t ht; simp [H.setC] at ht; exact Or.inl ht
  · next t0 hs =>
    split
    · next hd =>
      refine ⟨(wr_allocT h _ _ _).trans (wr_setC _ _ _ _), rfl, Nat.le_refl _, ?_⟩
      intro t ht; simp [H.setC, H.allocT] at ht; exact Or.inr ⟨ht.symm, rfl⟩
    · next dt hd =>
      refine ⟨((wr_setT h dt _ (· = dst)).mono (fun _ x => x) (fun t x => by simp [x, hd])).trans (wr_setC _ _ _ _), rfl,
        Nat.le_succ _, ?_⟩
      intro t ht; simp [H.setC, H.setT, hd] at ht; exact Or.inl (by simp [ht, hd])

theorem filterC_rt (m : Mask) (c : Cnt) (t : Nat) (h : (filterC m c).rt = some t) : c.rt = some t := by
  unfold filterC at h; cases hm : m.rt <;> simp [hm] at h; exact h

theorem pruneC_rt (m : Mask) (c : Cnt) (t : Nat) (h : (pruneC m c).rt = some t) : c.rt = some t := by
  unfold pruneC at h; cases hm : m.rt <;> simp [hm] at h; exact h

theorem pruneEmptyC_rt (m : Mask) (s d : Cnt) (t : Nat) (h : (pruneEmptyC m s d).rt = some t) : d.rt = some t := by
  unfold pruneEmptyC at h
  by_cases hc : (m.rt && s.rt.isNone) = true <;> simp [hc] at h <;> exact h

/-- `FieldUpdater.Merge(dst, src)` for every writable mask and update mask: below the allocation pointers only
`dst`, `src` (the in-place filter) and `dst`'s own reset time are written; no count is allocated; the reset time
`dst` has afterwards is the one it had or a timestamp allocated by the merge -/
theorem merge_spec (w u : Option Mask) (h : H) (dst src : Nat) (hne : dst ≠ src) :
    Wr h (merge w u h dst src) (fun c => c = dst ∨ c = src) (fun t => (h.cs dst).rt = some t) ∧
    (merge w u h dst src).cn = h.cn ∧ (merge w u h dst src).tn ≤ h.tn + 1 ∧
    (∀ t, ((merge w u h dst src).cs dst).rt = some t →
      (h.cs dst).rt = some t ∨ (t = h.tn ∧ (merge w u h dst src).tn = h.tn + 1)) := by
  -- the source filter: writes `src` only, `dst` keeps its contents
  have hsrcW : ∀ (g : H) (c : Cnt), Wr g (g.setC src c) (fun c => c = dst ∨ c = src) (fun t => (h.cs dst).rt = some t) :=
    fun g c => (wr_setC g src c _).mono (fun _ x => Or.inr x) (fun _ x => x)
  have hdstW : ∀ (g : H) (c : Cnt), Wr g (g.setC dst c) (fun c => c = dst ∨ c = src) (fun t => (h.cs dst).rt = some t) :=
    fun g c => (wr_setC g dst c _).mono (fun _ x => Or.inl x) (fun _ x => x)
  -- generic tail: from a heap `g` whose `dst` has at most `h`'s reset time
  have tail : ∀ (g : H), g.cn = h.cn → g.tn = h.tn → (∀ t, (g.cs dst).rt = some t → (h.cs dst).rt = some t) →
      Wr g (protoMerge g dst src) (fun c => c = dst ∨ c = src) (fun t => (h.cs dst).rt = some t) ∧
      (protoMerge g dst src).cn = h.cn ∧ (protoMerge g dst src).tn ≤ h.tn + 1 ∧
      (∀ t, ((protoMerge g dst src).cs dst).rt = some t →
        (h.cs dst).rt = some t ∨ (t = h.tn ∧ (protoMerge g dst src).tn = h.tn + 1)) := by
    intro g hcn htn hrt
    have p := protoMerge_spec g dst src
    refine ⟨p.1.mono (fun _ x => Or.inl x) (fun t x => hrt t x), by rw [p.2.1, hcn], by rw [← htn]; exact p.2.2.1, ?_⟩
    intro t ht
    rcases p.2.2.2 t ht with h1 | h1
    · exact Or.inl (hrt t h1)
    · exact Or.inr (by rw [← htn]; exact h1)
  have h1W : Wr h (wfilter w h src) (fun c => c = dst ∨ c = src) (fun t => (h.cs dst).rt = some t) := by
    cases w with
    | none => exact Wr.refl _ _ _
    | some wm => exact hsrcW h _
  have h1cn : (wfilter w h src).cn = h.cn := by cases w <;> rfl
  have h1tn : (wfilter w h src).tn = h.tn := by cases w <;> rfl
  have h1dst : (wfilter w h src).cs dst = h.cs dst := by
    cases w with
    | none => rfl
    | some wm => simp [wfilter, H.setC, hne]
  unfold merge
  by_cases hwe : wEmpty w = true
  · rw [if_pos hwe]; exact ⟨Wr.refl _ _ _, rfl, Nat.le_succ _, fun t ht => Or.inl ht⟩
  · rw [if_neg hwe]
    cases u with
    | none =>
      have hcdrt : ∀ t, (resetDst w ((wfilter w h src).cs dst)).rt = some t → (h.cs dst).rt = some t := by
        intro t ht; cases w with
        | none => simp [resetDst] at ht
        | some wm => rw [← h1dst]; exact pruneC_rt wm _ t ht
      have tl := tail ((wfilter w h src).setC dst (resetDst w ((wfilter w h src).cs dst))) h1cn h1tn
        (by intro t ht; simp [H.setC] at ht; exact hcdrt t ht)
      exact ⟨(h1W.trans (hdstW _ _)).trans' tl.1 (fun _ _ x => x) (fun _ _ x => x), tl.2.1, tl.2.2.1, tl.2.2.2⟩
    | some um =>
      show _ ∧ (if um.isEmpty = true then _ else _ : H).cn = _ ∧ (if um.isEmpty = true then _ else _ : H).tn ≤ _ ∧ _
      by_cases hue : um.isEmpty = true
      · simp only [if_pos hue]
        exact ⟨h1W, h1cn, by rw [h1tn]; exact Nat.le_succ _, fun t ht => Or.inl (by rw [← h1dst]; exact ht)⟩
      · simp only [if_neg hue]
        have tl := tail ((wfilter w h src).setC src (filterC um ((wfilter w h src).cs src))) h1cn h1tn
          (by intro t ht; simp [H.setC, hne] at ht; rw [← h1dst]; exact ht)
        refine ⟨?_, tl.2.1, tl.2.2.1, ?_⟩
        · exact ((h1W.trans (hsrcW _ _)).trans' tl.1 (fun _ _ x => x) (fun _ _ x => x)).trans' (hdstW _ _)
            (fun _ _ x => x) (fun _ _ x => x)
        · intro t ht
          simp [mergeMasked, H.setC] at ht
          exact tl.2.2.2 t (pruneEmptyC_rt um _ _ t ht)


/-- `Value.Set` for every writable mask, update mask and delta flag, with an existing value `old` and an existing
source `src`: below the allocation pointers only `src` is written (interceptor, in-place filters), no timestamp
at all; the new value is the next count cell and its reset time (if any) is a timestamp allocated by the call -/
theorem valueSet_spec (w u : Option Mask) (delta : Bool) (h : H) (old src : Nat) (hsrc : src < h.cn) :
    Wr h (valueSet w u delta h old src).1 (· = src) (fun _ => False) ∧
    (valueSet w u delta h old src).2 = h.cn ∧ (valueSet w u delta h old src).1.cn = h.cn + 1 ∧
    (∀ t, ((valueSet w u delta h old src).1.cs h.cn).rt = some t →
      h.tn ≤ t ∧ t < (valueSet w u delta h old src).1.tn) := by
  have cl := clone_spec h old (· = src) (fun _ => False)
  have hne : h.cn ≠ src := Ne.symm (Nat.ne_of_lt hsrc)
  -- the heap after the before-interceptor
  have hb : ∃ h2 : H, h2 = (if delta then addOld (clone h old).1 old src else (clone h old).1) ∧
      Wr (clone h old).1 h2 (· = src) (fun _ => False) ∧ h2.cn = (clone h old).1.cn ∧ h2.tn = (clone h old).1.tn ∧
      h2.cs h.cn = (clone h old).1.cs h.cn := by
    refine ⟨_, rfl, ?_⟩
    cases delta with
    | false => exact ⟨Wr.refl _ _ _, rfl, rfl, rfl⟩
    | true => exact ⟨wr_setC _ _ _ _, rfl, rfl, by simp [addOld, H.setC, hne]⟩
  obtain ⟨h2, h2eq, h2W, h2cn, h2tn, h2dst⟩ := hb
  have hv : valueSet w u delta h old src = (merge w u h2 h.cn src, h.cn) := by
    simp only [valueSet, cl.2.1, h2eq]
  have ms := merge_spec w u h2 h.cn src hne
  rw [hv]
  refine ⟨?_, rfl, by show (merge w u h2 h.cn src).cn = _; rw [ms.2.1, h2cn, cl.2.2.1], ?_⟩
  · refine (cl.1.trans h2W).trans' ms.1 ?_ ?_
    · intro c hc hx
      rcases hx with hx | hx
      · exact absurd hx (Nat.ne_of_lt hc)
      · exact hx
    · intro t ht hx
      rw [h2dst] at hx
      have := (cl.2.2.2.2.1 t hx).1
      exact absurd this (Nat.ne_of_lt ht)
  · intro t ht
    have ht' : ((merge w u h2 h.cn src).cs h.cn).rt = some t := ht
    have htn2 : h.tn ≤ h2.tn := by rw [h2tn]; exact cl.1.2.1
    rcases ms.2.2.2 t ht' with h1 | h1
    · rw [h2dst] at h1
      have c := cl.2.2.2.2.1 t h1
      refine ⟨by rw [c.1]; exact Nat.le_refl _, ?_⟩
      show t < (merge w u h2 h.cn src).tn
      have : h2.tn ≤ (merge w u h2 h.cn src).tn := ms.1.2.1
      rw [h2tn, c.2] at this
      rw [c.1]; exact this
    · refine ⟨by rw [h1.1]; exact htn2, ?_⟩
      show t < (merge w u h2 h.cn src).tn
      rw [h1.2, h1.1]; exact Nat.lt_succ_self _

/-- `ResetCount` as it is: NOTHING that exists is written (the source of the write is built by the call), and the
reset time of the new value is a timestamp allocated by the call — whatever timestamp the request carries -/
theorem reset_spec (h : H) (stored : Nat) (req : Option Nat) (now : Int) :
    Wr h (reset h stored req now).1 (fun _ => False) (fun _ => False) ∧
    (reset h stored req now).2 = h.cn + 1 ∧ (reset h stored req now).1.cn = h.cn + 2 ∧
    (∀ t, ((reset h stored req now).1.cs (h.cn + 1)).rt = some t → h.tn ≤ t ∧ t < (reset h stored req now).1.tn) := by
  -- the heap with the request's timestamp
  have hb : ∃ ht : H × Nat, ht = (match req with | some t => (h, t) | none => h.allocT now) ∧
      Wr h ht.1 (fun _ => False) (fun _ => False) ∧ ht.1.cn = h.cn := by
    refine ⟨_, rfl, ?_⟩
    cases req with
    | none => exact ⟨wr_allocT _ _ _ _, rfl⟩
    | some t => exact ⟨Wr.refl _ _ _, rfl⟩
  obtain ⟨ht, hteq, htW, htcn⟩ := hb
  have hv : reset h stored req now = valueSet none none false (ht.1.allocC ⟨0, 0, some ht.2⟩).1 stored ht.1.cn := by
    simp only [reset, hteq]; rfl
  have hs : (ht.1.allocC ⟨0, 0, some ht.2⟩).1.cn = h.cn + 1 := by simp [H.allocC, htcn]
  have hstn : (ht.1.allocC ⟨0, 0, some ht.2⟩).1.tn = ht.1.tn := rfl
  have vs := valueSet_spec none none false (ht.1.allocC ⟨0, 0, some ht.2⟩).1 stored ht.1.cn
    (by rw [hs, htcn]; exact Nat.lt_succ_self _)
  rw [hv]
  rw [hs] at vs
  refine ⟨?_, vs.2.1, vs.2.2.1, ?_⟩
  · refine (htW.trans (wr_allocC _ _ _ _)).trans' vs.1 ?_ (fun _ _ x => x)
    intro c hc hx
    rw [htcn] at hx
    exact absurd hx (Nat.ne_of_lt hc)
  · intro t h1
    have := vs.2.2.2 t h1
    rw [hstn] at this
    exact ⟨Nat.le_trans htW.2.1 this.1, this.2⟩

/-! ### the invariant of the device with its callers -/

structure Inv (s : S) : Prop where
  stored : s.stored ∈ s.pub
  pubC : ∀ p, p ∈ s.pub → p < s.h.cn
  pubT : ∀ p, p ∈ s.pub → ∀ t, (s.h.cs p).rt = some t → t < s.h.tn
  ownC : ∀ c, c ∈ s.ownC → c < s.h.cn ∧ c ∉ s.pub
  ownT : ∀ t, t ∈ s.ownT → t < s.h.tn ∧ ∀ p, p ∈ s.pub → (s.h.cs p).rt ≠ some t

/-- a step that writes, of what exists, only cells the callers own leaves every published count as it reads -/
theorem Inv.kept {s : S} (hi : Inv s) {h' : H} (hw : Wr s.h h' (· ∈ s.ownC) (· ∈ s.ownT)) (p : Nat) (hp : p ∈ s.pub) :
    h'.cs p = s.h.cs p ∧ deep h' p = deep s.h p := by
  have hc : h'.cs p = s.h.cs p := hw.2.2.1 p (hi.pubC p hp) (fun x => (hi.ownC p x).2 hp)
  refine ⟨hc, ?_⟩
  simp only [deep, hc]
  cases hr : (s.h.cs p).rt with
  | none => rfl
  | some t =>
    have : h'.ts t = s.h.ts t := hw.2.2.2 t (hi.pubT p hp t hr) (fun x => (hi.ownT t x).2 p hp hr)
    simp [this]

/-- … and the invariant holds again when the step publishes nothing new -/
theorem Inv.same {s : S} (hi : Inv s) {h' : H} (hw : Wr s.h h' (· ∈ s.ownC) (· ∈ s.ownT)) :
    Inv { s with h := h' } :=
  { stored := hi.stored
    pubC := fun p hp => Nat.lt_of_lt_of_le (hi.pubC p hp) hw.1
    pubT := fun p hp t ht => by
      have hc := (hi.kept hw p hp).1
      have ht' : (s.h.cs p).rt = some t := by rw [← hc]; exact ht
      exact Nat.lt_of_lt_of_le (hi.pubT p hp t ht') hw.2.1
    ownC := fun c hc => ⟨Nat.lt_of_lt_of_le (hi.ownC c hc).1 hw.1, (hi.ownC c hc).2⟩
    ownT := fun t ht => ⟨Nat.lt_of_lt_of_le (hi.ownT t ht).1 hw.2.1, fun p hp => by
      have hc := (hi.kept hw p hp).1
      show (h'.cs p).rt ≠ some t
      rw [hc]; exact (hi.ownT t ht).2 p hp⟩ }

/-- … or a count cell allocated by the step whose reset time (if any) was allocated by the step too -/
theorem Inv.publish {s : S} (hi : Inv s) {h' : H} (hw : Wr s.h h' (· ∈ s.ownC) (· ∈ s.ownT)) (n st : Nat)
    (hn : s.h.cn ≤ n) (hn' : n < h'.cn) (hrt : ∀ t, (h'.cs n).rt = some t → s.h.tn ≤ t ∧ t < h'.tn)
    (hst : st = n ∨ st = s.stored) :
    Inv { s with h := h', stored := st, pub := n :: s.pub } :=
  have base := hi.same hw
  { stored := by
      rcases hst with h1 | h1
      · simp [h1]
      · simp [h1, hi.stored]
    pubC := fun p hp => by
      rcases List.mem_cons.mp hp with h1 | h1
      · rw [h1]; exact hn'
      · exact base.pubC p h1
    pubT := fun p hp t ht => by
      rcases List.mem_cons.mp hp with h1 | h1
      · rw [h1] at ht; exact (hrt t ht).2
      · exact base.pubT p h1 t ht
    ownC := fun c hc => ⟨(base.ownC c hc).1, fun hm => by
      rcases List.mem_cons.mp hm with h1 | h1
      · have := (hi.ownC c hc).1
        rw [h1] at this
        exact absurd (Nat.lt_of_lt_of_le this hn) (Nat.lt_irrefl _)
      · exact (hi.ownC c hc).2 h1⟩
    ownT := fun t ht => ⟨(base.ownT t ht).1, fun p hp => by
      rcases List.mem_cons.mp hp with h1 | h1
      · intro hx
        rw [h1] at hx
        have := (hrt t hx).1
        exact absurd (Nat.lt_of_lt_of_le (hi.ownT t ht).1 this) (Nat.lt_irrefl _)
      · exact (base.ownT t ht).2 p h1⟩ }


theorem wr_false_mono {h h' : H} (a : Wr h h' (fun _ => False) (fun _ => False)) (WC WT : Nat → Prop) : Wr h h' WC WT :=
  a.mono (fun _ x => x.elim) (fun _ x => x.elim)

/-- one call of the device or one action of a caller: the invariant is kept, nothing is un-published and every
published count reads as before -/
theorem step_inv (w : Option Mask) (s : S) (op : Op) (hi : Inv s) :
    Inv (step w s op).1 ∧ ∀ p, p ∈ s.pub → p ∈ (step w s op).1.pub ∧ deep (step w s op).1.h p = deep s.h p := by
  cases op with
  | get m =>
    cases m with
    | none => exact ⟨hi, fun p hp => ⟨hp, rfl⟩⟩
    | some m =>
      have cl := clone_spec s.h s.stored (· ∈ s.ownC) (· ∈ s.ownT)
      have hw : Wr s.h ((clone s.h s.stored).1.setC (clone s.h s.stored).2 (filterC m ((clone s.h s.stored).1.cs (clone s.h s.stored).2)))
          (· ∈ s.ownC) (· ∈ s.ownT) := by
        refine cl.1.trans' (wr_setC _ _ _ (· ∈ s.ownT)) ?_ (fun _ _ x => x)
        intro c hc hx
        rw [cl.2.1] at hx
        exact absurd hx (Nat.ne_of_lt hc)
      refine ⟨?_, fun p hp => ⟨List.mem_cons_of_mem _ hp, (hi.kept hw p hp).2⟩⟩
      simp only [step]
      rw [cl.2.1] at hw ⊢
      refine hi.publish hw s.h.cn s.stored (Nat.le_refl _) (by show _ < (clone s.h s.stored).1.cn; rw [cl.2.2.1]; exact Nat.lt_succ_self _) ?_ (Or.inr rfl)
      intro t ht
      simp [H.setC] at ht
      have c := cl.2.2.2.2.1 t (filterC_rt m _ t ht)
      refine ⟨by rw [c.1]; exact Nat.le_refl _, ?_⟩
      show t < (clone s.h s.stored).1.tn
      rw [c.2, c.1]; exact Nat.lt_succ_self _
  | reset req now =>
    have rs := reset_spec s.h s.stored req now
    have hw := wr_false_mono rs.1 (· ∈ s.ownC) (· ∈ s.ownT)
    refine ⟨?_, fun p hp => ⟨List.mem_cons_of_mem _ hp, (hi.kept hw p hp).2⟩⟩
    simp only [step]
    rw [rs.2.1]
    exact hi.publish hw (s.h.cn + 1) (s.h.cn + 1) (Nat.le_succ _) (by rw [rs.2.2.1]; exact Nat.lt_succ_self _) rs.2.2.2 (Or.inl rfl)
  | update src u delta =>
    simp only [step]
    by_cases hs : src ∈ s.ownC
    · rw [if_pos hs]
      by_cases hv : valid w u = true
      · rw [if_pos hv]
        have vs := valueSet_spec w u delta s.h s.stored src (hi.ownC src hs).1
        have hw : Wr s.h (valueSet w u delta s.h s.stored src).1 (· ∈ s.ownC) (· ∈ s.ownT) :=
          vs.1.mono (fun c x => by rw [x]; exact hs) (fun _ x => x.elim)
        refine ⟨?_, fun p hp => ⟨List.mem_cons_of_mem _ hp, (hi.kept hw p hp).2⟩⟩
        rw [vs.2.1]
        exact hi.publish hw s.h.cn s.h.cn (Nat.le_refl _) (by rw [vs.2.2.1]; exact Nat.lt_succ_self _) vs.2.2.2 (Or.inl rfl)
      · rw [if_neg hv]; exact ⟨hi, fun p hp => ⟨hp, rfl⟩⟩
    · rw [if_neg hs]; exact ⟨hi, fun p hp => ⟨hp, rfl⟩⟩
  | newT v =>
    have hw : Wr s.h (s.h.allocT v).1 (· ∈ s.ownC) (· ∈ s.ownT) := wr_allocT _ _ _ _
    have base := hi.same hw
    refine ⟨?_, fun p hp => ⟨hp, (hi.kept hw p hp).2⟩⟩
    exact { stored := base.stored, pubC := base.pubC, pubT := base.pubT, ownC := base.ownC,
            ownT := fun t ht => by
              rcases List.mem_cons.mp ht with h1 | h1
              · refine ⟨by rw [h1]; exact Nat.lt_succ_self _, fun p hp hx => ?_⟩
                have hc := (hi.kept hw p hp).1
                have hx' : (s.h.cs p).rt = some t := by rw [← hc]; exact hx
                have := hi.pubT p hp t hx'
                rw [h1] at this
                exact Nat.lt_irrefl _ this
              · exact base.ownT t h1 }
  | newC a r rt =>
    have hw : Wr s.h (s.h.allocC ⟨a, r, rt⟩).1 (· ∈ s.ownC) (· ∈ s.ownT) := wr_allocC _ _ _ _
    have base := hi.same hw
    refine ⟨?_, fun p hp => ⟨hp, (hi.kept hw p hp).2⟩⟩
    exact { stored := base.stored, pubC := base.pubC, pubT := base.pubT, ownT := base.ownT,
            ownC := fun c hc => by
              rcases List.mem_cons.mp hc with h1 | h1
              · refine ⟨by rw [h1]; exact Nat.lt_succ_self _, fun hp => ?_⟩
                have := hi.pubC c hp
                rw [h1] at this
                exact Nat.lt_irrefl _ this
              · exact base.ownC c h1 }
  | pokeT t v =>
    simp only [step]
    by_cases ht : t ∈ s.ownT
    · rw [if_pos ht]
      have hw : Wr s.h (s.h.setT t v) (· ∈ s.ownC) (· ∈ s.ownT) :=
        (wr_setT s.h t v (· ∈ s.ownC)).mono (fun _ x => x) (fun _ x => by rw [x]; exact ht)
      exact ⟨hi.same hw, fun p hp => ⟨hp, (hi.kept hw p hp).2⟩⟩
    · rw [if_neg ht]; exact ⟨hi, fun p hp => ⟨hp, rfl⟩⟩
  | pokeC c x =>
    simp only [step]
    by_cases hc : c ∈ s.ownC
    · rw [if_pos hc]
      have hw : Wr s.h (s.h.setC c x) (· ∈ s.ownC) (· ∈ s.ownT) :=
        (wr_setC s.h c x (· ∈ s.ownT)).mono (fun _ y => by rw [y]; exact hc) (fun _ y => y)
      exact ⟨hi.same hw, fun p hp => ⟨hp, (hi.kept hw p hp).2⟩⟩
    · rw [if_neg hc]; exact ⟨hi, fun p hp => ⟨hp, rfl⟩⟩

/-- the state of the examples: the stored count 0 with reset time 0 (contents 5), the caller's timestamp 1 (contents 7) -/
def exS : S :=
  { h := { cs := fun _ => ⟨3, 1, some 0⟩, cn := 1, ts := fun x => if x = 1 then 7 else 5, tn := 2 },
    stored := 0, pub := [0], ownC := [], ownT := [1] }

theorem exS_inv : Inv exS :=
  { stored := by simp [exS]
    pubC := fun p hp => by simp [exS] at hp ⊢; omega
    pubT := fun p hp t ht => by simp [exS] at hp ht ⊢; omega
    ownC := fun c hc => by simp [exS] at hc
    ownT := fun t ht => by simp [exS] at ht ⊢; omega }

end ScVerif.C07.Rim6
