import ScVerif.C07.Core
/-!
Concrete message functions for the driver: flat proto3 messages with four scalar fields without
presence (the harness uses `traits.FanSpeed`: percentage, preset, preset_index, direction), masks =
lists of top-level field indices.  Follows `masks.FieldUpdater.{Validate,Merge}` and
`masks.ResponseFilter.FilterClone` restricted to that shape.  Only the tie uses this; the theorems
quantify over every `Funs`.
-/
namespace ScVerif.C07

structure Msg where
  a : Int
  b : Int
  c : Int
  d : Int
  deriving DecidableEq, Repr, Inhabited

abbrev FMask := List Nat

def Msg.zero : Msg := ⟨0, 0, 0, 0⟩

def Msg.get (m : Msg) : Nat → Int
  | 0 => m.a | 1 => m.b | 2 => m.c | _ => m.d

def Msg.setF (m : Msg) (i : Nat) (v : Int) : Msg :=
  match i with
  | 0 => { m with a := v } | 1 => { m with b := v } | 2 => { m with c := v } | _ => { m with d := v }

/-- build a message field by field -/
def Msg.tab (f : Nat → Int) : Msg := ⟨f 0, f 1, f 2, f 3⟩

/-- `fmutils.Filter`: keep only the masked fields -/
def filterM (mask : FMask) (m : Msg) : Msg := Msg.tab fun i => if i ∈ mask then m.get i else 0

/-- `NestedMask.Filter` is a no-op for an empty/nil mask -/
def filterOpt (mask : Option FMask) (m : Msg) : Msg :=
  match mask with
  | none => m
  | some [] => m
  | some k => filterM k m

/-- `fmutils.Prune`: clear the masked fields -/
def pruneM (mask : FMask) (m : Msg) : Msg := Msg.tab fun i => if i ∈ mask then 0 else m.get i

def flatValidate (w u : Option FMask) (_ : Msg) : Option Err :=
  match u, w with
  | some u, some w => if u.all (· ∈ w) then none else some .invalidArgument
  | _, _ => none

/-- `FieldUpdater.Merge(dst, src)` → `(dst', src')` -/
def flatMerge (w u r : Option FMask) (dst src : Msg) : Msg × Msg :=
  -- nothing writable: only the reset mask applies (unless the update mask is the empty non-nil "no changes" mask)
  if w = some [] then
    (if u = some [] then dst else (match r with | some rm => pruneM rm dst | none => dst), src)
  else
  let src1 := filterOpt w src
  match u with
  | some [] => (dst, src1)
  | _ =>
    let dst1 := match u with
      | none => (match w with | none => Msg.zero | some wm => pruneM wm dst)
      | some _ => dst
    let src2 := filterOpt u src1
    -- proto.Merge: populated (non-zero) scalars of src overwrite dst
    let dst2 := Msg.tab fun i => if src2.get i ≠ 0 then src2.get i else dst1.get i
    -- pruneEmpty: a masked field absent from src is cleared
    let dst3 := match u with
      | some um => Msg.tab fun i => if i ∈ um ∧ src2.get i = 0 then 0 else dst2.get i
      | none => dst2
    -- the reset mask is pruned from the result last
    let dst4 := match r with
      | some rm => pruneM rm dst3
      | none => dst3
    (dst4, src2)

def flat : Funs Msg FMask where
  zero := Msg.zero
  validate := flatValidate
  merge := flatMerge
  project := filterM
  eq := fun x y => x == y

end ScVerif.C07
