import ScVerif.C07.Rim7
/-! C07 — lemmas about the nested heap model of lightpb (Rim7.lean): which cells each step of a write may touch
(the write-set relation `Wr` as in Rim6Lemmas.lean, on brightness / preset cells). -/
namespace ScVerif.C07.Rim7

/-- `h'` extends `h` and differs from it below `h`'s allocation pointers at most at brightness cells in `WC` and preset message
cells in `WT` -/
def Wr (h h' : H) (WC WT : Nat → Prop) : Prop :=
  h.bn ≤ h'.bn ∧ h.pn ≤ h'.pn ∧ (∀ c, c < h.bn → ¬ WC c → h'.bs c = h.bs c) ∧
    (∀ t, t < h.pn → ¬ WT t → h'.ps t = h.ps t)

theorem Wr.refl (h : H) (WC WT : Nat → Prop) : Wr h h WC WT :=
  ⟨Nat.le_refl _, Nat.le_refl _, fun _ _ _ => rfl, fun _ _ _ => rfl⟩

theorem Wr.trans' {h h' h'' : H} {WC WT WC' WT' : Nat → Prop} (a : Wr h h' WC WT) (b : Wr h' h'' WC' WT')
    (hc : ∀ c, c < h.bn → WC' c → WC c) (ht : ∀ t, t < h.pn → WT' t → WT t) : Wr h h'' WC WT :=
  ⟨Nat.le_trans a.1 b.1, Nat.le_trans a.2.1 b.2.1,
   fun c h1 hw => by
    rw [b.2.2.1 c (Nat.lt_of_lt_of_le h1 a.1) (fun x => hw (hc c h1 x)), a.2.2.1 c h1 hw],
   fun t h1 hw => by
    rw [b.2.2.2 t (Nat.lt_of_lt_of_le h1 a.2.1) (fun x => hw (ht t h1 x)), a.2.2.2 t h1 hw]⟩

theorem Wr.trans {h h' h'' : H} {WC WT : Nat → Prop} (a : Wr h h' WC WT) (b : Wr h' h'' WC WT) : Wr h h'' WC WT :=
  a.trans' b (fun _ _ x => x) (fun _ _ x => x)

theorem Wr.mono {h h' : H} {WC WT WC' WT' : Nat → Prop} (a : Wr h h' WC WT) (hc : ∀ c, WC c → WC' c)
    (ht : ∀ t, WT t → WT' t) : Wr h h' WC' WT' :=
  ⟨a.1, a.2.1, fun c h1 h2 => a.2.2.1 c h1 (fun x => h2 (hc c x)), fun t h1 h2 => a.2.2.2 t h1 (fun x => h2 (ht t x))⟩

theorem wr_setB (h : H) (r : Nat) (c : B) (WT : Nat → Prop) : Wr h (h.setB r c) (· = r) WT :=
  ⟨Nat.le_refl _, Nat.le_refl _, fun x _ hx => by simp [H.setB] at hx ⊢; simp [hx], fun _ _ _ => rfl⟩

theorem wr_setP (h : H) (r : Nat) (v : P) (WC : Nat → Prop) : Wr h (h.setP r v) WC (· = r) :=
  ⟨Nat.le_refl _, Nat.le_refl _, fun _ _ _ => rfl, fun x _ hx => by simp [H.setP] at hx ⊢; simp [hx]⟩

theorem wr_allocB (h : H) (c : B) (WC WT : Nat → Prop) : Wr h (h.allocB c).1 WC WT :=
  ⟨Nat.le_succ _, Nat.le_refl _, fun x hx _ => by simp [H.allocB, Nat.ne_of_lt hx], fun _ _ _ => rfl⟩

theorem wr_allocP (h : H) (v : P) (WC WT : Nat → Prop) : Wr h (h.allocP v).1 WC WT :=
  ⟨Nat.le_refl _, Nat.le_succ _, fun _ _ _ => rfl, fun x hx _ => by simp [H.allocP, Nat.ne_of_lt hx]⟩

/-- `proto.Clone`: nothing that exists is written; the clone is the next brightness cell, reads like the original, and
its preset (if any) is a preset message allocated by the clone -/
theorem clone_spec (h : H) (c : Nat) (WC WT : Nat → Prop) :
    Wr h (clone h c).1 WC WT ∧ (clone h c).2 = h.bn ∧ (clone h c).1.bn = h.bn + 1 ∧
    (clone h c).1.pn ≤ h.pn + 1 ∧
    (∀ t, ((clone h c).1.bs h.bn).preset = some t → t = h.pn ∧ (clone h c).1.pn = h.pn + 1) ∧
    deep (clone h c).1 h.bn = deep h c := by
  unfold clone
  cases hr : (h.bs c).preset with
  | none =>
    refine ⟨wr_allocB _ _ _ _, rfl, rfl, Nat.le_succ _, ?_, ?_⟩
    · intro t ht; simp [H.allocB, hr] at ht
    · simp [deep, H.allocB, hr]
  | some t0 =>
    refine ⟨(wr_allocP h _ WC WT).trans (wr_allocB _ _ _ _), rfl, rfl, Nat.le_refl _, ?_, ?_⟩
    · intro t ht; simp [H.allocB, H.allocP] at ht; exact ⟨ht.symm, rfl⟩
    · simp [deep, H.allocB, H.allocP, hr]


/-- `proto.Merge(dst, src)`: below the allocation pointers only `dst` and `dst`'s OWN preset are written; the
preset `dst` has afterwards is the one it had or a preset message allocated by the merge -/
theorem protoMerge_spec (h : H) (dst src : Nat) :
    Wr h (protoMerge h dst src) (· = dst) (fun t => (h.bs dst).preset = some t) ∧
    (protoMerge h dst src).bn = h.bn ∧ (protoMerge h dst src).pn ≤ h.pn + 1 ∧
    (∀ t, ((protoMerge h dst src).bs dst).preset = some t →
      (h.bs dst).preset = some t ∨ (t = h.pn ∧ (protoMerge h dst src).pn = h.pn + 1)) := by
  simp only [protoMerge]
  split
  · refine ⟨wr_setB _ _ _ _, rfl, Nat.le_succ _, ?_⟩
    intro t ht; simp [H.setB] at ht; exact Or.inl ht
  · next t0 hs =>
    split
    · next hd =>
      refine ⟨(wr_allocP h _ _ _).trans (wr_setB _ _ _ _), rfl, Nat.le_refl _, ?_⟩
      intro t ht; simp [H.setB, H.allocP] at ht; exact Or.inr ⟨ht.symm, rfl⟩
    · next dt hd =>
      refine ⟨((wr_setP h dt _ (· = dst)).mono (fun _ x => x) (fun t x => by simp [x, hd])).trans (wr_setB _ _ _ _), rfl,
        Nat.le_succ _, ?_⟩
      intro t ht; simp [H.setB, H.setP, hd] at ht; exact Or.inl (by simp [ht, hd])


/-- the in-place filter of the source: writes `src` and, under a nested mask, the preset message `src` refers to -/
theorem filterSrc_spec (m : Mask) (h : H) (src : Nat) :
    Wr h (filterSrc m h src) (· = src) (fun p => (h.bs src).preset = some p) ∧
    (filterSrc m h src).bn = h.bn ∧ (filterSrc m h src).pn = h.pn ∧
    (∀ c, c ≠ src → (filterSrc m h src).bs c = h.bs c) := by
  simp only [filterSrc]
  split
  · next n t p hm hp =>
    refine ⟨(wr_setB h src _ _).trans ((wr_setP _ p _ (· = src)).mono (fun _ x => x) (fun q x => by rw [x]; exact hp)), rfl, rfl, ?_⟩
    intro c hc; simp [H.setB, H.setP, hc]
  · refine ⟨wr_setB h src _ _, rfl, rfl, ?_⟩
    intro c hc; simp [H.setB, hc]

/-- `pruneEmpty`: writes `dst` and `dst`'s own preset message; `dst` gets no new reference -/
theorem pruneEmpty_spec (m : Mask) (h : H) (dst src : Nat) :
    Wr h (pruneEmpty m h dst src) (· = dst) (fun p => (h.bs dst).preset = some p) ∧
    (pruneEmpty m h dst src).bn = h.bn ∧ (pruneEmpty m h dst src).pn = h.pn ∧
    (∀ p, ((pruneEmpty m h dst src).bs dst).preset = some p → (h.bs dst).preset = some p) := by
  simp only [pruneEmpty]
  split
  · next hd =>
    refine ⟨wr_setB h dst _ _, rfl, rfl, ?_⟩
    intro p hp; simp [H.setB] at hp; exact hp
  · next dp hd =>
    split
    · refine ⟨wr_setB h dst _ _, rfl, rfl, ?_⟩
      intro p hp; simp [H.setB] at hp; exact hp
    · split
      · refine ⟨(wr_setB h dst _ _).trans (wr_setB _ dst _ _), rfl, rfl, ?_⟩
        intro p hp; simp [H.setB] at hp
      · refine ⟨wr_setB h dst _ _, rfl, rfl, ?_⟩
        intro p hp; simp [H.setB] at hp; exact hp
    · next n t =>
      split
      · refine ⟨(wr_setB h dst _ _).trans ((wr_setP _ dp _ (· = dst)).mono (fun _ x => x) (fun q x => by rw [x]; exact hd)), rfl, rfl, ?_⟩
        intro p hp; simp [H.setB, H.setP] at hp; exact hp
      · refine ⟨(wr_setB h dst _ _).trans ((wr_setP _ dp _ (· = dst)).mono (fun _ x => x) (fun q x => by rw [x]; exact hd)), rfl, rfl, ?_⟩
        intro p hp; simp [H.setB, H.setP] at hp; exact hp

/-- `FieldUpdater.Merge(dst, src)` for every update mask, nested ones included: below the allocation pointers only
`dst`, `src`, `dst`'s own preset message and the preset message `src` refers to are written -/
theorem merge_spec (u : Option Mask) (h : H) (dst src : Nat) (hne : dst ≠ src) :
    Wr h (merge u h dst src) (fun c => c = dst ∨ c = src)
      (fun p => (h.bs dst).preset = some p ∨ (h.bs src).preset = some p) ∧
    (merge u h dst src).bn = h.bn ∧ (merge u h dst src).pn ≤ h.pn + 1 ∧
    (∀ p, ((merge u h dst src).bs dst).preset = some p →
      (h.bs dst).preset = some p ∨ (p = h.pn ∧ (merge u h dst src).pn = h.pn + 1)) := by
  cases u with
  | none =>
    simp only [merge]
    have pm := protoMerge_spec (h.setB dst ⟨0, none⟩) dst src
    have hd0 : ((h.setB dst ⟨0, none⟩).bs dst).preset = none := by simp [H.setB]
    refine ⟨?_, pm.2.1, pm.2.2.1, ?_⟩
    · refine ((wr_setB h dst _ _).mono (fun _ x => Or.inl x) (fun _ x => x)).trans' pm.1 (fun _ _ x => Or.inl x) ?_
      intro t _ x; rw [hd0] at x; simp at x
    · intro p hp
      rcases pm.2.2.2 p hp with h1 | h1
      · rw [hd0] at h1; simp at h1
      · exact Or.inr h1
  | some m =>
    simp only [merge]
    by_cases hme : m.isEmpty = true
    · rw [if_pos hme]; exact ⟨Wr.refl _ _ _, rfl, Nat.le_succ _, fun p hp => Or.inl hp⟩
    · rw [if_neg hme]
      have fs := filterSrc_spec m h src
      have h1dst : (filterSrc m h src).bs dst = h.bs dst := fs.2.2.2 dst hne
      have pm := protoMerge_spec (filterSrc m h src) dst src
      have pe := pruneEmpty_spec m (protoMerge (filterSrc m h src) dst src) dst src
      have hpn1 : (filterSrc m h src).pn = h.pn := fs.2.2.1
      have w1 : Wr h (protoMerge (filterSrc m h src) dst src) (fun c => c = dst ∨ c = src)
          (fun p => (h.bs dst).preset = some p ∨ (h.bs src).preset = some p) := by
        refine (fs.1.mono (fun _ x => Or.inr x) (fun _ x => Or.inr x)).trans' pm.1 (fun _ _ x => Or.inl x) ?_
        intro t _ x; rw [h1dst] at x; exact Or.inl x
      refine ⟨?_, by rw [pe.2.1, pm.2.1, fs.2.1], by rw [pe.2.2.1]; rw [← hpn1]; exact pm.2.2.1, ?_⟩
      · refine w1.trans' pe.1 (fun _ _ x => Or.inl x) ?_
        intro t ht x
        rcases pm.2.2.2 t x with h2 | h2
        · rw [h1dst] at h2; exact Or.inl h2
        · rw [hpn1] at h2; exact absurd h2.1 (Nat.ne_of_lt ht)
      · intro p hp
        have h2 := pe.2.2.2 p hp
        rcases pm.2.2.2 p h2 with h3 | h3
        · rw [h1dst] at h3; exact Or.inl h3
        · rw [hpn1] at h3; exact Or.inr ⟨h3.1, by rw [pe.2.2.1]; exact h3.2⟩

/-- `Value.Set` for every update mask: of what existed only `src` and the preset message `src` refers to are written;
the new value is the next brightness cell and its preset (if any) a message allocated by the call -/
theorem valueSet_spec (u : Option Mask) (h : H) (old src : Nat) (hsrc : src < h.bn) :
    Wr h (valueSet u h old src).1 (· = src) (fun p => (h.bs src).preset = some p) ∧
    (valueSet u h old src).2 = h.bn ∧ (valueSet u h old src).1.bn = h.bn + 1 ∧
    (∀ p, ((valueSet u h old src).1.bs h.bn).preset = some p → h.pn ≤ p) := by
  have cl := clone_spec h old (· = src) (fun p => (h.bs src).preset = some p)
  have hne : h.bn ≠ src := Ne.symm (Nat.ne_of_lt hsrc)
  have hv : valueSet u h old src = (merge u (clone h old).1 h.bn src, h.bn) := by
    simp only [valueSet, cl.2.1]
  have ms := merge_spec u (clone h old).1 h.bn src hne
  have hsrcSame : (clone h old).1.bs src = h.bs src :=
    (clone_spec h old (fun _ => False) (fun _ => False)).1.2.2.1 src hsrc (fun y => y)
  rw [hv]
  refine ⟨?_, rfl, by show (merge u (clone h old).1 h.bn src).bn = _; rw [ms.2.1, cl.2.2.1], ?_⟩
  · refine cl.1.trans' ms.1 ?_ ?_
    · intro c hc hx
      rcases hx with hx | hx
      · exact absurd hx (Nat.ne_of_lt hc)
      · exact hx
    · intro t ht hx
      rcases hx with hx | hx
      · exact absurd (cl.2.2.2.2.1 t hx).1 (Nat.ne_of_lt ht)
      · rw [hsrcSame] at hx; exact hx
  · intro p hp
    have hp' : ((merge u (clone h old).1 h.bn src).bs h.bn).preset = some p := hp
    rcases ms.2.2.2 p hp' with h1 | h1
    · rw [(cl.2.2.2.2.1 p h1).1]; exact Nat.le_refl _
    · rw [h1.1]; exact cl.1.2.1

/-- `setLevelFromPreset`: of what existed only the caller's brightness is written; when a preset is selected the
caller's message refers to a preset message allocated by the call -/
theorem setLevel_spec (h : H) (table : Table) (b : Nat) :
    Wr h (setLevel h table b).1 (· = b) (fun _ => False) ∧ (setLevel h table b).1.bn = h.bn ∧
    ((setLevel h table b).2 = false → (setLevel h table b).1 = h) ∧
    ((setLevel h table b).2 = true →
      ((setLevel h table b).1.bs b).preset = some h.pn ∧ (setLevel h table b).1.pn = h.pn + 1) := by
  simp only [setLevel]
  split
  · exact ⟨Wr.refl _ _ _, rfl, fun _ => rfl, fun x => by simp at x⟩
  · split
    · exact ⟨Wr.refl _ _ _, rfl, fun _ => rfl, fun x => by simp at x⟩
    · refine ⟨(wr_allocP h _ _ _).trans (wr_setB _ b _ _), rfl, fun x => by simp at x, fun _ => ⟨by simp [H.setB], rfl⟩⟩

/-- the state of the witness: the stored brightness 0 (level 10, no preset), the caller's brightness 1 naming preset
"n1" (its own preset message 1), the configured preset "n1" / "T1" at level 40 (preset message 0) -/
def exH : H :=
  { bs := fun x => if x = 1 then ⟨0, some 1⟩ else ⟨10, none⟩, bn := 2,
    ps := fun x => if x = 0 then ⟨"n1", "T1"⟩ else ⟨"n1", ""⟩, pn := 2 }

end ScVerif.C07.Rim7
