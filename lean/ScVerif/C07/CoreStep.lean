import ScVerif.C07.CoreLemmas
/-!
Every operation of the model is a good extension: `Ext` with its declared write set, and everything
it newly publishes is fresh or was held by the store.
-/
namespace ScVerif.C07

variable {M Mask : Type}

/-- a good extension with write set `W` -/
def Good (s s' : St M Mask) (W : List Ref) : Prop :=
  ∃ P, Ext s s' W P ∧ ∀ r, r ∈ P → Stored s r ∨ (s.next ≤ r ∧ r < s'.next)

theorem Good.refl (s : St M Mask) (W : List Ref) : Good s s W :=
  ⟨[], (Ext.refl s).mono (fun _ h => by simp at h) (fun _ h => h), fun _ h => by simp at h⟩

theorem Good.inv {s s' : St M Mask} {W : List Ref} (g : Good s s' W) (hi : Inv s) : Inv s' := by
  obtain ⟨P, e, hP⟩ := g
  exact e.inv hi hP

theorem Good.published_same {s s' : St M Mask} {W : List Ref} (g : Good s s' W) (hi : Inv s)
    (hW : ∀ r, r ∈ W → r ∈ s.owned) (r : Ref) (hr : r ∈ s.pub) : s'.heap r = s.heap r ∧ r ∈ s'.pub := by
  obtain ⟨P, e, _⟩ := g
  exact ⟨e.published_same hi hW r hr, e.pub_old r hr⟩

/-- changing only the subscriber lists is invisible to `Ext` -/
theorem Ext.subs {s s' : St M Mask} {W P : List Ref} (e : Ext s s' W P) (vs cs : List (Sub Mask)) :
    Ext s { s' with vsubs := vs, csubs := cs } W P :=
  ⟨e.next_le, e.frame, e.pub_old, e.pub_new, e.owned_eq, e.stored_new, e.writable_eq⟩

/-- the write phase of Set/Update: heap replaced, `dst` published and stored -/
theorem ext_write {s s1 : St M Mask} {src dst : Ref}
    (hd : s.next ≤ dst ∧ dst < s1.next)
    (hframe : ∀ r, r < s.next → r ≠ src → s1.heap r = s.heap r)
    (hpub : s1.pub = s.pub ++ [dst]) (hown : s1.owned = s.owned) (hw : s1.writable = s.writable)
    (hst : ∀ r, Stored s1 r → Stored s r ∨ r = dst) : Ext s s1 [src] [] where
  next_le := Nat.le_of_lt (Nat.lt_of_le_of_lt hd.1 hd.2)
  frame r hr hn := hframe r hr (by simpa using hn)
  pub_old r h := by rw [hpub]; exact List.mem_append.mpr (Or.inl h)
  pub_new r h := by
    rw [hpub] at h
    rcases List.mem_append.mp h with h | h
    · exact Or.inl h
    · simp at h; subst h; exact Or.inr (Or.inl hd)
  owned_eq := hown
  stored_new r h := by
    rcases hst r h with h | h
    · exact Or.inl h
    · subst h; exact Or.inr ⟨hd.1, hd.2, by rw [hpub]; simp⟩
  writable_eq := hw

/-- allocation of private cells only: nothing published, nothing stored -/
theorem ext_alloc {s s0 : St M Mask}
    (hn : s.next ≤ s0.next) (hframe : ∀ r, r < s.next → s0.heap r = s.heap r)
    (hpub : s0.pub = s.pub) (hown : s0.owned = s.owned) (hw : s0.writable = s.writable)
    (hv : s0.val = s.val) (hc : s0.coll = s.coll) : Ext s s0 [] [] where
  next_le := hn
  frame r hr _ := hframe r hr
  pub_old r h := by rw [hpub]; exact h
  pub_new r h := by rw [hpub] at h; exact Or.inl h
  owned_eq := hown
  stored_new r h := by
    left
    unfold Stored at h ⊢
    rw [hv, hc] at h
    exact h
  writable_eq := hw

theorem good_of_write_emit {s s1 s2 : St M Mask} {src : Ref} {P : List Ref}
    (a : Ext s s1 [src] []) (b : Ext s1 s2 [] P)
    (hP : ∀ r, r ∈ P → Stored s r ∨ (s.next ≤ r ∧ r < s1.next)) : Good s s2 [src] := by
  refine ⟨[] ++ P, (a.trans b).mono (fun _ h => by simpa using h) (fun _ h => h), ?_⟩
  intro r hr
  simp at hr
  rcases hP r hr with h | h
  · exact Or.inl h
  · exact Or.inr ⟨h.1, Nat.lt_of_lt_of_le h.2 b.next_le⟩

/-- the end of a write is a good extension, given what the earlier phases guarantee -/
theorem commit_good (F : Funs M Mask) {s s0 : St M Mask} (target : Option Nat) (tag : String) (oldEv : Option Ref)
    (dst src : Ref) (res : Heap M × Option Err)
    (hd : s.next ≤ dst ∧ dst < s0.next)
    (hpub : s0.pub = s.pub) (hown : s0.owned = s.owned) (hw : s0.writable = s.writable)
    (hv : s0.val = s.val) (hc : s0.coll = s.coll)
    (hf0 : ∀ r, r < s.next → s0.heap r = s.heap r)
    (hfr : ∀ r, r < s.next → r ≠ src → res.1 r = s.heap r)
    (hold : ∀ r, r ∈ oldEv.toList → Stored s r) :
    Good s (commit F s0 target tag oldEv dst res).1 [src] := by
  have hn : s.next ≤ s0.next := Nat.le_of_lt (Nat.lt_of_le_of_lt hd.1 hd.2)
  unfold commit
  cases hres : res.2 with
  | some e =>
    exact ⟨[], (ext_alloc hn hf0 hpub hown hw hv hc).mono (fun _ h => by simp at h) (fun _ h => h), fun _ h => by simp at h⟩
  | none =>
    simp only []
    cases target with
    | none =>
      simp only []
      generalize hs1 : ({ s0 with heap := res.1, val := some dst, pub := s0.pub ++ [dst] } : St M Mask) = s1
      have a : Ext s s1 [src] [] := by
        apply ext_write (dst := dst)
        · rw [← hs1]; exact hd
        · intro r hr hne; rw [← hs1]; exact hfr r hr hne
        · rw [← hs1]; simp [hpub]
        · rw [← hs1]; exact hown
        · rw [← hs1]; exact hw
        · intro r hst
          rw [← hs1] at hst
          rcases hst with hst | ⟨k, hst⟩
          · simp at hst; exact Or.inr hst.symm
          · simp only [hc] at hst; exact Or.inl (Or.inr ⟨k, hst⟩)
      have b := emit_ext F tag oldEv (some dst) s0.vsubs s1
      have hs1n : s1.next = s0.next := by rw [← hs1]
      refine good_of_write_emit a b ?_
      intro r hr
      rcases List.mem_append.mp hr with hr | hr
      · exact Or.inl (hold r hr)
      · simp at hr; subst hr; exact Or.inr ⟨hd.1, by rw [hs1n]; exact hd.2⟩
    | some id =>
      simp only []
      generalize hs1 : ({ s0 with heap := res.1, coll := insertSorted id dst s0.coll, pub := s0.pub ++ [dst] } : St M Mask) = s1
      have a : Ext s s1 [src] [] := by
        apply ext_write (dst := dst)
        · rw [← hs1]; exact hd
        · intro r hr hne; rw [← hs1]; exact hfr r hr hne
        · rw [← hs1]; simp [hpub]
        · rw [← hs1]; exact hown
        · rw [← hs1]; exact hw
        · intro r hst
          rw [← hs1] at hst
          rcases hst with hst | ⟨k, hst⟩
          · simp only [hv] at hst; exact Or.inl (Or.inl hst)
          · simp only [hc] at hst
            rcases mem_insertSorted hst with h' | h'
            · simp at h'; exact Or.inr h'.2
            · exact Or.inl (Or.inr ⟨k, h'⟩)
      have b := ((emit_ext F tag oldEv (some dst) (s0.csubs.filter isWide) s1).trans
        (emitOnly_ext F id dst s0.csubs _)).mono (W' := []) (fun _ h => by simp at h) (fun _ h => h)
      have hs1n : s1.next = s0.next := by rw [← hs1]
      refine good_of_write_emit a b ?_
      intro r hr
      rcases List.mem_append.mp hr with hr | hr
      · rcases List.mem_append.mp hr with hr | hr
        · exact Or.inl (hold r hr)
        · simp at hr; subst hr; exact Or.inr ⟨hd.1, by rw [hs1n]; exact hd.2⟩
      · simp at hr; subst hr; exact Or.inr ⟨hd.1, by rw [hs1n]; exact hd.2⟩

theorem vset_good (F : Funs M Mask) (s : St M Mask) (i : Nat) (o : WOpts M Mask) (hp : o.Pure) :
    Good s (vset F s i o).1 (s.owned[i]?).toList := by
  unfold vset
  cases hsrc : s.owned[i]? with
  | none => exact Good.refl s _
  | some src =>
    simp only []
    cases hv : F.validate s.writable o.umask (s.heap src) with
    | some e => exact Good.refl s _
    | none =>
      simp only []
      have hf0 : ∀ (m : M) r, r < s.next → (s.alloc m).heap r = s.heap r := by
        intro m r hr; simp [St.alloc, Heap.set, Nat.ne_of_lt hr]
      apply commit_good (s := s) (s0 := s.alloc _) F none "V" none s.next src _ (by simp [St.alloc]) rfl rfl rfl rfl rfl (hf0 _)
      · intro r hr hne
        rw [change_frame F _ s.val s.next src o hp r (Nat.ne_of_lt hr) hne]
        exact hf0 _ r hr
      · intro r hr; simp at hr

theorem cupd_good (F : Funs M Mask) (s : St M Mask) (id i : Nat) (o : WOpts M Mask) (hp : o.Pure) :
    Good s (cupd F s id i o).1 (s.owned[i]?).toList := by
  unfold cupd
  cases hsrc : s.owned[i]? with
  | none => exact Good.refl s _
  | some src =>
    simp only []
    cases hv : F.validate s.writable o.umask (s.heap src) with
    | some e => exact Good.refl s _
    | none =>
      simp only []
      cases hl : lookup s.coll id with
      | some old =>
        simp only []
        split
        · exact Good.refl s _
        · have hf0 : ∀ r, r < s.next → (s.alloc (s.heap old)).heap r = s.heap r := by
            intro r hr; simp [St.alloc, Heap.set, Nat.ne_of_lt hr]
          apply commit_good (s := s) (s0 := s.alloc _) F (some id) "U" (some old) s.next src _ (by simp [St.alloc]) rfl rfl rfl rfl rfl hf0
          · intro r hr hne
            rw [change_frame F _ (some old) s.next src o hp r (Nat.ne_of_lt hr) hne]
            exact hf0 r hr
          · intro r hr; simp at hr; subst hr; exact Or.inr ⟨id, lookup_mem hl⟩
      | none =>
        simp only []
        split
        · exact Good.refl s _
        · have hf0 : ∀ r, r < s.next → ((s.alloc F.zero).alloc F.zero).heap r = s.heap r := by
            intro r hr
            have h1 : r ≠ s.next := Nat.ne_of_lt hr
            have h2 : r ≠ s.next + 1 := Nat.ne_of_lt (Nat.lt_succ_of_lt hr)
            simp [St.alloc, Heap.set, h1, h2]
          apply commit_good (s := s) (s0 := (s.alloc _).alloc _) F (some id) "A" none (s.next + 1) src _ (by simp [St.alloc]) rfl rfl rfl rfl rfl hf0
          · intro r hr hne
            rw [change_frame F _ (some s.next) (s.next + 1) src o hp r (Nat.ne_of_lt (Nat.lt_succ_of_lt hr)) hne]
            exact hf0 r hr
          · intro r hr; simp at hr

/-- publishing a stored reference (Delete's result) -/
theorem ext_publish_stored (s : St M Mask) (old : Ref) : Ext s { s with pub := s.pub ++ [old] } [] [old] where
  next_le := Nat.le_refl _
  frame _ _ _ := rfl
  pub_old r h := List.mem_append.mpr (Or.inl h)
  pub_new r h := by
    rcases List.mem_append.mp h with h | h
    · exact Or.inl h
    · exact Or.inr (Or.inr h)
  owned_eq := rfl
  stored_new _ h := Or.inl h
  writable_eq := rfl

theorem cdel_good (F : Funs M Mask) (s : St M Mask) (id : Nat) (o : WOpts M Mask) :
    Good s (cdel F s id o).1 [] := by
  unfold cdel
  cases hl : lookup s.coll id with
  | none => simp only []; split <;> exact Good.refl s _
  | some old =>
    have hold : Stored s old := Or.inr ⟨id, lookup_mem hl⟩
    simp only []
    cases hdc : delCheck F o (s.heap old) with
    | some e => exact ⟨[old], ext_publish_stored s old, fun r hr => by simp at hr; subst hr; exact Or.inl hold⟩
    | none =>
      simp only []
      generalize hs1 : ({ s with coll := erase id s.coll, pub := s.pub ++ [old] } : St M Mask) = s1
      have a : Ext s s1 [] [old] := by
        rw [← hs1]
        refine ⟨Nat.le_refl _, fun _ _ _ => rfl, fun r h => List.mem_append.mpr (Or.inl h), ?_, rfl, ?_, rfl⟩
        · intro r h
          rcases List.mem_append.mp h with h | h
          · exact Or.inl h
          · exact Or.inr (Or.inr h)
        · intro r h
          rcases h with h | ⟨k, h⟩
          · exact Or.inl (Or.inl h)
          · exact Or.inl (Or.inr ⟨k, mem_erase h⟩)
      have b := emit_ext F "R" (some old) none (s.csubs.filter isWide) s1
      refine ⟨[old] ++ ((some old).toList ++ (none : Option Ref).toList), ((a.trans b).subs _ _).mono (fun _ h => by simp at h) (fun _ h => h), ?_⟩
      intro r hr
      simp at hr
      subst hr
      exact Or.inl hold

theorem deliverList_good (F : Funs M Mask) (mask : Option Mask) (s : St M Mask) :
    Good s (deliverList F mask s (s.coll.map (·.2))).1 [] :=
  ⟨_, deliverList_ext F mask _ s, fun r hr => by
    simp at hr
    obtain ⟨k, hk⟩ := hr
    exact Or.inl (Or.inr ⟨k, hk⟩)⟩

/-- Every operation except the caller's own `alloc` is a good extension with its declared write set. -/
theorem step_good (F : Funs M Mask) (s : St M Mask) (op : Op M Mask) (hp : op.Pure)
    (hna : ∀ m, op ≠ .alloc m) : Good s (step F s op).1 (writeSet s op) := by
  cases op with
  | alloc m => exact absurd rfl (hna m)
  | mutate i m =>
    simp only [step, writeSet]
    cases hsrc : s.owned[i]? with
    | none => exact Good.refl s _
    | some r =>
      refine ⟨[], ⟨Nat.le_refl _, ?_, fun _ h => h, fun _ h => Or.inl h, rfl, fun _ h => Or.inl h, rfl⟩, fun _ h => by simp at h⟩
      intro x _ hx
      have : x ≠ r := by simpa using hx
      simp [Heap.set, this]
  | vset i o => exact vset_good F s i o hp
  | vget mask =>
    simp only [step, writeSet]
    exact ⟨_, deliver_ext F mask s s.val, fun r hr => by
      cases hv : s.val with
      | none => simp [hv] at hr
      | some v => simp [hv] at hr; subst hr; exact Or.inl (Or.inl hv)⟩
  | vpull mask uo =>
    simp only [step, writeSet]
    cases uo with
    | true => exact ⟨[], (Ext.refl s).subs _ _, fun _ h => by simp at h⟩
    | false =>
      refine ⟨_, (deliver_ext F mask s s.val).subs _ _, fun r hr => ?_⟩
      cases hv : s.val with
      | none => simp [hv] at hr
      | some v => simp [hv] at hr; subst hr; exact Or.inl (Or.inl hv)
  | vclose i => exact ⟨[], (Ext.refl s).subs _ _, fun _ h => by simp at h⟩
  | cupd id i o => exact cupd_good F s (s.idmap id) i o hp
  | cdel id o => exact cdel_good F s (s.idmap id) o
  | cget id mask =>
    simp only [step, writeSet]
    cases hl : lookup s.coll (s.idmap id) with
    | none => exact Good.refl s _
    | some r =>
      exact ⟨_, deliver_ext F mask s (some r), fun x hx => by
        simp at hx; subst hx; exact Or.inl (Or.inr ⟨s.idmap id, lookup_mem hl⟩)⟩
  | clist mask => exact deliverList_good F mask s
  | cpull mask uo =>
    simp only [step, writeSet]
    cases uo with
    | true => exact ⟨[], (Ext.refl s).subs _ _, fun _ h => by simp at h⟩
    | false =>
      obtain ⟨P, e, hP⟩ := deliverList_good F mask s
      exact ⟨P, e.subs _ _, hP⟩
  | cpullid id mask uo =>
    simp only [step, writeSet]
    cases uo with
    | true => exact ⟨[], (Ext.refl s).subs _ _, fun _ h => by simp at h⟩
    | false =>
      refine ⟨_, (deliver_ext F mask s (lookup s.coll (s.idmap id))).subs _ _, fun r hr => ?_⟩
      cases hl : lookup s.coll (s.idmap id) with
      | none => simp [hl] at hr
      | some v => simp [hl] at hr; subst hr; exact Or.inl (Or.inr ⟨s.idmap id, lookup_mem hl⟩)
  | cclose i => exact ⟨[], (Ext.refl s).subs _ _, fun _ h => by simp at h⟩

theorem writeSet_owned (s : St M Mask) (op : Op M Mask) : ∀ r, r ∈ writeSet s op → r ∈ s.owned := by
  intro r hr
  cases op <;> simp [writeSet] at hr
  all_goals
    rename_i i _
    first
      | (cases h : s.owned[i]? with
         | none => simp [h] at hr
         | some x => simp [h] at hr; subst hr; exact List.mem_of_getElem? h)
      | skip

/-! ### what an answer shows has been published -/

theorem commit_items (F : Funs M Mask) (s0 : St M Mask) (target : Option Nat) (tag : String) (oldEv : Option Ref)
    (dst : Ref) (res : Heap M × Option Err) (x : Ref)
    (h : Item.msg x ∈ (commit F s0 target tag oldEv dst res).2.items) :
    x ∈ (commit F s0 target tag oldEv dst res).1.pub := by
  unfold commit at h ⊢
  cases hres : res.2 with
  | some e => simp [hres, Ans.fail] at h
  | none =>
    simp only [hres, Ans.ok, List.mem_cons, List.mem_append] at h ⊢
    rcases h with h | h | h
    · cases h
      apply (emitOnly_ext F _ dst _ _).pub_old
      apply (emit_ext F tag oldEv (some dst) _ _).pub_old
      cases target <;> simp
    · exact (emitOnly_ext F _ dst _ _).pub_old x (emit_items F tag oldEv (some dst) _ _ x h)
    · exact emitOnly_items F _ dst _ _ x h

theorem cupd_items (F : Funs M Mask) (s : St M Mask) (id i : Nat) (o : WOpts M Mask) (x : Ref)
    (h : Item.msg x ∈ (cupd F s id i o).2.items) : x ∈ (cupd F s id i o).1.pub := by
  simp only [cupd] at h ⊢
  cases hsrc : s.owned[i]? with
  | none => simp [hsrc, Ans.malformed] at h
  | some src =>
    simp only [hsrc] at h ⊢
    cases hv : F.validate s.writable o.umask (s.heap src) with
    | some e => simp [hv, Ans.fail] at h
    | none =>
      simp only [hv] at h ⊢
      cases hl : lookup s.coll id with
      | some old =>
        simp only [hl] at h ⊢
        cases hx : o.expectAbsent with
        | true => simp [hx, Ans.fail] at h
        | false =>
          simp only [hx, Bool.false_eq_true, if_false] at h ⊢
          exact commit_items F _ _ _ _ _ _ x h
      | none =>
        simp only [hl] at h ⊢
        cases hx : o.createIfAbsent with
        | false => simp [hx, Ans.fail] at h
        | true =>
          simp only [hx, Bool.not_true, Bool.false_eq_true, if_false] at h ⊢
          exact commit_items F _ _ _ _ _ _ x h

theorem cdel_items (F : Funs M Mask) (s : St M Mask) (id : Nat) (o : WOpts M Mask) (x : Ref)
    (h : Item.msg x ∈ (cdel F s id o).2.items) : x ∈ (cdel F s id o).1.pub := by
  simp only [cdel] at h ⊢
  cases hl : lookup s.coll id with
  | none =>
    simp only [hl] at h
    split at h <;> simp [Ans.ok, Ans.fail] at h
  | some old =>
    simp only [hl] at h ⊢
    cases hdc : delCheck F o (s.heap old) with
    | some e => simp [hdc] at h ⊢; exact Or.inr h
    | none =>
      simp only [hdc, Ans.ok, List.mem_cons] at h ⊢
      rcases h with h | h
      · cases h
        apply (emit_ext F "R" (some _) none _ _).pub_old
        simp
      · exact emit_items F "R" (some _) none _ _ x h

theorem step_items (F : Funs M Mask) (s : St M Mask) (op : Op M Mask) (x : Ref)
    (h : Item.msg x ∈ (step F s op).2.items) : x ∈ (step F s op).1.pub := by
  cases op with
  | alloc m => simp [step, Ans.ok] at h
  | mutate i m =>
    simp only [step] at h
    split at h <;> simp [Ans.ok, Ans.malformed] at h
  | vset i o =>
    simp only [step, vset] at h ⊢
    cases hsrc : s.owned[i]? with
    | none => simp [hsrc, Ans.malformed] at h
    | some src =>
      simp only [hsrc] at h ⊢
      cases hv : F.validate s.writable o.umask (s.heap src) with
      | some e => simp [hv, Ans.fail] at h
      | none =>
        simp only [hv] at h ⊢
        exact commit_items F _ _ _ _ _ _ x h
  | vget mask =>
    simp only [step, Ans.ok, List.mem_singleton] at h ⊢
    exact deliver_item F mask s s.val x h.symm
  | vpull mask uo =>
    cases uo with
    | true => simp [step, Ans.ok] at h
    | false =>
      simp only [step, Ans.ok, List.mem_singleton] at h ⊢
      exact deliver_item F mask s s.val x (by simpa using h.symm)
  | vclose i => simp [step, Ans.ok] at h
  | cupd id i o => exact cupd_items F s (s.idmap id) i o x h
  | cdel id o => exact cdel_items F s (s.idmap id) o x h
  | cget id mask =>
    simp only [step] at h ⊢
    split at h
    · simp [Ans.ok] at h
    · rename_i hl
      simp only [Ans.ok, List.mem_singleton] at h
      exact deliver_item F mask s (some _) x h.symm
  | clist mask =>
    simp only [step, Ans.ok] at h ⊢
    exact deliverList_items F mask _ s x h
  | cpull mask uo =>
    cases uo with
    | true => simp [step, Ans.ok] at h
    | false =>
      simp only [step, Ans.ok] at h ⊢
      exact deliverList_items F mask _ s x (by simpa using h)
  | cpullid id mask uo =>
    cases uo with
    | true => simp [step, Ans.ok] at h
    | false =>
      simp only [step, Ans.ok, List.mem_singleton] at h ⊢
      exact deliver_item F mask s _ x (by simpa using h.symm)
  | cclose i => simp [step, Ans.ok] at h

/-- one step keeps the invariant and leaves every published message where and as it was -/
theorem step_published (F : Funs M Mask) (s : St M Mask) (op : Op M Mask) (hi : Inv s) (hp : op.Pure) :
    Inv (step F s op).1 ∧ ∀ r, r ∈ s.pub → (step F s op).1.heap r = s.heap r ∧ r ∈ (step F s op).1.pub := by
  by_cases ha : ∃ m, op = .alloc m
  · obtain ⟨m, rfl⟩ := ha
    refine ⟨⟨?_, ?_, ?_⟩, ?_⟩
    · intro r hr; exact Nat.lt_succ_of_lt (hi.pub_lt r hr)
    · intro r hr
      simp only [step] at hr
      rcases List.mem_append.mp hr with hr | hr
      · exact ⟨Nat.lt_succ_of_lt (hi.owned_ok r hr).1, (hi.owned_ok r hr).2⟩
      · simp at hr; subst hr
        exact ⟨Nat.lt_succ_self _, fun h => Nat.lt_irrefl _ (hi.pub_lt _ h)⟩
    · intro r hr; exact hi.stored_pub r hr
    · intro r hr
      exact ⟨by simp [step, Heap.set, Nat.ne_of_lt (hi.pub_lt r hr)], hr⟩
  · have hna : ∀ m, op ≠ .alloc m := fun m h => ha ⟨m, h⟩
    have g := step_good F s op hp hna
    exact ⟨g.inv hi, fun r hr => g.published_same hi (writeSet_owned s op) r hr⟩

theorem run_published (F : Funs M Mask) (ops : List (Op M Mask)) :
    ∀ s : St M Mask, Inv s → (∀ op, op ∈ ops → op.Pure) →
      ∀ r, r ∈ s.pub → (run F s ops).heap r = s.heap r ∧ r ∈ (run F s ops).pub := by
  induction ops with
  | nil => intro s _ _ r hr; exact ⟨rfl, hr⟩
  | cons op ops ih =>
    intro s hi hp r hr
    have h1 := step_published F s op hi (hp op (List.mem_cons_self))
    have h2 := ih _ h1.1 (fun o ho => hp o (List.mem_cons_of_mem _ ho)) r (h1.2 r hr).2
    exact ⟨h2.1.trans (h1.2 r hr).1, h2.2⟩

theorem run_append (F : Funs M Mask) (a b : List (Op M Mask)) :
    ∀ s : St M Mask, run F s (a ++ b) = run F (run F s a) b := by
  induction a with
  | nil => intro s; rfl
  | cons op a ih => intro s; exact ih _

/-- read operations do not touch the store's shape -/
theorem read_store (F : Funs M Mask) (s : St M Mask) (op : Op M Mask) (hr : op.isRead = true) :
    (step F s op).1.val = s.val ∧ (step F s op).1.coll = s.coll := by
  cases op with
  | vget mask => exact ⟨(deliver_store F _ s s.val).1, (deliver_store F _ s s.val).2.1⟩
  | vpull mask uo =>
    cases uo with
    | true => exact ⟨rfl, rfl⟩
    | false => exact ⟨(deliver_store F _ s s.val).1, (deliver_store F _ s s.val).2.1⟩
  | cget id mask =>
    simp only [step]
    split
    · exact ⟨rfl, rfl⟩
    · exact ⟨(deliver_store F _ s _).1, (deliver_store F _ s _).2.1⟩
  | clist mask => exact ⟨(deliverList_store F _ _ s).1, (deliverList_store F _ _ s).2.1⟩
  | cpull mask uo =>
    cases uo with
    | true => exact ⟨rfl, rfl⟩
    | false => exact ⟨(deliverList_store F _ _ s).1, (deliverList_store F _ _ s).2.1⟩
  | cpullid id mask uo =>
    cases uo with
    | true => exact ⟨rfl, rfl⟩
    | false => exact ⟨(deliver_store F _ s _).1, (deliver_store F _ s _).2.1⟩
  | _ => simp [Op.isRead] at hr

/-- the driver's named interceptors keep the contract -/
theorem cbAdd_like_pure (f : Heap M → Option Ref → Ref → M) : OldPure (fun h o n => h.set n (f h o n)) := by
  intro h o n r hr
  simp [Heap.set, hr]


end ScVerif.C07
