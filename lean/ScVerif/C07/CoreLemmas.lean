import ScVerif.C07.Core
/-!
Lemmas for the heap model: every operation extends the state (`Ext`): it allocates upwards, writes
below the old allocation pointer only inside its declared write set, only adds to the published
list, and what it newly publishes is fresh or was held by the store.
-/
namespace ScVerif.C07

variable {M Mask : Type}

@[simp] theorem Heap.set_same (h : Heap M) (r : Ref) (m : M) : h.set r m r = m := by simp [Heap.set]

theorem Heap.set_ne (h : Heap M) {r x : Ref} (m : M) (hx : x ≠ r) : h.set r m x = h x := by
  simp [Heap.set, hx]

/-- `s'` extends `s`, writing below `s.next` only inside `W` and newly publishing only fresh refs or refs in `P`. -/
structure Ext (s s' : St M Mask) (W P : List Ref) : Prop where
  next_le : s.next ≤ s'.next
  frame : ∀ r, r < s.next → r ∉ W → s'.heap r = s.heap r
  pub_old : ∀ r, r ∈ s.pub → r ∈ s'.pub
  pub_new : ∀ r, r ∈ s'.pub → r ∈ s.pub ∨ (s.next ≤ r ∧ r < s'.next) ∨ r ∈ P
  owned_eq : s'.owned = s.owned
  stored_new : ∀ r, Stored s' r → Stored s r ∨ (s.next ≤ r ∧ r < s'.next ∧ r ∈ s'.pub)
  writable_eq : s'.writable = s.writable

theorem Ext.refl (s : St M Mask) : Ext s s [] [] :=
  ⟨Nat.le_refl _, fun _ _ _ => rfl, fun _ h => h, fun _ h => Or.inl h, rfl, fun _ h => Or.inl h, rfl⟩

theorem Ext.trans {s s1 s2 : St M Mask} {W1 P1 W2 P2 : List Ref}
    (a : Ext s s1 W1 P1) (b : Ext s1 s2 W2 P2) : Ext s s2 (W1 ++ W2) (P1 ++ P2) where
  next_le := Nat.le_trans a.next_le b.next_le
  frame r hr hw := by
    have h1 : r ∉ W1 := fun h => hw (List.mem_append.mpr (Or.inl h))
    have h2 : r ∉ W2 := fun h => hw (List.mem_append.mpr (Or.inr h))
    rw [b.frame r (Nat.lt_of_lt_of_le hr a.next_le) h2, a.frame r hr h1]
  pub_old r h := b.pub_old r (a.pub_old r h)
  pub_new r h := by
    rcases b.pub_new r h with h | h | h
    · rcases a.pub_new r h with h | h | h
      · exact Or.inl h
      · exact Or.inr (Or.inl ⟨h.1, Nat.lt_of_lt_of_le h.2 b.next_le⟩)
      · exact Or.inr (Or.inr (List.mem_append.mpr (Or.inl h)))
    · exact Or.inr (Or.inl ⟨Nat.le_trans a.next_le h.1, h.2⟩)
    · exact Or.inr (Or.inr (List.mem_append.mpr (Or.inr h)))
  owned_eq := by rw [b.owned_eq, a.owned_eq]
  stored_new r h := by
    rcases b.stored_new r h with h | h
    · rcases a.stored_new r h with h | h
      · exact Or.inl h
      · exact Or.inr ⟨h.1, Nat.lt_of_lt_of_le h.2.1 b.next_le, b.pub_old r h.2.2⟩
    · exact Or.inr ⟨Nat.le_trans a.next_le h.1, h.2.1, h.2.2⟩
  writable_eq := by rw [b.writable_eq, a.writable_eq]

theorem Ext.mono {s s' : St M Mask} {W P W' P' : List Ref} (a : Ext s s' W P)
    (hw : ∀ r, r ∈ W → r ∈ W') (hp : ∀ r, r ∈ P → r ∈ P') : Ext s s' W' P' :=
  { a with
    frame := fun r hr h => a.frame r hr (fun h' => h (hw r h'))
    pub_new := fun r h => by
      rcases a.pub_new r h with h | h | h
      · exact Or.inl h
      · exact Or.inr (Or.inl h)
      · exact Or.inr (Or.inr (hp r h)) }

/-! ### deliver / deliverList / emit -/

theorem deliver_ext (F : Funs M Mask) (mask : Option Mask) (s : St M Mask) (r : Option Ref) :
    Ext s (deliver F mask s r).1 [] r.toList := by
  cases r with
  | none => simpa [deliver] using Ext.refl s
  | some r =>
    cases mask with
    | none =>
      refine ⟨Nat.le_refl _, fun _ _ _ => rfl, ?_, ?_, rfl, ?_, rfl⟩
      · intro x hx; simp [deliver, hx]
      · intro x hx
        simp [deliver] at hx
        rcases hx with hx | hx
        · exact Or.inl hx
        · exact Or.inr (Or.inr (by simp [hx]))
      · intro x hx; exact Or.inl hx
    | some m =>
      refine ⟨by simp [deliver], ?_, ?_, ?_, rfl, ?_, rfl⟩
      · intro x hx _
        have : x ≠ s.next := Nat.ne_of_lt hx
        simp [deliver, Heap.set, this]
      · intro x hx; simp [deliver, hx]
      · intro x hx
        simp [deliver] at hx
        rcases hx with hx | hx
        · exact Or.inl hx
        · exact Or.inr (Or.inl (by simp [deliver, hx]))
      · intro x hx; exact Or.inl hx

theorem deliver_store (F : Funs M Mask) (mask : Option Mask) (s : St M Mask) (r : Option Ref) :
    (deliver F mask s r).1.val = s.val ∧ (deliver F mask s r).1.coll = s.coll ∧
    (deliver F mask s r).1.vsubs = s.vsubs ∧ (deliver F mask s r).1.csubs = s.csubs := by
  cases r <;> cases mask <;> simp [deliver]

/-- what `deliver` answers has crossed: it is in the published list afterwards -/
theorem deliver_item (F : Funs M Mask) (mask : Option Mask) (s : St M Mask) (r : Option Ref) (x : Ref)
    (h : (deliver F mask s r).2 = .msg x) : x ∈ (deliver F mask s r).1.pub := by
  cases r with
  | none => simp [deliver] at h
  | some r =>
    cases mask with
    | none => simp [deliver] at h ⊢; exact Or.inr h.symm
    | some m => simp [deliver] at h ⊢; exact Or.inr h.symm

theorem deliverList_ext (F : Funs M Mask) (mask : Option Mask) (rs : List Ref) :
    ∀ s : St M Mask, Ext s (deliverList F mask s rs).1 [] rs := by
  induction rs with
  | nil => intro s; simpa [deliverList] using Ext.refl s
  | cons r rs ih =>
    intro s
    have a := deliver_ext F mask s (some r)
    have b := ih (deliver F mask s (some r)).1
    have c := a.trans b
    simpa [deliverList] using c

theorem deliverList_store (F : Funs M Mask) (mask : Option Mask) (rs : List Ref) :
    ∀ s : St M Mask, (deliverList F mask s rs).1.val = s.val ∧ (deliverList F mask s rs).1.coll = s.coll ∧
      (deliverList F mask s rs).1.vsubs = s.vsubs ∧ (deliverList F mask s rs).1.csubs = s.csubs := by
  induction rs with
  | nil => intro s; simp [deliverList]
  | cons r rs ih =>
    intro s
    have a := deliver_store F mask s (some r)
    have b := ih (deliver F mask s (some r)).1
    simp only [deliverList]
    exact ⟨b.1.trans a.1, b.2.1.trans a.2.1, b.2.2.1.trans a.2.2.1, b.2.2.2.trans a.2.2.2⟩

theorem deliverList_items (F : Funs M Mask) (mask : Option Mask) (rs : List Ref) :
    ∀ (s : St M Mask) (x : Ref), Item.msg x ∈ (deliverList F mask s rs).2 → x ∈ (deliverList F mask s rs).1.pub := by
  induction rs with
  | nil => intro s x h; simp [deliverList] at h
  | cons r rs ih =>
    intro s x h
    simp only [deliverList, List.mem_cons] at h ⊢
    rcases h with h | h
    · exact (deliverList_ext F mask rs _).pub_old x (deliver_item F mask s (some r) x h.symm)
    · exact ih _ x h

theorem emit_ext (F : Funs M Mask) (tag : String) (old new : Option Ref) (subs : List (Sub Mask)) :
    ∀ s : St M Mask, Ext s (emit F tag old new s subs).1 [] (old.toList ++ new.toList) := by
  induction subs with
  | nil => intro s; exact (Ext.refl s).mono (fun _ h => h) (fun _ h => by simp at h)
  | cons sub rest ih =>
    intro s
    by_cases hl : sub.live
    · have a := deliver_ext F sub.mask s old
      have b := deliver_ext F sub.mask (deliver F sub.mask s old).1 new
      have c := ih (deliver F sub.mask (deliver F sub.mask s old).1 new).1
      have d := (a.trans b).trans c
      simp only [emit, hl, if_true]
      refine d.mono (fun _ h => by simp at h) (fun r h => ?_)
      simp only [List.mem_append] at h ⊢
      rcases h with (h | h) | h | h
      · exact Or.inl h
      · exact Or.inr h
      · exact Or.inl h
      · exact Or.inr h
    · simp only [emit, hl]
      exact ih s

theorem emit_store (F : Funs M Mask) (tag : String) (old new : Option Ref) (subs : List (Sub Mask)) :
    ∀ s : St M Mask, (emit F tag old new s subs).1.val = s.val ∧ (emit F tag old new s subs).1.coll = s.coll ∧
      (emit F tag old new s subs).1.vsubs = s.vsubs ∧ (emit F tag old new s subs).1.csubs = s.csubs := by
  induction subs with
  | nil => intro s; simp [emit]
  | cons sub rest ih =>
    intro s
    by_cases hl : sub.live
    · have a := deliver_store F sub.mask s old
      have b := deliver_store F sub.mask (deliver F sub.mask s old).1 new
      have c := ih (deliver F sub.mask (deliver F sub.mask s old).1 new).1
      simp only [emit, hl, if_true]
      exact ⟨c.1.trans (b.1.trans a.1), c.2.1.trans (b.2.1.trans a.2.1),
        c.2.2.1.trans (b.2.2.1.trans a.2.2.1), c.2.2.2.trans (b.2.2.2.trans a.2.2.2)⟩
    · simp only [emit, hl]
      exact ih s

theorem emit_items (F : Funs M Mask) (tag : String) (old new : Option Ref) (subs : List (Sub Mask)) :
    ∀ (s : St M Mask) (x : Ref), Item.msg x ∈ (emit F tag old new s subs).2 → x ∈ (emit F tag old new s subs).1.pub := by
  induction subs with
  | nil => intro s x h; simp [emit] at h
  | cons sub rest ih =>
    intro s x h
    by_cases hl : sub.live
    · simp only [emit, hl, if_true, List.mem_cons] at h ⊢
      rcases h with h | h | h | h
      · cases h
      · have := deliver_item F sub.mask s old x h.symm
        exact (emit_ext F tag old new rest _).pub_old x ((deliver_ext F sub.mask _ new).pub_old x this)
      · have := deliver_item F sub.mask (deliver F sub.mask s old).1 new x h.symm
        exact (emit_ext F tag old new rest _).pub_old x this
      · exact ih _ x h
    · simp only [emit, hl] at h ⊢
      exact ih s x h

/-! ### emitOnly (PullID subscribers) -/

theorem emitOnly_ext (F : Funs M Mask) (id : Nat) (new : Ref) (subs : List (Sub Mask)) :
    ∀ s : St M Mask, Ext s (emitOnly F id new s subs).1 [] [new] := by
  induction subs with
  | nil => intro s; exact (Ext.refl s).mono (fun _ h => h) (fun _ h => by simp at h)
  | cons sub rest ih =>
    intro s
    by_cases hl : (sub.live && sub.only == some id) = true
    · have a := deliver_ext F sub.mask s (some new)
      have c := ih (deliver F sub.mask s (some new)).1
      simp only [emitOnly, hl, if_true]
      refine (a.trans c).mono (fun _ h => by simp at h) (fun r h => ?_)
      simp at h
      simp [h]
    · simp only [emitOnly, hl]
      exact ih s

theorem emitOnly_store (F : Funs M Mask) (id : Nat) (new : Ref) (subs : List (Sub Mask)) :
    ∀ s : St M Mask, (emitOnly F id new s subs).1.val = s.val ∧ (emitOnly F id new s subs).1.coll = s.coll ∧
      (emitOnly F id new s subs).1.vsubs = s.vsubs ∧ (emitOnly F id new s subs).1.csubs = s.csubs := by
  induction subs with
  | nil => intro s; simp [emitOnly]
  | cons sub rest ih =>
    intro s
    by_cases hl : (sub.live && sub.only == some id) = true
    · have a := deliver_store F sub.mask s (some new)
      have c := ih (deliver F sub.mask s (some new)).1
      simp only [emitOnly, hl, if_true]
      exact ⟨c.1.trans a.1, c.2.1.trans a.2.1, c.2.2.1.trans a.2.2.1, c.2.2.2.trans a.2.2.2⟩
    · simp only [emitOnly, hl]
      exact ih s

theorem emitOnly_items (F : Funs M Mask) (id : Nat) (new : Ref) (subs : List (Sub Mask)) :
    ∀ (s : St M Mask) (x : Ref), Item.msg x ∈ (emitOnly F id new s subs).2 → x ∈ (emitOnly F id new s subs).1.pub := by
  induction subs with
  | nil => intro s x h; simp [emitOnly] at h
  | cons sub rest ih =>
    intro s x h
    by_cases hl : (sub.live && sub.only == some id) = true
    · simp only [emitOnly, hl, if_true, List.mem_cons] at h ⊢
      rcases h with h | h | h
      · cases h
      · have := deliver_item F sub.mask s (some new) x h.symm
        exact (emitOnly_ext F id new rest _).pub_old x this
      · exact ih _ x h
    · simp only [emitOnly, hl] at h ⊢
      exact ih s x h

/-! ### the change pipeline -/

theorem runCb_frame (cb : Option (Cb M)) (hp : ∀ f, cb = some f → OldPure f) (h : Heap M) (o : Option Ref) (n r : Ref)
    (hr : r ≠ n) : runCb cb h o n r = h r := by
  cases cb with
  | none => rfl
  | some f => exact hp f rfl h o n r hr

/-- `changeFn` writes nothing but `dst` and the caller's `src` -/
theorem change_frame (F : Funs M Mask) (s : St M Mask) (old : Option Ref) (dst src : Ref) (o : WOpts M Mask)
    (hp : o.Pure) (r : Ref) (hd : r ≠ dst) (hs : r ≠ src) : (change F s old dst src o).1 r = s.heap r := by
  unfold change
  simp only
  split
  · rfl
  · split
    · rfl
    · simp only
      rw [runCb_frame o.after hp.2 _ _ _ _ hd, Heap.set_ne _ _ hs, Heap.set_ne _ _ hd,
        runCb_frame o.before hp.1 _ _ _ _ hs]

/-! ### collection bookkeeping -/

theorem lookup_mem {c : List (Nat × Ref)} {id : Nat} {r : Ref} (h : lookup c id = some r) : (id, r) ∈ c := by
  unfold lookup at h
  cases hf : c.find? (·.1 = id) with
  | none => simp [hf] at h
  | some p =>
    simp [hf] at h
    have hm := List.mem_of_find?_eq_some hf
    have hp := List.find?_some hf
    simp at hp
    cases p with
    | mk k v =>
      simp at hp h
      subst hp; subst h
      exact hm

theorem mem_insertSorted {id k : Nat} {r v : Ref} {c : List (Nat × Ref)}
    (h : (k, v) ∈ insertSorted id r c) : (k, v) = (id, r) ∨ (k, v) ∈ c := by
  induction c with
  | nil => simp [insertSorted] at h; exact Or.inl (by simp [h])
  | cons p rest ih =>
    cases p with
    | mk a b =>
      simp only [insertSorted] at h
      split at h
      · simp only [List.mem_cons] at h ⊢
        rcases h with h | h | h
        · exact Or.inl h
        · exact Or.inr (Or.inl h)
        · exact Or.inr (Or.inr h)
      · split at h
        · simp only [List.mem_cons] at h ⊢
          rcases h with h | h
          · exact Or.inl h
          · exact Or.inr (Or.inr h)
        · simp only [List.mem_cons] at h ⊢
          rcases h with h | h
          · exact Or.inr (Or.inl h)
          · rcases ih h with h | h
            · exact Or.inl h
            · exact Or.inr (Or.inr h)

theorem mem_erase {id k : Nat} {v : Ref} {c : List (Nat × Ref)} (h : (k, v) ∈ erase id c) : (k, v) ∈ c := by
  unfold erase at h
  exact (List.mem_filter.mp h).1

/-! ### the invariant -/

/-- published references are allocated; caller-owned messages are allocated and never published;
whatever the store holds has been published (it is what an unmasked Get returns). -/
structure Inv (s : St M Mask) : Prop where
  pub_lt : ∀ r, r ∈ s.pub → r < s.next
  owned_ok : ∀ r, r ∈ s.owned → r < s.next ∧ r ∉ s.pub
  stored_pub : ∀ r, Stored s r → r ∈ s.pub

theorem Inv.init (w : Option Mask) (h : Heap M) : Inv (St.init w h) :=
  ⟨fun r hr => by simp [St.init] at hr, fun r hr => by simp [St.init] at hr,
    fun r hr => by simp [Stored, St.init] at hr⟩

theorem Ext.inv {s s' : St M Mask} {W P : List Ref} (e : Ext s s' W P) (hi : Inv s)
    (hP : ∀ r, r ∈ P → Stored s r ∨ (s.next ≤ r ∧ r < s'.next)) : Inv s' where
  pub_lt r hr := by
    rcases e.pub_new r hr with h | h | h
    · exact Nat.lt_of_lt_of_le (hi.pub_lt r h) e.next_le
    · exact h.2
    · rcases hP r h with h | h
      · exact Nat.lt_of_lt_of_le (hi.pub_lt r (hi.stored_pub r h)) e.next_le
      · exact h.2
  owned_ok r hr := by
    rw [e.owned_eq] at hr
    have ho := hi.owned_ok r hr
    refine ⟨Nat.lt_of_lt_of_le ho.1 e.next_le, fun hp => ?_⟩
    rcases e.pub_new r hp with h | h | h
    · exact ho.2 h
    · exact absurd ho.1 (Nat.not_lt.mpr h.1)
    · rcases hP r h with h | h
      · exact ho.2 (hi.stored_pub r h)
      · exact absurd ho.1 (Nat.not_lt.mpr h.1)
  stored_pub r hr := by
    rcases e.stored_new r hr with h | h
    · exact e.pub_old r (hi.stored_pub r h)
    · exact h.2.2

/-- under the invariant an extension whose write set is caller-owned leaves every published message alone -/
theorem Ext.published_same {s s' : St M Mask} {W P : List Ref} (e : Ext s s' W P) (hi : Inv s)
    (hW : ∀ r, r ∈ W → r ∈ s.owned) (r : Ref) (hr : r ∈ s.pub) : s'.heap r = s.heap r :=
  e.frame r (hi.pub_lt r hr) (fun hw => (hi.owned_ok r (hW r hw)).2 hr)

end ScVerif.C07
