import ScVerif.C07.EventOwn
/-! The ownership invariant `GInv` is kept by every step of the layered event model. -/
namespace ScVerif.C07.Events

theorem gstep_none {M : Type} (pm : M → M) (g : GS M) (s : Step) (h : filtered g.v.es s = none) :
    gstep pm g (.ev s) = { v := { g.v with es := step id g.v.es s }, mown := g.mown } := by
  have hv : vstep pm g.v (.ev s) = { g.v with es := step id g.v.es s } := by simp only [vstep, h]
  simp only [gstep, hv]
  congr 1
  funext x
  rw [if_neg]
  omega

theorem gstep_some {M : Type} (pm : M → M) (g : GS M) (s : Step) (e : Ev) (h : filtered g.v.es s = some e) :
    gstep pm g (.ev s) =
      { v := { es := step (projFor g.v.mnext e) g.v.es s,
               msgs := (cloneVal pm (cloneVal pm g.v.msgs g.v.mnext e.new).1 (cloneVal pm g.v.msgs g.v.mnext e.new).2 e.old).1,
               mnext := (cloneVal pm (cloneVal pm g.v.msgs g.v.mnext e.new).1 (cloneVal pm g.v.msgs g.v.mnext e.new).2 e.old).2 },
        mown := fun x => if g.v.mnext ≤ x ∧
            x < (cloneVal pm (cloneVal pm g.v.msgs g.v.mnext e.new).1 (cloneVal pm g.v.msgs g.v.mnext e.new).2 e.old).2
          then some (stepSub s) else g.mown x } := by
  have hv : vstep pm g.v (.ev s) =
      { es := step (projFor g.v.mnext e) g.v.es s,
        msgs := (cloneVal pm (cloneVal pm g.v.msgs g.v.mnext e.new).1 (cloneVal pm g.v.msgs g.v.mnext e.new).2 e.old).1,
        mnext := (cloneVal pm (cloneVal pm g.v.msgs g.v.mnext e.new).1 (cloneVal pm g.v.msgs g.v.mnext e.new).2 e.old).2 } := by
    simp only [vstep, h]
  simp only [gstep, hv]

/-- the generic step: subscriber `sb`'s pipeline allocates `cells` (owned by it) and re-arranges its references; message
cells may have been allocated (`mnext'`, `mown'` agree with the old state below the old allocation pointer) -/
theorem GInv.alloc_replace {M : Type} {g : GS M} (hi : GInv g) (sb : Sub) (hsb : sb ∈ g.v.es.subs)
    (cells : List Ev) (f : Sub → Sub) (msgs' : Nat → M) (mnext' : Nat) (mown' : Nat → Option Nat)
    (hn : g.v.mnext ≤ mnext') (hm : ∀ r, r < g.v.mnext → mown' r = g.mown r)
    (hidx : (f sb).idx = sb.idx) (hmask : (f sb).mask = sb.mask)
    (hinv : Inv { g.v.es with heap := pushCells g.v.es.heap g.v.es.next cells,
                              owner := setOwner g.v.es.owner g.v.es.next cells.length (some sb.idx),
                              next := g.v.es.next + cells.length, subs := replaceSub g.v.es.subs sb f })
    (hpend : ∀ p, p ∈ (f sb).pending →
      (p ∈ sb.pending ∨ ∀ r, r ∈ p.vals → r < mnext' ∧ mown' r = none))
    (hout : ∀ c, c ∈ (f sb).out → c ∈ sb.out ∨
      ∀ r, r ∈ (pushCells g.v.es.heap g.v.es.next cells c).vals →
        r < mnext' ∧ mown' r = (if sb.mask then some sb.idx else none)) :
    GInv (GS.mk (VS.mk ({ g.v.es with heap := pushCells g.v.es.heap g.v.es.next cells,
                                      owner := setOwner g.v.es.owner g.v.es.next cells.length (some sb.idx),
                                      next := g.v.es.next + cells.length, subs := replaceSub g.v.es.subs sb f } : ES)
                  msgs' mnext') mown') := by
  have mono : ∀ {o : Option Nat} {e : Ev}, ValsOwned g o e →
      ∀ r, r ∈ e.vals → r < mnext' ∧ mown' r = o := by
    intro o e h r hr
    have := h r hr
    exact ⟨by omega, by rw [hm r this.1]; exact this.2⟩
  refine ⟨hinv, ?_, ?_, ?_⟩
  · intro c hc ho
    simp only at hc ho ⊢
    by_cases hlt : c < g.v.es.next
    · rw [setOwner_below _ _ _ _ _ hlt] at ho
      intro r hr
      rw [pushCells_below _ _ _ _ hlt] at hr
      exact mono (hi.bus c hlt ho) r hr
    · rw [setOwner_at _ _ _ _ _ (by omega) hc] at ho
      exact absurd ho (by simp)
  · intro y hy p hp
    simp only at hy
    rcases mem_replaceSub hy with ⟨hys, _⟩ | ⟨hyf, _⟩
    · exact fun r hr => mono (hi.pend y hys p hp) r hr
    · subst hyf
      rcases hpend p hp with h | h
      · exact fun r hr => mono (hi.pend sb hsb p h) r hr
      · exact h
  · intro y hy c hc
    simp only at hy ⊢
    rcases mem_replaceSub hy with ⟨hys, _⟩ | ⟨hyf, _⟩
    · have hlt := (hi.inv.out y hys c hc).1
      intro r hr
      rw [pushCells_below _ _ _ _ hlt] at hr
      exact mono (hi.out y hys c hc) r hr
    · subst hyf
      rw [hmask, hidx]
      rcases hout c hc with h | h
      · have hlt := (hi.inv.out sb hsb c h).1
        intro r hr
        rw [pushCells_below _ _ _ _ hlt] at hr
        exact mono (hi.out sb hsb c h) r hr
      · exact h

/-- the same without any allocation -/
theorem GInv.replace {M : Type} {g : GS M} (hi : GInv g) (sb : Sub) (hsb : sb ∈ g.v.es.subs) (f : Sub → Sub)
    (hidx : (f sb).idx = sb.idx) (hmask : (f sb).mask = sb.mask)
    (hinv : Inv { g.v.es with subs := replaceSub g.v.es.subs sb f })
    (hpend : ∀ p, p ∈ (f sb).pending → (p ∈ sb.pending ∨ ∀ r, r ∈ p.vals → r < g.v.mnext ∧ g.mown r = none))
    (hout : ∀ c, c ∈ (f sb).out → c ∈ sb.out ∨
      ∀ r, r ∈ (g.v.es.heap c).vals → r < g.v.mnext ∧ g.mown r = (if sb.mask then some sb.idx else none)) :
    GInv (GS.mk (VS.mk ({ g.v.es with subs := replaceSub g.v.es.subs sb f } : ES) g.v.msgs g.v.mnext) g.mown) := by
  have e1 : pushCells g.v.es.heap g.v.es.next [] = g.v.es.heap := rfl
  have e2 : setOwner g.v.es.owner g.v.es.next ([] : List Ev).length (some sb.idx) = g.v.es.owner := by
    funext x
    simp only [setOwner, List.length_nil, Nat.add_zero]
    rw [if_neg]
    omega
  have h := GInv.alloc_replace hi sb hsb [] f g.v.msgs g.v.mnext g.mown (Nat.le_refl _) (fun _ _ => rfl) hidx hmask
    (by rw [e1, e2]; exact hinv) hpend (by rw [e1]; exact hout)
  rw [e1, e2] at h
  exact h


theorem GInv.mono {M : Type} {g g' : GS M} (hi : GInv g) (he : g'.v.es = g.v.es) (hn : g.v.mnext ≤ g'.v.mnext)
    (hm : ∀ r, r < g.v.mnext → g'.mown r = g.mown r) : GInv g' := by
  refine ⟨by rw [he]; exact hi.inv, ?_, ?_, ?_⟩
  · intro c hc ho
    rw [he] at hc ho ⊢
    exact (hi.bus c hc ho).mono hn hm
  · intro sb hsb p hp
    rw [he] at hsb
    exact (hi.pend sb hsb p hp).mono hn hm
  · intro sb hsb c hc
    rw [he] at hsb ⊢
    exact (hi.out sb hsb c hc).mono hn hm

/-- a pipeline step that finds nothing to do -/
theorem GInv.noop {M : Type} (pm : M → M) {g : GS M} (hi : GInv g) (s : Step) (hf : filtered g.v.es s = none)
    (hs : step id g.v.es s = g.v.es) : GInv (gstep pm g (.ev s)) := by
  rw [gstep_none pm g s hf]
  exact hi.mono (by simp only [hs]) (Nat.le_refl _) (fun _ _ => rfl)

theorem gstep_inv {M : Type} (pm : M → M) (g : GS M) (st : VStep M) (hi : GInv g) (hok : SendOK g st) :
    GInv (gstep pm g st) := by
  cases st with
  | store m =>
    refine hi.mono rfl (Nat.le_succ _) (fun r hr => ?_)
    simp only [gstep]
    rw [if_neg (Nat.ne_of_lt hr)]
  | ev s =>
    cases s with
    | sub l m =>
      rw [gstep_none pm g _ rfl]
      have hinv := step_inv id g.v.es (.sub l m) hi.inv
      refine ⟨hinv, ?_, ?_, ?_⟩
      · exact hi.bus
      · intro sb hsb p hp
        simp only [step, List.mem_append, List.mem_singleton] at hsb
        rcases hsb with h | h
        · exact hi.pend sb h p hp
        · subst h; simp at hp
      · intro sb hsb c hc
        simp only [step, List.mem_append, List.mem_singleton] at hsb
        rcases hsb with h | h
        · exact hi.out sb h c hc
        · subst h; simp at hc
    | vsub l m =>
      rw [gstep_none pm g _ rfl]
      have hinv := step_inv id g.v.es (.vsub l m) hi.inv
      refine ⟨hinv, ?_, ?_, ?_⟩
      · exact hi.bus
      · intro sb hsb p hp
        simp only [step, List.mem_append, List.mem_singleton] at hsb
        rcases hsb with h | h
        · exact hi.pend sb h p hp
        · subst h; simp at hp
      · intro sb hsb c hc
        simp only [step, List.mem_append, List.mem_singleton] at hsb
        rcases hsb with h | h
        · exact hi.out sb h c hc
        · subst h; simp at hc
    | send e =>
      rw [gstep_none pm g _ rfl]
      have hinv := step_inv id g.v.es (.send e) hi.inv
      refine ⟨hinv, ?_, ?_, ?_⟩
      · intro c hc ho
        simp only [step] at hc ho ⊢
        by_cases hlt : c < g.v.es.next
        · rw [setOwner_below _ _ _ _ _ hlt] at ho
          rw [pushCells_below _ _ _ _ hlt]
          exact hi.bus c hlt ho
        · have : c = g.v.es.next := by omega
          subst this
          simp only [pushCells, if_true]
          exact hok
      · intro sb hsb p hp
        simp only [step, List.mem_map] at hsb
        obtain ⟨x, hx, rfl⟩ := hsb
        have : p ∈ x.pending := by split at hp <;> exact hp
        exact hi.pend x hx p this
      · intro sb hsb c hc
        simp only [step, List.mem_map] at hsb
        obtain ⟨x, hx, rfl⟩ := hsb
        have hc' : c ∈ x.out := by split at hc <;> exact hc
        have hlt := (hi.inv.out x hx c hc').1
        simp only [step]
        rw [pushCells_below _ _ _ _ hlt]
        have := hi.out x hx c hc'
        split <;> exact this
    | vsend e =>
      rw [gstep_none pm g _ rfl]
      have hinv := step_inv id g.v.es (.vsend e) hi.inv
      refine ⟨hinv, ?_, ?_, ?_⟩
      · intro c hc ho
        simp only [step] at hc ho ⊢
        by_cases hlt : c < g.v.es.next
        · rw [setOwner_below _ _ _ _ _ hlt] at ho
          rw [pushCells_below _ _ _ _ hlt]
          exact hi.bus c hlt ho
        · have : c = g.v.es.next := by omega
          subst this
          simp only [pushCells, if_true]
          exact hok
      · intro sb hsb p hp
        simp only [step, List.mem_map] at hsb
        obtain ⟨x, hx, rfl⟩ := hsb
        have : p ∈ x.pending := by split at hp <;> exact hp
        exact hi.pend x hx p this
      · intro sb hsb c hc
        simp only [step, List.mem_map] at hsb
        obtain ⟨x, hx, rfl⟩ := hsb
        have hc' : c ∈ x.out := by split at hc <;> exact hc
        have hlt := (hi.inv.out x hx c hc').1
        simp only [step]
        rw [pushCells_below _ _ _ _ hlt]
        have := hi.out x hx c hc'
        split <;> exact this
    | dropIn i =>
      cases hf : g.v.es.subs.find? (fun sb => sb.idx = i) with
      | none => exact hi.noop pm _ rfl (by simp only [step, hf])
      | some sb =>
        have hsb := find_mem hf
        by_cases hl : (!(sb.lossy && sb.value)) = true
        · exact hi.noop pm _ rfl (by simp only [step, hf, if_pos hl])
        · cases hib : sb.inbox with
          | nil => exact hi.noop pm _ rfl (by simp only [step, hf, if_neg hl, hib])
          | cons r1 t =>
            cases t with
            | nil => exact hi.noop pm _ rfl (by simp only [step, hf, if_neg hl, hib])
            | cons r2 rest =>
              rw [gstep_none pm g _ rfl]
              have hinv := step_inv id g.v.es (.dropIn i) hi.inv
              simp only [step, hf, if_neg hl, hib] at hinv ⊢
              exact GInv.replace hi sb hsb _ rfl rfl hinv (fun p hp => Or.inl hp) (fun c hc => Or.inl hc)
    | mergeIn i =>
      cases hf : g.v.es.subs.find? (fun sb => sb.idx = i) with
      | none => exact hi.noop pm _ rfl (by simp only [step, hf])
      | some sb =>
        have hsb := find_mem hf
        by_cases hl : (!(sb.lossy && !sb.value)) = true
        · exact hi.noop pm _ rfl (by simp only [step, hf, if_pos hl])
        · cases hib : sb.inbox with
          | nil => exact hi.noop pm _ rfl (by simp only [step, hf, if_neg hl, hib])
          | cons r rest =>
            rw [gstep_none pm g _ rfl]
            have hinv := step_inv id g.v.es (.mergeIn i) hi.inv
            simp only [step, hf, if_neg hl, hib] at hinv ⊢
            have hr := hi.inv.inbox sb hsb r (by rw [hib]; exact List.mem_cons_self)
            exact GInv.replace hi sb hsb _ rfl rfl hinv
              (fun p hp => Or.inr (ValsOwned.mergePending (hi.pend sb hsb) (hi.bus r hr.1 hr.2) p hp))
              (fun c hc => Or.inl hc)
    | forward i =>
      cases hf : g.v.es.subs.find? (fun sb => sb.idx = i) with
      | none => exact hi.noop pm _ (by simp only [filtered, hf]) (by simp only [step, hf])
      | some sb =>
        have hsb := find_mem hf
        have hidx : sb.idx = i := by simpa using List.find?_some hf
        by_cases hl : (sb.lossy && !sb.value) = true
        · exact hi.noop pm _ (by simp only [filtered, hf, if_pos hl]) (by simp only [step, hf, if_pos hl])
        · cases hib : sb.inbox with
          | nil => exact hi.noop pm _ (by simp only [filtered, hf, if_neg hl, hib]) (by simp only [step, hf, if_neg hl, hib])
          | cons r rest =>
            have hr := hi.inv.inbox sb hsb r (by rw [hib]; exact List.mem_cons_self)
            by_cases hm : sb.mask = true
            · have hfil : filtered g.v.es (.forward i) = some (g.v.es.heap r) := by
                simp only [filtered, hf, if_neg hl, hib, if_pos hm]
              rw [gstep_some pm g _ _ hfil]
              have hinv := step_inv (projFor g.v.mnext (g.v.es.heap r)) g.v.es (.forward i) hi.inv
              simp only [step, hf, if_neg hl, hib, if_pos hm] at hinv ⊢
              have c1 := cloneVal_frame pm g.v.msgs g.v.mnext (g.v.es.heap r).new
              have c2 := cloneVal_frame pm (cloneVal pm g.v.msgs g.v.mnext (g.v.es.heap r).new).1
                (cloneVal pm g.v.msgs g.v.mnext (g.v.es.heap r).new).2 (g.v.es.heap r).old
              refine GInv.alloc_replace hi sb hsb [_] _ _ _ _ (Nat.le_trans c1.1 c2.1)
                (fun x hx => by rw [if_neg]; omega) rfl rfl hinv (fun p hp => Or.inl hp) ?_
              intro c hc
              simp only [List.mem_append, List.mem_singleton] at hc
              rcases hc with hc | hc
              · exact Or.inl hc
              · subst hc
                refine Or.inr (fun x hx => ?_)
                simp only [pushCells, if_true] at hx
                have hv := vals_projEv pm g.v.msgs g.v.mnext (g.v.es.heap r) x hx
                refine ⟨hv.2, ?_⟩
                simp only [stepSub]
                rw [if_pos ⟨hv.1, hv.2⟩, if_pos hm, hidx]
            · have hfil : filtered g.v.es (.forward i) = none := by
                simp only [filtered, hf, if_neg hl, hib, if_neg hm]
              rw [gstep_none pm g _ hfil]
              have hinv := step_inv id g.v.es (.forward i) hi.inv
              simp only [step, hf, if_neg hl, hib, if_neg hm] at hinv ⊢
              refine GInv.replace hi sb hsb _ rfl rfl hinv (fun p hp => Or.inl hp) ?_
              intro c hc
              simp only [List.mem_append, List.mem_singleton] at hc
              rcases hc with hc | hc
              · exact Or.inl hc
              · subst hc
                refine Or.inr (fun x hx => ?_)
                rw [if_neg hm]
                exact hi.bus c hr.1 hr.2 x hx
    | forwardIncl i d =>
      cases hf : g.v.es.subs.find? (fun sb => sb.idx = i) with
      | none => exact hi.noop pm _ (by simp only [filtered, hf]) (by simp only [step, hf])
      | some sb =>
        have hsb := find_mem hf
        have hidx : sb.idx = i := by simpa using List.find?_some hf
        by_cases hl : (sb.lossy && !sb.value) = true
        · exact hi.noop pm _ (by simp only [filtered, hf, if_pos hl]) (by simp only [step, hf, if_pos hl])
        · cases hib : sb.inbox with
          | nil => exact hi.noop pm _ (by simp only [filtered, hf, if_neg hl, hib]) (by simp only [step, hf, if_neg hl, hib])
          | cons r rest =>
            have hr := hi.inv.inbox sb hsb r (by rw [hib]; exact List.mem_cons_self)
            have hbus := hi.bus r hr.1 hr.2
            by_cases hd : d = .skip
            · have hfil : filtered g.v.es (.forwardIncl i d) = none := by
                simp only [filtered, hf, if_neg hl, hib, if_pos hd]
              rw [gstep_none pm g _ hfil]
              have hinv := step_inv id g.v.es (.forwardIncl i d) hi.inv
              simp only [step, hf, if_neg hl, hib, if_pos hd] at hinv ⊢
              exact GInv.replace hi sb hsb _ rfl rfl hinv (fun p hp => Or.inl hp) (fun c hc => Or.inl hc)
            · by_cases hm : sb.mask = true
              · have hfil : filtered g.v.es (.forwardIncl i d) = some (convEv d (g.v.es.heap r)) := by
                  simp only [filtered, hf, if_neg hl, hib, if_neg hd, if_pos hm]
                rw [gstep_some pm g _ _ hfil]
                have hinv := step_inv (projFor g.v.mnext (convEv d (g.v.es.heap r))) g.v.es (.forwardIncl i d) hi.inv
                simp only [step, hf, if_neg hl, hib, if_neg hd, if_pos hm] at hinv ⊢
                have c1 := cloneVal_frame pm g.v.msgs g.v.mnext (convEv d (g.v.es.heap r)).new
                have c2 := cloneVal_frame pm (cloneVal pm g.v.msgs g.v.mnext (convEv d (g.v.es.heap r)).new).1
                  (cloneVal pm g.v.msgs g.v.mnext (convEv d (g.v.es.heap r)).new).2 (convEv d (g.v.es.heap r)).old
                refine GInv.alloc_replace hi sb hsb [_, _] _ _ _ _ (Nat.le_trans c1.1 c2.1)
                  (fun x hx => by rw [if_neg]; omega) rfl rfl hinv (fun p hp => Or.inl hp) ?_
                intro c hc
                simp only [List.mem_append, List.mem_singleton] at hc
                rcases hc with hc | hc
                · exact Or.inl hc
                · subst hc
                  refine Or.inr (fun x hx => ?_)
                  have hcell : ∀ (h : Nat → Ev) (n : Nat) (a b : Ev), pushCells h n [a, b] (n + 1) = b := by
                    intro h n a b; simp [pushCells]
                  rw [hcell] at hx
                  have hv := vals_projEv pm g.v.msgs g.v.mnext (convEv d (g.v.es.heap r)) x hx
                  refine ⟨hv.2, ?_⟩
                  simp only [stepSub]
                  rw [if_pos ⟨hv.1, hv.2⟩, if_pos hm, hidx]
              · have hfil : filtered g.v.es (.forwardIncl i d) = none := by
                  simp only [filtered, hf, if_neg hl, hib, if_neg hd, if_neg hm]
                rw [gstep_none pm g _ hfil]
                have hinv := step_inv id g.v.es (.forwardIncl i d) hi.inv
                simp only [step, hf, if_neg hl, hib, if_neg hd, if_neg hm] at hinv ⊢
                refine GInv.alloc_replace hi sb hsb [_] _ _ _ _ (Nat.le_refl _) (fun _ _ => rfl) rfl rfl hinv
                  (fun p hp => Or.inl hp) ?_
                intro c hc
                simp only [List.mem_append, List.mem_singleton] at hc
                rcases hc with hc | hc
                · exact Or.inl hc
                · subst hc
                  refine Or.inr (fun x hx => ?_)
                  simp only [pushCells, if_true] at hx
                  rw [if_neg hm]
                  exact hbus.conv d x hx
    | emit i =>
      cases hf : g.v.es.subs.find? (fun sb => sb.idx = i) with
      | none => exact hi.noop pm _ (by simp only [filtered, hf]) (by simp only [step, hf])
      | some sb =>
        have hsb := find_mem hf
        have hidx : sb.idx = i := by simpa using List.find?_some hf
        by_cases hl : (!(sb.lossy && !sb.value)) = true
        · exact hi.noop pm _ (by simp only [filtered, hf, if_pos hl]) (by simp only [step, hf, if_pos hl])
        · cases hp : sb.pending with
          | nil => exact hi.noop pm _ (by simp only [filtered, hf, if_neg hl, hp]) (by simp only [step, hf, if_neg hl, hp])
          | cons c0 rest =>
            have hc0 := hi.pend sb hsb c0 (by rw [hp]; exact List.mem_cons_self)
            have hrest : ∀ p, p ∈ rest → p ∈ sb.pending := fun p h => by rw [hp]; exact List.mem_cons_of_mem _ h
            by_cases hm : sb.mask = true
            · have hfil : filtered g.v.es (.emit i) = some c0 := by
                simp only [filtered, hf, if_neg hl, hp, if_pos hm]
              rw [gstep_some pm g _ _ hfil]
              have hinv := step_inv (projFor g.v.mnext c0) g.v.es (.emit i) hi.inv
              simp only [step, hf, if_neg hl, hp, if_pos hm] at hinv ⊢
              have c1 := cloneVal_frame pm g.v.msgs g.v.mnext c0.new
              have c2 := cloneVal_frame pm (cloneVal pm g.v.msgs g.v.mnext c0.new).1
                (cloneVal pm g.v.msgs g.v.mnext c0.new).2 c0.old
              refine GInv.alloc_replace hi sb hsb [_, _] _ _ _ _ (Nat.le_trans c1.1 c2.1)
                (fun x hx => by rw [if_neg]; omega) rfl rfl hinv (fun p h => Or.inl (hrest p h)) ?_
              intro c hc
              simp only [List.mem_append, List.mem_singleton] at hc
              rcases hc with hc | hc
              · exact Or.inl hc
              · subst hc
                refine Or.inr (fun x hx => ?_)
                have hcell : ∀ (h : Nat → Ev) (n : Nat) (a b : Ev), pushCells h n [a, b] (n + 1) = b := by
                  intro h n a b; simp [pushCells]
                rw [hcell] at hx
                have hv := vals_projEv pm g.v.msgs g.v.mnext c0 x hx
                refine ⟨hv.2, ?_⟩
                simp only [stepSub]
                rw [if_pos ⟨hv.1, hv.2⟩, if_pos hm, hidx]
            · have hfil : filtered g.v.es (.emit i) = none := by
                simp only [filtered, hf, if_neg hl, hp, if_neg hm]
              rw [gstep_none pm g _ hfil]
              have hinv := step_inv id g.v.es (.emit i) hi.inv
              simp only [step, hf, if_neg hl, hp, if_neg hm] at hinv ⊢
              refine GInv.alloc_replace hi sb hsb [_] _ _ _ _ (Nat.le_refl _) (fun _ _ => rfl) rfl rfl hinv
                (fun p h => Or.inl (hrest p h)) ?_
              intro c hc
              simp only [List.mem_append, List.mem_singleton] at hc
              rcases hc with hc | hc
              · exact Or.inl hc
              · subst hc
                refine Or.inr (fun x hx => ?_)
                simp only [pushCells, if_true] at hx
                rw [if_neg hm]
                exact hc0 x hx
    | emitIncl i d =>
      cases hf : g.v.es.subs.find? (fun sb => sb.idx = i) with
      | none => exact hi.noop pm _ (by simp only [filtered, hf]) (by simp only [step, hf])
      | some sb =>
        have hsb := find_mem hf
        have hidx : sb.idx = i := by simpa using List.find?_some hf
        by_cases hl : (!(sb.lossy && !sb.value)) = true
        · exact hi.noop pm _ (by simp only [filtered, hf, if_pos hl]) (by simp only [step, hf, if_pos hl])
        · cases hp : sb.pending with
          | nil => exact hi.noop pm _ (by simp only [filtered, hf, if_neg hl, hp]) (by simp only [step, hf, if_neg hl, hp])
          | cons c0 rest =>
            have hc0 := hi.pend sb hsb c0 (by rw [hp]; exact List.mem_cons_self)
            have hrest : ∀ p, p ∈ rest → p ∈ sb.pending := fun p h => by rw [hp]; exact List.mem_cons_of_mem _ h
            by_cases hd : d = .skip
            · have hfil : filtered g.v.es (.emitIncl i d) = none := by
                simp only [filtered, hf, if_neg hl, hp, if_pos hd]
              rw [gstep_none pm g _ hfil]
              have hinv := step_inv id g.v.es (.emitIncl i d) hi.inv
              simp only [step, hf, if_neg hl, hp, if_pos hd] at hinv ⊢
              exact GInv.alloc_replace hi sb hsb [_] _ _ _ _ (Nat.le_refl _) (fun _ _ => rfl) rfl rfl hinv
                (fun p h => Or.inl (hrest p h)) (fun c hc => Or.inl hc)
            · by_cases hm : sb.mask = true
              · have hfil : filtered g.v.es (.emitIncl i d) = some (convEv d c0) := by
                  simp only [filtered, hf, if_neg hl, hp, if_neg hd, if_pos hm]
                rw [gstep_some pm g _ _ hfil]
                have hinv := step_inv (projFor g.v.mnext (convEv d c0)) g.v.es (.emitIncl i d) hi.inv
                simp only [step, hf, if_neg hl, hp, if_neg hd, if_pos hm] at hinv ⊢
                have c1 := cloneVal_frame pm g.v.msgs g.v.mnext (convEv d c0).new
                have c2 := cloneVal_frame pm (cloneVal pm g.v.msgs g.v.mnext (convEv d c0).new).1
                  (cloneVal pm g.v.msgs g.v.mnext (convEv d c0).new).2 (convEv d c0).old
                refine GInv.alloc_replace hi sb hsb [_, _, _] _ _ _ _ (Nat.le_trans c1.1 c2.1)
                  (fun x hx => by rw [if_neg]; omega) rfl rfl hinv (fun p h => Or.inl (hrest p h)) ?_
                intro c hc
                simp only [List.mem_append, List.mem_singleton] at hc
                rcases hc with hc | hc
                · exact Or.inl hc
                · subst hc
                  refine Or.inr (fun x hx => ?_)
                  have hcell : ∀ (h : Nat → Ev) (n : Nat) (a b c : Ev), pushCells h n [a, b, c] (n + 2) = c := by
                    intro h n a b c; simp [pushCells]
                  rw [hcell] at hx
                  have hv := vals_projEv pm g.v.msgs g.v.mnext (convEv d c0) x hx
                  refine ⟨hv.2, ?_⟩
                  simp only [stepSub]
                  rw [if_pos ⟨hv.1, hv.2⟩, if_pos hm, hidx]
              · have hfil : filtered g.v.es (.emitIncl i d) = none := by
                  simp only [filtered, hf, if_neg hl, hp, if_neg hd, if_neg hm]
                rw [gstep_none pm g _ hfil]
                have hinv := step_inv id g.v.es (.emitIncl i d) hi.inv
                simp only [step, hf, if_neg hl, hp, if_neg hd, if_neg hm] at hinv ⊢
                refine GInv.alloc_replace hi sb hsb [_, _] _ _ _ _ (Nat.le_refl _) (fun _ _ => rfl) rfl rfl hinv
                  (fun p h => Or.inl (hrest p h)) ?_
                intro c hc
                simp only [List.mem_append, List.mem_singleton] at hc
                rcases hc with hc | hc
                · exact Or.inl hc
                · subst hc
                  refine Or.inr (fun x hx => ?_)
                  have hcell : ∀ (h : Nat → Ev) (n : Nat) (a b : Ev), pushCells h n [a, b] (n + 1) = b := by
                    intro h n a b; simp [pushCells]
                  rw [hcell] at hx
                  rw [if_neg hm]
                  exact hc0.conv d x hx
    | seed i e =>
      cases hf : g.v.es.subs.find? (fun sb => sb.idx = i) with
      | none => exact hi.noop pm _ (by simp only [filtered, hf]) (by simp only [step, hf])
      | some sb =>
        have hsb := find_mem hf
        have hidx : sb.idx = i := by simpa using List.find?_some hf
        by_cases hm : sb.mask = true
        · have hfil : filtered g.v.es (.seed i e) = some e := by simp only [filtered, hf, if_pos hm]
          rw [gstep_some pm g _ _ hfil]
          have hinv := step_inv (projFor g.v.mnext e) g.v.es (.seed i e) hi.inv
          simp only [step, hf, if_pos hm] at hinv ⊢
          have c1 := cloneVal_frame pm g.v.msgs g.v.mnext e.new
          have c2 := cloneVal_frame pm (cloneVal pm g.v.msgs g.v.mnext e.new).1 (cloneVal pm g.v.msgs g.v.mnext e.new).2 e.old
          refine GInv.alloc_replace hi sb hsb [_, _] _ _ _ _ (Nat.le_trans c1.1 c2.1)
            (fun x hx => by rw [if_neg]; omega) rfl rfl hinv (fun p h => Or.inl h) ?_
          intro c hc
          simp only [List.mem_append, List.mem_singleton] at hc
          rcases hc with hc | hc
          · exact Or.inl hc
          · subst hc
            refine Or.inr (fun x hx => ?_)
            have hcell : ∀ (h : Nat → Ev) (n : Nat) (a b : Ev), pushCells h n [a, b] (n + 1) = b := by
              intro h n a b; simp [pushCells]
            rw [hcell] at hx
            have hv := vals_projEv pm g.v.msgs g.v.mnext e x hx
            refine ⟨hv.2, ?_⟩
            simp only [stepSub]
            rw [if_pos ⟨hv.1, hv.2⟩, if_pos hm, hidx]
        · have hfil : filtered g.v.es (.seed i e) = none := by simp only [filtered, hf, if_neg hm]
          rw [gstep_none pm g _ hfil]
          have hinv := step_inv id g.v.es (.seed i e) hi.inv
          simp only [step, hf, if_neg hm] at hinv ⊢
          refine GInv.alloc_replace hi sb hsb [_] _ _ _ _ (Nat.le_refl _) (fun _ _ => rfl) rfl rfl hinv
            (fun p h => Or.inl h) ?_
          intro c hc
          simp only [List.mem_append, List.mem_singleton] at hc
          rcases hc with hc | hc
          · exact Or.inl hc
          · subst hc
            refine Or.inr (fun x hx => ?_)
            simp only [pushCells, if_true] at hx
            rw [if_neg hm]
            exact hok x hx

theorem grun_inv {M : Type} (pm : M → M) (steps : List (VStep M)) :
    ∀ g : GS M, GInv g → OKfrom pm g steps → GInv (grun pm g steps) := by
  induction steps with
  | nil => intro g hi _; exact hi
  | cons st rest ih => intro g hi hok; exact ih _ (gstep_inv pm g st hi hok.1) hok.2

theorem GInv.init {M : Type} [Inhabited M] : GInv (GS.init : GS M) :=
  ⟨Inv.init, fun c hc => by simp [GS.init, VS.init, ES.init] at hc,
   fun sb hsb => by simp [GS.init, VS.init, ES.init] at hsb,
   fun sb hsb => by simp [GS.init, VS.init, ES.init] at hsb⟩

/-- erasing the ghost: the layered model's run -/
theorem grun_v {M : Type} (pm : M → M) (steps : List (VStep M)) : ∀ g : GS M, (grun pm g steps).v = vrun pm g.v steps := by
  induction steps with
  | nil => intro g; rfl
  | cons st rest ih => intro g; exact ih (gstep pm g st)

end ScVerif.C07.Events
