import ScVerif.C07.Rim3
/-! Frame lemmas for Rim3.lean. -/
namespace ScVerif.C07.Rim3

theorem put_other (h : MapH) (r : Nat) (k v : String) (x : Nat) (hx : x ≠ r) : (h.put r k v).maps x = h.maps x := by
  simp [MapH.put, hx]

theorem put_next (h : MapH) (r : Nat) (k v : String) : (h.put r k v).next = h.next := rfl

theorem adjustOne_other (avail : String → List String) (h : MapH) (oldM newM : Nat) (mode : String) (adj : Int)
    (x : Nat) (hx : x ≠ newM) : (adjustOne avail h oldM newM mode adj).maps x = h.maps x ∧
      (adjustOne avail h oldM newM mode adj).next = h.next := by
  unfold adjustOne
  split
  · exact ⟨rfl, rfl⟩
  · split
    · exact ⟨put_other _ _ _ _ _ hx, rfl⟩
    · split
      · exact ⟨put_other _ _ _ _ _ hx, rfl⟩
      · exact ⟨put_other _ _ _ _ _ hx, rfl⟩

theorem adjust_other (avail : String → List String) (oldM newM : Nat) (rel : List (String × Int)) (x : Nat) (hx : x ≠ newM) :
    ∀ h : MapH, (adjust avail h oldM newM rel).maps x = h.maps x ∧ (adjust avail h oldM newM rel).next = h.next := by
  induction rel with
  | nil => intro h; exact ⟨rfl, rfl⟩
  | cons p rest ih =>
    intro h
    obtain ⟨mode, adj⟩ := p
    have a := adjustOne_other avail h oldM newM mode adj x hx
    have b := ih (adjustOne avail h oldM newM mode adj)
    exact ⟨b.1.trans a.1, b.2.trans a.2⟩

theorem mergeInto_other (dst : Nat) (kvs : KV) (x : Nat) (hx : x ≠ dst) :
    ∀ h : MapH, (mergeInto h dst kvs).maps x = h.maps x ∧ (mergeInto h dst kvs).next = h.next := by
  induction kvs with
  | nil => intro h; exact ⟨rfl, rfl⟩
  | cons p rest ih =>
    intro h
    obtain ⟨k, v⟩ := p
    have b := ih (h.put dst k v)
    exact ⟨b.1.trans (put_other _ _ _ _ _ hx), b.2⟩

theorem alloc_other (h : MapH) (m : KV) (x : Nat) (hx : x < h.next) : (h.alloc m).1.maps x = h.maps x := by
  simp [MapH.alloc, Nat.ne_of_lt hx]

theorem interceptPhase_other (avail : String → List String) (h : MapH) (stored : Nat) (src : Option Nat)
    (rel : List (String × Int)) (x : Nat) (hx : x < h.next) (hne : some x ≠ src) :
    (interceptPhase avail h stored src rel).1.maps x = h.maps x := by
  unfold interceptPhase
  split
  · rfl
  · cases src with
    | some s =>
      have : x ≠ s := fun e => hne (by rw [e])
      exact (adjust_other avail stored s rel x this _).1
    | none =>
      have : x ≠ (h.alloc []).2 := Nat.ne_of_lt hx
      exact ((adjust_other avail stored _ rel x this _).1).trans (alloc_other _ _ x hx)

theorem mergePhase_other (h : MapH) (dst : Nat) (srcKV : KV) (masked : Bool) (x : Nat) (hx : x ≠ dst) :
    (mergePhase h dst srcKV masked).maps x = h.maps x := by
  unfold mergePhase
  split
  · split
    · simp [hx]
    · exact (mergeInto_other _ _ x hx _).1
  · refine ((mergeInto_other _ _ x hx _).1).trans ?_
    simp [hx]

/-- `cloneList`: frame, freshness of the copies, monotone allocation pointer -/
theorem cloneList_fresh {M : Type} (l : List Nat) : ∀ h : PH M,
    (∀ x, x < h.next → (cloneList h l).1.cells x = h.cells x) ∧ (∀ r, r ∈ (cloneList h l).2 → h.next ≤ r) ∧
      h.next ≤ (cloneList h l).1.next := by
  induction l with
  | nil => intro h; exact ⟨fun _ _ => rfl, fun _ hr => by simp [cloneList] at hr, Nat.le_refl _⟩
  | cons r rs ih =>
    intro h
    have b := ih { cells := fun x => if x = h.next then h.cells r else h.cells x, next := h.next + 1 }
    refine ⟨fun x hx => ?_, fun y hy => ?_, ?_⟩
    · simp only [cloneList]
      rw [b.1 x (Nat.lt_succ_of_lt hx)]
      simp [Nat.ne_of_lt hx]
    · simp only [cloneList, List.mem_cons] at hy
      rcases hy with hy | hy
      · rw [hy]; exact Nat.le_refl _
      · exact Nat.le_of_succ_le (b.2.1 y hy)
    · simp only [cloneList]
      exact Nat.le_of_succ_le b.2.2

theorem cloneMap_fresh {M : Type} (f : M → M) (l : List Nat) : ∀ h : IH M,
    (∀ x, x < h.next → (cloneMap f h l).1.item x = h.item x) ∧ (∀ r, r ∈ (cloneMap f h l).2 → h.next ≤ r) ∧
      h.next ≤ (cloneMap f h l).1.next := by
  induction l with
  | nil => intro h; exact ⟨fun _ _ => rfl, fun _ hr => by simp [cloneMap] at hr, Nat.le_refl _⟩
  | cons r rs ih =>
    intro h
    have b := ih { item := fun x => if x = h.next then f (h.item r) else h.item x, next := h.next + 1 }
    refine ⟨fun x hx => ?_, fun y hy => ?_, ?_⟩
    · simp only [cloneMap]
      rw [b.1 x (Nat.lt_succ_of_lt hx)]
      simp [Nat.ne_of_lt hx]
    · simp only [cloneMap, List.mem_cons] at hy
      rcases hy with hy | hy
      · rw [hy]; exact Nat.le_refl _
      · exact Nat.le_of_succ_le (b.2.1 y hy)
    · simp only [cloneMap]
      exact Nat.le_of_succ_le b.2.2

theorem statesPhase_fresh {M : Type} (m : CMask M) (h : IH M) (stored : List Nat) :
    (∀ x, x < h.next → (statesPhase m h stored).1.item x = h.item x) ∧ (∀ r, r ∈ (statesPhase m h stored).2 → h.next ≤ r) ∧
      h.next ≤ (statesPhase m h stored).1.next := by
  unfold statesPhase
  split
  · exact ⟨fun _ _ => rfl, fun _ hr => by simp at hr, Nat.le_refl _⟩
  · exact cloneMap_fresh _ stored h

end ScVerif.C07.Rim3
