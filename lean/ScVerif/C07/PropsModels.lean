import ScVerif.Generated.C07Facts
/-! # C07 — K3 table: model constructors (regenerated from the source tree on every run) -/
namespace ScVerif.C07
open ScVerif.Generated.C07

/-- **C07_models_all_driven.** Every stateful trait model / server constructor present in the source
tree (a `New…` function of a `pkg/trait` package returning a struct that holds a `*resource.Value`
or `*resource.Collection`, directly or through its model) is a row of the table the snapshot monitor
drives: a new model cannot be added without the monitor covering it. Only discovery is syntactic. -/
theorem C07_models_all_driven : ∀ c, c ∈ discoveredModels → c ∈ drivenModels := by decide

example : discoveredModels.length ≥ 20 := by decide

end ScVerif.C07
